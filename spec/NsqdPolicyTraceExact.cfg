\* implementation-level trace validation: every observed step must be the step of the table Out(c, a, n)
SPECIFICATION TraceSpec
CONSTANTS
  Exact = TRUE
  Policies = {}
  Cmds = {}
  AnswersA = {}
  AnswersR = {}
  Waits = {}
  MaxDepth = 0
  MaxNow = 0
  HttpReqs = {}
CONSTRAINT HW
INVARIANTS PropertyLevel ExactLevel
POSTCONDITION TraceAccepted
CHECK_DEADLOCK FALSE
