---------------------------- MODULE NsqdTcpRows ----------------------------
(* Prints the transition table of NsqdTcp -- one line per (connection state, command class): *)
(* outcome, next state, effect -- for the replayer (binding A) and the stream classifier's   *)
(* expectations (binding B).  The bookkeeping variables are reset on every step and hidden   *)
(* by the VIEW, so every reachable connection state is expanded exactly once.                *)
EXTENDS NsqdTcp

RECURSIVE Join(_)
Join(S) == IF S = {} THEN "-"
           ELSE LET x == CHOOSE y \in S : TRUE IN
                IF S \ {x} = {} THEN x ELSE x \o "+" \o Join(S \ {x})
B(b) == IF b THEN "T" ELSE "F"
N(i) == ToString(i)

RowsNext == \E c \in MagicCmds \cup Cmds :
  /\ StepFSM(c)
  /\ enq' = Enqueued(c, last') /\ topics' = Created(c, last') /\ hist' = <<>> /\ UNCHANGED <<pre, left, stop>>
RowsInit == InitFSM /\ enq = <<>> /\ topics = {} /\ hist = <<>> /\ stop = FALSE /\ pre = <<>> /\ left = 0
RowsSpec == RowsInit /\ [][RowsNext]_vars

\* the prepared prefixes of the configuration, for the replayer's walk
CmdStr(c) == c.op \o " " \o c.a \o " " \o c.b \o " " \o c.c
RECURSIVE SeqStr(_)
SeqStr(s) == IF s = <<>> THEN "" ELSE " | " \o CmdStr(Head(s)) \o SeqStr(Tail(s))
ASSUME \A s \in Setups : PrintT("SETUP " \o N(s.d) \o SeqStr(s.pre))
RowView == fsm

RowOut ==
  PrintT("ROW " \o st \o " " \o B(hbOff) \o " " \o B(sampled) \o " " \o zip \o " " \o N(rdy) \o " " \o N(held) \o " " \o N(avail)
         \o " | " \o cmd'.op \o " " \o cmd'.a \o " " \o cmd'.b \o " " \o cmd'.c
         \o " | " \o last'.frame \o " " \o last'.body \o " " \o Join(last'.codes) \o " " \o B(last'.fatal) \o " " \o last'.echo
         \o " | " \o st' \o " " \o B(hbOff') \o " " \o B(sampled') \o " " \o zip' \o " " \o N(rdy') \o " " \o N(held') \o " " \o N(avail')
         \o " | " \o (IF enq' = <<>> THEN "- - -" ELSE enq'[1].t \o " " \o enq'[1].n \o " " \o B(enq'[1].d))
         \o " | " \o Join(topics') \o " | " \o B(cmd' \in Core))
=============================================================================
