SPECIFICATION Spec
CONSTANTS
  Producers = {"p1", "p2"}
  Topics = {"t1"}
  Channels = {"c1"}
  EphTopics = {}
  EphChannels = {}
  SharedNode = {}
  InactiveK = 2
  TombK = 1
  MaxNow = 4
VIEW view
INVARIANTS TypeOK ProdsOnlyUnderKeys TombOnlyForProds NoGhosts ProducersAreLive InactiveHidden TombstoneLapses
PROPERTIES GoneAtOnce TombstoneHidesOnlyNamed TombstoneLapsesOnUnregister FreshRegisterVisible OthersUntouched
CHECK_DEADLOCK FALSE
