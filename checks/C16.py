"""C16 -- nsqd keeps nsqlookupd in sync and tolerates its faults (spec: LookupSync)."""
import json
import os
import subprocess

from vlib import Inconclusive, log

META = {
    "technique": "TLC model checking of LookupSync (unordered notify goroutines, lazy reconnect + re-register, heartbeat, "
                 "lookupd faults; Converges as a counted invariant); a real nsqd (heartbeat override) against real "
                 "nsqlookupd instances behind fault proxies (close, stall, garbage, negative/oversized length prefix, "
                 "cut, restart-empty) under topic/channel churn with a live publish/consume stream, convergence read from "
                 "lookupd /debug; the notification reordering TLC finds forced through the notify yield point; "
                 "pre-created channels receive the first message (LookupPre, TLAPS proof for any number of nsqlookupds; also with "
                 "the connection just dropped, and with one nsqlookupd's HTTP side silent / stalling / dripping / garbage); "
                 "the nsqlookupd list reconfigured at run time (LookupPeers)",
    "design_ref": "5/C16",
}


def run(ctx):
    quick = ctx.quick
    ctx.model_check("LookupSync", "LookupSync_quick.cfg" if quick else "LookupSync_thorough.cfg", timeout=1800)
    r = ctx.tlc("LookupSync", "LookupSync_asfound.cfg", timeout=600, label="as-found (expected: Converges violated)")
    if r.violated != "Converges":
        raise Inconclusive("LookupSync_asfound.cfg no longer exhibits the reordering (got %s)" % r.violated)
    # a lookupd that files producers under their advertised identity instead of under the connection loses a live
    # nsqd when it reaps that nsqd's previous, half-open connection: TLC must refute it
    r = ctx.tlc("LookupSync", "LookupSync_keybyidentity.cfg", timeout=600, label="key-by-identity (expected: Converges violated)")
    if r.violated != "Converges":
        raise Inconclusive("LookupSync_keybyidentity.cfg is not refuted (got %s)" % r.violated)
    # ... and so must an nsqd that skips its heartbeat PING for a peer that has just answered a registration
    r = ctx.tlc("LookupSync", "LookupSync_skipping.cfg", timeout=600, label="skip-ping-when-busy (expected: Refreshed violated)")
    if r.violated != "Refreshed":
        raise Inconclusive("LookupSync_skipping.cfg is not refuted (got %s)" % r.violated)
    # pre-creation of a fresh topic's channels from the nsqlookupds' HTTP API (the peer info survives a dropped connection);
    # dropping it with the connection must be refuted
    ctx.tlaps("LookupPreProof", deps=["LookupPre"])     # any number of nsqlookupds and channels
    ctx.model_check("LookupPre", "LookupPre_mc.cfg", timeout=300)
    r = ctx.tlc("LookupPre", "LookupPre_forget.cfg", timeout=300, label="forget-on-close (expected: PreCreated violated)")
    if r.violated != "PreCreated":
        raise Inconclusive("LookupPre_forget.cfg is not refuted (got %s)" % r.violated)
    # the peer list under run-time reconfiguration (two parallel lists pruned together; pruning only one is refuted)
    ctx.model_check("LookupPeers", "LookupPeers_mc.cfg", timeout=300)
    r = ctx.tlc("LookupPeers", "LookupPeers_peersonly.cfg", timeout=300, label="prune-peers-only (expected: PeersAreTheConfigured violated)")
    if r.violated != "PeersAreTheConfigured":
        raise Inconclusive("LookupPeers_peersonly.cfg is not refuted (got %s)" % r.violated)
    # the start gate behind the pre-creation clause (NsqdTopic, situation "unstarted"): a topic that is in the map but not
    # started yet -- channels are created, publishers find it; every interleaving forced on the real daemon: everything it
    # accepted reaches every channel there is when Start() is called
    import tpairs
    tpairs.run_tpairs(ctx, "C16", only=lambda t: "START" in t)
    cases = []
    for i in range(2):
        cases.append({"kind": "reorder", "seed": i, "nlookupd": 1 + i % 2, "fails": []})
    cases.append({"kind": "precreate", "seed": 1, "nlookupd": 1, "fails": []})
    cases.append({"kind": "precreate2", "seed": 1, "nlookupd": 2, "fails": []})
    for i in range(4 if ctx.quick else 16):
        cases.append({"kind": "precreate3", "seed": ctx.seed * 10 + i, "nlookupd": 1, "fails": []})
    for i in range(3 if ctx.quick else 12):
        cases.append({"kind": "reconfig", "seed": ctx.seed * 10 + i, "nlookupd": 2, "fails": []})
    # the HTTP side of one nsqlookupd faulty while a topic is first created (seed mod 7 picks the fault: stalls in the body,
    # answers nothing, stalls in the headers, drips for ever, garbage, reset, 500)
    for i in range(7):
        cases.append({"kind": "httpfault", "seed": i, "nlookupd": 2, "fails": []})
    cases.append({"kind": "badident", "seed": 1, "nlookupd": 1, "fails": []})
    for i in range(2 if ctx.quick else 6):
        cases.append({"kind": "page", "seed": i, "nlookupd": 1 + i % 2, "fails": []})
    for i in range(4 if ctx.quick else 12):
        cases.append({"kind": "onefaulty", "seed": i, "nlookupd": 2, "fails": []})
    cases.append({"kind": "badident", "seed": 2, "nlookupd": 2, "fails": []})
    cases.append({"kind": "churnping", "seed": 1, "nlookupd": 1, "fails": []})
    cases.append({"kind": "halfopen", "seed": 1, "nlookupd": 1, "fails": []})
    cases.append({"kind": "halfopen", "seed": 2, "nlookupd": 2, "fails": []})
    for i in range(10 if quick else 120):
        cases.append({"kind": "random", "seed": ctx.seed * 1000 + i, "nlookupd": 1 + i % 2, "fails": []})
    h = ctx.harness("core")
    procs = 4 if quick else 8
    chunks = [cases[i::procs] for i in range(procs)]
    jobs = []
    for i, ch in enumerate(chunks):
        if not ch:
            continue
        d = os.path.join(ctx.scratch, "ls-%d" % i)
        os.makedirs(d, exist_ok=True)
        cf = os.path.join(d, "cases.json")
        json.dump(ch, open(cf, "w"))
        jobs.append({"dir": d, "cases": ch, "cf": cf, "from": 0, "obs": os.path.join(d, "obs.ndjson"),
                     "prog": os.path.join(d, "progress.txt"), "crashes": {}})
    active = list(jobs)
    while active:
        running = [(j, subprocess.Popen([h, "lookupsync", "--cases", j["cf"], "--out", j["obs"], "--progress", j["prog"],
                                         "--from", str(j["from"]), "--dir", j["dir"]], cwd=ctx.scratch, env=ctx.goenv(),
                                        stdout=subprocess.PIPE, stderr=subprocess.PIPE, text=True)) for j in active]
        nxt = []
        for j, p in running:
            try:
                out, err = p.communicate(timeout=2400)
            except subprocess.TimeoutExpired:
                p.kill()
                raise Inconclusive("lookupsync harness timed out")
            if p.returncode != 0:
                try:
                    idx = int(open(j["prog"]).read().strip())
                except Exception:
                    raise Inconclusive("lookupsync harness died without progress file:\n" + err[-2000:])
                if "panic" not in err and "fatal error" not in err:
                    raise Inconclusive("lookupsync harness failed (not a panic):\n" + err[-2000:])
                if idx < len(j["cases"]):
                    j["crashes"][idx] = err[-2500:]
                    j["from"] = idx + 1
                    if j["from"] < len(j["cases"]):
                        nxt.append(j)
        active = nxt
    n = 0
    conclusive = 0
    kinds = set()
    for j in jobs:
        if os.path.exists(j["obs"]):
            for line in open(j["obs"]):
                o = json.loads(line)
                n += 1
                if o.get("inconclusive"):
                    ctx.notes.setdefault("inconclusive_cases", []).append(o["kind"] + ": " + o["inconclusive"][:200])
                    continue
                conclusive += 1
                for f in o.get("faults") or []:
                    kinds.add(f.split(":")[1])
                kinds.add(o["kind"])
                ctx.cov["evaluations"] += o.get("ops", 0) + o.get("published_during_faults", 0)
                if n <= 3:
                    ctx.sample({"lookupsync_case": {k: o.get(k) for k in ("kind", "seed", "nlookupd", "faults", "final_topology", "converged_after_ms")}})
                for f in o["fails"]:
                    if f.startswith("[C10]"):
                        print("OTHER-PROPERTY: " + f, flush=True)
                        continue
                    key = "notify-reorder" if f.startswith("[reorder]") else "ls:" + f[:40]
                    if f.startswith("[precreate]"):
                        key = "precreate-partial"
                    ctx.violation("%s (seed %d, %d lookupd): %s" % (o["kind"], o["seed"], o["nlookupd"], f),
                                  ctx.save_replay("lookupsync-" + o["kind"], o), key=key)
        for idx, tb in j["crashes"].items():
            n += 1
            conclusive += 1
            c = j["cases"][idx]
            frames = [l.strip() for l in tb.splitlines() if "nsqio/nsq/nsqd." in l]
            top = frames[0].split("(")[0] if frames else "?"
            ctx.violation("nsqd crashed while talking to a faulty nsqlookupd (case %s seed %d): %s" % (
                c["kind"], c["seed"], " | ".join(frames[:4])), ctx.save_replay("lookupsync-crash", {"case": c, "traceback": tb}),
                key="crash:" + top)
    if conclusive == 0:
        raise Inconclusive("no lookupsync case was conclusive: %s" % ctx.notes.get("inconclusive_cases", [])[:3])
    ctx.cov["traces_validated_against_impl"] += conclusive
    ctx.cov["distinct_nontrivial"] = len(kinds)
    ctx.cov["rule"] = ("evaluations = admin operations + messages published during faults on the real daemons; traces = "
                       "scenarios judged (convergence reached and compared); distinct = scenario kinds and fault kinds exercised")
    ctx.notes["cases"] = n
    ctx.notes["fault_kinds"] = sorted(kinds)
    ctx.assumptions += [
        "heartbeat overridden to 150 ms (verif hook); 'within a few heartbeat intervals' is judged as: still not equal "
        "after 50-60 intervals with nothing pending",
        "convergence is read from nsqlookupd /debug (registrations of this producer) against nsqd /stats",
    ]
    log("lookupsync: %d cases, %d conclusive" % (n, conclusive))
