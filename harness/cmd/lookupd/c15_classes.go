package main

// C15 binding A: every row of the TLC-printed table (connection state x input class -> outcome; route x method x
// arguments -> status) is replayed, in several concrete spellings, against the real nsqlookupd child process.

import (
	"encoding/json"
	"flag"
	"fmt"
	"math/rand"
	"os"
	"sort"
	"strings"
	"sync"
	"time"
)

func init() {
	subcmds["c15-classes"] = c15Classes
}

var c15HugeMu sync.Mutex // one huge allocation at a time, whatever the number of workers

var c15StatementErrs = map[string]bool{"E_INVALID": true, "E_BAD_TOPIC": true, "E_BAD_CHANNEL": true, "E_BAD_BODY": true}

type c15Obs struct {
	Frames  []string // response kinds
	Texts   []string
	End     string // eof | reset | timeout | open (barrier answered) | badframe
	Early   string // something arrived while the server had to wait (split)
	Parked  bool   // huge: allocation seen, no answer, answered only after EOF
	MemNote string
}

func (o c15Obs) closed() bool { return o.End == "eof" || o.End == "reset" }
func (o c15Obs) endKind() string {
	if o.closed() {
		return "closed"
	}
	return o.End
}
func (o c15Obs) String() string {
	s := fmt.Sprintf("frames=%v end=%s", o.Texts, o.End)
	if o.Early != "" {
		s += " early=" + o.Early
	}
	if o.Parked {
		s += " PARKED " + o.MemNote
	}
	return s
}

func c15Classes(args []string) int {
	fs := flag.NewFlagSet("c15-classes", flag.ExitOnError)
	bin := fs.String("bin", "", "nsqlookupd binary")
	rowsPath := fs.String("rows", "rows.json", "table rows printed by TLC")
	seed := fs.Int64("seed", 1, "seed")
	spell := fs.Int("spellings", 3, "concrete spellings per row")
	workers := fs.Int("workers", 4, "daemons driven in parallel")
	rep := fs.String("report", "report.json", "report output")
	only := fs.String("only", "", "substring filter on the row key (debugging / replay)")
	doHTTP := fs.Bool("http", true, "replay the HTTP rows too")
	doTCP := fs.Bool("tcp", true, "replay the TCP rows")
	fs.Parse(args)

	var rows c15Rows
	b, err := os.ReadFile(*rowsPath)
	if err == nil {
		err = json.Unmarshal(b, &rows)
	}
	if err != nil {
		fmt.Fprintln(os.Stderr, "rows:", err)
		return 2
	}
	report := c15NewReport()
	type job struct {
		idx  int
		tcp  *c15TcpRow
		http *c15HttpRow
	}
	var jobs []job
	if *doTCP {
		for i := range rows.Tcp {
			if *only == "" || strings.Contains(rows.Tcp[i].key(), *only) {
				jobs = append(jobs, job{idx: i, tcp: &rows.Tcp[i]})
			}
		}
	}
	if *doHTTP {
		for i := range rows.Http {
			if *only == "" || strings.Contains(rows.Http[i].class(), *only) {
				jobs = append(jobs, job{idx: 100000 + i, http: &rows.Http[i]})
			}
		}
	}
	ch := make(chan job)
	var wg sync.WaitGroup
	var failMu sync.Mutex
	fail := ""
	for wi := 0; wi < *workers; wi++ {
		wg.Add(1)
		go func(wi int) {
			defer wg.Done()
			w := &c15World{bin: *bin, id: wi}
			defer w.shutdown()
			for j := range ch {
				failMu.Lock()
				stop := fail != ""
				failMu.Unlock()
				if stop {
					continue
				}
				rng := rand.New(rand.NewSource(*seed*1000003 + int64(j.idx)))
				var err error
				if j.tcp != nil {
					err = c15RunTcpRow(w, report, *j.tcp, rng, *spell)
				} else {
					err = c15RunHttpRow(w, report, *j.http, rng, *spell)
				}
				if err != nil {
					failMu.Lock()
					fail = err.Error()
					failMu.Unlock()
				}
			}
			report.mu.Lock()
			report.Restarts += w.restarts
			report.mu.Unlock()
		}(wi)
	}
	for _, j := range jobs {
		ch <- j
	}
	close(ch)
	wg.Wait()
	report.Inconclusive = fail
	if err := report.write(*rep); err != nil {
		fmt.Fprintln(os.Stderr, err)
		return 2
	}
	if fail != "" {
		fmt.Fprintln(os.Stderr, "inconclusive:", fail)
		return 2
	}
	return 0
}

func (w *c15World) ensure() error {
	if w.d != nil && w.d.alive() && w.by != nil {
		return nil
	}
	if w.d != nil {
		w.restarts++
	}
	return w.start()
}

// ownKeys: the registry keys under which a producer with this broadcast address is listed (GET /debug)
func (w *c15World) ownKeys(addr string) (map[string]bool, error) {
	st, body, err := w.d.get("/debug")
	if err != nil || st != 200 {
		return nil, fmt.Errorf("GET /debug: %d %v", st, err)
	}
	var m map[string][]struct {
		BroadcastAddress string `json:"broadcast_address"`
	}
	if err := json.Unmarshal(body, &m); err != nil {
		return nil, err
	}
	res := map[string]bool{}
	for k, ps := range m {
		for _, p := range ps {
			if p.BroadcastAddress == addr {
				res[k] = true
			}
		}
	}
	return res, nil
}

func c15KeySet(m map[string]bool) string {
	var l []string
	for k := range m {
		l = append(l, k)
	}
	sort.Strings(l)
	return strings.Join(l, ",")
}

// postStep: the oracles of the statement after every hostile step: process alive, still answering, bystander intact.
// Returns true when the daemon had to be given up (crashed / not serving).
func (w *c15World) postStep(rep *c15Report, rowKey, class, input string, obs string, want c15ByView, crashKey, byKey string) bool {
	mk := func(level, kind, key, what string) c15Finding {
		return c15Finding{Level: level, Kind: kind, Key: key, What: what, Row: rowKey, Input: input, Observed: obs,
			Stderr: w.d.tail(25)}
	}
	live := w.liveness()
	if live != "" || !w.d.alive() {
		if w.d.waitExit(3 * time.Second) {
			key := crashKey
			if key == "" {
				key = "crash:" + class
			}
			rep.add(mk("violation", "crash", key, fmt.Sprintf("nsqlookupd process died (%v) after this input; %s", w.d.exitErr, w.d.panicText())))
		} else {
			rep.add(mk("violation", "not-serving", "not-serving:"+class, "nsqlookupd alive but not answering others: "+live))
		}
		w.d.stop()
		return true
	}
	if msg := w.bystanderPing(); msg != "" {
		rep.add(mk("violation", "bystander-connection", "bystander-connection:"+class, "the bystander's own connection is no longer served: "+msg))
		w.d.stop()
		return true
	}
	v, detail, err := w.bystanderView()
	if err != nil {
		// /ping is answered (liveness above) but a registry query is not: twice in a row, a while apart
		time.Sleep(500 * time.Millisecond)
		if _, _, err2 := w.bystanderView(); err2 != nil && w.d.alive() {
			rep.add(mk("violation", "not-serving", "not-serving:"+class, "nsqlookupd answers /ping but no longer answers registry queries (/lookup, /nodes) of other clients: "+err2.Error()))
			w.d.stop()
			return true
		}
		rep.add(mk("inconclusive", "observe", "observe:"+class, "could not observe the bystander: "+err.Error()))
		return false
	}
	if v != want {
		key := byKey
		if key == "" {
			key = "bystander-changed:" + class
		}
		rep.add(mk("violation", "bystander-changed", key,
			fmt.Sprintf("registrations of ANOTHER connection changed: bystander view %+v, expected %+v; %s", v, want, detail)))
		// put it back so that later rows are judged on their own
		if w.restoreBystander() != nil {
			w.d.stop()
			return true
		}
	}
	return false
}

func c15RunTcpRow(w *c15World, rep *c15Report, row c15TcpRow, rng *rand.Rand, spell int) error {
	n := spell
	if row.Sz == "huge" && n > 2 {
		n = 2
	}
	w.seq++
	units := c15TcpUnits(row, rng, n, fmt.Sprintf("c15-h-%d-%d", w.id, w.seq))
	if len(units) == 0 {
		rep.mu.Lock()
		rep.RowsSkipped++
		rep.mu.Unlock()
		return nil
	}
	rep.mu.Lock()
	rep.RowsRun++
	rep.mu.Unlock()
	for ui, u := range units {
		if err := w.ensure(); err != nil {
			return fmt.Errorf("daemon could not be started: %v", err)
		}
		w.seq++
		ownAddr := fmt.Sprintf("c15-o-%d-%d", w.id, w.seq)
		if row.St != "identified" && u.Addr != "" {
			ownAddr = u.Addr
		}
		input := c15Quote(u.bytes(), 300)
		twin := row.St == "identified" && ui%2 == 1
		if twin {
			input = "[identified with the bystander's broadcast_address and ports] " + input
		}
		c, err := c15Dial(w.d.tcp)
		if err != nil {
			return fmt.Errorf("dial: %v", err)
		}
		// ---- bring the connection into the row's state
		own := map[string]bool{}
		ownT, ownC := fmt.Sprintf("c15_own_%d", w.id), "c15_own_chan"
		switch row.St {
		case "v1":
			c.send([]byte("  V1"))
		case "identified":
			idBody := c15PeerBody(ownAddr, 4150, 4151, "1.3.0-c15h")
			if twin {
				// the hostile connection claims to be the bystander: same broadcast address and ports (what it says about
				// itself is its own business; whose registrations it can touch is not)
				idBody = c15PeerBody(c15ByAddr, c15ByTCPPort, c15ByHTTPPort, "1.3.0-c15twin")
			}
			c.send(append([]byte("  V1"), c15IdentifyBytes(idBody)...))
			c.send([]byte("REGISTER " + ownT + " " + ownC + "\n"))
			b1, s1 := c.readFrame(c15Deadline)
			b2, s2 := c.readFrame(c15Deadline)
			if s1 != "frame" || s2 != "frame" || c15Kind(b1) != "IDJSON" || c15Kind(b2) != "OK" {
				c.close()
				if !w.d.alive() {
					continue
				}
				return fmt.Errorf("could not set up an identified connection: %s %s / %s %s", s1, c15Quote(b1, 60), s2, c15Quote(b2, 60))
			}
			own["client::"] = true
			own["topic:"+ownT+":"] = true
			own["channel:"+ownT+":"+ownC] = true
		}
		// ---- send the unit, observe
		obs := c15SendObserve(w, c, row, u)
		rep.triple(row.St, row.class(), strings.Join(obs.Frames, "+")+" end="+obs.endKind())
		// ---- compare with the row
		c15JudgeTcp(rep, w, row, u, input, obs)
		// ---- the hostile connection's own registrations (GET /debug)
		if w.d.alive() && (row.St == "identified" || row.Eff == "identify") && obs.End != "timeout" && !twin {
			want := map[string]bool{}
			if !obs.closed() {
				for k := range own {
					want[k] = true
				}
				if row.Wf { // a refused command changes nothing; an accepted one has the table's effect
					switch row.Eff {
					case "identify":
						want["client::"] = true
					case "reg":
						want["topic:"+u.Topic+":"] = true
						if u.Chan != "" {
							want["channel:"+u.Topic+":"+u.Chan] = true
						}
					case "unreg":
						if u.Chan != "" {
							delete(want, "channel:"+u.Topic+":"+u.Chan)
						} else {
							for k := range want {
								if k == "topic:"+u.Topic+":" || strings.HasPrefix(k, "channel:"+u.Topic+":") {
									delete(want, k)
								}
							}
						}
					}
				}
			}
			got, err := w.ownKeys(ownAddr)
			if err == nil && c15KeySet(got) != c15KeySet(want) {
				f := c15Finding{Level: "drift", Kind: "own-registrations", Key: "own-registrations:" + row.key(), Row: row.key(), Input: input,
					Observed: obs.String(), What: fmt.Sprintf("registrations of the hostile connection itself: got {%s}, table says {%s}", c15KeySet(got), c15KeySet(want))}
				if !row.Wf && !obs.closed() && len(got) > len(want) {
					// the statement: malformed input is refused -- it must not register anything
					f.Level, f.Kind, f.Key = "violation", "malformed-had-effect", "malformed-had-effect:"+row.class()
				}
				rep.add(f)
			}
		}
		if twin && !obs.closed() {
			// end it the orderly way and wait for the daemon's side to finish (it closes after its cleanup), so that
			// the bystander is looked at after whatever the cleanup did
			c.closeWrite()
			for k := 0; k < 20; k++ {
				if _, st := c.readFrame(100 * time.Millisecond); st != "frame" && st != "timeout" {
					break
				}
			}
		}
		c.close()
		if ui == 0 {
			rep.sample(map[string]interface{}{"state": row.St, "class": row.class(), "input": input, "expected": row.outcome(), "observed": obs.String()})
		}
		// ---- the statement's oracles
		crashKey := ""
		if row.Cmd == "IDENTIFY" && row.Sz == "negative" {
			crashKey = "identify-negative-body-size"
		}
		gaveUp := w.postStep(rep, row.key(), row.class(), input, obs.String(), c15ByIntact, crashKey, "")
		if obs.Parked && !gaveUp {
			w.d.stop() // memory hygiene: never let a second huge allocation reuse (and touch) the first one's pages
		}
	}
	return nil
}

// c15SendObserve: write the unit, read what comes back.
func c15SendObserve(w *c15World, c *c15Conn, row c15TcpRow, u c15Unit) c15Obs {
	var obs c15Obs
	huge := row.Cmd == "IDENTIFY" && row.Sz == "huge" && row.St == "v1"
	var vsz0, rss0 int64
	if huge {
		c15HugeMu.Lock()
		defer c15HugeMu.Unlock()
		vsz0, rss0 = w.d.mem()
	}
	for i, p := range u.Parts {
		if i > 0 {
			// in state v1 the server has to wait for the rest of the body: nothing may arrive now (a lower bound only:
			// an answer that is merely late is read below).  In the other states the answer is due already.
			b, st := c.readFrame(150 * time.Millisecond)
			if st == "frame" {
				obs.Frames = append(obs.Frames, c15Kind(b))
				obs.Texts = append(obs.Texts, c15Quote(b, 80))
			}
			if st != "timeout" && row.St == "v1" {
				obs.Early = st + " " + c15Quote(b, 60)
			}
			if st == "eof" || st == "reset" {
				obs.End = st
				return obs
			}
		}
		c.send(p) // a write error (peer already closed) shows up as reset/eof on the read side
	}
	if u.EOF {
		c.closeWrite()
	}
	expectFrames := 0
	if row.Resp != "none" {
		expectFrames = 1
	}
	barrier := !row.Closes && !u.EOF
	if barrier {
		c.send([]byte("PING\n"))
		expectFrames++
	}
	if huge {
		// wait for an answer; meanwhile watch the child's address space
		start := time.Now()
		for time.Since(start) < c15Deadline {
			b, st := c.readFrame(100 * time.Millisecond)
			if st == "frame" {
				obs.Frames = append(obs.Frames, c15Kind(b))
				obs.Texts = append(obs.Texts, c15Quote(b, 80))
				continue
			}
			if st != "timeout" {
				obs.End = st
				break
			}
			vsz, rss := w.d.mem()
			if len(obs.Frames) == 0 && (vsz-vsz0)*1024 >= int64(u.Size)/10*9 {
				// the body buffer exists: the size was accepted. One more second of silence, then EOF.
				if b, st := c.readFrame(time.Second); st != "timeout" {
					if st == "frame" {
						obs.Frames = append(obs.Frames, c15Kind(b))
						obs.Texts = append(obs.Texts, c15Quote(b, 80))
						continue
					}
					obs.End = st
					break
				}
				obs.Parked = true
				obs.MemNote = fmt.Sprintf("size field %d: VmSize %d -> %d kB, VmRSS %d -> %d kB while the connection was open and unanswered",
					u.Size, vsz0, vsz, rss0, rss)
				c.closeWrite()
				for {
					b, st := c.readFrame(c15Deadline)
					if st != "frame" {
						obs.End = st
						break
					}
					obs.Frames = append(obs.Frames, c15Kind(b))
					obs.Texts = append(obs.Texts, c15Quote(b, 80))
				}
				break
			}
		}
		if obs.End == "" {
			obs.End = "timeout"
		}
		vsz1, rss1 := w.d.mem()
		if obs.MemNote == "" {
			obs.MemNote = fmt.Sprintf("size field %d: VmSize %d -> %d kB, VmRSS %d -> %d kB", u.Size, vsz0, vsz1, rss0, rss1)
		}
		return obs
	}
	// a row that says "answer, then close": once the answer is in, a PING decides between "closed" (EOF) and
	// "still open" (OK) without waiting for a deadline
	lateBarrier := row.Closes && !u.EOF && expectFrames > 0
	for {
		if barrier && len(obs.Frames) == expectFrames {
			obs.End = "open"
			break
		}
		if lateBarrier && len(obs.Frames) == expectFrames {
			lateBarrier = false
			c.send([]byte("PING\n"))
			b, st := c.readFrame(c15Deadline)
			if st == "frame" && c15Kind(b) == "OK" {
				obs.End = "open"
				break
			}
			if st != "frame" {
				obs.End = st
				break
			}
			obs.Frames = append(obs.Frames, c15Kind(b))
			obs.Texts = append(obs.Texts, c15Quote(b, 80))
			continue
		}
		b, st := c.readFrame(c15Deadline)
		if st != "frame" {
			obs.End = st
			break
		}
		obs.Frames = append(obs.Frames, c15Kind(b))
		obs.Texts = append(obs.Texts, c15Quote(b, 80))
		if len(obs.Frames) > 8 {
			obs.End = "badframe"
			break
		}
	}
	if barrier && obs.End == "open" {
		// the last frame is the barrier's OK
		last := obs.Frames[len(obs.Frames)-1]
		obs.Frames = obs.Frames[:len(obs.Frames)-1]
		obs.Texts = obs.Texts[:len(obs.Texts)-1]
		if last != "OK" {
			obs.Frames = append(obs.Frames, "BARRIER:"+last)
			obs.Texts = append(obs.Texts, "BARRIER:"+last)
		}
	}
	return obs
}

// c15JudgeTcp: compare the observation with the row.  Only what the STATEMENT forbids is a violation; a difference
// from the table that the statement allows is drift.
func c15JudgeTcp(rep *c15Report, w *c15World, row c15TcpRow, u c15Unit, input string, obs c15Obs) {
	mk := func(level, kind, key, what string) {
		rep.add(c15Finding{Level: level, Kind: kind, Key: key, What: what, Row: row.key(), Input: input, Observed: obs.String(),
			Stderr: w.d.tail(12)})
	}
	if !w.d.alive() {
		return // judged by postStep as a crash
	}
	if row.Sz == "huge" && row.St == "v1" {
		rep.mu.Lock()
		rep.Mem = append(rep.Mem, map[string]interface{}{"size_field": u.Size, "note": obs.MemNote, "parked": obs.Parked})
		rep.mu.Unlock()
		if obs.Parked {
			mk("violation", "not-refused", "identify-huge-body-size",
				"IDENTIFY with a nonsensical body size is not refused: the daemon allocated the buffer and kept the connection waiting; "+obs.MemNote)
			return
		}
		if obs.End == "timeout" && len(obs.Frames) == 0 {
			// whatever the daemon does with its memory: the size alone decides, nothing more is coming, and there is no refusal
			mk("violation", "not-refused", "identify-huge-body-size",
				fmt.Sprintf("IDENTIFY with a nonsensical body size is not refused: no answer and no close within %s of the size field (the peer sends nothing further); %s", c15Deadline, obs.MemNote))
			return
		}
	}
	if obs.End == "timeout" {
		mk("inconclusive", "deadline", "deadline:"+row.key(), fmt.Sprintf("no answer and no close within %s", c15Deadline))
		return
	}
	want := []string{}
	if row.Resp != "none" {
		want = append(want, row.Resp)
	}
	same := strings.Join(want, "+") == strings.Join(obs.Frames, "+") && obs.closed() == row.Closes && obs.Early == ""
	if same {
		return
	}
	if !row.Wf {
		// refusal demanded by the statement
		for _, f := range obs.Frames {
			if f == "OK" || f == "IDJSON" {
				mk("violation", "accepted-malformed", "accepted-malformed:"+row.class(),
					"malformed input was answered "+f+" instead of being refused")
				return
			}
		}
		if c15StatementErrs[row.Resp] {
			if len(obs.Frames) == 0 && obs.End == "eof" {
				if w.d.waitExit(time.Second) {
					return // the process died: reported as a crash by postStep
				}
				mk("violation", "no-error-answer", "no-error-answer:"+row.class(), "malformed command got no E_* answer before the close")
				return
			}
			if len(obs.Frames) > 0 && !c15StatementErrs[obs.Frames[0]] {
				mk("violation", "wrong-code", "wrong-code:"+row.class(),
					"malformed command answered "+obs.Frames[0]+", not one of E_INVALID / E_BAD_TOPIC / E_BAD_CHANNEL / E_BAD_BODY")
				return
			}
		}
	}
	mk("drift", "table-mismatch", "table:"+row.key(), "real nsqlookupd differs from the table row: expected "+row.outcome())
}
