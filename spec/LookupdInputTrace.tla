-------------------------- MODULE LookupdInputTrace --------------------------
(* Binding B for C15 (property level): what the real nsqlookupd answered to   *)
(* seeded mutated byte streams, as the sequence of input classes a trusted    *)
(* reference classifier assigns to each stream, must be a behaviour of        *)
(* LookupdInput: every step is the table row of (connection state, class),    *)
(* the observed answer and close are the row's, and the state moves as HTcp   *)
(* says.  One "Reset" line = the next hostile connection.                     *)
EXTENDS LookupdInput, Json, Sequences

Trace == ndJsonDeserialize("trace.ndjson")
VARIABLE l
tvars == <<vars, l>>

TraceInit == Init /\ l = 1 /\ TLCSet(1, 1) /\ TLCSet(2, <<>>)
IsEvent(e) == l <= Len(Trace) /\ Trace[l].ev = e /\ l' = l + 1

TReset == /\ IsEvent("Reset")
          /\ hs \in {"noMagic", "closed"}         \* the previous connection is gone
          /\ hs' = "noMagic" /\ UNCHANGED <<keys, prods, tomb, daemon>>

TTcp == /\ IsEvent("Tcp")
        /\ LET e == Trace[l]
               k == K(e.cmd, e.t, e.c, e.x, e.sz, e.body) IN
           /\ hs = e.st
           /\ k \in TcpClasses /\ TcpApplicable(hs, k)
           /\ e.resp = TcpRow(hs, k).resp
           /\ e.closed = TcpRow(hs, k).closes
           /\ HTcp(k)

TraceNext == TReset \/ TTcp
TraceSpec == TraceInit /\ [][TraceNext]_tvars

HW == IF l > TLCGet(1) THEN TLCSet(1, l) /\ TLCSet(2, <<hs, RegsOf("H")>>) ELSE TRUE
TraceAccepted ==
  LET hw == TLCGet(1) IN
  IF hw = Len(Trace) + 1 THEN PrintT(<<"TRACE_OK", Len(Trace)>>)
  ELSE PrintT(<<"TRACE_REJECTED", hw, Trace[hw], TLCGet(2)>>) /\ FALSE
=============================================================================
