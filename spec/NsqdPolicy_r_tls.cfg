\* replay family tls (quick): the 10 policies without auth x every command kind x 3 commands per connection
SPECIFICATION Spec
CONSTANTS
  Policies <- NoAuthPolicies
  Cmds <- TlsCmds
  AnswersA <- SmallAnswers
  AnswersR <- SmallAnswers
  Waits = {0}
  MaxDepth = 3
  MaxNow = 0
  HttpReqs <- NoHttp
INVARIANTS TypeOK PropertyLevel PlainHttpServed RefetchIffExpired QueryCountLaw CodeStricter NeverOnExpiry EmitBehaviour
CHECK_DEADLOCK FALSE
