package main

import (
	"bytes"
	"encoding/json"
	"flag"
	"fmt"
	"hash/crc32"
	"math/rand"
	"os"
	"sync"
	"sync/atomic"
	"time"

	"github.com/nsqio/nsq/nsqd"
)

// pubsub: connections that PUBLISH AND CONSUME at the same time (the protocol allows PUB on a subscribed connection):
// the daemon's reader goroutine (IOLoop: command lines, length prefixes, bodies) and its writer goroutine
// (messagePump: message frames, heartbeats, responses) work on one connection concurrently, at full speed.
// Black-box ledger (C07): every frame the client reads is well formed, every message body is byte-for-byte one that
// was published on this topic, every PUB is answered OK, nothing is delivered twice or that was not published, and
// after the drain everything published has been received. No hook recording here (the point is speed).
type psReport struct {
	Conns      int      `json:"conns"`
	Published  int64    `json:"published"`
	OKs        int64    `json:"oks"`
	Received   int64    `json:"received"`
	Seconds    float64  `json:"seconds"`
	Fails      []string `json:"fails"`
	Incon      string   `json:"inconclusive,omitempty"`
	Negotiated string   `json:"negotiated"`
}

func pubsubMain(args []string) int {
	fs := flag.NewFlagSet("pubsub", flag.ExitOnError)
	dir := fs.String("dir", "", "data dir")
	seed := fs.Int64("seed", 1, "seed")
	conns := fs.Int("conns", 4, "connections")
	dur := fs.Duration("dur", 3*time.Second, "publishing time")
	feat := fs.String("feat", "", "snappy | deflate | tls | \"\"")
	rep := fs.String("report", "pubsub.json", "report")
	fs.Parse(args)
	R := &psReport{Conns: *conns, Negotiated: *feat}
	var fmu sync.Mutex
	failf := func(f string, a ...interface{}) {
		fmu.Lock()
		if len(R.Fails) < 20 {
			R.Fails = append(R.Fails, fmt.Sprintf(f, a...))
		}
		fmu.Unlock()
	}
	failed := func() bool { fmu.Lock(); defer fmu.Unlock(); return len(R.Fails) > 0 }
	finish := func() int {
		b, _ := json.MarshalIndent(R, "", " ")
		os.WriteFile(*rep, b, 0644)
		if R.Incon != "" {
			return 2
		}
		if len(R.Fails) > 0 {
			return 1
		}
		return 0
	}
	nd, err := startNode(*dir, func(o *nsqd.Options) {
		o.MemQueueSize = 200000
		o.MsgTimeout = 60 * time.Second
		o.MaxRdyCount = 5000
	})
	if err != nil {
		R.Incon = "start: " + err.Error()
		return finish()
	}
	defer nd.stop(30 * time.Second)
	if st, _, err := nd.post("/topic/create?topic=ps", nil); err != nil || st != 200 {
		R.Incon = "create topic"
		return finish()
	}
	var registry sync.Map // key -> crc32 of the whole body
	var seen sync.Map     // key -> *int32 deliveries
	var pubs, oks, recv int64
	var stopPub int32
	type pc struct {
		cn   *Conn
		done chan struct{}
	}
	var pcs []*pc
	extra := map[string]interface{}{"heartbeat_interval": 1000}
	switch *feat {
	case "snappy":
		extra["snappy"] = true
	case "deflate":
		extra["deflate"] = true
		extra["deflate_level"] = 3
	case "tls":
		extra["tls_v1"] = true
	}
	for i := 0; i < *conns; i++ {
		cn, err := dial(nd.TCP, fmt.Sprintf("ps%d", i))
		if err != nil {
			R.Incon = "dial: " + err.Error()
			return finish()
		}
		defer cn.close()
		if _, err := cn.identify(extra); err != nil {
			R.Incon = "identify: " + err.Error()
			return finish()
		}
		if err := cn.sub("ps", "c"); err != nil {
			R.Incon = "sub: " + err.Error()
			return finish()
		}
		cn.cmd("RDY", "", "500")
		pcs = append(pcs, &pc{cn: cn, done: make(chan struct{})})
	}
	t0 := time.Now()
	var wg sync.WaitGroup
	for i, p := range pcs {
		// reader side of the client: responses, errors, messages
		wg.Add(1)
		go func(i int, p *pc) {
			defer wg.Done()
			for {
				f, ok := p.cn.next(100 * time.Millisecond)
				if !ok {
					select {
					case <-p.done:
						return
					default:
					}
					if p.cn.isClosed() {
						failf("connection %d, which was publishing and consuming at the same time, was closed by the daemon or became unreadable: %v", i, p.cn.rerr)
						return
					}
					continue
				}
				switch f.Type {
				case 0:
					if string(f.Data) == "OK" {
						atomic.AddInt64(&oks, 1)
					} else if string(f.Data) != "_heartbeat_" {
						failf("connection %d: unexpected response frame %q", i, trunc(string(f.Data), 60))
					}
				case 1:
					failf("connection %d: the daemon answered a well-formed PUB/FIN with the error frame %q", i, trunc(string(f.Data), 80))
				case 2:
					atomic.AddInt64(&recv, 1)
					k := f.Body
					if j := bytes.IndexByte(k, '|'); j > 0 {
						k = k[:j]
					}
					want, known := registry.Load(string(k))
					if !known {
						failf("connection %d received a message whose body (%d bytes, %q...) is not a body that was published", i, len(f.Body), trunc(string(f.Body), 40))
					} else if want.(uint32) != crc32.ChecksumIEEE(f.Body) {
						failf("connection %d received message %s with a body that differs from the published one (%d bytes)", i, k, len(f.Body))
					} else {
						c, _ := seen.LoadOrStore(string(k), new(int32))
						if atomic.AddInt32(c.(*int32), 1) > 1 && f.Attempts == 1 {
							failf("message %s was delivered twice as a first attempt", k)
						}
					}
					p.cn.cmd("FIN", f.ID, "")
				default:
					failf("connection %d: frame of unknown type %d", i, f.Type)
				}
			}
		}(i, p)
		// writer side: pipelined PUBs
		wg.Add(1)
		go func(i int, p *pc) {
			defer wg.Done()
			rng := rand.New(rand.NewSource(*seed*1000 + int64(i)))
			pad := make([]byte, 4096)
			rng.Read(pad)
			for n := 0; atomic.LoadInt32(&stopPub) == 0 && !p.cn.isClosed(); n++ {
				key := fmt.Sprintf("c%d-%08d", i, n)
				ln := 4 + rng.Intn(300)
				if n%97 == 0 {
					ln = 1000 + rng.Intn(3000)
				}
				off := rng.Intn(len(pad) - ln + 1)
				body := append([]byte(key+"|"), pad[off:off+ln]...)
				registry.Store(key, crc32.ChecksumIEEE(body))
				if n%53 == 7 {
					// the 4-byte size field arrives in two pieces, with the daemon busy sending this very connection its
					// messages in between: what is read is still the size that was written
					lp := lenPrefixed(body)
					k := 1 + rng.Intn(3)
					if err := p.cn.sendSplit("PUB ps\n", lp[:k], lp[k:], time.Duration(100+rng.Intn(400))*time.Microsecond); err != nil {
						return
					}
				} else if err := p.cn.send("PUB ps\n", lenPrefixed(body)); err != nil {
					return
				}
				atomic.AddInt64(&pubs, 1)
				if n%64 == 0 {
					for atomic.LoadInt64(&pubs)-atomic.LoadInt64(&oks) > 4000 && atomic.LoadInt32(&stopPub) == 0 && !failed() {
						time.Sleep(time.Millisecond)
					}
				}
			}
		}(i, p)
	}
	time.Sleep(*dur)
	atomic.StoreInt32(&stopPub, 1)
	// everything published is answered and delivered
	deadline := time.Now().Add(40 * time.Second)
	for time.Now().Before(deadline) && !failed() {
		if atomic.LoadInt64(&oks) >= atomic.LoadInt64(&pubs) && atomic.LoadInt64(&recv) >= atomic.LoadInt64(&pubs) {
			break
		}
		time.Sleep(20 * time.Millisecond)
	}
	for _, p := range pcs {
		close(p.done)
	}
	wg.Wait()
	R.Published, R.OKs, R.Received = atomic.LoadInt64(&pubs), atomic.LoadInt64(&oks), atomic.LoadInt64(&recv)
	R.Seconds = time.Since(t0).Seconds()
	if !failed() {
		if R.OKs < R.Published {
			failf("%d of %d PUBs sent on connections that were also consuming were never answered", R.Published-R.OKs, R.Published)
		}
		if R.Received < R.Published {
			failf("%d of %d published messages were never delivered", R.Published-R.Received, R.Published)
		}
	}
	return finish()
}

func trunc(s string, n int) string {
	if len(s) > n {
		return s[:n]
	}
	return s
}
