package main

import (
	"bufio"
	"encoding/json"
	"os"
	"sync"

	"github.com/nsqio/nsq/internal/verif"
)

// recorder collects hook events in sequence order.
type recorder struct {
	mu  sync.Mutex
	evs []verif.Event
}

func (r *recorder) install() {
	verif.SetSink(func(e verif.Event) { r.evs = append(r.evs, e) }) // called under verif's mutex
}

func (r *recorder) uninstall() { verif.SetSink(nil) }

func (r *recorder) take() []verif.Event {
	// SetSink(nil) takes verif's mutex, so after uninstall no writer is active
	evs := r.evs
	r.evs = nil
	return evs
}

func kvGet(e verif.Event, k string) interface{} {
	for i := 0; i+1 < len(e.KV); i += 2 {
		if e.KV[i].(string) == k {
			return e.KV[i+1]
		}
	}
	return nil
}

func kvInt(e verif.Event, k string) int64 {
	switch v := kvGet(e, k).(type) {
	case int64:
		return v
	case int:
		return int64(v)
	case int32:
		return int64(v)
	case uint64:
		return int64(v)
	}
	return 0
}

func kvStr(e verif.Event, k string) string {
	s, _ := kvGet(e, k).(string)
	return s
}

type ndjsonWriter struct {
	f *os.File
	w *bufio.Writer
	n int
}

func newNDJSON(path string) (*ndjsonWriter, error) {
	f, err := os.Create(path)
	if err != nil {
		return nil, err
	}
	return &ndjsonWriter{f: f, w: bufio.NewWriterSize(f, 1<<20)}, nil
}

func (w *ndjsonWriter) put(m map[string]interface{}) {
	b, _ := json.Marshal(m)
	w.w.Write(b)
	w.w.WriteByte('\n')
	w.n++
}

func (w *ndjsonWriter) close() {
	w.w.Flush()
	w.f.Close()
}

func writeJSON(path string, v interface{}) error {
	b, err := json.MarshalIndent(v, "", " ")
	if err != nil {
		return err
	}
	return os.WriteFile(path, b, 0644)
}
