SPECIFICATION TraceSpec
CONSTANT Relax = {}
CONSTRAINT HW
POSTCONDITION TraceAccepted
CHECK_DEADLOCK FALSE
