package main

// C15, concurrency: "no byte sequence on the TCP port and no HTTP request can ... stop it answering others" --
// also when they arrive AT THE SAME TIME as other clients' traffic. Every read route of the HTTP API is polled by
// several clients in tight loops while producers register / unregister / reconnect and the bystander pings; the
// liveness and bystander oracles run throughout and at the end. The daemon is a child process: one that is stuck
// can still be diagnosed (and killed).

import (
	"flag"
	"fmt"
	"math/rand"
	"net"
	"net/url"
	"os"
	"strings"
	"sync"
	"sync/atomic"
	"syscall"
	"time"
	"unsafe"
)

func init() { subcmds["c15-storm"] = c15Storm }

func c15Storm(args []string) int {
	fs := flag.NewFlagSet("c15-storm", flag.ExitOnError)
	bin := fs.String("bin", "", "nsqlookupd binary")
	seed := fs.Int64("seed", 1, "seed")
	dur := fs.Duration("dur", 4*time.Second, "storm duration")
	rep := fs.String("report", "storm.json", "report")
	fs.Parse(args)
	report := c15NewReport()
	w := &c15World{bin: *bin, id: 900}
	defer w.shutdown()
	if err := w.ensure(); err != nil {
		report.Inconclusive = "daemon could not be started: " + err.Error()
		report.write(*rep)
		return 2
	}
	var stop int32
	var wg sync.WaitGroup
	var reqs, cmds int64
	routes := []string{"/nodes", "/topics", "/debug", "/lookup?topic=" + url.QueryEscape(c15ByTopic), "/channels?topic=" + url.QueryEscape(c15ByTopic),
		"/lookup?topic=storm_t0", "/ping", "/info"}
	for p := 0; p < 6; p++ {
		wg.Add(1)
		go func(p int) {
			defer wg.Done()
			for i := p; atomic.LoadInt32(&stop) == 0; i++ {
				w.d.get(routes[i%len(routes)])
				atomic.AddInt64(&reqs, 1)
			}
		}(p)
	}
	for p := 0; p < 6; p++ {
		wg.Add(1)
		go func(p int) {
			defer wg.Done()
			rng := rand.New(rand.NewSource(*seed*100 + int64(p)))
			for atomic.LoadInt32(&stop) == 0 {
				c, err := c15Dial(w.d.tcp)
				if err != nil {
					time.Sleep(5 * time.Millisecond)
					continue
				}
				c.send(append([]byte("  V1"), c15IdentifyBytes(c15PeerBody(fmt.Sprintf("storm-%d", p), 4150+p, 4151+p, "storm"))...))
				c.readFrame(c15Deadline)
				n := 5 + rng.Intn(40)
				for i := 0; i < n && atomic.LoadInt32(&stop) == 0; i++ {
					t := fmt.Sprintf("storm_t%d", rng.Intn(3))
					switch rng.Intn(4) {
					case 0:
						c.send([]byte("REGISTER " + t + " c" + fmt.Sprint(rng.Intn(2)) + "\n"))
					case 1:
						c.send([]byte("UNREGISTER " + t + " c" + fmt.Sprint(rng.Intn(2)) + "\n"))
					case 2:
						c.send([]byte("REGISTER " + t + "#ephemeral\n"))
					default:
						c.send([]byte("PING\n"))
					}
					if _, st := c.readFrame(c15Deadline); st != "frame" {
						break
					}
					atomic.AddInt64(&cmds, 1)
				}
				c.close()
			}
		}(p)
	}
	// the oracles, while it is going on
	end := time.Now().Add(*dur)
	gaveUp := false
	for time.Now().Before(end) && !gaveUp {
		time.Sleep(300 * time.Millisecond)
		gaveUp = w.postStep(report, "storm", "concurrent-storm", fmt.Sprintf("%d HTTP reads and %d producer commands so far, concurrently", atomic.LoadInt64(&reqs), atomic.LoadInt64(&cmds)),
			"", c15ByIntact, "", "")
	}
	atomic.StoreInt32(&stop, 1)
	done := make(chan struct{})
	go func() { wg.Wait(); close(done) }()
	select {
	case <-done:
	case <-time.After(3 * c15Deadline):
		// clients still waiting for answers: the final oracle below says what is wrong
	}
	if !gaveUp {
		w.postStep(report, "storm", "concurrent-storm", fmt.Sprintf("after %d HTTP reads and %d producer commands, concurrently", atomic.LoadInt64(&reqs), atomic.LoadInt64(&cmds)),
			"", c15ByIntact, "", "")
	}
	if !gaveUp && w.d.alive() {
		gaveUp = c15StalledReaders(w, report)
	}
	if !gaveUp && w.d.alive() {
		c15DescriptorFlood(w, report)
	}
	report.mu.Lock()
	report.Evaluations += int(atomic.LoadInt64(&reqs) + atomic.LoadInt64(&cmds))
	report.mu.Unlock()
	if err := report.write(*rep); err != nil {
		fmt.Fprintln(os.Stderr, err)
		return 2
	}
	return 0
}

// c15StalledReaders: a large registry, and HTTP clients that ask for it (/debug, /nodes, /topics, /lookup) and then do not
// read the answer.  Everybody else is served as before: producers are admitted, the bystander is intact, queries answered.
func c15StalledReaders(w *c15World, report *c15Report) bool {
	big, err := c15Dial(w.d.tcp)
	if err != nil {
		return false
	}
	defer big.close()
	long := strings.Repeat("x", 180)
	big.send(append([]byte("  V1"), c15IdentifyBytes(c15PeerBody("big-"+long, 4250, 4251, "1.3.0-"+long))...))
	if _, st := big.readFrame(c15Deadline); st != "frame" {
		return false
	}
	n := 0
	for i := 0; i < 6000; i++ {
		big.send([]byte(fmt.Sprintf("REGISTER big_%s_%d c_%s\n", long[:40], i, long[:40])))
		if _, st := big.readFrame(c15Deadline); st != "frame" {
			break
		}
		n++
	}
	var stalled []net.Conn
	for _, route := range []string{"/debug", "/nodes", "/topics", "/debug", "/lookup?topic=" + url.QueryEscape(c15ByTopic), "/debug"} {
		c, err := net.DialTimeout("tcp", w.d.http, 5*time.Second)
		if err != nil {
			continue
		}
		if tc, ok := c.(*net.TCPConn); ok {
			tc.SetReadBuffer(4096)
		}
		fmt.Fprintf(c, "GET %s HTTP/1.1\r\nHost: c15\r\n\r\n", route)
		stalled = append(stalled, c) // never read
	}
	time.Sleep(700 * time.Millisecond)
	// a producer arrives now
	late := ""
	if c, err := c15Dial(w.d.tcp); err == nil {
		c.send(append([]byte("  V1"), c15IdentifyBytes(c15PeerBody("late-producer", 4350, 4351, "late"))...))
		if _, st := c.readFrame(c15Deadline); st != "frame" {
			late = "a producer that connected meanwhile got no answer to its IDENTIFY within " + c15Deadline.String() + " (" + st + ")"
		}
		c.close()
	}
	input := fmt.Sprintf("%d registrations by one producer; %d HTTP clients asked for /debug, /nodes, /topics, /lookup and do not read the answers", n, len(stalled))
	if late != "" {
		report.add(c15Finding{Level: "violation", Kind: "not-serving", Key: "not-serving:stalled-readers", What: "nsqlookupd stopped serving others while HTTP clients were not reading their answers: " + late,
			Row: "storm", Input: input, Stderr: w.d.tail(12)})
	}
	gave := w.postStep(report, "storm", "stalled-readers", input, "", c15ByIntact, "", "")
	for _, c := range stalled {
		c.Close()
	}
	return gave || late != ""
}

// c15DescriptorFlood: somebody opens connections to the TCP port until the daemon has no file descriptor left (its limit is
// lowered for the occasion), holds them for a moment and goes away.  The daemon is still there, the bystander intact,
// a new client served.
func c15DescriptorFlood(w *c15World, report *c15Report) {
	type rlimit struct{ Cur, Max uint64 }
	var old rlimit
	const rlimitNofile = 7
	if _, _, e := syscall.RawSyscall6(syscall.SYS_PRLIMIT64, uintptr(w.d.pid), rlimitNofile, 0, uintptr(unsafe.Pointer(&old)), 0, 0); e != 0 {
		return
	}
	low := rlimit{Cur: 48, Max: old.Max}
	if _, _, e := syscall.RawSyscall6(syscall.SYS_PRLIMIT64, uintptr(w.d.pid), rlimitNofile, uintptr(unsafe.Pointer(&low)), 0, 0, 0); e != 0 {
		return
	}
	var flood []net.Conn
	for i := 0; i < 120; i++ {
		if c, err := net.DialTimeout("tcp", w.d.tcp, 2*time.Second); err == nil {
			c.Write([]byte("  V1"))
			flood = append(flood, c)
		}
	}
	time.Sleep(800 * time.Millisecond)
	for _, c := range flood {
		c.Close()
	}
	time.Sleep(300 * time.Millisecond)
	syscall.RawSyscall6(syscall.SYS_PRLIMIT64, uintptr(w.d.pid), rlimitNofile, uintptr(unsafe.Pointer(&old)), 0, 0, 0)
	time.Sleep(300 * time.Millisecond)
	w.postStep(report, "storm", "descriptor-flood", fmt.Sprintf("%d idle connections to the TCP port with the daemon's descriptor limit at 48, held for 0.8 s, then closed", len(flood)),
		"", c15ByIntact, "", "")
}
