package main

import (
	"bufio"
	"bytes"
	"encoding/binary"
	"encoding/json"
	"fmt"
	"io"
	"log"
	"net"
	"net/http"
	"os"
	"strings"
	"sync"
	"sync/atomic"
	"time"

	"github.com/nsqio/nsq/nsqd"
)

// ---- a real nsqd, in-process ------------------------------------------------

type node struct {
	n    *nsqd.NSQD
	tcp  string
	http string
}

type nullLogger struct{}

func (nullLogger) Output(int, string) error { return nil }

func startNode(dir string, nodeID int64) (*node, error) {
	opts := nsqd.NewOptions()
	opts.Logger = nullLogger{}
	if os.Getenv("VERIF_NSQD_LOG") != "" {
		opts.Logger = log.New(os.Stderr, "[nsqd] ", log.Lmicroseconds)
	}
	opts.ID = nodeID
	opts.TCPAddress = "127.0.0.1:0"
	opts.HTTPAddress = "127.0.0.1:0"
	opts.HTTPSAddress = "127.0.0.1:0"
	opts.BroadcastAddress = "127.0.0.1"
	opts.DataPath = dir
	// defaults otherwise (mem-queue-size 10000, max-rdy-count 2500, max-msg-size 1 MiB); an MPUB of 5000
	// messages of < 40 bytes is ~220 KB, the body limit is set explicitly to leave no doubt
	opts.MaxBodySize = 8 << 20
	// deferred publishes come back quickly (a channel created after start is first scanned at the next refresh)
	opts.QueueScanInterval = 20 * time.Millisecond
	opts.QueueScanRefreshInterval = 50 * time.Millisecond
	n, err := nsqd.New(opts)
	if err != nil {
		return nil, err
	}
	if err := n.LoadMetadata(); err != nil {
		return nil, err
	}
	if err := n.PersistMetadata(); err != nil {
		return nil, err
	}
	go n.Main()
	nd := &node{n: n, tcp: n.RealTCPAddr().String(), http: n.RealHTTPAddr().String()}
	hc := &http.Client{Timeout: 5 * time.Second}
	for i := 0; i < 400; i++ {
		resp, err := hc.Get("http://" + nd.http + "/ping")
		if err == nil {
			io.Copy(io.Discard, resp.Body)
			resp.Body.Close()
			if resp.StatusCode == 200 {
				return nd, nil
			}
		}
		time.Sleep(5 * time.Millisecond)
	}
	return nil, fmt.Errorf("nsqd did not come up")
}

func (nd *node) stop(deadline time.Duration) error {
	ch := make(chan struct{})
	go func() { nd.n.Exit(); close(ch) }()
	select {
	case <-ch:
		return nil
	case <-time.After(deadline):
		return fmt.Errorf("nsqd.Exit did not return within %s", deadline)
	}
}

// ---- raw protocol V2 ----------------------------------------------------------

type tcpConn struct {
	c net.Conn
	r *bufio.Reader
	w *bufio.Writer
}

func readFrame(r io.Reader) (int32, []byte, error) {
	var hdr [8]byte
	if _, err := io.ReadFull(r, hdr[:]); err != nil {
		return 0, nil, err
	}
	size := int32(binary.BigEndian.Uint32(hdr[:4]))
	if size < 4 || size > 64<<20 {
		return 0, nil, fmt.Errorf("bad frame size %d", size)
	}
	data := make([]byte, size-4)
	if _, err := io.ReadFull(r, data); err != nil {
		return 0, nil, err
	}
	return int32(binary.BigEndian.Uint32(hdr[4:])), data, nil
}

func dialV2(addr string, ident map[string]interface{}) (*tcpConn, error) {
	c, err := net.DialTimeout("tcp", addr, 5*time.Second)
	if err != nil {
		return nil, err
	}
	t := &tcpConn{c: c, r: bufio.NewReaderSize(c, 1<<16), w: bufio.NewWriterSize(c, 1<<16)}
	t.c.SetDeadline(time.Now().Add(10 * time.Second))
	body, _ := json.Marshal(ident)
	t.w.WriteString("  V2")
	ft, data, err := t.roundTrip("IDENTIFY\n", lenPrefixed(body))
	if err != nil {
		c.Close()
		return nil, err
	}
	if ft != 0 || string(data) != "OK" {
		c.Close()
		return nil, fmt.Errorf("IDENTIFY answered frame %d %q", ft, data)
	}
	return t, nil
}

// roundTrip writes one command and reads one frame (heartbeats are disabled on these connections).
func (t *tcpConn) roundTrip(line string, body []byte) (int32, []byte, error) {
	t.w.WriteString(line)
	if body != nil {
		t.w.Write(body)
	}
	if err := t.w.Flush(); err != nil {
		return 0, nil, err
	}
	return readFrame(t.r)
}

func lenPrefixed(b []byte) []byte {
	out := make([]byte, 4+len(b))
	binary.BigEndian.PutUint32(out, uint32(len(b)))
	copy(out[4:], b)
	return out
}

// mpubBinary is the body of /mpub?binary=true: [count][len body]*; the TCP MPUB body is the same, length-prefixed.
func mpubBinary(bodies [][]byte) []byte {
	var b bytes.Buffer
	var n [4]byte
	binary.BigEndian.PutUint32(n[:], uint32(len(bodies)))
	b.Write(n[:])
	for _, m := range bodies {
		binary.BigEndian.PutUint32(n[:], uint32(len(m)))
		b.Write(n[:])
		b.Write(m)
	}
	return b.Bytes()
}

// ---- consumer: FINs everything, records body -> id of first deliveries ----------

type delivery struct {
	id   uint64
	body string
}

type consumer struct {
	t         *tcpConn
	mu        sync.Mutex
	first     map[string]uint64 // body -> id, attempts == 1
	all       []delivery        // every first delivery in arrival order (also of commands never acknowledged)
	again     int               // a body delivered a second time with attempts == 1
	againDiff int               //   ... under a different id
	later     int               // deliveries with attempts > 1
	errFrames map[string]int
	progress  int64 // atomic: frames handled
	done      chan struct{}
	err       error
}

func startConsumer(addr, topic, channel string) (*consumer, error) {
	t, err := dialV2(addr, map[string]interface{}{
		"client_id": "consumer-" + topic, "hostname": "verif", "feature_negotiation": false,
		"heartbeat_interval": 30000, "msg_timeout": 600000, "output_buffer_timeout": 25,
	})
	if err != nil {
		return nil, err
	}
	ft, data, err := t.roundTrip(fmt.Sprintf("SUB %s %s\n", topic, channel), nil)
	if err != nil || ft != 0 || string(data) != "OK" {
		t.c.Close()
		return nil, fmt.Errorf("SUB: frame %d %q err %v", ft, data, err)
	}
	t.c.SetDeadline(time.Time{})
	t.w.WriteString("RDY 2500\n")
	if err := t.w.Flush(); err != nil {
		t.c.Close()
		return nil, err
	}
	c := &consumer{t: t, first: map[string]uint64{}, errFrames: map[string]int{}, done: make(chan struct{})}
	go c.loop()
	return c, nil
}

func (c *consumer) loop() {
	defer close(c.done)
	for {
		ft, data, err := readFrame(c.t.r)
		if err != nil {
			c.err = err
			return
		}
		switch ft {
		case 2:
			if len(data) < 26 {
				c.err = fmt.Errorf("short message frame")
				return
			}
			attempts := binary.BigEndian.Uint16(data[8:10])
			idHex := data[10:26]
			body := string(data[26:])
			var id uint64
			okHex := true
			for _, ch := range idHex {
				var v byte
				switch {
				case ch >= '0' && ch <= '9':
					v = ch - '0'
				case ch >= 'a' && ch <= 'f':
					v = ch - 'a' + 10
				default:
					okHex = false
				}
				id = id<<4 | uint64(v)
			}
			if !okHex {
				c.err = fmt.Errorf("message id %q is not 16 hex digits", idHex)
				return
			}
			c.mu.Lock()
			if attempts == 1 {
				if prev, dup := c.first[body]; dup {
					c.again++
					if prev != id {
						c.againDiff++
					}
				} else {
					c.first[body] = id
					c.all = append(c.all, delivery{id, body})
				}
			} else {
				c.later++
			}
			c.mu.Unlock()
			c.t.w.WriteString("FIN ")
			c.t.w.Write(idHex)
			c.t.w.WriteByte('\n')
		case 1:
			c.mu.Lock()
			code := string(data)
			if i := strings.IndexByte(code, ' '); i > 0 {
				code = code[:i]
			}
			c.errFrames[code]++
			c.mu.Unlock()
		case 0:
			if string(data) == "_heartbeat_" {
				c.t.w.WriteString("NOP\n")
			}
		}
		atomic.AddInt64(&c.progress, 1)
		if c.t.r.Buffered() == 0 {
			if err := c.t.w.Flush(); err != nil {
				c.err = err
				return
			}
		}
	}
}

func (c *consumer) count() int {
	c.mu.Lock()
	defer c.mu.Unlock()
	return len(c.first)
}

func (c *consumer) close() {
	c.t.c.Close()
	<-c.done
}
