---------------------------- MODULE LookupdInput ----------------------------
(***************************************************************************)
(* C15 -- nsqlookupd survives arbitrary input.                             *)
(*                                                                         *)
(* Two parts.                                                              *)
(*                                                                         *)
(* 1. THE TABLE (constant level, no state).  Every input the daemon can be *)
(*    given is abstracted to an INPUT CLASS; for every (connection state,  *)
(*    class) the table gives exactly one OUTCOME.  The rows are written as *)
(*    the branches of the code, in the code's order:                       *)
(*      nsqlookupd/tcp.go Handle            (protocol magic)               *)
(*      nsqlookupd/lookup_protocol_v1.go    IOLoop / Exec / getTopicChan / *)
(*                                          REGISTER / UNREGISTER /        *)
(*                                          IDENTIFY / PING                *)
(*      nsqlookupd/http.go + httprouter     route x method x arguments     *)
(*    Each branch is  B(guard, outcome) ; the table entry of (state,class) *)
(*    is the UNION of the outcomes of all branches whose guard holds, and  *)
(*    `Total' demands that this is a singleton everywhere: the guards are  *)
(*    exhaustive and never disagree.                                       *)
(*    Every error of lookup_protocol_v1.go is a FatalClientErr: the answer *)
(*    is sent, the connection is closed, and ALL registrations made on it  *)
(*    are removed (IOLoop epilogue).                                       *)
(*                                                                         *)
(* 2. THE DAEMON (state machine).  One hostile TCP connection H (re-opened *)
(*    after every close), hostile HTTP requests, and a well-behaved        *)
(*    bystander producer B with fixed registrations.  Every step looks up  *)
(*    its outcome in the table and applies the outcome's effect to a plain *)
(*    registry (keys, producers, tombstones).  TLC checks                  *)
(*      StillServing     the daemon never crashes,                         *)
(*      SizesRefused     no connection is left parked on a nonsensical     *)
(*                       body size,                                        *)
(*      OthersUntouched  a hostile step never changes what B registered,   *)
(*                       except the three admin calls that are DEFINED to  *)
(*                       (delete topic / delete channel / tombstone naming *)
(*                       B's topic, channel, node),                        *)
(*      ErrorsAreRefusals every malformed class is answered with E_* /     *)
(*                       4xx, and changes nothing (TCP: closes and drops   *)
(*                       only the sender's own registrations).             *)
(*                                                                         *)
(* NAMED DEVIATIONS.  `AsImplemented' lists the rows where the code on the *)
(* unchanged tree is known/suspected to deviate from the statement:        *)
(*   "negSizeCrash"  IDENTIFY with a negative int32 body size reaches      *)
(*                   make([]byte, bodyLen): runtime panic, no recover in   *)
(*                   protocol.TCPServer => the process dies,               *)
(*   "hugeSizeAlloc" IDENTIFY with a huge body size (<= 0x7fffffff)        *)
(*                   allocates that much and blocks reading.               *)
(*   "unvalidatedAdminTopic"  POST /topic/delete and /topic/tombstone do  *)
(*                   not validate the topic name (unlike /topic/create and *)
(*                   the channel calls); the name "*" then matches EVERY   *)
(*                   topic in FindRegistrations/FindProducers, so one      *)
(*                   request removes / hides everybody's registrations.    *)
(* The as-intended configuration has AsImplemented = {} and must satisfy   *)
(* everything; with a deviation switched on TLC shows which property it    *)
(* breaks.  That is a LEAD; only the replay against the real binary        *)
(* decides whether the code really does it.                                *)
(***************************************************************************)
EXTENDS Naturals, FiniteSets, TLC

CONSTANTS AsImplemented,  \* SUBSET {"negSizeCrash", "hugeSizeAlloc", "unvalidatedAdminTopic"}
          MaxOwn          \* state constraint: hostile producer entries + extra keys

B(guard, outcome) == IF guard THEN {outcome} ELSE {}

-----------------------------------------------------------------------------
(*                          name classes                                   *)
(* protocol.IsValidTopicName/IsValidChannelName: 1 <= len <= 64 and        *)
(* ^[.a-zA-Z0-9_-]+(#ephemeral)?$                                          *)
GoodNames == {"valid",      \* matches, < 64 bytes, not ephemeral
              "validEph",   \* matches, ends in #ephemeral
              "len64",      \* matches, exactly 64 bytes (upper bound inclusive)
              "bystander"}  \* valid AND equal to the name the bystander registered
BadNames  == {"empty",      \* ""  (only reachable with two consecutive spaces)
              "long65",     \* 65 bytes or more, otherwise fine
              "badChar",    \* a byte outside [.a-zA-Z0-9_-]
              "ephAlone",   \* "#ephemeral" with nothing before it
              "wildcard",   \* "*": invalid as a name, and RegistrationDB.FindRegistrations treats it as match-all
              "badSuffix"}  \* "x#ephemera", "x#ephemeralx", "x#", "x#ephemeral#ephemeral"

(* abstract registry names the classes stand for in the state machine *)
AbsT(n) == CASE n = "valid" -> "ht" [] n = "len64" -> "ht" [] n = "validEph" -> "he" [] n = "bystander" -> "bt"
AbsC(n) == CASE n = "valid" -> "hc" [] n = "len64" -> "hc" [] n = "validEph" -> "hce" [] n = "bystander" -> "bc"
                [] n = "absent" -> "" [] n = "empty" -> ""
Topics == {"ht", "he", "bt"}
Chans  == {"hc", "hce", "bc"}
EphT(t) == t = "he"
EphC(c) == c = "hce"

-----------------------------------------------------------------------------
(*                          TCP input classes                              *)
ConnStates == {"noMagic",     \* accepted, protocol magic not yet read
               "v1",          \* magic "  V1" read, not identified (client.peerInfo == nil)
               "identified",  \* IDENTIFY succeeded
               "blocked",     \* (deviation only) server parked in io.ReadFull on a huge body
               "closed"}
LiveStates == {"noMagic", "v1", "identified"}

SizeCls == {"missingEOF",   \* 0..3 of the 4 size bytes, then EOF
            "zero",         \* 0
            "exact",        \* = len(body), body follows in the same write
            "split",        \* = len(body), body delivered in two writes with a pause (nothing may be answered in between)
            "truncEOF",     \* small size, fewer body bytes, then EOF
            "largerEOF",    \* complete valid body, size > len(body), then EOF
            "shortOfBody",  \* size < len(body): the server reads a proper prefix of the JSON object
            "huge",         \* >= 0x40000000 (1 GiB) .. 0x7fffffff
            "negative"}     \* 0x80000000 .. 0xffffffff  (int32 < 0)
BodyCls == {"notJSON", "nonObject", "null", "wrongTypes",
            "missBA", "missTCP", "missHTTP", "missVer",     \* one required field absent
            "zeroBA", "zeroTCP", "zeroHTTP", "zeroVer",     \* one required field present with its zero value
            "extraFields", "allPresent"}
GoodBodies == {"extraFields", "allPresent"}

K(cmd, t, c, x, sz, body) == [cmd |-> cmd, t |-> t, c |-> c, x |-> x, sz |-> sz, body |-> body]

TcpClasses ==
     {K("MAGIC", m, "-", FALSE, "-", "-") : m \in {"ok", "bad4", "shortEOF"}}
\cup {K("EOF", m, "-", FALSE, "-", "-") : m \in {"bare", "partialLine"}}   \* client half-closes at / inside a line
\cup {K("UNKNOWN", "-", "-", FALSE, "-", "-"), K("EMPTY", "-", "-", FALSE, "-", "-")}
\cup {K("PING", "-", "-", x, "-", "-") : x \in BOOLEAN}                     \* x: extra parameters
\cup {K(cmd, "noparams", "absent", FALSE, "-", "-") : cmd \in {"REGISTER", "UNREGISTER"}}
\cup {K(cmd, t, c, x, "-", "-") : cmd \in {"REGISTER", "UNREGISTER"}, t \in GoodNames \cup BadNames,
                                   c \in {cc \in GoodNames \cup BadNames \cup {"absent"} : TRUE}, x \in BOOLEAN}
\cup {K("IDENTIFY", "-", "-", FALSE, sz, "-") : sz \in {"missingEOF", "zero", "huge", "negative"}}
\cup {K("IDENTIFY", "-", "-", FALSE, sz, "allPresent") : sz \in {"truncEOF", "largerEOF", "shortOfBody"}}
\cup {K("IDENTIFY", "-", "-", FALSE, sz, b) : sz \in {"exact", "split"}, b \in BodyCls}

(* classes that cannot be spelled: a third parameter needs a second one; an empty channel needs something after it
   (strings.TrimSpace removes a trailing space) *)
Spellable(k) == k.cmd \in {"REGISTER", "UNREGISTER"} =>
                   /\ (k.c = "absent" => ~k.x)
                   /\ (k.c = "empty" => k.x)
                   /\ (k.t = "empty" => k.c # "absent")  \* "REGISTER " is trimmed to "REGISTER"
(* MAGIC classes exist only before the magic; EOF classes only after it (before it, EOF is MAGIC/shortEOF) *)
TcpApplicable(st, k) == /\ st \in LiveStates
                        /\ Spellable(k)
                        /\ (k.cmd = "MAGIC" => st = "noMagic")
                        /\ (k.cmd = "EOF" => st # "noMagic")
TcpDomain == {<<st, k>> \in LiveStates \X TcpClasses : TcpApplicable(st, k)}

Resps == {"none", "OK", "IDJSON", "E_INVALID", "E_BAD_TOPIC", "E_BAD_CHANNEL", "E_BAD_BODY", "E_BAD_PROTOCOL"}
StatementErrs == {"E_INVALID", "E_BAD_TOPIC", "E_BAD_CHANNEL", "E_BAD_BODY"}
Effs == {"none", "toV1", "identify", "reg", "unreg", "dropAll", "crash", "hang"}
O(resp, closes, eff) == [resp |-> resp, closes |-> closes, eff |-> eff]
Fatal(code) == O(code, TRUE, "dropAll")     \* FatalClientErr: answer, close, registrations of this connection removed
Gone        == O("none", TRUE, "dropAll")   \* closed without an answer

IsRU(k) == k.cmd \in {"REGISTER", "UNREGISTER"}
ChanIgnored(c) == c \in {"absent", "empty"}   \* getTopicChan: channelName == "" => topic-only command

TcpOutcomes(st, k) ==
  \* ---- tcp.go Handle: io.ReadFull(conn, 4) then switch protocolMagic
     B(st = "noMagic" /\ k.cmd = "MAGIC" /\ k.t = "shortEOF", Gone)
\cup B(st = "noMagic" /\ k.cmd = "MAGIC" /\ k.t = "ok", O("none", FALSE, "toV1"))
\cup B(st = "noMagic" /\ k.cmd = "MAGIC" /\ k.t = "bad4", Fatal("E_BAD_PROTOCOL"))
  \* any command sent before the magic: its first four bytes ARE the magic (never "  V1") ...
\cup B(st = "noMagic" /\ k.cmd \notin {"MAGIC", "EMPTY"}, Fatal("E_BAD_PROTOCOL"))
  \* ... except an empty line, which is shorter than four bytes (sent with EOF)
\cup B(st = "noMagic" /\ k.cmd = "EMPTY", Gone)
  \* ---- IOLoop: reader.ReadString('\n') fails => leave the loop; a partial line is NOT executed
\cup B(st \in {"v1", "identified"} /\ k.cmd = "EOF", Gone)
  \* ---- Exec: switch params[0]
\cup B(st \in {"v1", "identified"} /\ k.cmd \in {"UNKNOWN", "EMPTY"}, Fatal("E_INVALID"))
\cup B(st \in {"v1", "identified"} /\ k.cmd = "PING", O("OK", FALSE, "none"))
  \* ---- REGISTER / UNREGISTER: peerInfo == nil first, then getTopicChan
\cup B(st = "v1" /\ IsRU(k), Fatal("E_INVALID"))
\cup B(st = "identified" /\ IsRU(k) /\ k.t = "noparams", Fatal("E_INVALID"))
\cup B(st = "identified" /\ IsRU(k) /\ k.t \in BadNames, Fatal("E_BAD_TOPIC"))
\cup B(st = "identified" /\ IsRU(k) /\ k.t \in GoodNames /\ k.c \in BadNames \ {"empty"}, Fatal("E_BAD_CHANNEL"))
\cup B(st = "identified" /\ k.cmd = "REGISTER" /\ k.t \in GoodNames /\ (k.c \in GoodNames \/ ChanIgnored(k.c)),
       O("OK", FALSE, "reg"))
\cup B(st = "identified" /\ k.cmd = "UNREGISTER" /\ k.t \in GoodNames /\ (k.c \in GoodNames \/ ChanIgnored(k.c)),
       O("OK", FALSE, "unreg"))
  \* ---- IDENTIFY
\cup B(st = "identified" /\ k.cmd = "IDENTIFY", Fatal("E_INVALID"))                 \* cannot IDENTIFY again
\cup B(st = "v1" /\ k.cmd = "IDENTIFY" /\ k.sz = "missingEOF", Fatal("E_BAD_BODY")) \* binary.Read fails
\cup B(st = "v1" /\ k.cmd = "IDENTIFY" /\ k.sz = "negative",
       IF "negSizeCrash" \in AsImplemented THEN O("none", TRUE, "crash") ELSE Fatal("E_BAD_BODY"))
\cup B(st = "v1" /\ k.cmd = "IDENTIFY" /\ k.sz = "huge",
       IF "hugeSizeAlloc" \in AsImplemented THEN O("none", FALSE, "hang") ELSE Fatal("E_BAD_BODY"))
\cup B(st = "v1" /\ k.cmd = "IDENTIFY" /\ k.sz \in {"truncEOF", "largerEOF"}, Fatal("E_BAD_BODY"))  \* io.ReadFull fails
\cup B(st = "v1" /\ k.cmd = "IDENTIFY" /\ k.sz \in {"zero", "shortOfBody"}, Fatal("E_BAD_BODY"))    \* json: unexpected end
\cup B(st = "v1" /\ k.cmd = "IDENTIFY" /\ k.sz \in {"exact", "split"} /\ k.body \in {"notJSON", "nonObject", "wrongTypes"},
       Fatal("E_BAD_BODY"))                                                          \* json.Unmarshal fails
\cup B(st = "v1" /\ k.cmd = "IDENTIFY" /\ k.sz \in {"exact", "split"} /\ k.body \in BodyCls \ (GoodBodies \cup {"notJSON", "nonObject", "wrongTypes"}),
       Fatal("E_BAD_BODY"))                                                          \* "IDENTIFY missing fields"
\cup B(st = "v1" /\ k.cmd = "IDENTIFY" /\ k.sz \in {"exact", "split"} /\ k.body \in GoodBodies,
       O("IDJSON", FALSE, "identify"))

TcpRow(st, k) == CHOOSE o \in TcpOutcomes(st, k) : TRUE

(* what the statement calls well-formed: everything else must be refused *)
TcpWellFormed(st, k) ==
  \/ st = "noMagic" /\ k.cmd = "MAGIC" /\ k.t = "ok"
  \/ st # "noMagic" /\ k.cmd = "PING"
  \/ st = "v1" /\ k.cmd = "IDENTIFY" /\ k.sz \in {"exact", "split"} /\ k.body \in GoodBodies
  \/ st = "identified" /\ IsRU(k) /\ k.t \in GoodNames /\ (k.c \in GoodNames \/ ChanIgnored(k.c))
TcpIsEOFOnly(k) == k.cmd = "EOF" \/ (k.cmd = "MAGIC" /\ k.t = "shortEOF")   \* nothing to answer: the peer went away

TcpTotal == \A d \in TcpDomain : Cardinality(TcpOutcomes(d[1], d[2])) = 1
TcpTyped == \A d \in TcpDomain : \A o \in TcpOutcomes(d[1], d[2]) : o.resp \in Resps /\ o.closes \in BOOLEAN /\ o.eff \in Effs
TcpErrorsAreRefusals ==
  \A d \in TcpDomain :
    LET st == d[1]  k == d[2]  o == TcpRow(st, k) IN
    IF TcpWellFormed(st, k) THEN o.resp \in {"none", "OK", "IDJSON"} /\ ~o.closes
    ELSE /\ o.closes /\ o.eff = "dropAll"
         /\ IF TcpIsEOFOnly(k) \/ (st = "noMagic" /\ k.cmd = "EMPTY") THEN o.resp = "none"
            ELSE IF st = "noMagic" THEN o.resp = "E_BAD_PROTOCOL"
            ELSE o.resp \in StatementErrs

-----------------------------------------------------------------------------
(*                          HTTP request classes                           *)
NoArgRoutes == {"/ping", "/info", "/debug", "/topics", "/nodes"}
TopicRoutes == {"/lookup", "/channels", "/topic/create", "/topic/delete"}
ChanRoutes  == {"/channel/create", "/channel/delete"}
TombRoute   == "/topic/tombstone"
GetRoutes   == NoArgRoutes \cup {"/lookup", "/channels"}
PostRoutes  == {"/topic/create", "/topic/delete", "/topic/tombstone"} \cup ChanRoutes
KnownRoutes == GetRoutes \cup PostRoutes
Routes      == KnownRoutes \cup {"/nosuch"}
PprofRoutes == {"/debug/pprof", "/debug/pprof/cmdline", "/debug/pprof/symbol", "/debug/pprof/profile",
                "/debug/pprof/heap", "/debug/pprof/goroutine", "/debug/pprof/block", "/debug/pprof/threadcreate"}  \* exist; not exercised
Methods     == {"GET", "POST", "PUT", "DELETE", "HEAD", "OPTIONS"}
RegisteredMethod(r) == IF r \in GetRoutes THEN "GET" ELSE "POST"

HNames == GoodNames \cup BadNames \cup {"missing"}    \* "empty" here is  ?topic=  (present, empty value)
HNodes == {"missing", "other", "bystander"}
SmallNames == {"missing", "valid", "bystander", "badChar", "wildcard"}

H(route, method, q, t, c, n, ex) == [route |-> route, method |-> method, q |-> q, t |-> t, c |-> c, n |-> n, ex |-> ex]

(* ex: does the key the request names exist in the registry (only /lookup: topic key; /channel/delete: channel key) *)
HttpClasses ==
     {H(r, m, q, "-", "-", "-", FALSE) : r \in NoArgRoutes \cup {"/nosuch"}, m \in Methods, q \in {"ok", "unparsable"}}
\cup {H(r, m, q, t, "-", "-", ex) : r \in TopicRoutes, m \in Methods, q \in {"ok", "unparsable"}, t \in HNames, ex \in BOOLEAN}
\cup {H(TombRoute, m, q, t, "-", n, FALSE) : m \in Methods, q \in {"ok", "unparsable"}, t \in HNames, n \in HNodes}
\cup {H(r, m, q, t, c, "-", ex) : r \in ChanRoutes, m \in Methods, q \in {"ok", "unparsable"}, t \in HNames, c \in HNames, ex \in BOOLEAN}

(* a key can exist only under a valid name (both creation paths validate); ex is meaningful for two routes only;
   for methods the route does not serve, and for unparsable queries, arguments are irrelevant: a few are kept *)
HttpApplicable(h) ==
  /\ h.ex => \/ h.route = "/lookup" /\ h.t \in GoodNames
             \/ h.route = "/channel/delete" /\ h.t \in GoodNames /\ h.c \in GoodNames
  /\ (h.method # RegisteredMethod(h.route) \/ h.q = "unparsable") /\ h.route \in KnownRoutes \ NoArgRoutes =>
        h.t \in SmallNames /\ h.c \in SmallNames \cup {"-"} /\ h.n \in {"missing", "other", "-"} /\ ~h.ex
HttpDomain == {h \in HttpClasses : HttpApplicable(h)}

HEffs == {"none", "createTopic", "createChan", "deleteTopic", "deleteChan", "tombstone"}
HO(status, msg, eff) == [status |-> status, msg |-> msg, eff |-> eff]
HErr(status, msg) == HO(status, msg, "none")

Served(h) == h.route \in KnownRoutes /\ h.method = RegisteredMethod(h.route)
Parsed(h) == Served(h) /\ h.q = "ok"     \* http_api.NewReqParams succeeded

Unvalidated == "unvalidatedAdminTopic" \in AsImplemented

HttpOutcomes(h) ==
  \* ---- httprouter: no tree entry for (method, path)
     B(h.route = "/nosuch", HErr(404, "NOT_FOUND"))
\cup B(h.route \in KnownRoutes /\ h.method = "OPTIONS", HO(200, "", "none"))            \* HandleOPTIONS: Allow header, empty body
\cup B(h.route \in KnownRoutes /\ h.method \notin {"OPTIONS", RegisteredMethod(h.route)}, HErr(405, "METHOD_NOT_ALLOWED"))
  \* ---- handlers without arguments never look at the query
\cup B(Served(h) /\ h.route = "/ping", HO(200, "OK", "none"))
\cup B(Served(h) /\ h.route \in NoArgRoutes \ {"/ping"}, HO(200, "json", "none"))
  \* ---- every other handler starts with NewReqParams: url.ParseQuery error => 400 INVALID_REQUEST
\cup B(Served(h) /\ h.route \notin NoArgRoutes /\ h.q = "unparsable", HErr(400, "INVALID_REQUEST"))
  \* ---- topic-only handlers
\cup B(Parsed(h) /\ h.route \in TopicRoutes \cup {TombRoute} /\ h.t = "missing", HErr(400, "MISSING_ARG_TOPIC"))
  \* (read-only) "*" matches every topic key: with the bystander registered there always is one
\cup B(Parsed(h) /\ h.route = "/lookup" /\ h.t \notin {"missing", "wildcard"} /\ ~h.ex, HErr(404, "TOPIC_NOT_FOUND"))
\cup B(Parsed(h) /\ h.route = "/lookup" /\ h.t \notin {"missing", "wildcard"} /\ h.ex, HO(200, "json", "none"))
\cup B(Parsed(h) /\ h.route = "/lookup" /\ h.t = "wildcard", HO(200, "json", "none"))
\cup B(Parsed(h) /\ h.route = "/channels" /\ h.t # "missing", HO(200, "json", "none"))
\cup B(Parsed(h) /\ h.route = "/topic/create" /\ h.t \in BadNames, HErr(400, "INVALID_ARG_TOPIC"))
\cup B(Parsed(h) /\ h.route = "/topic/create" /\ h.t \in GoodNames, HO(200, "", "createTopic"))
  \* as intended ("invalid names are refused"): validated like /topic/create.  As implemented: NO name validation.
\cup B(Parsed(h) /\ h.route = "/topic/delete" /\ h.t \in GoodNames, HO(200, "", "deleteTopic"))
\cup B(Parsed(h) /\ h.route = "/topic/delete" /\ h.t \in BadNames,
       IF Unvalidated THEN HO(200, "", "deleteTopic") ELSE HErr(400, "INVALID_ARG_TOPIC"))
  \* ---- tombstone: topic, (validation,) then node
\cup B(Parsed(h) /\ h.route = TombRoute /\ h.t \in BadNames /\ ~Unvalidated, HErr(400, "INVALID_ARG_TOPIC"))
\cup B(Parsed(h) /\ h.route = TombRoute /\ (h.t \in GoodNames \/ (h.t \in BadNames /\ Unvalidated)) /\ h.n = "missing",
       HErr(400, "MISSING_ARG_NODE"))
\cup B(Parsed(h) /\ h.route = TombRoute /\ (h.t \in GoodNames \/ (h.t \in BadNames /\ Unvalidated)) /\ h.n # "missing",
       HO(200, "", "tombstone"))
  \* ---- channel handlers: http_api.GetTopicChannelArgs (topic present, valid, channel present, valid)
\cup B(Parsed(h) /\ h.route \in ChanRoutes /\ h.t = "missing", HErr(400, "MISSING_ARG_TOPIC"))
\cup B(Parsed(h) /\ h.route \in ChanRoutes /\ h.t \in BadNames, HErr(400, "INVALID_ARG_TOPIC"))
\cup B(Parsed(h) /\ h.route \in ChanRoutes /\ h.t \in GoodNames /\ h.c = "missing", HErr(400, "MISSING_ARG_CHANNEL"))
\cup B(Parsed(h) /\ h.route \in ChanRoutes /\ h.t \in GoodNames /\ h.c \in BadNames, HErr(400, "INVALID_ARG_CHANNEL"))
\cup B(Parsed(h) /\ h.route = "/channel/create" /\ h.t \in GoodNames /\ h.c \in GoodNames, HO(200, "", "createChan"))
\cup B(Parsed(h) /\ h.route = "/channel/delete" /\ h.t \in GoodNames /\ h.c \in GoodNames /\ ~h.ex, HErr(404, "CHANNEL_NOT_FOUND"))
\cup B(Parsed(h) /\ h.route = "/channel/delete" /\ h.t \in GoodNames /\ h.c \in GoodNames /\ h.ex, HO(200, "", "deleteChan"))

HttpRow(h) == CHOOSE o \in HttpOutcomes(h) : TRUE

(* requests the statement wants answered normally; all others are refusals *)
HttpWellFormed(h) ==
  /\ h.route \in KnownRoutes
  /\ \/ h.method = "OPTIONS"
     \/ /\ Served(h)
        /\ \/ h.route \in NoArgRoutes
           \/ /\ h.q = "ok" /\ h.t # "missing"
              /\ h.route \in {"/topic/create", "/topic/delete", TombRoute} \cup ChanRoutes => h.t \in GoodNames
              /\ h.route \in ChanRoutes => h.c \in GoodNames
              /\ h.route = TombRoute => h.n # "missing"

HttpTotal == \A h \in HttpDomain : Cardinality(HttpOutcomes(h)) = 1
HttpTyped == \A h \in HttpDomain : \A o \in HttpOutcomes(h) : o.status \in {200, 400, 404, 405} /\ o.eff \in HEffs
HttpErrorsAreRefusals ==
  \A h \in HttpDomain :
    LET o == HttpRow(h) IN
    IF HttpWellFormed(h) THEN o.status \in {200, 404}     \* 404: the named topic / channel does not exist
    ELSE o.status \in {400, 404, 405} /\ o.eff = "none"

Total == TcpTotal /\ HttpTotal /\ TcpTyped /\ HttpTyped
ErrorsAreRefusals == TcpErrorsAreRefusals /\ HttpErrorsAreRefusals

-----------------------------------------------------------------------------
(*                          the daemon                                     *)
VARIABLES hs,      \* state of the hostile connection H
          keys,    \* registrations that exist (RegistrationDB keys): <<category, key, subkey>>
          prods,   \* producer entries: <<key, peer>>, peer \in {"H", "B"}
          tomb,    \* tombstoned topic producers: <<topic, peer>>
          daemon   \* "up" | "crashed"
vars == <<hs, keys, prods, tomb, daemon>>

ClientKey   == <<"client", "", "">>
TKey(t)     == <<"topic", t, "">>
CKey(t, c)  == <<"channel", t, c>>
AllKeys     == {ClientKey} \cup {TKey(t) : t \in Topics} \cup {CKey(t, c) : t \in Topics, c \in Chans}
BFixed      == {ClientKey, TKey("bt"), CKey("bt", "bc")}    \* what the bystander registered

RegsOf(p)   == {k \in AllKeys : <<k, p>> \in prods}
BView       == <<RegsOf("B") \cap keys, <<"bt", "B">> \in tomb>>   \* what /lookup, /nodes show about B

TypeOK == /\ hs \in ConnStates /\ keys \subseteq AllKeys /\ prods \subseteq AllKeys \X {"H", "B"}
          /\ tomb \subseteq Topics \X {"H", "B"} /\ daemon \in {"up", "crashed"}
          /\ \A e \in prods : e[1] \in keys

Init == /\ hs = "noMagic"
        /\ keys = BFixed
        /\ prods = {<<k, "B">> : k \in BFixed}
        /\ tomb = {}
        /\ daemon = "up"

(* RegistrationDB effects *)
DropAll(p)  == /\ prods' = {e \in prods : e[2] # p}
               /\ tomb' = {e \in tomb : e[2] # p}
               /\ UNCHANGED keys                               \* keys stay when the last producer leaves by disconnect
DoIdentify(p) == /\ keys' = keys \cup {ClientKey} /\ prods' = prods \cup {<<ClientKey, p>>} /\ UNCHANGED tomb
DoReg(p, t, c) ==
  LET ks == {TKey(t)} \cup (IF c = "" THEN {} ELSE {CKey(t, c)}) IN
  /\ keys' = keys \cup ks /\ prods' = prods \cup {<<k, p>> : k \in ks} /\ UNCHANGED tomb
DoUnreg(p, t, c) ==
  IF c # ""
  THEN LET k == CKey(t, c)
           rest == {e \in prods : e # <<k, p>>} IN
       /\ prods' = rest
       /\ keys' = IF EphC(c) /\ ~\E e \in rest : e[1] = k THEN keys \ {k} ELSE keys
       /\ UNCHANGED tomb
  ELSE LET gone == {<<TKey(t), p>>} \cup {<<CKey(t, cc), p>> : cc \in Chans}
           rest == prods \ gone IN
       /\ prods' = rest
       /\ keys' = IF EphT(t) /\ ~\E e \in rest : e[1] = TKey(t) THEN keys \ {TKey(t)} ELSE keys
       /\ tomb' = tomb \ {<<t, p>>}                            \* the tombstone lives in the removed producer entry

(* a step of the hostile TCP connection *)
HTcp(k) ==
  /\ daemon = "up" /\ TcpApplicable(hs, k)
  /\ LET o == TcpRow(hs, k) IN
     /\ hs' = IF o.closes THEN "closed"
              ELSE CASE o.eff = "toV1" -> "v1" [] o.eff = "identify" -> "identified" [] o.eff = "hang" -> "blocked" [] OTHER -> hs
     /\ daemon' = IF o.eff = "crash" THEN "crashed" ELSE "up"
     /\ CASE o.eff \in {"none", "toV1", "hang"} -> UNCHANGED <<keys, prods, tomb>>
          [] o.eff = "identify" -> DoIdentify("H")
          [] o.eff = "reg"      -> DoReg("H", AbsT(k.t), AbsC(k.c))
          [] o.eff = "unreg"    -> DoUnreg("H", AbsT(k.t), AbsC(k.c))
          [] o.eff = "dropAll"  -> DropAll("H")
          [] o.eff = "crash"    -> keys' = {} /\ prods' = {} /\ tomb' = {}   \* the process is gone, with everybody's registrations

(* the client aborts (closes without waiting for an answer) -- also the only way out of a parked connection *)
HClose == /\ daemon = "up" /\ hs \in LiveStates \cup {"blocked"} /\ hs' = "closed" /\ DropAll("H") /\ UNCHANGED daemon
HReconnect == /\ daemon = "up" /\ hs = "closed" /\ hs' = "noMagic" /\ UNCHANGED <<keys, prods, tomb, daemon>>

Exists(h) == CASE h.route = "/lookup" /\ h.t \in GoodNames -> TKey(AbsT(h.t)) \in keys
               [] h.route = "/channel/delete" /\ h.t \in GoodNames /\ h.c \in GoodNames -> CKey(AbsT(h.t), AbsC(h.c)) \in keys
               [] OTHER -> FALSE
NodePeers(n) == IF n = "bystander" THEN {"B"} ELSE {}

(* a hostile HTTP request *)
HHttp(h) ==
  /\ daemon = "up" /\ h.ex = Exists(h)
  /\ LET o == HttpRow(h) IN
     /\ UNCHANGED <<hs, daemon>>
     /\ CASE o.eff = "none" -> UNCHANGED <<keys, prods, tomb>>
          [] o.eff = "createTopic" -> keys' = keys \cup {TKey(AbsT(h.t))} /\ UNCHANGED <<prods, tomb>>
          [] o.eff = "createChan"  -> keys' = keys \cup {TKey(AbsT(h.t)), CKey(AbsT(h.t), AbsC(h.c))} /\ UNCHANGED <<prods, tomb>>
          [] o.eff = "deleteTopic" ->
               \* any string may be named; only valid names can match a key
               IF h.t \in GoodNames
               THEN LET t == AbsT(h.t)
                        ks == {TKey(t)} \cup {CKey(t, c) : c \in Chans} IN
                    /\ keys' = keys \ ks /\ prods' = {e \in prods : e[1] \notin ks}
                    /\ tomb' = {e \in tomb : e[1] # t}
               ELSE IF h.t = "wildcard"     \* (deviation only) "*" matches every topic and every channel key
               THEN LET ks == {k \in keys : k[1] \in {"topic", "channel"}} IN
                    /\ keys' = keys \ ks /\ prods' = {e \in prods : e[1] \notin ks} /\ tomb' = {}
               ELSE UNCHANGED <<keys, prods, tomb>>
          [] o.eff = "deleteChan"  ->
               LET k == CKey(AbsT(h.t), AbsC(h.c)) IN
               /\ keys' = keys \ {k} /\ prods' = {e \in prods : e[1] # k} /\ UNCHANGED tomb
          [] o.eff = "tombstone"   ->
               /\ tomb' = IF h.t \in GoodNames
                          THEN tomb \cup {<<AbsT(h.t), p>> : p \in {q \in NodePeers(h.n) : <<TKey(AbsT(h.t)), q>> \in prods}}
                          ELSE IF h.t = "wildcard"  \* (deviation only) every topic's producers on that node
                          THEN tomb \cup {<<t, p>> \in Topics \X NodePeers(h.n) : <<TKey(t), p>> \in prods}
                          ELSE tomb
               /\ UNCHANGED <<keys, prods>>

(* the bystander: pings (nothing changes) and, after an admin call removed or hid what it registered, re-registers
   (UNREGISTER bt, REGISTER bt bc -- a fresh, untombstoned producer entry) *)
BPing    == daemon = "up" /\ UNCHANGED vars
BRestore == /\ daemon = "up" /\ BView # <<BFixed, FALSE>>
            /\ keys' = keys \cup BFixed /\ prods' = prods \cup {<<k, "B">> : k \in BFixed}
            /\ tomb' = tomb \ {<<"bt", "B">>} /\ UNCHANGED <<hs, daemon>>

HostileTcp  == \E k \in TcpClasses : HTcp(k)
HostileHttp == \E h \in HttpDomain : HHttp(h)
Next == HostileTcp \/ HClose \/ HReconnect \/ HostileHttp \/ BPing \/ BRestore
Spec == Init /\ [][Next]_vars

(* bound for exhaustive runs: what the hostile side has piled up *)
Bounded == Cardinality(RegsOf("H")) + Cardinality(keys \ BFixed) <= MaxOwn

-----------------------------------------------------------------------------
(*                          properties                                     *)
StillServing == daemon = "up"
SizesRefused == hs # "blocked"

(* the admin calls that are DEFINED to remove / hide another producer's registrations *)
AdminException(h) ==
  /\ Served(h) /\ h.q = "ok"
  /\ \/ h.route = "/topic/delete" /\ h.t = "bystander"
     \/ h.route = "/channel/delete" /\ h.t = "bystander" /\ h.c = "bystander"
     \/ h.route = TombRoute /\ h.t = "bystander" /\ h.n = "bystander"
ExceptionClasses == {h \in HttpDomain : AdminException(h)}

(* whatever the hostile side does, what B registered -- and whether it is shown -- stays as it is *)
OthersUntouched ==
  [][ BView' # BView => \/ BRestore
                        \/ \E h \in ExceptionClasses : HHttp(h) ]_vars

(* after a close nothing of H is left (IOLoop epilogue) *)
ClosedLeavesNothing == hs \in {"closed", "noMagic", "v1"} => RegsOf("H") = {}
=============================================================================
