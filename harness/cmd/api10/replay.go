package main

import (
	"bufio"
	"bytes"
	"encoding/binary"
	"encoding/json"
	"flag"
	"fmt"
	"math/rand"
	"os"
	"sort"
	"strings"
	"sync"
	"time"

	"github.com/nsqio/nsq/verifharness/hlib"
)

// Binding A: behaviours printed by TLC (NsqdHttpBeh) are replayed against a real nsqd.

func init() { subcmds["replay"] = replayCmd }

type Step struct {
	Req     Req     `json:"req"`
	Status  int     `json:"status"`
	Msg     string  `json:"msg"`
	Enq     []Slice `json:"enq"`
	Post    Obs     `json:"post"`
	Twin    bool    `json:"twin"`
	Allowed []int   `json:"allowed"`
}

type Behaviour struct {
	Pre     []Req  `json:"pre"`
	PrePost Obs    `json:"prepost"` // registry after the prefix
	Steps   []Step `json:"steps"`
}

type Finding struct {
	Key    string      `json:"key"`
	What   string      `json:"what"`
	Replay interface{} `json:"replay"`
}

type Report struct {
	Behaviours     int                      `json:"behaviours"`
	Requests       int64                    `json:"requests"`
	TwinRuns       int64                    `json:"twin_runs"`
	TwinAccepted   int64                    `json:"twin_accepted"`
	Delivered      int64                    `json:"delivered"`
	DistinctShapes int                      `json:"distinct_shapes"`
	Outcomes       map[string]int64         `json:"outcomes"`
	Violations     []Finding                `json:"violations"`
	Drift          []Finding                `json:"drift"`
	Samples        []map[string]interface{} `json:"samples"`
	Inconclusive   []string                 `json:"inconclusive"`
	Notes          map[string]int64         `json:"notes"`
}

type collector struct {
	mu     sync.Mutex
	rep    Report
	shapes map[string]bool
	vkeys  map[string]int
	dkeys  map[string]int
}

func newCollector() *collector {
	return &collector{rep: Report{Outcomes: map[string]int64{}, Notes: map[string]int64{}}, shapes: map[string]bool{},
		vkeys: map[string]int{}, dkeys: map[string]int{}}
}

func (c *collector) violation(key, what string, replay interface{}) {
	c.mu.Lock()
	defer c.mu.Unlock()
	c.vkeys[key]++
	if c.vkeys[key] <= 2 && len(c.rep.Violations) < 60 {
		c.rep.Violations = append(c.rep.Violations, Finding{key, what, replay})
	}
}

func (c *collector) drift(key, what string, replay interface{}) {
	c.mu.Lock()
	defer c.mu.Unlock()
	c.dkeys[key]++
	if c.dkeys[key] <= 1 && len(c.rep.Drift) < 40 {
		c.rep.Drift = append(c.rep.Drift, Finding{key, what, replay})
	}
}

func (c *collector) inconclusive(s string) {
	c.mu.Lock()
	defer c.mu.Unlock()
	if len(c.rep.Inconclusive) < 20 {
		c.rep.Inconclusive = append(c.rep.Inconclusive, s)
	}
}

func (c *collector) note(k string, n int64) {
	c.mu.Lock()
	c.rep.Notes[k] += n
	c.mu.Unlock()
}

func (c *collector) outcome(r Req, status int, msg string) {
	k := fmt.Sprintf("%s %s -> %d %s", r.Method, r.Route, status, msg)
	sh := reqShape(r) + fmt.Sprintf("->%d", status)
	c.mu.Lock()
	c.rep.Outcomes[k]++
	c.rep.Requests++
	c.shapes[sh] = true
	c.mu.Unlock()
}

func (c *collector) sample(m map[string]interface{}) {
	c.mu.Lock()
	if len(c.rep.Samples) < 10 {
		c.rep.Samples = append(c.rep.Samples, m)
	}
	c.mu.Unlock()
}

// reqShape: the class of a request (what "distinct" means in the evidence)
func reqShape(r Req) string {
	b := r.Body
	bs := fmt.Sprintf("%s%v|%d|%d|%v|%d", b.Kind, b.Segs, b.Hdr, b.Count, b.Items, b.Extra)
	return fmt.Sprintf("%s|%s|%v|%v|%v|%v|%v|%s|%v|%s", r.Route, r.Method, r.Topic, r.Channel, r.Defer, r.Binary, r.BadQ, r.Arg, r.Chunked, bs)
}

func stepKey(kind string, r Req, got int, want interface{}) string {
	k := fmt.Sprintf("%s route=%s method=%s got=%d want=%v", kind, r.Route, r.Method, got, want)
	if r.Route == "mpub" {
		bin := len(r.Binary) > 0 && r.Binary[0] != "false" && r.Binary[0] != "0"
		k += fmt.Sprintf(" binary=%v chunked=%v", bin, r.Chunked)
	}
	return k
}

func contains(l []int, x int) bool {
	for _, v := range l {
		if v == x {
			return true
		}
	}
	return false
}

type worker struct {
	d        *Daemon
	h        *HTTPConn
	col      *collector
	tsyms    []string
	csyms    []string
	scratch  string
	maxDefer time.Duration
}

func (w *worker) restart() error {
	if w.d != nil {
		w.h.close()
		w.d.Stop()
	}
	d, err := startDaemon(w.scratch, w.d0MaxMsg(), w.d0MaxBody(), w.maxDefer)
	if err != nil {
		return err
	}
	w.d = d
	w.h = &HTTPConn{addr: d.HTTPAddr}
	return nil
}

var gMaxMsg, gMaxBody int64

func (w *worker) d0MaxMsg() int64  { return gMaxMsg }
func (w *worker) d0MaxBody() int64 { return gMaxBody }

// waitObs polls GET /stats until the projection equals want (and nothing foreign exists).
// Returns the last observation, whether it matched, and whether the last observation was stable.
func (w *worker) waitObs(nm Names, want Obs, limit time.Duration) (Obs, []string, bool, bool, error) {
	start := time.Now()
	sleep := 100 * time.Microsecond
	var last Obs
	var lastStr []string
	var lastChange time.Time
	for {
		sd, err := fetchStats(w.h)
		if err != nil {
			return nil, nil, false, false, err
		}
		o, strangers := project(sd, w.tsyms, w.csyms, nm.T, nm.C)
		if len(strangers) == 0 && obsEqual(o, want) {
			return o, nil, true, true, nil
		}
		if last == nil || !obsEqual(o, last) || strings.Join(strangers, ",") != strings.Join(lastStr, ",") {
			lastChange = time.Now()
		}
		last, lastStr = o, strangers
		if time.Since(start) > limit {
			return last, lastStr, false, time.Since(lastChange) > limit/3, nil
		}
		time.Sleep(sleep)
		if sleep < 50*time.Millisecond {
			sleep *= 3
		}
	}
}

// withTopic: pre plus a fresh topic sym (what a rejected publish may leave behind)
func withTopic(pre Obs, sym string, csyms []string) Obs {
	b, _ := json.Marshal(pre)
	var o Obs
	json.Unmarshal(b, &o)
	t := o[sym]
	if !t.Ex {
		t = TopicObs{Ex: true, Ch: map[string]ChanObs{}}
		for _, c := range csyms {
			t.Ch[c] = ChanObs{}
		}
		o[sym] = t
	}
	return o
}

func isSym(s string, syms []string) bool {
	for _, x := range syms {
		if x == s {
			return true
		}
	}
	return false
}

// runBehaviour replays one behaviour with one concretisation.
func (w *worker) runBehaviour(b *Behaviour, idx int, rng *rand.Rand) {
	hasChanDelete := false
	for _, s := range b.Steps {
		if s.Req.Route == "channel_delete" {
			hasChanDelete = true
		}
	}
	for _, r := range b.Pre {
		if r.Route == "channel_delete" {
			hasChanDelete = true
		}
	}
	nm := newNames(rng, w.tsyms, w.csyms, !hasChanDelete)
	cz := &Concretiser{rng: rng, maxMsg: w.d.MaxMsg, maxBody: w.d.MaxBody, maxDefer: w.d.MaxDefer}
	w.d.wipe()
	pre := emptyObs(w.tsyms, w.csyms)
	type sent struct {
		Step    int    `json:"step"`
		Request string `json:"request"`
		Status  int    `json:"status"`
		Body    string `json:"body"`
	}
	var log []sent
	replay := func(extra string) map[string]interface{} {
		return map[string]interface{}{"behaviour_index": idx, "names": nm, "sent": log, "detail": extra,
			"max_msg_size": w.d.MaxMsg, "max_body_size": w.d.MaxBody, "behaviour": b}
	}
	// prefix: must simply succeed as the model says
	steps := make([]Step, 0, len(b.Pre)+len(b.Steps))
	for _, r := range b.Pre {
		steps = append(steps, Step{Req: r, Status: 200, Allowed: []int{200}, Msg: "#pre"})
	}
	steps = append(steps, b.Steps...)
	for i, st := range steps {
		normReq(&st.Req)
		isPre := st.Msg == "#pre"
		var c *Concrete
		var resp *HTTPResp
		var err error
		if strings.HasPrefix(st.Req.Route, "tcp_") {
			// a TCP publish inside a behaviour (the model treats it as one more request of the alphabet)
			c, resp, err = w.tcpStep(st.Req, cz, nm)
			if err != nil {
				w.col.inconclusive("tcp step: " + err.Error())
				return
			}
		} else {
			c, err = cz.concretise(st.Req, nm)
			if err != nil {
				w.col.inconclusive("concretise: " + err.Error())
				return
			}
			resp, err = w.h.do(c.Method, c.Raw, 60*time.Second)
		}
		if err != nil {
			// a complete request must be answered
			if perr := w.ping(); perr != nil {
				w.col.violation("daemon-down route="+st.Req.Route, fmt.Sprintf("no answer to %s %s (%v) and the daemon no longer answers /ping (%v)", c.Method, c.Target, err, perr), replay(""))
				w.restart()
				return
			}
			w.col.violation(stepKey("noanswer", st.Req, 0, st.Allowed), fmt.Sprintf("complete request %s %s got no well-formed HTTP answer: %v", c.Method, trunc(c.Target, 300), err), replay(""))
			return
		}
		log = append(log, sent{i, trunc(string(c.Raw), 600), resp.Status, trunc(string(resp.Body), 200)})
		gotMsg, malformed := "", ""
		if strings.HasPrefix(st.Req.Route, "tcp_") {
			gotMsg = string(resp.Body)
		} else {
			gotMsg, malformed = checkShape(st.Req, resp)
		}
		w.col.outcome(st.Req, resp.Status, gotMsg)
		if isPre {
			if resp.Status != 200 {
				// a prefix request is a valid admin request the model answers 200 in the state the earlier prefix
				// requests (all answered 200) should have produced: the daemon's own answer says otherwise
				w.col.violation(stepKey("prefix-status", st.Req, resp.Status, []int{200}),
					fmt.Sprintf("valid request %s %s (building the state for the enumerated request, after earlier requests were all answered 200) was answered %d %s",
						c.Method, trunc(c.Target, 300), resp.Status, trunc(string(resp.Body), 100)), replay(""))
				return
			}
			if i == len(b.Pre)-1 && b.PrePost != nil {
				// the enumerated request must meet a quiescent registry in exactly the state the model starts from
				got, strangers, ok, _, err := w.waitObs(nm, b.PrePost, 30*time.Second)
				if err == nil && !ok && len(strangers) == 0 {
					// every prefix request was answered 200, nobody else touched the daemon, 30 s have passed
					w.col.violation("prefix-effect route="+st.Req.Route,
						fmt.Sprintf("create/delete/pause requests that were all answered 200 did not have their stated effect: registry %s, stated %s",
							obsString(got), obsString(b.PrePost)), replay(""))
					return
				}
				if err != nil || !ok {
					w.col.inconclusive(fmt.Sprintf("prefix did not reach the model's registry state: %v got %s strangers=%v want %s",
						err, obsString(got), strangers, obsString(b.PrePost)))
					return
				}
				pre = b.PrePost
			}
			continue
		}
		// ---- status
		if resp.Status == 500 {
			w.col.violation(stepKey("status", st.Req, 500, st.Allowed),
				fmt.Sprintf("complete request %s %s was answered 500 %s (the property allows %v)", c.Method, trunc(c.Target, 300), trunc(string(resp.Body), 100), st.Allowed), replay(""))
			return
		}
		if !contains(st.Allowed, resp.Status) {
			w.col.violation(stepKey("status", st.Req, resp.Status, st.Allowed),
				fmt.Sprintf("%s %s (body %d bytes, chunked=%v) was answered %d %s; the property allows %v (table: %d %s)",
					c.Method, trunc(c.Target, 300), len(c.Body), c.Chunked, resp.Status, trunc(string(resp.Body), 100), st.Allowed, st.Status, st.Msg), replay(""))
			return
		}
		if malformed != "" {
			w.col.violation(stepKey("malformed", st.Req, resp.Status, st.Allowed),
				fmt.Sprintf("%s %s: answer %d is not well-formed: %s", c.Method, trunc(c.Target, 300), resp.Status, malformed), replay(""))
			return
		}
		exact := resp.Status == st.Status
		if !exact {
			w.col.drift(stepKey("status-drift", st.Req, resp.Status, st.Status),
				fmt.Sprintf("%s %s answered %d, table says %d %s (both allowed by the property)", c.Method, trunc(c.Target, 300), resp.Status, st.Status, st.Msg), replay(""))
		} else if st.Msg != "*" && st.Req.Method != "HEAD" && gotMsg != st.Msg {
			w.col.drift(stepKey("message-drift", st.Req, resp.Status, st.Msg),
				fmt.Sprintf("%s %s answered %d %q, table says %q", c.Method, trunc(c.Target, 300), resp.Status, gotMsg, st.Msg), replay(""))
		}
		// ---- effect
		want := st.Post
		if !exact {
			want = pre
		}
		got, strangers, ok, stable, err := w.waitObs(nm, want, 15*time.Second)
		if err != nil {
			w.col.inconclusive("stats: " + err.Error())
			return
		}
		if !ok {
			detail := fmt.Sprintf("after %s %s -> %d: /stats shows %s strangers=%v, expected %s (before the request: %s)",
				c.Method, trunc(c.Target, 300), resp.Status, obsString(got), strangers, obsString(want), obsString(pre))
			if !stable {
				w.col.inconclusive("registry still changing at the deadline: " + detail)
				return
			}
			// property level: an accepted request has exactly the stated effect; a rejected one changes nothing,
			// except that a publish may have created the valid topic it names
			propOK := false
			if resp.Status != 200 && len(strangers) == 0 {
				if obsEqual(got, pre) {
					propOK = true
				} else if (st.Req.Route == "pub" || st.Req.Route == "mpub") && len(st.Req.Topic) > 0 && isSym(st.Req.Topic[0], w.tsyms) &&
					obsEqual(got, withTopic(pre, st.Req.Topic[0], w.csyms)) {
					propOK = true
				}
			}
			if propOK || (resp.Status == 200 && !exact) {
				w.col.drift(stepKey("effect-drift", st.Req, resp.Status, st.Status), detail, replay(""))
			} else {
				w.col.violation(stepKey("effect", st.Req, resp.Status, st.Status), "wrong effect: "+detail, replay(""))
			}
			return
		}
		if !exact {
			return
		}
		pre = st.Post
		if i == len(steps)-1 {
			w.col.sample(map[string]interface{}{"request": trunc(string(c.Raw), 300), "status": resp.Status, "answer": trunc(string(resp.Body), 80),
				"stats_after": got, "class": st.Req})
		}
	}
}

// tcpStep performs tcp_pub / tcp_dpub / tcp_mpub; the answer is mapped to the model's 200 "OK" / 400 "<code>"
func (w *worker) tcpStep(r Req, cz *Concretiser, nm Names) (*Concrete, *HTTPResp, error) {
	save := cz.canonical
	cz.canonical = true
	defer func() { cz.canonical = save }()
	c := &Concrete{Method: "TCP", Deferms: -1}
	topic := cz.name(r.Topic[0], nm.T)
	c.Body = cz.bodyBytes(r.Body, false)
	var line string
	switch r.Route {
	case "tcp_pub":
		line = "PUB " + topic
	case "tcp_dpub":
		sp := deferSpellings(r.Defer[0], cz.maxDefer, cz.rng, false)
		if len(sp.canon) == 0 {
			return nil, nil, fmt.Errorf("no canonical spelling for %q", r.Defer[0])
		}
		line = "DPUB " + topic + " " + pick(cz.rng, sp.canon)
	default:
		line = "MPUB " + topic
	}
	c.Target = line
	c.Raw = []byte(line + " + " + fmt.Sprint(len(c.Body)) + " bytes")
	pc, err := dialNSQ(w.d.TCPAddr)
	if err != nil {
		return nil, nil, err
	}
	defer pc.Close()
	code, err := pc.command(line, c.Body, true)
	if err != nil {
		return nil, nil, err
	}
	resp := &HTTPResp{Status: 400, Body: []byte(code)}
	if code == "OK" {
		resp.Status = 200
	}
	return c, resp, nil
}

func (w *worker) ping() error {
	h := &HTTPConn{addr: w.d.HTTPAddr}
	defer h.close()
	r, err := h.do("GET", []byte("GET /ping HTTP/1.1\r\nHost: nsqd\r\n\r\n"), 30*time.Second)
	if err != nil {
		return err
	}
	if r.Status != 200 {
		return fmt.Errorf("ping %d", r.Status)
	}
	return nil
}

// ---------------------------------------------------------------- twin experiments (HttpPubEqTcpPub)

func multiset(ds []Delivery) []string {
	var l []string
	for _, d := range ds {
		l = append(l, string(d.Body))
	}
	sort.Strings(l)
	return l
}

func encodeMPUB(msgs [][]byte) []byte {
	var w bytes.Buffer
	var tmp [4]byte
	binary.BigEndian.PutUint32(tmp[:], uint32(len(msgs)))
	w.Write(tmp[:])
	for _, m := range msgs {
		binary.BigEndian.PutUint32(tmp[:], uint32(len(m)))
		w.Write(tmp[:])
		w.Write(m)
	}
	return w.Bytes()
}

// runTwin: the same abstract publish over HTTP on topic H and over TCP on topic T; both drained and compared.
func (w *worker) runTwin(st Step, rng *rand.Rand) {
	req := st.Req
	normReq(&req)
	w.d.wipe()
	cz := &Concretiser{rng: rng, maxMsg: w.d.MaxMsg, maxBody: w.d.MaxBody, maxDefer: w.d.MaxDefer, canonical: true, longSmall: true}
	validName := isSym(req.Topic[0], w.tsyms)
	H, T := randValidName(rng, false), randValidName(rng, false)
	for H == T {
		T = randValidName(rng, false)
	}
	const ch = "drain"
	nm := Names{T: map[string]string{}, C: map[string]string{}}
	if validName {
		nm.T[req.Topic[0]] = H
	}
	c, err := cz.concretise(req, nm)
	if err != nil {
		w.col.inconclusive("twin concretise: " + err.Error())
		return
	}
	if !validName {
		H, T = c.TopicS, c.TopicS
	}
	replay := func(extra string) map[string]interface{} {
		return map[string]interface{}{"twin": true, "class": req, "http_request": trunc(string(c.Raw), 800), "http_topic": H, "tcp_topic": T, "detail": extra,
			"max_msg_size": w.d.MaxMsg, "max_body_size": w.d.MaxBody}
	}
	var consH, consT *TCPConn
	if validName {
		for _, t := range []string{H, T} {
			w.d.N.GetTopic(t).GetChannel(ch)
		}
		var err error
		for i, t := range []string{H, T} {
			var cn *TCPConn
			cn, err = dialNSQ(w.d.TCPAddr)
			if err != nil {
				break
			}
			defer cn.Close()
			var a string
			if a, err = cn.command("SUB "+t+" "+ch, nil, false); err != nil || a != "OK" {
				err = fmt.Errorf("SUB: %v %s", err, a)
				break
			}
			cn.c.Write([]byte("RDY 100\n"))
			if i == 0 {
				consH = cn
			} else {
				consT = cn
			}
		}
		if err != nil {
			w.col.inconclusive("twin consumer: " + err.Error())
			return
		}
	}
	// ---- HTTP side
	t0 := time.Now()
	resp, err := w.h.do(c.Method, c.Raw, 60*time.Second)
	if err != nil {
		w.col.inconclusive("twin http: " + err.Error())
		return
	}
	w.col.outcome(req, resp.Status, "")
	// ---- TCP side: what an honest TCP client sends for the same publish
	var msgs [][]byte
	for _, sl := range st.Enq {
		if sl.At+sl.N <= int64(len(c.Body)) {
			msgs = append(msgs, c.Body[sl.At:sl.At+sl.N])
		}
	}
	var line string
	var payload []byte
	switch {
	case req.Route == "pub" && len(req.Defer) == 0:
		line, payload = "PUB "+T, c.Body
	case req.Route == "pub":
		line, payload = "DPUB "+T+" "+c.DeferS, c.Body
	case req.Route == "mpub" && len(req.Binary) > 0 && req.Binary[0] != "false" && req.Binary[0] != "0":
		line, payload = "MPUB "+T, c.Body
	default:
		if st.Status != 200 || len(msgs) == 0 {
			return // no TCP equivalent
		}
		line, payload = "MPUB "+T, encodeMPUB(msgs)
	}
	pc, err := dialNSQ(w.d.TCPAddr)
	if err != nil {
		w.col.inconclusive("twin tcp: " + err.Error())
		return
	}
	defer pc.Close()
	t1 := time.Now()
	code, err := pc.command(line, payload, true)
	if err != nil {
		w.col.inconclusive(fmt.Sprintf("twin tcp %q: %v", trunc(line, 80), err))
		return
	}
	w.col.mu.Lock()
	w.col.rep.TwinRuns++
	w.col.mu.Unlock()
	httpOK, tcpOK := resp.Status == 200, code == "OK"
	if httpOK != tcpOK {
		w.col.violation(fmt.Sprintf("twin-accept route=%s http=%d tcp=%s chunked=%v", req.Route, resp.Status, code, req.Chunked),
			fmt.Sprintf("HTTP %s %s (body %d bytes, chunked=%v) -> %d %s, but the equivalent TCP %q (payload %d bytes) -> %s: not the same limits",
				c.Method, trunc(c.Target, 200), len(c.Body), c.Chunked, resp.Status, trunc(string(resp.Body), 60), trunc(line, 120), len(payload), code), replay(""))
		return
	}
	if !validName {
		return
	}
	want := 0
	if httpOK {
		want = len(msgs)
		if st.Status != 200 {
			w.col.drift(stepKey("twin-status-drift", req, resp.Status, st.Status), "accepted by both, table says rejected", replay(""))
			return
		}
		w.col.mu.Lock()
		w.col.rep.TwinAccepted++
		w.col.mu.Unlock()
	}
	longDefer := httpOK && c.Deferms > 2000
	deliver := want
	if longDefer {
		deliver = 0
	}
	deadline := time.Now().Add(30 * time.Second)
	linger := 15 * time.Millisecond
	dH, errH := consH.consume(deliver, deadline, linger)
	dT, errT := consT.consume(deliver, deadline, linger)
	if errH != nil || errT != nil {
		w.col.inconclusive(fmt.Sprintf("twin drain: %v %v", errH, errT))
		return
	}
	w.col.mu.Lock()
	w.col.rep.Delivered += int64(len(dH) + len(dT))
	w.col.mu.Unlock()
	var exp []string
	if !longDefer {
		for _, m := range msgs[:want] {
			exp = append(exp, string(m))
		}
	}
	sort.Strings(exp)
	mH, mT := multiset(dH), multiset(dT)
	js := func(l []string) string { b, _ := json.Marshal(l); return trunc(string(b), 400) }
	if js(mH) != js(mT) || js(mH) != js(exp) {
		late := len(mH) < len(exp) || len(mT) < len(exp)
		what := fmt.Sprintf("after HTTP %s %s -> %d and TCP %q -> %s the channels delivered different messages: http-topic %s, tcp-topic %s, expected %s",
			c.Method, trunc(c.Target, 200), resp.Status, trunc(line, 100), code, js(mH), js(mT), js(exp))
		if late && len(mH) <= len(exp) && len(mT) <= len(exp) {
			// only missing messages at a deadline: could be slowness -- look at the counters before judging
			sd, err := fetchStats(w.h)
			if err == nil {
				what += fmt.Sprintf(" stats=%+v", sd.Topics)
			}
			w.col.inconclusive("twin drain incomplete at the deadline: " + what)
			return
		}
		w.col.violation(fmt.Sprintf("twin-deliver route=%s", req.Route), what, replay(""))
		return
	}
	// deferral: never early (client clock taken before the request was written)
	if c.Deferms > 0 && !longDefer {
		for _, d := range dH {
			if d.At.Sub(t0) < time.Duration(c.Deferms)*time.Millisecond {
				w.col.violation("twin-early route=pub side=http", fmt.Sprintf("message deferred %d ms over HTTP was delivered after %v", c.Deferms, d.At.Sub(t0)), replay(""))
			}
		}
		for _, d := range dT {
			if d.At.Sub(t1) < time.Duration(c.Deferms)*time.Millisecond {
				w.col.violation("twin-early route=pub side=tcp", fmt.Sprintf("message deferred %d ms over TCP was delivered after %v", c.Deferms, d.At.Sub(t1)), replay(""))
			}
		}
	}
	for _, d := range append(append([]Delivery{}, dH...), dT...) {
		if d.Attempts != 1 {
			w.col.violation("twin-attempts", fmt.Sprintf("first delivery carries attempts=%d", d.Attempts), replay(""))
		}
	}
	// counters of both topics must agree with each other and with the enqueue
	sd, err := fetchStats(w.h)
	if err != nil {
		w.col.inconclusive("twin stats: " + err.Error())
		return
	}
	type cnt struct{ mc, mb, cmc, def int64 }
	got := map[string]cnt{}
	for _, t := range sd.Topics {
		x := cnt{mc: t.MessageCount, mb: t.MessageBytes}
		for _, cs := range t.Channels {
			if cs.ChannelName == ch {
				x.cmc, x.def = cs.MessageCount, cs.DeferredCount
			}
		}
		got[t.TopicName] = x
	}
	var wb int64
	for _, m := range msgs[:want] {
		wb += int64(len(m))
	}
	wantCnt := cnt{mc: int64(want), mb: wb, cmc: int64(want)}
	if longDefer {
		wantCnt.def = int64(want)
	}
	if got[H] != wantCnt || got[T] != wantCnt {
		// channel message_count is written by the topic pump: give it a moment before judging
		ok := false
		for i := 0; i < 200 && !ok; i++ {
			time.Sleep(10 * time.Millisecond)
			if sd, err = fetchStats(w.h); err != nil {
				break
			}
			for _, t := range sd.Topics {
				x := cnt{mc: t.MessageCount, mb: t.MessageBytes}
				for _, cs := range t.Channels {
					if cs.ChannelName == ch {
						x.cmc, x.def = cs.MessageCount, cs.DeferredCount
					}
				}
				got[t.TopicName] = x
			}
			ok = got[H] == wantCnt && got[T] == wantCnt
		}
		if !ok {
			w.col.violation(fmt.Sprintf("twin-counters route=%s", req.Route),
				fmt.Sprintf("counters after the twin publish: http-topic %+v tcp-topic %+v expected %+v", got[H], got[T], wantCnt), replay(""))
		}
	}
}

// ---------------------------------------------------------------- command

func readBehaviours(path string) ([]*Behaviour, error) {
	f, err := os.Open(path)
	if err != nil {
		return nil, err
	}
	defer f.Close()
	var out []*Behaviour
	sc := bufio.NewScanner(f)
	sc.Buffer(make([]byte, 1<<20), 64<<20)
	for sc.Scan() {
		line := bytes.TrimSpace(sc.Bytes())
		if len(line) == 0 {
			continue
		}
		var b Behaviour
		if err := json.Unmarshal(line, &b); err != nil {
			return nil, fmt.Errorf("behaviour %d: %v", len(out), err)
		}
		out = append(out, &b)
	}
	return out, sc.Err()
}

func replayCmd(args []string) int {
	fs := flag.NewFlagSet("replay", flag.ExitOnError)
	beh := fs.String("beh", "", "behaviours (ndjson)")
	rep := fs.String("report", "report.json", "report output")
	seed := fs.Int64("seed", 1, "seed")
	workers := fs.Int("workers", 8, "parallel daemons")
	maxMsg := fs.Int64("maxmsg", 5, "max-msg-size = MaxMsg of the model")
	maxBody := fs.Int64("maxbody", 24, "max-body-size = MaxBody of the model")
	topics := fs.String("topics", "t1,t2", "topic symbols")
	channels := fs.String("channels", "c1,c2", "channel symbols")
	variants := fs.Int("variants", 1, "concretisations per behaviour")
	twinVariants := fs.Int("twin-variants", 1, "concretisations per distinct publish class in the twin experiments")
	scratch := fs.String("scratch", "", "scratch dir")
	fs.Parse(args)
	gMaxMsg, gMaxBody = *maxMsg, *maxBody

	bs, err := readBehaviours(*beh)
	if err != nil {
		fmt.Fprintln(os.Stderr, err)
		return 2
	}
	col := newCollector()
	col.rep.Behaviours = len(bs) * *variants
	tsyms, csyms := strings.Split(*topics, ","), strings.Split(*channels, ",")

	// distinct publish classes that have a TCP twin
	twins := map[string]Step{}
	for _, b := range bs {
		for _, s := range b.Steps {
			if s.Twin {
				normReq(&s.Req)
				k, _ := json.Marshal(s.Req)
				twins[string(k)] = s
			}
		}
	}
	var twinKeys []string
	for k := range twins {
		twinKeys = append(twinKeys, k)
	}
	sort.Strings(twinKeys)

	type job struct {
		kind string
		idx  int
		v    int
	}
	jobs := make(chan job, 1024)
	var wg sync.WaitGroup
	for i := 0; i < *workers; i++ {
		wg.Add(1)
		go func(i int) {
			defer wg.Done()
			w := &worker{col: col, tsyms: tsyms, csyms: csyms, scratch: *scratch, maxDefer: time.Hour}
			if err := w.restart(); err != nil {
				col.inconclusive("cannot start nsqd: " + err.Error())
				for range jobs {
				}
				return
			}
			defer func() {
				if err := w.ping(); err != nil {
					col.violation("daemon-down-at-end", "nsqd no longer answers /ping after the replay: "+err.Error(), nil)
				}
				w.h.close()
				w.d.Stop()
			}()
			for j := range jobs {
				rng := rand.New(rand.NewSource(*seed*1000003 + int64(j.idx)*131 + int64(j.v)*7919 + int64(len(j.kind))))
				if j.kind == "beh" {
					w.runBehaviour(bs[j.idx], j.idx, rng)
				} else {
					w.runTwin(twins[twinKeys[j.idx]], rng)
				}
			}
		}(i)
	}
	for v := 0; v < *variants; v++ {
		for i := range bs {
			jobs <- job{"beh", i, v}
		}
	}
	for v := 0; v < *twinVariants; v++ {
		for i := range twinKeys {
			jobs <- job{"twin", i, v}
		}
	}
	close(jobs)
	wg.Wait()
	col.rep.DistinctShapes = len(col.shapes)
	col.rep.Notes["twin_classes"] = int64(len(twinKeys))
	for k, n := range col.vkeys {
		col.rep.Notes["violation:"+k] = int64(n)
	}
	for k, n := range col.dkeys {
		col.rep.Notes["drift:"+k] = int64(n)
	}
	if err := hlib.WriteJSON(*rep, col.rep); err != nil {
		fmt.Fprintln(os.Stderr, err)
		return 2
	}
	if len(col.rep.Violations) > 0 {
		return 1
	}
	return 0
}
