SPECIFICATION SpecUntimed
CONSTANTS
  Producers = {"p1", "p2"}
  Topics = {"t1", "t2#ephemeral"}
  Channels = {"c2#ephemeral"}
  EphTopics = {"t2#ephemeral"}
  EphChannels = {"c2#ephemeral"}
  SharedNode = {"p1", "p2"}
  InactiveK = 1000
  TombK = 1000
  MaxNow = 0
VIEW view
INVARIANT StateOut
ACTION_CONSTRAINT EdgeOut
CHECK_DEADLOCK FALSE
