package main

// The abstraction function of binding B: an arbitrary byte stream -> the command classes of NsqdTcp.
// It follows the daemon's framing rules only (4-byte magic; lines of at most 16 KiB split on single
// spaces; 4-byte big-endian sizes; MPUB layout) and decides class membership with its own predicates.
// It never decides outcomes: TLC does, with the table.  Whatever it cannot name exactly is "opaque".

import (
	"bytes"
	"encoding/binary"
	"encoding/json"
	"math/big"
	"strings"
)

type CEvent struct {
	Cmd    Cmd
	NMsgs  int
	Opaque bool
	Topic  string // the topic parameter as written (publishes and SUB)
}

func validNameLocal(s string) bool {
	if len(s) < 1 || len(s) > 64 {
		return false
	}
	body := strings.TrimSuffix(s, "#ephemeral")
	if body == "" {
		return false
	}
	for i := 0; i < len(body); i++ {
		if strings.IndexByte(nameChars, body[i]) < 0 {
			return false
		}
	}
	return true
}

func nameClass(s string) string {
	switch {
	case s == "":
		return "emptyname"
	case validNameLocal(s) && strings.HasSuffix(s, "#ephemeral"):
		return "eph"
	case validNameLocal(s):
		return "valid"
	case len(s) > 64:
		return "toolong"
	}
	return "badchar"
}

// numClass: class of a decimal parameter against limit max (classes outside [0,max] only need to be
// on the right side of "parses as uint64").
func numClass(p []byte, max int64) string {
	if len(p) == 0 {
		return "empty"
	}
	for _, c := range p {
		if c < '0' || c > '9' {
			return "nondigit"
		}
	}
	v, _ := new(big.Int).SetString(string(p), 10)
	switch {
	case v.Cmp(two64) >= 0:
		return "ovf64"
	case v.Sign() == 0:
		return "zero"
	case v.Cmp(big.NewInt(1)) == 0:
		return "one"
	case v.Cmp(big.NewInt(max)) < 0:
		return "mid"
	case v.Cmp(big.NewInt(max)) == 0:
		return "max"
	}
	return "maxp1"
}

// sizeClass reads a 4-byte size and the body behind it.  rest: what follows an acceptable body.
func sizeClass(b []byte, max int64) (class string, n int64, rest []byte) {
	if len(b) < 4 {
		return "trunclen", 0, nil
	}
	v := int64(int32(binary.BigEndian.Uint32(b)))
	switch {
	case v == 0:
		return "zero", 0, nil
	case v < 0:
		return "neg", 0, nil
	case v > max:
		return "maxp1", 0, nil
	case int64(len(b)-4) < v:
		return "truncbody", 0, nil
	}
	class = "mid"
	if v == 1 {
		class = "one"
	} else if v == max {
		class = "max"
	}
	return class, v, b[4+v:]
}

func identifyClass(body []byte, L Limits) (a, b string, ok bool) {
	trim := bytes.TrimSpace(body)
	if string(trim) == "null" {
		return "body", "null", true
	}
	dec := json.NewDecoder(bytes.NewReader(body))
	dec.UseNumber()
	tok, err := dec.Token()
	if err != nil {
		return "", "", false
	}
	if d, isDelim := tok.(json.Delim); !isDelim || d != '{' {
		return "", "", false
	}
	seen := map[string]bool{}
	fn := false
	field, val := "", int64(0)
	for dec.More() {
		kt, err := dec.Token()
		if err != nil {
			return "", "", false
		}
		k, isStr := kt.(string)
		if !isStr {
			return "", "", false
		}
		lk := strings.ToLower(k)
		if seen[lk] || lk != k {
			return "", "", false
		}
		seen[lk] = true
		vt, err := dec.Token()
		if err != nil {
			return "", "", false
		}
		switch k {
		case "client_id", "hostname", "user_agent":
			if _, isS := vt.(string); !isS {
				return "", "", false
			}
		case "feature_negotiation":
			bv, isB := vt.(bool)
			if !isB {
				return "", "", false
			}
			fn = bv
		case "heartbeat_interval", "output_buffer_size", "output_buffer_timeout", "msg_timeout", "sample_rate":
			num, isN := vt.(json.Number)
			if !isN || field != "" {
				return "", "", false
			}
			iv, err := num.Int64()
			if err != nil || strings.ContainsAny(num.String(), ".eE") || iv > 1<<31-1 || iv < -(1<<31) {
				return "", "", false
			}
			field, val = k, iv
		default:
			return "", "", false // unknown or semantically loaded key (compression, tls, ...): not named
		}
	}
	if _, err := dec.Token(); err != nil { // closing brace
		return "", "", false
	}
	if dec.More() {
		return "", "", false
	}
	if _, err := dec.Token(); err == nil { // trailing data after the object
		return "", "", false
	}
	if field == "" {
		if fn {
			return "hb", "def0", true
		}
		if len(seen) == 0 {
			return "body", "empty", true
		}
		return "comp", "nofn", true
	}
	if !fn {
		return "", "", false
	}
	var f string
	var lo, hi int64
	offOK := true
	switch field {
	case "heartbeat_interval":
		f, lo, hi = "hb", 1000, L.MaxHeartbeatMs
	case "output_buffer_size":
		f, lo, hi = "obs", 64, L.MaxOutBufSize
	case "output_buffer_timeout":
		f, lo, hi = "obt", L.MinOutBufTimeout, L.MaxOutBufTimeout
	case "msg_timeout":
		f, lo, hi, offOK = "mt", 1000, L.MaxMsgTimeoutMs, false
	case "sample_rate":
		f, lo, hi, offOK = "sr", 1, 99, false
	}
	switch {
	case val == 0:
		return f, "def0", true
	case val == -1 && offOK:
		return f, "off", true
	case val < 0:
		return f, "neg", true
	case val < lo:
		if f == "sr" {
			return "", "", false
		}
		return f, "belowmin", true
	case val == lo:
		return f, "min", true
	case val < hi:
		return f, "mid", true
	case val == hi:
		return f, "max", true
	}
	return f, "maxp1", true
}

// Classify a whole client byte stream (the client closes its write side after the last byte).
func Classify(s []byte, L Limits) []CEvent {
	var out []CEvent
	emit := func(op, a, b, c string) { out = append(out, CEvent{Cmd: Cmd{op, a, b, c}}) }
	opaque := func() []CEvent { return append(out, CEvent{Opaque: true}) }
	if len(s) < 4 {
		emit("MAGIC", "short", "-", "-")
		return out
	}
	if string(s[:4]) != "  V2" {
		emit("MAGIC", "bad", "-", "-")
		return out
	}
	emit("MAGIC", "v2", "-", "-")
	s = s[4:]
	for {
		win := s
		if len(win) > lineBuf {
			win = win[:lineBuf]
		}
		nl := bytes.IndexByte(win, '\n')
		if nl < 0 {
			switch {
			case len(s) >= lineBuf:
				emit("LINE", "toolong", "-", "-")
			case len(s) == 0:
				emit("EOF", "clean", "-", "-")
			default:
				emit("EOF", "partial", "-", "-")
			}
			return out
		}
		line := s[:nl]
		s = s[nl+1:]
		if len(line) > 0 && line[len(line)-1] == '\r' {
			line = line[:len(line)-1]
		}
		p := bytes.Split(line, []byte(" "))
		switch string(p[0]) {
		case "NOP":
			emit("NOP", "plain", "-", "-")
		case "CLS":
			emit("CLS", "plain", "-", "-")
		case "RDY":
			if len(p) < 2 {
				emit("RDY", "absent", "-", "-")
			} else {
				emit("RDY", numClass(p[1], L.MaxRdy), "-", "-")
			}
		case "FIN", "TOUCH":
			switch {
			case len(p) < 2:
				emit(string(p[0]), "missing", "-", "-")
			case len(p[1]) == 16:
				emit(string(p[0]), "never", "-", "-")
			default:
				emit(string(p[0]), "short", "-", "-")
			}
		case "REQ":
			if len(p) < 3 {
				id := "missing"
				if len(p) == 2 && len(p[1]) == 16 {
					id = "never"
				} else if len(p) == 2 {
					id = "short"
				}
				emit("REQ", id, "missing", "-")
				break
			}
			id := "short"
			if len(p[1]) == 16 {
				id = "never"
			}
			emit("REQ", id, numClass(p[2], L.MaxReqTimeoutMs), "-")
		case "SUB":
			switch {
			case len(p) < 2:
				emit("SUB", "missing", "missing", "-")
			case len(p) < 3:
				emit("SUB", nameClass(string(p[1])), "missing", "-")
			default:
				out = append(out, CEvent{Cmd: Cmd{"SUB", nameClass(string(p[1])), nameClass(string(p[2])), "-"}, Topic: string(p[1])})
			}
		case "PUB":
			if len(p) < 2 {
				emit("PUB", "missing", "-", "-")
				break
			}
			cls, _, rest := sizeClass(s, L.MaxMsgSize)
			out = append(out, CEvent{Cmd: Cmd{"PUB", nameClass(string(p[1])), cls, "-"}, NMsgs: 1, Topic: string(p[1])})
			s = rest
		case "DPUB":
			if len(p) < 3 {
				n := "missing"
				if len(p) == 2 {
					n = nameClass(string(p[1]))
				}
				emit("DPUB", n, "missing", "-")
				break
			}
			cls, _, rest := sizeClass(s, L.MaxMsgSize)
			out = append(out, CEvent{Cmd: Cmd{"DPUB", nameClass(string(p[1])), numClass(p[2], L.MaxReqTimeoutMs), cls}, NMsgs: 1, Topic: string(p[1])})
			s = rest
		case "MPUB":
			if len(p) < 2 {
				emit("MPUB", "missing", "-", "-")
				break
			}
			name := nameClass(string(p[1]))
			cls, n, rest := mpubClass(s, L)
			out = append(out, CEvent{Cmd: Cmd{"MPUB", name, cls, "-"}, NMsgs: n, Topic: string(p[1])})
			s = rest
		case "AUTH":
			b := "-"
			if len(p) != 1 {
				b = "extra"
			}
			cls, _, rest := sizeClass(s, L.MaxBodySize)
			if cls == "one" || cls == "mid" || cls == "max" {
				cls = "ok"
			}
			emit("AUTH", cls, b, "-")
			s = rest
		case "IDENTIFY":
			cls, n, rest := sizeClass(s, L.MaxBodySize)
			if cls != "one" && cls != "mid" && cls != "max" {
				emit("IDENTIFY", "body", cls, "-")
				break
			}
			a, b, ok := identifyClass(s[4:4+n], L)
			if !ok {
				return opaque()
			}
			emit("IDENTIFY", a, b, "-")
			s = rest
		default:
			emit("BADCMD", "unknown", "-", "-")
		}
		if s == nil {
			s = []byte{}
		}
	}
}

// mpubClass: [4 body size][4 count] count * ([4 size][body]); the body size is only range-checked.
func mpubClass(b []byte, L Limits) (class string, n int, rest []byte) {
	if len(b) < 4 {
		return "lentrunc", 0, nil
	}
	bl := int64(int32(binary.BigEndian.Uint32(b)))
	switch {
	case bl == 0:
		return "lenzero", 0, nil
	case bl < 0:
		return "lenneg", 0, nil
	case bl > L.MaxBodySize:
		return "lenmaxp1", 0, nil
	}
	b = b[4:]
	if len(b) < 4 {
		return "cnttrunc", 0, nil
	}
	cnt := int64(int32(binary.BigEndian.Uint32(b)))
	switch {
	case cnt == 0:
		return "cntzero", 0, nil
	case cnt < 0:
		return "cntneg", 0, nil
	case cnt > L.MaxMpubCount():
		return "cntmaxp1", 0, nil
	}
	b = b[4:]
	for i := int64(0); i < cnt; i++ {
		cls, _, r := sizeClass(b, L.MaxMsgSize)
		switch cls {
		case "trunclen":
			return "msgtrunclen_last", 0, nil
		case "zero":
			return "msgzero_first", 0, nil
		case "neg":
			return "msgneg_mid", 0, nil
		case "maxp1":
			return "msgmaxp1_first", 0, nil
		case "truncbody":
			return "msgtruncbody_last", 0, nil
		}
		b = r
	}
	return "ok2", int(cnt), b
}
