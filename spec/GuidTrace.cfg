SPECIFICATION TraceSpec
CONSTANTS
  SeqMask = 4095
  MaxClock = 1000000000
  MaxBack = 0
  Nodes = {0, 1, 511, 1023}
CONSTRAINT HW
INVARIANTS HighWater LastIdNotAhead
PROPERTIES StrictlyIncreasing ErrLeavesLastId
POSTCONDITION TraceAccepted
CHECK_DEADLOCK FALSE
