\* replay family http (thorough): same as quick
SPECIFICATION Spec
CONSTANTS
  Policies <- AllPolicies
  Cmds <- NoCmds
  AnswersA <- SmallAnswers
  AnswersR <- SmallAnswers
  Waits = {0}
  MaxDepth = 1
  MaxNow = 0
  HttpReqs <- AllHttp
INVARIANTS TypeOK PropertyLevel PlainHttpServed RefetchIffExpired QueryCountLaw CodeStricter NeverOnExpiry EmitBehaviour
CHECK_DEADLOCK FALSE
