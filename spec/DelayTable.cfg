SPECIFICATION Spec
INVARIANTS RequeueNeverAboveMax ClampsExactlyWhenAbove DeferredAcceptedIffInRange NothingAcceptedUnclassified
CONSTRAINT Emit
CHECK_DEADLOCK FALSE
