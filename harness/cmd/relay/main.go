// Command relay: harness for C20 (to_nsq, nsq_to_nsq, nsq_to_http).
//
//	relay tonsq  --job job.json --report report.json        binding A for spec/ToNsq.tla
//	relay relay  --job job.json --report report.json --trace trace.ndjson   binding B for spec/Relay*.tla
//
// The tools under test are the real binaries built from the repository (paths come in the job file);
// everything around them (destination nsqds, source nsqd, logging proxy, fake destinations) lives here.
package main

import (
	"fmt"
	"os"
)

type subcmd func(args []string) int

var subcmds = map[string]subcmd{}

func main() {
	if len(os.Args) < 2 {
		fmt.Fprintln(os.Stderr, "usage: relay <tonsq|relay> [flags]")
		os.Exit(2)
	}
	f, ok := subcmds[os.Args[1]]
	if !ok {
		fmt.Fprintf(os.Stderr, "unknown subcommand %q\n", os.Args[1])
		os.Exit(2)
	}
	os.Exit(f(os.Args[2:]))
}
