SPECIFICATION TraceSpec
CONSTRAINT HW
POSTCONDITION TraceAccepted
CHECK_DEADLOCK FALSE
