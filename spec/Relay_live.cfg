\* quick, liveness (EventuallyArrives, Settles under fairness + schedules that end in accept-for-ever):
\* nsq_to_http shape (sync, 2 handler goroutines), round-robin; 1 item per destination; 1 request lost with its
\* connection; no source timeout
SPECIFICATION Spec
CONSTANTS
  Msgs = {1, 2}
  Dests = {1, 2}
  Kind = "sync"
  Mode = "rr"
  Handlers = 2
  Items = {"A", "R", "L", "D"}
  MaxSched = 1
  MaxBad = 2
  MaxTimeouts = 0
  MaxConnLost = 1
  MaxAttempts = 0
  Filter = FALSE
INVARIANTS TypeOK FinOnlyAfterAccept ReqOtherwise Unmodified AtLeastOnce NeverLost
PROPERTIES Refines FailedIsRequeued EventuallyArrives Settles
CHECK_DEADLOCK FALSE
