package main

// Binding A: every command-class sequence of the bounded model is concretised and sent over a real
// TCP connection to a real nsqd; frame type, error code, open/closed, negotiated values and the
// enqueue effect (GET /stats) are compared with the table after every command.

import (
	"encoding/json"
	"fmt"
	"hash/fnv"
	"math/rand"
	"regexp"
	"sort"
	"strings"
	"sync"
	"sync/atomic"
	"time"
)

const readDeadline = 30 * time.Second // >= 10x what an answer needs on a loaded machine

var barrierID = "VERIFBARRIERID00"
var pokeTouch = []byte("TOUCH " + barrierID + "\n")

type StepLog struct {
	State  string `json:"state"`
	Cmd    string `json:"cmd"`
	Bytes  string `json:"bytes"`
	Expect string `json:"expect"`
	Got    string `json:"got"`
}

type Mismatch struct {
	Kind     string    `json:"kind"` // frame code close enq echo topic deliver timeout infra
	Row      string    `json:"row"`
	What     string    `json:"what"`
	Steps    []StepLog `json:"steps"`
	Limits   Limits    `json:"limits"`
	EnvKind  string    `json:"env"`
	Attempts int       `json:"attempts"`
}

func (m *Mismatch) Key() string { return m.Kind + "@" + m.Row }

type negotiated struct{ mt, sr, obs, obt int64 }

type Worker struct {
	env   *Env
	id    int
	seed  int64
	g     *Gen
	pool  map[string]bool // persistent topics this worker publishes to
	names map[string]bool // every valid topic name this worker used
	nseq  int
	cmds  int64
	slowChecks int
	dyingRows  int64 // publishes sent (and judged) while the deletion of their topic was parked half-way
}

func seqSeed(seed int64, idx int, env string) int64 {
	h := fnv.New64a()
	fmt.Fprintf(h, "%d/%d/%s", seed, idx, env)
	return int64(h.Sum64() >> 1)
}

func isPub(op string) bool { return op == "PUB" || op == "MPUB" || op == "DPUB" }

func codeOf(data []byte) string {
	s := string(data)
	if i := strings.IndexByte(s, ' '); i >= 0 {
		return s[:i]
	}
	return s
}

func contains(l []string, s string) bool {
	for _, x := range l {
		if x == s {
			return true
		}
	}
	return false
}

// runSeq performs one attempt.  idx identifies the sequence (seeded members), attempt the retry.
func (w *Worker) runSeq(seq []Row, idx int, slowReqCheck bool) (mm *Mismatch) {
	e := w.env
	g := w.g
	g.Seq++
	g.seqNames = map[string]string{}
	g.R = rand.New(rand.NewSource(seqSeed(w.seed, idx, e.Kind)))
	g.Held, g.Other = nil, nil
	var steps []StepLog
	fail := func(kind string, r Row, f string, a ...interface{}) *Mismatch {
		what := fmt.Sprintf(f, a...)
		if len(steps) > 0 {
			steps[len(steps)-1].Got = what
		}
		return &Mismatch{Kind: kind, Row: r.Key(), What: what, Steps: steps, Limits: e.L, EnvKind: e.Kind}
	}
	t, err := Dial(e.TCP)
	if err != nil {
		return fail("infra", Row{}, "dial: %v", err)
	}
	var helper *TConn
	var helperSince time.Time
	var subTopic, subChan string
	var dying *DyingTopic // name class "dying": a topic of this sequence whose deletion is parked (dying.go)
	defer func() {
		t.Close()
		if dying != nil {
			dying.Release(readDeadline) // whatever happened: nothing stays parked
		}
		if helper != nil {
			helper.Close()
		}
		if subChan != "" && !strings.HasSuffix(subChan, "#ephemeral") {
			if err := e.DeleteChannel(subTopic, subChan); err != nil && mm == nil {
				mm = &Mismatch{Kind: "infra", What: "cleanup: " + err.Error(), Steps: steps}
			}
		}
	}()
	needOther := false
	for _, r := range seq {
		if (r.Cmd.Op == "FIN" || r.Cmd.Op == "REQ" || r.Cmd.Op == "TOUCH") && r.Cmd.A == "other" {
			needOther = true
		}
	}
	cur := negotiated{mt: e.L.MsgTimeoutMs, sr: 0, obs: 16384, obt: e.L.OutBufTimeout}
	base := map[string]int64{}
	baseDepth := map[string]int64{}
	added := map[string]int64{}
	deferred, brief := 0, 0
	clampedReq := false
	var last Row

	for _, r := range seq {
		last = r
		g.Held = t.Held
		var dyingErr error
		isDying := isPub(r.Cmd.Op) && r.Cmd.A == "dying"
		if isDying && dying == nil {
			// the topic exists, DeleteExistingTopic ran topic.Delete() and is held before the unlink
			if dying, dyingErr = e.StartDying(w.id, readDeadline); dyingErr == nil {
				g.seqNames["pub:dying"] = dying.Name
			} else {
				g.seqNames["pub:dying"] = dyingPrefix + "not-prepared"
			}
		}
		wire := g.Concretise(r.Cmd)
		atomic.AddInt64(&w.cmds, 1)
		steps = append(steps, StepLog{State: r.From.String(), Cmd: r.Cmd.String(), Bytes: wire.Desc, Expect: r.Expect()})
		if dyingErr != nil {
			// not the daemon's protocol behaviour: this sequence is inconclusive, never a violation
			return fail("infra", r, "the half-finished topic deletion could not be set up: %v", dyingErr)
		}
		if isDying {
			if !dying.Parked() {
				return fail("infra", r, "the deletion of %q is no longer parked before the publish was sent", dying.Name)
			}
			dying.Breadcrumb(e.scratch, idx, steps)
		}
		pub := isPub(r.Cmd.Op) && wire.Topic != ""
		if pub {
			if !isDying { // a dying topic is private to this sequence and must be gone afterwards
				w.pool[wire.Topic] = true
				w.names[wire.Topic] = true
			}
			if _, ok := base[wire.Topic]; !ok {
				ts, err := e.Topic(wire.Topic)
				if err != nil {
					return fail("infra", r, "stats: %v", err)
				}
				if ts != nil {
					base[wire.Topic], baseDepth[wire.Topic] = ts.Count, ts.Depth
				} else {
					base[wire.Topic], baseDepth[wire.Topic] = 0, 0
				}
			}
		}
		if (r.Cmd.Op == "FIN" || r.Cmd.Op == "REQ") && r.Cmd.A == "held" && r.Frame == "none" {
			t.TakeHeld()
		}
		t.Send(wire.Bytes, wire.HalfClose)

		// ---- the answer
		switch r.Frame {
		case "none":
			// commands without an answer: in a subscribed / closing connection a TOUCH of an id that was
			// never issued is a side-effect free barrier (non-fatal E_TOUCH_FAILED)
			if (r.To.St == "sub" || r.To.St == "closing") && !t.half {
				t.Send(pokeTouch, false)
				f, err := t.Next(readDeadline)
				if mm := w.judgeBarrier(r, f, err, fail); mm != nil {
					return mm
				}
			}
		case "resp", "err":
			var probe []byte
			var isProbe func(fres) bool
			switch {
			case r.From.St == "sub" || r.From.St == "closing":
				probe, isProbe = pokeTouch, isPokeAnswer
			case r.Fatal:
				probe = []byte("VERIFBARRIER\n")
				isProbe = func(f fres) bool {
					return f.ft == 1 && strings.HasPrefix(string(f.data), "E_INVALID invalid command VERIFBARRIER")
				}
			}
			f, silent, err := t.Answer(readDeadline, 2*time.Second, probe, isProbe)
			if silent {
				return fail("frame", r, "no answer: the command was taken silently where %q is defined", r.Expect())
			}
			if err == errTimeout {
				return fail("timeout", r, "no answer within %v", readDeadline)
			}
			if err != nil {
				if isClose(err) {
					return fail("close", r, "connection closed without the defined answer (%v)", err)
				}
				return fail("frame", r, "unreadable answer: %v", err)
			}
			if r.Frame == "err" {
				if f.ft != 1 {
					return fail("frame", r, "accepted (frame type %d %q) where an error is defined", f.ft, trunc(f.data))
				}
				if c := codeOf(f.data); !contains(r.Codes, c) {
					return fail("code", r, "error %q is not one of the documented codes %v", trunc(f.data), r.Codes)
				}
			} else {
				if f.ft != 0 {
					return fail("frame", r, "frame type %d %q where a response is defined", f.ft, trunc(f.data))
				}
				if mm := w.checkResp(r, wire, f.data, t, &cur, fail); mm != nil {
					return mm
				}
			}
		case "close":
			extra, err := t.Closed(readDeadline)
			if err == errTimeout {
				return fail("timeout", r, "connection still open after %v", readDeadline)
			}
			if err != nil {
				return fail("frame", r, "unreadable: %v", err)
			}
			if extra != nil {
				return fail("frame", r, "frame type %d %q where the connection is closed without an answer", extra.ft, trunc(extra.data))
			}
		}
		if r.Fatal && r.Frame == "err" {
			extra, err := t.Closed(2 * time.Second)
			if err == errTimeout && !t.half {
				// still open: a command that always has an answer tells "closing slowly" from "still serving"
				t.Send([]byte("VERIFBARRIER\n"), false)
				extra, err = t.Closed(readDeadline)
				if extra != nil && extra.ft == 1 && strings.HasPrefix(string(extra.data), "E_INVALID invalid command VERIFBARRIER") {
					return fail("close", r, "a fatal error was answered but the connection stayed open and went on serving commands")
				}
			} else if err == errTimeout {
				extra, err = t.Closed(readDeadline)
			}
			if err == errTimeout {
				return fail("close", r, "fatal error answered but the connection is still open after %v", readDeadline)
			}
			if err != nil {
				return fail("frame", r, "unreadable after fatal error: %v", err)
			}
			if extra != nil {
				return fail("frame", r, "frame type %d %q after a fatal error", extra.ft, trunc(extra.data))
			}
		}

		// ---- effects
		if pub {
			if r.Frame == "resp" {
				added[wire.Topic] += int64(wire.NMsgs)
			}
			ts, err := e.Topic(wire.Topic)
			if err != nil {
				return fail("infra", r, "stats: %v", err)
			}
			var count, depth int64
			nch := 0
			if ts != nil {
				count, depth, nch = ts.Count, ts.Depth, len(ts.Channels)
			}
			want := base[wire.Topic] + added[wire.Topic]
			if count != want {
				verdict := "an accepted publish enqueued the wrong number of messages"
				if r.Frame != "resp" {
					verdict = "a REJECTED publish changed the topic"
				}
				return fail("enq", r, "%s: topic %q message_count=%d, expected %d (before the sequence %d, accepted since %d)",
					verdict, wire.Topic, count, want, base[wire.Topic], added[wire.Topic])
			}
			if nch == 0 && !strings.HasSuffix(wire.Topic, "#ephemeral") && depth != baseDepth[wire.Topic]+added[wire.Topic] {
				return fail("enq", r, "topic %q depth=%d, expected %d", wire.Topic, depth, baseDepth[wire.Topic]+added[wire.Topic])
			}
			if r.Frame == "resp" && ts == nil {
				return fail("enq", r, "topic %q does not exist after an accepted publish", wire.Topic)
			}
		}
		if isDying {
			// the answer, the closed connection and /stats (nothing enqueued: message_count and depth of the
			// still linked topic unchanged) were judged above WHILE the deletion was parked
			if !dying.Parked() {
				return fail("infra", r, "the deletion of %q did not stay parked until the answer was judged", dying.Name)
			}
			atomic.AddInt64(&w.dyingRows, 1)
			if err := dying.Release(readDeadline); err != nil {
				return fail("infra", r, "%v", err)
			}
			// the deletion is complete: the topic is gone (the rejected publish neither kept nor re-created
			// it, nothing was enqueued under its name) and the daemon still serves
			ts, err := e.Topic(wire.Topic)
			if err != nil {
				if aerr := e.Alive(); aerr != nil {
					return fail("daemon", r, "nsqd is not alive after a publish to a topic that was being deleted: %v", aerr)
				}
				return fail("infra", r, "stats: %v", err)
			}
			if ts != nil && (ts.Count > 0 || ts.Depth > 0) {
				return fail("enq", r, "a REJECTED publish enqueued: topic %q exists after its deletion finished, message_count=%d depth=%d",
					wire.Topic, ts.Count, ts.Depth)
			}
			if ts != nil {
				return fail("topic", r, "topic %q exists (empty) after its deletion finished", wire.Topic)
			}
			if err := e.Alive(); err != nil {
				return fail("daemon", r, "nsqd is not alive after a publish to a topic that was being deleted: %v", err)
			}
		}
		if r.Cmd.Op == "SUB" && r.Frame == "resp" {
			subTopic, subChan = wire.Topic, wire.Channel
			w.names[subTopic] = true
			n := r.To.Av
			if needOther {
				helper, err = w.startHelper(subTopic, subChan)
				if err != nil {
					return fail("infra", r, "helper consumer: %v", err)
				}
				n++
			}
			if err := e.HTTPPublish(subTopic, n); err != nil {
				return fail("infra", r, "publishing the backlog: %v", err)
			}
			if needOther {
				if err := helper.WaitHeld(1, readDeadline, nil, ""); err != nil {
					return fail("infra", r, "helper consumer got no message: %v", err)
				}
				g.Other = helper.Held[0]
				helperSince = time.Now()
			}
		}
		if r.Cmd.Op == "REQ" && r.Frame == "none" && r.Cmd.A == "held" {
			switch r.Cmd.B {
			case "zero", "empty":
			case "one":
				brief++ // deferred for 1 ms: back in the queue after the next queue scan
			default:
				deferred++
				if r.Cmd.B != "mid" && r.Cmd.B != "max" && r.Cmd.B != "leadzero" {
					clampedReq = true
				}
			}
		}
		// deliveries the model predicts
		if !r.Fatal && (r.To.St == "sub" || r.To.St == "closing") {
			var poke []byte
			if r.To.St == "sub" || r.To.St == "closing" {
				poke = pokeTouch
			}
			if len(t.Held) < r.To.Held {
				if err := t.WaitHeld(r.To.Held, readDeadline, poke, "E_TOUCH_FAILED"); err != nil {
					if err == errTimeout {
						return fail("deliver", r, "holding %d messages after %v, the model predicts %d", len(t.Held), readDeadline, r.To.Held)
					}
					return fail("frame", r, "while waiting for deliveries: %v", err)
				}
			}
			if len(t.Held) > r.To.Held {
				return fail("deliver", r, "holding %d messages, the model predicts %d", len(t.Held), r.To.Held)
			}
		}
	}

	// ---- REQ with an out-of-range timeout is deferred by max-req-timeout, not requeued at once
	if deferred > 0 && subTopic != "" && last.To.St != "closed" {
		if clampedReq && slowReqCheck && w.slowChecks < 150 {
			time.Sleep(200 * time.Millisecond) // ten queue scans: anything deferred only briefly is back by now
			w.slowChecks++
		}
		ts, err := e.Topic(subTopic)
		if err != nil || ts == nil {
			return fail("infra", last, "stats of %q: %v", subTopic, err)
		}
		for _, c := range ts.Channels {
			if c.Name == subChan && (c.Deferred < int64(deferred) || c.Deferred > int64(deferred+brief)) {
				return fail("reqdefer", last, "channel has deferred_count=%d (depth %d, in flight %d) after %d REQ with a timeout of minutes (out-of-range timeouts are clamped to max-req-timeout)",
					c.Deferred, c.Depth, c.InFlight, deferred)
			}
		}
	}
	// ---- the other consumer of the same channel is untouched by whatever this connection did: it is still
	// connected and still owns its message (its TOUCH succeeds silently; only the barrier is answered)
	if helper != nil && g.Other != nil && time.Since(helperSince) < 10*time.Second {
		helper.Send(append([]byte("TOUCH "+string(g.Other)+"\n"), pokeTouch...), false)
		f, err := helper.Next(readDeadline)
		switch {
		case err == errTimeout:
			return fail("timeout", last, "the other consumer got no answer to its barrier")
		case err != nil:
			return fail("bystander", last, "the other consumer of the channel lost its connection: %v", err)
		case !isPokeAnswer(f):
			return fail("bystander", last, "the other consumer of the channel no longer owns its message: %q", trunc(f.data))
		}
	}
	// ---- end of sequence: nothing else may be in the pipe, and an open connection still works
	if last.To.St != "closed" && !t.half {
		steps = append(steps, StepLog{State: last.To.String(), Cmd: "(barrier) unknown command", Bytes: `"VERIFBARRIER\n"`, Expect: "err E_INVALID then closed"})
		t.Send([]byte("VERIFBARRIER\n"), false)
		f, err := t.Next(readDeadline)
		switch {
		case err == errTimeout:
			return fail("timeout", last, "no answer to the closing barrier")
		case err != nil:
			return fail("close", last, "the connection was closed although nothing fatal was sent (%v)", err)
		case f.ft != 1 || !strings.HasPrefix(string(f.data), "E_INVALID invalid command VERIFBARRIER"):
			return fail("frame", last, "unexpected frame type %d %q after the last command", f.ft, trunc(f.data))
		}
		if extra, err := t.Closed(readDeadline); err != nil || extra != nil {
			return fail("close", last, "after the barrier's fatal error: %v %v", extra, err)
		}
		if len(t.Held) != last.To.Held {
			return fail("deliver", last, "holding %d messages at the end, the model predicts %d", len(t.Held), last.To.Held)
		}
	}
	return nil
}

type failFn func(kind string, r Row, f string, a ...interface{}) *Mismatch

func (w *Worker) judgeBarrier(r Row, f fres, err error, fail failFn) *Mismatch {
	switch {
	case err == errTimeout:
		return fail("timeout", r, "no answer to the barrier after a command without answer")
	case err != nil && isClose(err):
		return fail("close", r, "connection closed by a command that has no answer and is not fatal (%v)", err)
	case err != nil:
		return fail("frame", r, "unreadable: %v", err)
	case f.ft == 1 && strings.HasPrefix(string(f.data), "E_TOUCH_FAILED TOUCH "+barrierID):
		return nil
	}
	return fail("frame", r, "frame type %d %q where no answer is defined", f.ft, trunc(f.data))
}

type identifyResp struct {
	MaxRdyCount         int64  `json:"max_rdy_count"`
	MaxMsgTimeout       int64  `json:"max_msg_timeout"`
	MsgTimeout          int64  `json:"msg_timeout"`
	TLSv1               bool   `json:"tls_v1"`
	Deflate             bool   `json:"deflate"`
	DeflateLevel        int64  `json:"deflate_level"`
	MaxDeflateLevel     int64  `json:"max_deflate_level"`
	Snappy              bool   `json:"snappy"`
	SampleRate          int64  `json:"sample_rate"`
	AuthRequired        bool   `json:"auth_required"`
	OutputBufferSize    int64  `json:"output_buffer_size"`
	OutputBufferTimeout int64  `json:"output_buffer_timeout"`
	Version             string `json:"version"`
}

func (w *Worker) checkResp(r Row, wire Wire, data []byte, t *TConn, cur *negotiated, fail failFn) *Mismatch {
	L := w.env.L
	if r.Cmd.Op == "IDENTIFY" {
		// what the daemon must have negotiated (nsqd/client_v2.go Identify): the reference for the echo
		cur.sr = 0
		v := wire.Ident[r.Cmd.A]
		switch r.Cmd.A + ":" + r.Echo {
		case "mt:asked":
			cur.mt = v
		case "sr:asked":
			cur.sr = v
		case "obs:asked":
			cur.obs = v
		case "obs:off":
			cur.obs, cur.obt = 1, 0
		case "obt:asked":
			cur.obt = v
		case "obt:off":
			cur.obt = 0
		}
	}
	if !strings.HasPrefix(r.Body, "JSON") {
		if string(data) != r.Body {
			return fail("frame", r, "response %q where %q is defined", trunc(data), r.Body)
		}
		return nil
	}
	var ir identifyResp
	if err := json.Unmarshal(data, &ir); err != nil {
		return fail("frame", r, "response %q where the negotiated settings (JSON) are defined", trunc(data))
	}
	wantDL := int64(6)
	if int64(L.MaxDeflateLevel) < wantDL {
		wantDL = int64(L.MaxDeflateLevel)
	}
	if r.Cmd.A == "dl" {
		switch r.Echo {
		case "asked":
			wantDL = wire.Ident["dl"]
		case "clamp":
			wantDL = int64(L.MaxDeflateLevel)
		}
	}
	zip := strings.TrimPrefix(r.Body, "JSON")
	type fv struct {
		name      string
		got, want int64
	}
	b2i := func(b bool) int64 {
		if b {
			return 1
		}
		return 0
	}
	for _, c := range []fv{
		{"max_rdy_count", ir.MaxRdyCount, L.MaxRdy}, {"max_msg_timeout", ir.MaxMsgTimeout, L.MaxMsgTimeoutMs},
		{"msg_timeout", ir.MsgTimeout, cur.mt}, {"sample_rate", ir.SampleRate, cur.sr},
		{"output_buffer_size", ir.OutputBufferSize, cur.obs}, {"output_buffer_timeout", ir.OutputBufferTimeout, cur.obt},
		{"deflate_level", ir.DeflateLevel, wantDL}, {"max_deflate_level", ir.MaxDeflateLevel, int64(L.MaxDeflateLevel)},
		{"tls_v1", b2i(ir.TLSv1), 0}, {"auth_required", b2i(ir.AuthRequired), 0},
		{"snappy", b2i(ir.Snappy), b2i(zip == "+snappy")}, {"deflate", b2i(ir.Deflate), b2i(zip == "+deflate")},
	} {
		if c.got != c.want {
			return fail("echo", r, "IDENTIFY response says %s=%d, negotiated value must be %d (%s)", c.name, c.got, c.want, trunc(data))
		}
	}
	switch zip {
	case "+snappy":
		t.UpgradeSnappy()
	case "+deflate":
		t.UpgradeDeflate(int(ir.DeflateLevel))
	default:
		return nil
	}
	f, err := t.Next(readDeadline)
	if err != nil || f.ft != 0 || string(f.data) != "OK" {
		if err == errTimeout {
			return fail("timeout", r, "no OK on the compressed stream")
		}
		return fail("frame", r, "after the %s upgrade: frame type %d %q err %v where OK is defined", zip, f.ft, trunc(f.data), err)
	}
	return nil
}

func (w *Worker) startHelper(topic, ch string) (*TConn, error) {
	h, err := Dial(w.env.TCP)
	if err != nil {
		return nil, err
	}
	h.Send([]byte("  V2SUB "+topic+" "+ch+"\n"), false)
	f, err := h.Next(readDeadline)
	if err != nil || f.ft != 0 || string(f.data) != "OK" {
		h.Close()
		return nil, fmt.Errorf("SUB: %v %d %q", err, f.ft, f.data)
	}
	h.Send([]byte("RDY 1\n"), false)
	return h, nil
}

// housekeeping between sequences: keep the persistent publish topics small
func (w *Worker) tidy() error {
	w.nseq++
	if w.nseq%150 != 0 {
		return nil
	}
	for t := range w.pool {
		if err := w.env.EmptyTopic(t); err != nil && !strings.Contains(err.Error(), "TOPIC_NOT_FOUND") {
			return err
		}
	}
	return nil
}

// ------------------------------------------------------------------------------------------------

type job struct {
	seq []Row
	idx int
}

type ReplayReport struct {
	Nodes        int                 `json:"nodes"`
	Sequences    int                 `json:"sequences"`
	Replayed     int                 `json:"replayed"`
	Runs         int64               `json:"runs"`
	Commands     int64               `json:"commands"`
	RowsCovered  int                 `json:"rows_covered"`
	RowsTotal    int                 `json:"rows_total"`
	Violations   []*Mismatch         `json:"violations"`
	Drift        []*Mismatch         `json:"drift"`
	Inconclusive []*Mismatch         `json:"inconclusive"`
	Unreproduced []*Mismatch         `json:"unreproduced"`
	Bystander    map[string][2]int64 `json:"bystander"`
	Limits       map[string]Limits   `json:"limits"`
	Samples      []interface{}       `json:"samples"`
	SlowChecks   int                 `json:"slow_req_checks"`
	DyingRows    int64               `json:"dying_rows"`
	WallS        float64             `json:"wall_s"`
}

var validNameRe = regexp.MustCompile(`^[.a-zA-Z0-9_-]+(#ephemeral)?$`)

func cmdReplay(args []string) int {
	fs := newFlags("replay")
	rowsPath := fs.String("rows", "", "table printed by TLC")
	seed := fs.Int64("seed", 1, "seed")
	nworkers := fs.Int("workers", 12, "connections under test in parallel (small-limits daemon)")
	bigEvery := fs.Int("big-every", 12, "every n-th sequence also runs against the big-limits daemon")
	defEvery := fs.Int("default-every", 40, "every n-th sequence also runs against the default-limits daemon")
	fine := fs.Bool("prefix-fine", false, "PrefixFine of the TLC configuration")
	report := fs.String("report", "", "report file")
	scratch := fs.String("scratch", ".", "scratch directory")
	only := fs.Int("only", -1, "replay only this sequence index")
	sampleMod := fs.Int("sample-mod", 1, "replay only sequences with index % mod == rem (the walk still covers all)")
	sampleRem := fs.Int("sample-rem", 0, "see --sample-mod")
	fs.Parse(args)
	t0 := time.Now()
	tab, err := LoadTable(*rowsPath)
	if err != nil {
		return die(err)
	}
	rep := &ReplayReport{RowsTotal: tab.N, Bystander: map[string][2]int64{}, Limits: map[string]Limits{}}
	installDyingGate() // one gate for all in-process daemons (dying.go)

	lr := rand.New(rand.NewSource(*seed))
	type envRun struct {
		env     *Env
		every   int
		workers int
		jobs    chan job
	}
	var runs []*envRun
	for _, k := range []struct {
		kind    string
		every   int
		workers int
	}{{"small", 1, *nworkers}, {"big", *bigEvery, 3}, {"default", *defEvery, 2}} {
		if k.every <= 0 {
			continue
		}
		e, err := StartEnv(RandomLimits(lr, k.kind), k.kind, *scratch)
		if err != nil {
			return die(err)
		}
		defer e.Stop()
		if _, err := StartBystander(e); err != nil {
			return die(err)
		}
		rep.Limits[k.kind] = e.L
		runs = append(runs, &envRun{env: e, every: k.every, workers: k.workers, jobs: make(chan job, 256)})
	}

	var mu sync.Mutex
	covered := map[string]bool{}
	seenKey := map[string]bool{}
	add := func(list *[]*Mismatch, m *Mismatch) {
		mu.Lock()
		defer mu.Unlock()
		if seenKey[m.Key()] && len(*list) >= 1 {
			return // one example per (kind, row)
		}
		seenKey[m.Key()] = true
		if len(*list) < 40 {
			*list = append(*list, m)
		}
	}
	var wg sync.WaitGroup
	var allWorkers []*Worker
	for _, er := range runs {
		for i := 0; i < er.workers; i++ {
			w := &Worker{env: er.env, id: i, seed: *seed, pool: map[string]bool{}, names: map[string]bool{}}
			w.g = NewGen(*seed*1000+int64(i), er.env.L, i)
			allWorkers = append(allWorkers, w)
			wg.Add(1)
			go func(er *envRun, w *Worker) {
				defer wg.Done()
				for j := range er.jobs {
					atomic.AddInt64(&rep.Runs, 1)
					snapshot := map[string]int{}
					for k, v := range w.g.cnt {
						snapshot[k] = v
					}
					m := w.runSeq(j.seq, j.idx, true)
					if m != nil {
						// a protocol answer is deterministic: only what shows every time is reported
						m.Attempts = 1
						for a := 0; a < 2; a++ {
							after := w.g.cnt
							w.g.cnt = map[string]int{}
							for k, v := range snapshot {
								w.g.cnt[k] = v
							}
							m2 := w.runSeq(j.seq, j.idx, true)
							w.g.cnt = after
							if m2 == nil || m2.Key() != m.Key() {
								m.Attempts = -m.Attempts
								break
							}
							m.Attempts++
						}
						switch {
						case m.Attempts < 0:
							add(&rep.Unreproduced, m)
						case m.Kind == "timeout" || m.Kind == "infra":
							add(&rep.Inconclusive, m)
						case m.Kind == "deliver" || m.Kind == "topic":
							add(&rep.Drift, m)
						default:
							add(&rep.Violations, m)
						}
					}
					if err := w.tidy(); err != nil {
						add(&rep.Inconclusive, &Mismatch{Kind: "infra", What: "tidy: " + err.Error()})
					}
				}
			}(er, w)
		}
	}
	nseq, replayed := 0, 0
	nodes, err := tab.Walk(*fine, func(seq []Row) {
		idx := nseq
		nseq++
		if *only >= 0 && idx != *only {
			return
		}
		if *sampleMod > 1 && idx%*sampleMod != *sampleRem%*sampleMod {
			return
		}
		replayed++
		for _, r := range seq {
			covered[r.Key()] = true
		}
		if len(rep.Samples) < 6 && idx%997 == 3 {
			var s []string
			for _, r := range seq {
				s = append(s, r.Cmd.String()+" => "+r.Expect())
			}
			rep.Samples = append(rep.Samples, map[string]interface{}{"sequence": idx, "steps": s})
		}
		for _, er := range runs {
			if idx%er.every == 0 || *only >= 0 {
				er.jobs <- job{seq, idx}
			}
		}
	})
	for _, er := range runs {
		close(er.jobs)
	}
	wg.Wait()
	if err != nil {
		return die(err)
	}
	rep.Nodes, rep.Sequences, rep.Replayed, rep.RowsCovered = nodes, nseq, replayed, len(covered)

	// ---- after everything: daemons alive, bystanders unaffected, no topic with an invalid name
	for _, er := range runs {
		e := er.env
		if err := e.Alive(); err != nil {
			rep.Violations = append(rep.Violations, &Mismatch{Kind: "daemon", Row: e.Kind, What: "nsqd is not alive after the replays: " + err.Error(), Limits: e.L, EnvKind: e.Kind})
			continue
		}
		probs, late := e.by.Finish()
		rep.Bystander[e.Kind] = [2]int64{atomic.LoadInt64(&e.by.Published), atomic.LoadInt64(&e.by.Consumed)}
		if late {
			rep.Inconclusive = append(rep.Inconclusive, &Mismatch{Kind: "timeout", Row: e.Kind, What: "bystander did not drain in time"})
		}
		for _, p := range probs {
			rep.Violations = append(rep.Violations, &Mismatch{Kind: "bystander", Row: e.Kind, What: "the bystander client was affected: " + p, Limits: e.L, EnvKind: e.Kind})
		}
		known := map[string]bool{"bystander": true}
		for _, w := range allWorkers {
			if w.env == e {
				for n := range w.names {
					known[n] = true
				}
			}
		}
		ts, err := e.AllTopics()
		if err != nil {
			rep.Inconclusive = append(rep.Inconclusive, &Mismatch{Kind: "infra", What: "final /stats: " + err.Error()})
			continue
		}
		for _, tp := range ts {
			ok := len(tp.Name) >= 1 && len(tp.Name) <= 64 && validNameRe.MatchString(tp.Name)
			switch {
			case !ok:
				rep.Violations = append(rep.Violations, &Mismatch{Kind: "name", Row: e.Kind, What: fmt.Sprintf("a topic with the invalid name %q exists", tp.Name), Limits: e.L, EnvKind: e.Kind})
			case !known[tp.Name]:
				rep.Drift = append(rep.Drift, &Mismatch{Kind: "topic", Row: e.Kind, What: fmt.Sprintf("topic %q exists although no accepted command named it", tp.Name)})
			}
			for _, c := range tp.Channels {
				if !(len(c.Name) >= 1 && len(c.Name) <= 64 && validNameRe.MatchString(c.Name)) {
					rep.Violations = append(rep.Violations, &Mismatch{Kind: "name", Row: e.Kind, What: fmt.Sprintf("a channel with the invalid name %q exists", c.Name), Limits: e.L, EnvKind: e.Kind})
				}
			}
		}
	}
	for _, w := range allWorkers {
		rep.Commands += atomic.LoadInt64(&w.cmds)
		rep.SlowChecks += w.slowChecks
		rep.DyingRows += atomic.LoadInt64(&w.dyingRows)
	}
	sort.Slice(rep.Violations, func(i, j int) bool { return rep.Violations[i].Key() < rep.Violations[j].Key() })
	rep.WallS = time.Since(t0).Seconds()
	if err := writeJSON(*report, rep); err != nil {
		return die(err)
	}
	fmt.Printf("replay: %d sequences (%d nodes), %d runs, %d commands, rows %d/%d, %d publishes to a topic being deleted, %d violations, %d drift, %d inconclusive, %d unreproduced, %.1fs\n",
		rep.Sequences, rep.Nodes, rep.Runs, rep.Commands, rep.RowsCovered, rep.RowsTotal, rep.DyingRows, len(rep.Violations), len(rep.Drift),
		len(rep.Inconclusive), len(rep.Unreproduced), rep.WallS)
	if len(rep.Violations) > 0 {
		return 1
	}
	return 0
}
