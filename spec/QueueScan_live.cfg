SPECIFICATION FairSpec
CONSTANTS
  Chan = {c1, c2, c3}
  Count = 2
  PoolMax = 2
  DirtyPct = 25
PROPERTIES EventuallyScanned
CHECK_DEADLOCK FALSE
