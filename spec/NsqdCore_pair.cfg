SPECIFICATION Spec
CONSTANTS
  OpA = "FIN"
  OpB = "EMPTY"
CONSTRAINT Emit
CHECK_DEADLOCK FALSE
