// Package hlib: utilities shared by the verification harness commands.
package hlib

import (
	"bufio"
	"encoding/json"
	"os"

	"github.com/nsqio/nsq/internal/verif"
)

// Recorder collects hook events in sequence order.
type Recorder struct {
	evs []verif.Event
}

// Install starts recording (events arrive under verif's mutex, in sequence order).
func (r *Recorder) Install() {
	verif.SetSink(func(e verif.Event) { r.evs = append(r.evs, e) })
}

// Uninstall stops recording; afterwards no writer is active.
func (r *Recorder) Uninstall() { verif.SetSink(nil) }

// Take returns and clears the recorded events.
func (r *Recorder) Take() []verif.Event {
	evs := r.evs
	r.evs = nil
	return evs
}

// Emit adds a harness-side event to the same totally ordered log as the hook events.
func Emit(name string, kv ...interface{}) { verif.Ev(name, kv...) }

func KVGet(e verif.Event, k string) interface{} {
	for i := 0; i+1 < len(e.KV); i += 2 {
		if e.KV[i].(string) == k {
			return e.KV[i+1]
		}
	}
	return nil
}

func KVInt(e verif.Event, k string) int64 {
	switch v := KVGet(e, k).(type) {
	case int64:
		return v
	case int:
		return int64(v)
	case int32:
		return int64(v)
	case uint64:
		return int64(v)
	case uint32:
		return int64(v)
	case uint16:
		return int64(v)
	case int16:
		return int64(v)
	case uint8:
		return int64(v)
	case int8:
		return int64(v)
	case uint:
		return int64(v)
	case bool:
		if v {
			return 1
		}
		return 0
	}
	return 0
}

func KVStr(e verif.Event, k string) string {
	s, _ := KVGet(e, k).(string)
	return s
}

// NDJSON writes one JSON object per line.
type NDJSON struct {
	f *os.File
	w *bufio.Writer
	N int
}

func NewNDJSON(path string) (*NDJSON, error) {
	f, err := os.Create(path)
	if err != nil {
		return nil, err
	}
	return &NDJSON{f: f, w: bufio.NewWriterSize(f, 1<<20)}, nil
}

func (w *NDJSON) Put(m map[string]interface{}) {
	b, _ := json.Marshal(m)
	w.w.Write(b)
	w.w.WriteByte('\n')
	w.N++
}

func (w *NDJSON) Close() {
	w.w.Flush()
	w.f.Close()
}

func WriteJSON(path string, v interface{}) error {
	b, err := json.MarshalIndent(v, "", " ")
	if err != nil {
		return err
	}
	return os.WriteFile(path, b, 0644)
}
