\* as-intended table: every property must hold
SPECIFICATION Spec
CONSTANTS
  AsImplemented = {}
  MaxOwn = 2
CONSTRAINT Bounded
INVARIANTS TypeOK Total ErrorsAreRefusals StillServing SizesRefused ClosedLeavesNothing
PROPERTIES OthersUntouched
CHECK_DEADLOCK FALSE
