package main

import (
	"flag"
	"fmt"
	"math/rand"
	"os"
	"strings"
	"sync"
	"time"

	"github.com/nsqio/nsq/verifharness/hlib"
)

// Binding B: a seeded random request generator drives a real nsqd; every (request class, answer,
// registry seen by /stats at quiescence) becomes a trace line that TLC validates against NsqdHttp
// (NsqdHttpTrace.tla).

func init() { subcmds["trace"] = traceCmd }

type gen struct {
	avoid   map[string]bool // classes already reported by binding A in this run (the trace would stop at the first one)
	rng     *rand.Rand
	tsyms   []string
	csyms   []string
	maxMsg  int64
	maxBody int64
}

func (g *gen) oneOf(l ...string) string { return l[g.rng.Intn(len(l))] }

func (g *gen) nameArg(syms []string) []string {
	bad := "~bad"
	s := syms[g.rng.Intn(len(syms))]
	switch x := g.rng.Intn(100); {
	case x < 72:
		return []string{s}
	case x < 78:
		return []string{}
	case x < 86:
		return []string{bad}
	case x < 90:
		return []string{s, bad}
	case x < 94:
		return []string{bad, s}
	case x < 97:
		return []string{s, syms[g.rng.Intn(len(syms))]}
	default:
		return []string{bad, bad}
	}
}

var deferClasses = []string{"0", "small", "max", "plus", "max+1", "mulovf", "i64max", "2^63", "2^64", "neg", "nonnum", "empty"}
var binaryClasses = []string{"true", "1", "false", "0", "other", "empty"}

func (g *gen) deferArg() []string {
	switch x := g.rng.Intn(100); {
	case x < 45:
		return []string{}
	case x < 70:
		return []string{g.oneOf("0", "small", "small", "max", "plus")}
	case x < 92:
		return []string{deferClasses[g.rng.Intn(len(deferClasses))]}
	default:
		return []string{deferClasses[g.rng.Intn(len(deferClasses))], deferClasses[g.rng.Intn(len(deferClasses))]}
	}
}

func (g *gen) binaryArg() []string {
	switch x := g.rng.Intn(100); {
	case x < 35:
		return []string{}
	case x < 90:
		return []string{binaryClasses[g.rng.Intn(len(binaryClasses))]}
	default:
		return []string{binaryClasses[g.rng.Intn(len(binaryClasses))], binaryClasses[g.rng.Intn(len(binaryClasses))]}
	}
}

// a length around the limits
func (g *gen) size(limit int64) int64 {
	switch g.rng.Intn(9) {
	case 0:
		return 0
	case 1:
		return 1
	case 2:
		return limit
	case 3:
		return limit + 1
	case 4:
		if limit > 1 {
			return limit - 1
		}
		return 1
	case 5:
		return limit + 1 + g.rng.Int63n(limit+2)
	default:
		return 1 + g.rng.Int63n(limit)
	}
}

func (g *gen) textBody(single bool) Body {
	b := Body{Kind: "text", Hdr: 4, Items: []Item{}}
	if single {
		if g.rng.Intn(12) == 0 {
			b.Segs = []int64{g.size(g.maxBody)}
		} else {
			b.Segs = []int64{g.size(g.maxMsg)}
		}
		if g.rng.Intn(10) == 0 {
			b.Segs = append(b.Segs, g.size(g.maxMsg)) // a newline inside a /pub body is just a byte
		}
		return b
	}
	k := 1 + g.rng.Intn(7)
	var total int64
	for i := 0; i < k; i++ {
		var n int64
		switch g.rng.Intn(8) {
		case 0, 1:
			n = 0
		case 2:
			n = g.maxMsg
		case 3:
			if g.rng.Intn(3) == 0 {
				n = g.maxMsg + 1
			} else {
				n = g.maxMsg
			}
		default:
			n = 1 + g.rng.Int63n(g.maxMsg)
		}
		b.Segs = append(b.Segs, n)
		total += n + 1
	}
	// sometimes steer the total length onto the body limit
	if g.rng.Intn(4) == 0 {
		total--
		target := g.maxBody + int64(g.rng.Intn(3)) - 1
		for total < target {
			n := target - total - 1
			if n > g.maxMsg {
				n = g.maxMsg
			}
			if n < 0 {
				n = 0
			}
			b.Segs = append(b.Segs, n)
			total += n + 1
		}
	}
	return b
}

func (g *gen) binBody() Body {
	b := Body{Kind: "bin", Hdr: 4, Segs: []int64{}, Items: []Item{}}
	maxMessages := (g.maxBody - 4) / 5
	n := int64(1 + g.rng.Intn(4))
	if g.rng.Intn(6) == 0 {
		n = maxMessages
	}
	if g.rng.Intn(10) == 0 {
		n = maxMessages + 1
	}
	b.Count = n
	short := false
	for i := int64(0); i < n && !short; i++ {
		d := 1 + g.rng.Int63n(g.maxMsg)
		switch g.rng.Intn(14) {
		case 0:
			d = g.maxMsg
		case 1:
			d = g.maxMsg + 1
		case 2:
			d = 0
		case 3:
			d = -1 - g.rng.Int63n(5)
		case 4:
			d = 2147483647
		}
		it := Item{Decl: d, Have: d}
		if d <= 0 {
			it.Have = 0
		} else if d > g.maxMsg {
			it.Have = g.rng.Int63n(g.maxMsg + 1)
		} else if g.rng.Intn(15) == 0 {
			it.Have = g.rng.Int63n(d) // the body ends inside this message
			short = true
		}
		b.Items = append(b.Items, it)
	}
	if short {
		return b
	}
	// mutate the count against the items that are really there
	switch g.rng.Intn(12) {
	case 0:
		b.Count = 0
	case 1:
		b.Count = -1 - g.rng.Int63n(3)
	case 2:
		b.Count = int64(len(b.Items)) + 1 + g.rng.Int63n(2) // parser looks for more than there is
	case 3:
		if len(b.Items) > 1 {
			b.Count = int64(len(b.Items)) - 1 // the last item is trailing garbage
		}
	case 4:
		b.Count = 2147483647
	case 5:
		b.Hdr = g.rng.Int63n(4)
		b.Count = 0
		b.Items = []Item{}
		return b
	}
	if b.Count > int64(len(b.Items)) {
		b.Extra = g.rng.Int63n(4)
	} else if g.rng.Intn(6) == 0 {
		b.Extra = 1 + g.rng.Int63n(g.maxBody)
	}
	return b
}

// Go mirror of BodyWF (NsqdHttp.tla): a generator bug must not look like a defect of nsqd
func bodyWF(b Body, maxMsg int64) bool {
	if b.Kind == "text" {
		if len(b.Segs) < 1 {
			return false
		}
		for _, s := range b.Segs {
			if s < 0 {
				return false
			}
		}
		return true
	}
	if b.Hdr < 0 || b.Hdr > 4 || b.Extra < 0 {
		return false
	}
	if b.Hdr < 4 && (len(b.Items) != 0 || b.Extra != 0) {
		return false
	}
	for i, it := range b.Items {
		lim := int64(0)
		if it.Decl > 0 {
			lim = it.Decl
		}
		if it.Have < 0 || it.Have > lim {
			return false
		}
		if it.Have < it.Decl && it.Decl >= 1 && it.Decl <= maxMsg && (i != len(b.Items)-1 || b.Extra != 0) {
			return false
		}
	}
	if b.Count > int64(len(b.Items)) && b.Extra >= 4 {
		return false
	}
	return true
}

var topicRoutes = []string{"topic_create", "topic_delete", "topic_empty", "topic_pause", "topic_unpause"}
var channelRoutes = []string{"channel_create", "channel_delete", "channel_empty", "channel_pause", "channel_unpause"}
var allRoutes = []string{"ping", "info", "stats", "pub", "mpub", "topic_create", "topic_delete", "topic_empty", "topic_pause",
	"topic_unpause", "channel_create", "channel_delete", "channel_empty", "channel_pause", "channel_unpause", "config",
	"setblockrate", "freememory", "pprof", "unknown"}
var allMethods = []string{"GET", "POST", "PUT", "DELETE", "HEAD", "OPTIONS", "PATCH"}

func allowedMethods(route string) []string {
	switch route {
	case "ping", "info", "stats", "pprof":
		return []string{"GET"}
	case "config":
		return []string{"GET", "PUT"}
	case "setblockrate":
		return []string{"PUT"}
	case "unknown":
		return nil
	}
	return []string{"POST"}
}

func (g *gen) request() Req {
	r := Req{Method: "POST", Body: Body{Kind: "text", Segs: []int64{0}, Hdr: 4}}
	x := g.rng.Intn(100)
	switch {
	case x < 22:
		r.Route = "pub"
	case x < 44:
		r.Route = "mpub"
	case x < 62:
		r.Route = topicRoutes[g.rng.Intn(len(topicRoutes))]
		if g.rng.Intn(3) == 0 {
			r.Route = "topic_create"
		}
	case x < 82:
		r.Route = channelRoutes[g.rng.Intn(len(channelRoutes))]
		if g.rng.Intn(3) == 0 {
			r.Route = "channel_create"
		}
	default:
		r.Route = allRoutes[g.rng.Intn(len(allRoutes))]
	}
	if am := allowedMethods(r.Route); len(am) > 0 {
		r.Method = am[g.rng.Intn(len(am))]
	}
	if g.rng.Intn(12) == 0 {
		r.Method = allMethods[g.rng.Intn(len(allMethods))]
	}
	r.BadQ = g.rng.Intn(25) == 0 && r.Route != "setblockrate"
	takesTopic := r.Route == "pub" || r.Route == "mpub" || strings.HasPrefix(r.Route, "topic_") || strings.HasPrefix(r.Route, "channel_")
	if takesTopic || g.rng.Intn(8) == 0 {
		r.Topic = g.nameArg(g.tsyms)
	}
	if strings.HasPrefix(r.Route, "channel_") || (r.Route == "stats" && g.rng.Intn(3) == 0) {
		r.Channel = g.nameArg(g.csyms)
	}
	switch r.Route {
	case "pub":
		r.Defer = g.deferArg()
		r.Body = g.textBody(true)
		if g.rng.Intn(8) == 0 {
			r.Body = g.binBody()
		}
		r.Chunked = g.rng.Intn(2) == 0
	case "mpub":
		r.Binary = g.binaryArg()
		binMode := len(r.Binary) > 0 && r.Binary[0] != "false" && r.Binary[0] != "0"
		if binMode && g.rng.Intn(8) != 0 {
			r.Body = g.binBody()
		} else {
			r.Body = g.textBody(false)
		}
		r.Chunked = g.rng.Intn(2) == 0
	case "config":
		r.Arg = g.oneOf("log_level", "log_level", "lookupd", "readonly", "unknownopt")
		if r.Method == "PUT" {
			v := g.oneOf("valid", "valid", "invalid")
			r.Binary = []string{v}
			n := []int64{0, 4, 5, g.maxMsg, g.maxMsg + 1}[g.rng.Intn(5)]
			if r.Arg == "lookupd" && g.rng.Intn(2) == 0 {
				n = 2 + g.rng.Int63n(g.maxMsg)
			}
			r.Body = Body{Kind: "text", Segs: []int64{n}, Hdr: 4}
			r.Chunked = g.rng.Intn(2) == 0
		}
	case "setblockrate":
		r.Arg = g.oneOf("valid", "invalid", "missing")
	case "stats":
		r.Arg = g.oneOf("json", "text")
	default:
		// handlers that ignore the body, or read all of it
		if g.rng.Intn(5) == 0 && r.Method != "GET" && r.Method != "HEAD" && r.Method != "OPTIONS" {
			r.Body = Body{Kind: "text", Segs: []int64{g.size(g.maxMsg)}, Hdr: 4}
			r.Chunked = g.rng.Intn(2) == 0
		}
	}
	normReq(&r)
	if g.avoid["binchunk"] && r.Route == "mpub" && r.Chunked && r.Body.Kind == "bin" && r.Body.Len() > g.maxBody {
		r.Chunked = false
	}
	if (g.avoid["freememory"] && r.Route == "freememory" && r.Method == "POST") ||
		(g.avoid["setblockrate"] && r.Route == "setblockrate" && r.Method == "PUT" && r.Arg == "valid") {
		r.Method = "GET"
	}
	return r
}

// quiescent: no unpaused topic with channels still holds messages in its own queue
func quiescent(d *statsDoc) bool {
	for _, t := range d.Topics {
		if !t.Paused && len(t.Channels) > 0 && t.Depth > 0 {
			return false
		}
	}
	return true
}

// settle waits until the daemon is quiescent and /stats stopped changing, and returns the projection
func (w *worker) settle(nm Names) (Obs, []string, error) {
	start := time.Now()
	var prev Obs
	same := 0
	gaps := []time.Duration{0, 2 * time.Millisecond, 6 * time.Millisecond}
	for {
		sd, err := fetchStats(w.h)
		if err != nil {
			return nil, nil, err
		}
		if quiescent(sd) {
			o, strangers := project(sd, w.tsyms, w.csyms, nm.T, nm.C)
			if prev != nil && obsEqual(o, prev) {
				same++
			} else {
				same = 0
			}
			prev = o
			if same >= 2 {
				return o, strangers, nil
			}
			time.Sleep(gaps[same+1])
		} else {
			prev, same = nil, 0
			time.Sleep(200 * time.Microsecond)
		}
		if time.Since(start) > 30*time.Second {
			return nil, nil, fmt.Errorf("daemon did not become quiescent within 30s")
		}
	}
}

var gAvoid = map[string]bool{}

type traceOut struct {
	events []map[string]interface{}
	err    string
}

func (w *worker) runTrace(rng *rand.Rand, length int) traceOut {
	var out traceOut
	g := &gen{rng: rng, tsyms: w.tsyms, csyms: w.csyms, maxMsg: w.d.MaxMsg, maxBody: w.d.MaxBody, avoid: gAvoid}
	nm := newNames(rng, w.tsyms, w.csyms, false)
	cz := &Concretiser{rng: rng, maxMsg: w.d.MaxMsg, maxBody: w.d.MaxBody, maxDefer: w.d.MaxDefer}
	w.d.wipe()
	out.events = append(out.events, map[string]interface{}{"ev": "Reset"})
	for i := 0; i < length; i++ {
		r := g.request()
		if !bodyWF(r.Body, w.d.MaxMsg) {
			out.err = fmt.Sprintf("generator produced an ill-formed body %+v", r.Body)
			return out
		}
		c, err := cz.concretise(r, nm)
		if err != nil {
			// e.g. no valid log level of that length: not a request of the alphabet
			i--
			continue
		}
		resp, err := w.h.do(c.Method, c.Raw, 60*time.Second)
		if err != nil {
			if perr := w.ping(); perr != nil {
				w.col.violation("daemon-down route="+r.Route, fmt.Sprintf("no answer to %s %s (%v) and the daemon no longer answers /ping (%v)", c.Method, c.Target, err, perr),
					map[string]interface{}{"request": trunc(string(c.Raw), 800), "class": r})
				w.restart()
				out.err = "daemon down"
				return out
			}
			w.col.violation(stepKey("noanswer", r, 0, "any"), fmt.Sprintf("complete request %s %s got no well-formed HTTP answer: %v", c.Method, trunc(c.Target, 300), err),
				map[string]interface{}{"request": trunc(string(c.Raw), 800), "class": r})
			out.err = "no answer"
			return out
		}
		msg, malformed := checkShape(r, resp)
		w.col.outcome(r, resp.Status, msg)
		if malformed != "" && resp.Status != 500 {
			w.col.violation(stepKey("malformed", r, resp.Status, "well-formed"),
				fmt.Sprintf("%s %s: answer %d is not well-formed: %s", c.Method, trunc(c.Target, 300), resp.Status, malformed),
				map[string]interface{}{"request": trunc(string(c.Raw), 800), "class": r})
		}
		post, strangers, err := w.settle(nm)
		if err != nil {
			out.err = err.Error()
			return out
		}
		if len(strangers) > 0 {
			w.col.violation(stepKey("stranger", r, resp.Status, "none"),
				fmt.Sprintf("after %s %s -> %d the registry holds %v, which no argument of any request named", c.Method, trunc(c.Target, 300), resp.Status, strangers),
				map[string]interface{}{"request": trunc(string(c.Raw), 800), "class": r})
			out.err = "stranger"
			return out
		}
		out.events = append(out.events, map[string]interface{}{"ev": "Req", "req": r, "status": resp.Status, "msg": msg, "post": post,
			"sent": trunc(c.Method+" "+c.Target, 200), "nbody": len(c.Body)})
		if i == length-1 {
			w.col.sample(map[string]interface{}{"trace_event": out.events[len(out.events)-1]})
		}
	}
	return out
}

func traceCmd(args []string) int {
	fs := flag.NewFlagSet("trace", flag.ExitOnError)
	outp := fs.String("out", "trace.ndjson", "trace output")
	rep := fs.String("report", "report.json", "report output")
	seed := fs.Int64("seed", 1, "seed")
	workers := fs.Int("workers", 8, "parallel daemons")
	maxMsg := fs.Int64("maxmsg", 8, "max-msg-size = MaxMsg of the trace spec")
	maxBody := fs.Int64("maxbody", 40, "max-body-size = MaxBody of the trace spec")
	topics := fs.String("topics", "t1,t2", "topic symbols")
	channels := fs.String("channels", "c1,c2", "channel symbols")
	ntraces := fs.Int("traces", 16, "number of traces")
	length := fs.Int("len", 60, "requests per trace")
	scratch := fs.String("scratch", "", "scratch dir")
	avoid := fs.String("avoid", "", "comma list of classes not to generate: freememory,setblockrate,binchunk")
	fs.Parse(args)
	gMaxMsg, gMaxBody = *maxMsg, *maxBody
	for _, a := range strings.Split(*avoid, ",") {
		if a != "" {
			gAvoid[a] = true
		}
	}
	col := newCollector()
	tsyms, csyms := strings.Split(*topics, ","), strings.Split(*channels, ",")
	results := make([]traceOut, *ntraces)
	jobs := make(chan int, *ntraces)
	var wg sync.WaitGroup
	for i := 0; i < *workers; i++ {
		wg.Add(1)
		go func() {
			defer wg.Done()
			w := &worker{col: col, tsyms: tsyms, csyms: csyms, scratch: *scratch, maxDefer: time.Hour}
			if err := w.restart(); err != nil {
				col.inconclusive("cannot start nsqd: " + err.Error())
				for range jobs {
				}
				return
			}
			defer func() {
				if err := w.ping(); err != nil {
					col.violation("daemon-down-at-end", "nsqd no longer answers /ping after the traces: "+err.Error(), nil)
				}
				w.h.close()
				w.d.Stop()
			}()
			for j := range jobs {
				rng := rand.New(rand.NewSource(*seed*7919 + int64(j)*104729 + 17))
				results[j] = w.runTrace(rng, *length)
			}
		}()
	}
	for j := 0; j < *ntraces; j++ {
		jobs <- j
	}
	close(jobs)
	wg.Wait()
	nd, err := hlib.NewNDJSON(*outp)
	if err != nil {
		fmt.Fprintln(os.Stderr, err)
		return 2
	}
	good := 0
	for _, r := range results {
		if r.err != "" {
			col.inconclusive("trace abandoned: " + r.err)
		}
		// an abandoned trace is still a valid prefix
		for _, e := range r.events {
			nd.Put(e)
		}
		if len(r.events) > 1 {
			good++
		}
	}
	nd.Close()
	col.rep.Behaviours = good
	col.rep.DistinctShapes = len(col.shapes)
	col.rep.Notes["trace_events"] = int64(nd.N)
	for k, n := range col.vkeys {
		col.rep.Notes["violation:"+k] = int64(n)
	}
	if err := hlib.WriteJSON(*rep, col.rep); err != nil {
		fmt.Fprintln(os.Stderr, err)
		return 2
	}
	if len(col.rep.Violations) > 0 {
		return 1
	}
	return 0
}
