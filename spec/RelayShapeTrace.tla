-------------------------- MODULE RelayShapeTrace --------------------------
(* Shape-level trace validation for C20: is the recorded execution of the real nsq_to_nsq / nsq_to_http also a *)
(* behaviour of the implementation-shaped spec Relay.tla -- one request per delivery, answered by exactly one   *)
(* FIN (after an accept in THAT delivery) or REQ (otherwise), schedule items consumed in the order the fake      *)
(* destinations played them?  Steps the recorders cannot see are silent actions here, enabled only when the next *)
(* recorded event needs them: Send (HandleMessage reaching the publish call), SrcTimeout (the source nsqd        *)
(* requeues on msg-timeout) and ConnLost.  Mode = "any": the destination choice is left open (the recorded       *)
(* destination decides).  A silent Send is discovered late (when its answer shows up), so it uses SendTo:     *)
(* whether the destination was "down" is judged by the recorded events, not at discovery time.                 *)
(* A rejection here that RelayTrace does not share is model DRIFT, not a violation.       *)
EXTENDS Relay, Json

Trace == ndJsonDeserialize("trace.ndjson")
VARIABLE l
tvars == <<vars, l>>

Blank(k) ==
  /\ q' = {m \in Msgs : m <= k} /\ att' = [m \in Msgs |-> 0] /\ sif' = [m \in Msgs |-> FALSE]
  /\ gone' = [m \in Msgs |-> m > k] /\ work' = {} /\ ctr' = 0 /\ dead' = {} /\ cl' = 0 /\ ghost' = {}
  /\ acc' = [m \in Msgs |-> {}] /\ dfail' = [m \in Msgs |-> 0] /\ reqs' = [m \in Msgs |-> 0]
  /\ fins' = [m \in Msgs |-> 0] /\ ifail' = 0 /\ unknown' = 0 /\ ended' = FALSE

TraceInit ==
  /\ q = {} /\ att = [m \in Msgs |-> 0] /\ sif = [m \in Msgs |-> FALSE] /\ gone = [m \in Msgs |-> TRUE]
  /\ work = {} /\ ctr = 0 /\ dead = {} /\ sched = [d \in Dests |-> <<>>] /\ tos = 0 /\ cl = 0 /\ ghost = {}
  /\ acc = [m \in Msgs |-> {}] /\ dfail = [m \in Msgs |-> 0] /\ reqs = [m \in Msgs |-> 0]
  /\ fins = [m \in Msgs |-> 0] /\ ifail = 0 /\ unknown = 0 /\ ended = FALSE
  /\ l = 1 /\ TLCSet(1, 1) /\ TLCSet(2, <<>>)

More == l <= Len(Trace)
E == Trace[l]
IsEvent(e) == More /\ E.ev = e /\ l' = l + 1
Silent == More /\ l' = l

\* n: messages of the scenario; to: msg-timeouts the source nsqd counted in it (bounds the silent SrcTimeout steps)
TReset   == /\ IsEvent("Reset") /\ Blank(E.n)
            /\ tos' = IF E.to >= MaxTimeouts THEN 0 ELSE MaxTimeouts - E.to
            /\ sched' = [d \in Dests |-> E.sched[d]]
TDeliver == IsEvent("Deliver") /\ Deliver(E.m)
\* sh: how the relay's code reads the answer ("R" for a 2xx other than 200 under --get)
Served(m, d) == \E w \in work : (m = 0 \/ w.m = m) /\ w.d = d /\ Answer(w)
\* an answer to a request of a delivery the relay had already answered itself (its own timeout fired first); the
\* harness tells these apart by counting deliveries and FIN/REQs of the message up to that point
TGhost   == /\ IsEvent("Ghost")
            /\ IF E.sh = "L" THEN NextItem(E.d) \in {"L", "D"} ELSE NextItem(E.d) = E.sh
            /\ ghost' = ghost /\ GhostEffect(E.m, E.d)
TAccept  == IsEvent("Accept") /\ NextItem(E.d) = E.sh /\ Served(E.m, E.d)
TRefuse  == IsEvent("Refuse") /\ NextItem(E.d) = "R" /\ Served(E.m, E.d)
TFailDown == /\ IsEvent("Fail") /\ E.k = "down"
             /\ \E w \in work, ch \in Choices : ch[1] = E.d /\ SendFails(w, ch)
TFailLost == IsEvent("Fail") /\ E.k # "down" /\ NextItem(E.d) \in {"L", "D"} /\ Served(E.m, E.d)
\* stub HTTP endpoint closed the connection instead of answering: the request fails, or net/http silently
\* retries it on a fresh connection (the item is spent either way)
TLost    == /\ IsEvent("Lost") /\ NextItem(E.d) \in {"L", "D"}
            /\ \/ Served(E.m, E.d)
               \/ Consume(E.d) /\ UNCHANGED <<q, att, sif, gone, work, ctr, dead, tos, cl, ghost, hvars>>
\* stub HTTP endpoint closed a connection at accept: net/http may have dialled it speculatively
TDown    == /\ IsEvent("Down") /\ NextItem(E.d) = "D"
            /\ \/ \E w \in work, ch \in Choices : ch[1] = E.d /\ SendFails(w, ch)
               \/ Consume(E.d) /\ UNCHANGED <<q, att, sif, gone, work, ctr, dead, tos, cl, ghost, hvars>>
TFin     == IsEvent("Fin") /\ \E w \in work : w.m = E.m /\ RespondFin(w)
TReq     == IsEvent("Req") /\ \E w \in work : w.m = E.m /\ RespondReq(w)
TEnd     == IsEvent("End") /\ End

NeedsRequest == E.ev \in {"Accept", "Refuse", "Lost"} \/ (E.ev = "Fail" /\ E.k # "down")
SilentSend == /\ Silent /\ NeedsRequest
              /\ \E w \in work, ch \in Choices : ch[1] = E.d /\ (E.m = 0 \/ w.m = E.m) /\ SendTo(w, ch)
\* a REQ for a delivery no destination has (yet) been seen to have: HandleMessage failed before or while sending
\* (producer not connected, the relay's own timeout) = SendTo to an unknown destination followed by ConnLost
SilentGiveUp == /\ Silent /\ E.ev = "Req" /\ ~\E w \in work : w.m = E.m /\ w.st \in {"s", "ok", "fail"}
                /\ cl < MaxConnLost
                /\ \E w \in work : /\ w.m = E.m /\ w.st = "h"
                                    /\ work' = (work \ {w}) \cup {[w EXCEPT !.st = "fail"]}
                /\ cl' = cl + 1 /\ ghost' = ghost
                /\ UNCHANGED <<q, att, sif, gone, ctr, dead, sched, tos, hvars>>
SilentConnLost == /\ Silent /\ E.ev = "Req" /\ ~\E w \in work : w.m = E.m /\ w.st = "fail"
                  /\ \E w \in work : w.m = E.m /\ ConnLost(w)
SilentTimeout == Silent /\ \E m \in Msgs : SrcTimeout(m)

TraceNext == \/ TReset \/ TDeliver \/ TGhost \/ TAccept \/ TRefuse \/ TFailDown \/ TFailLost \/ TLost \/ TDown
             \/ TFin \/ TReq \/ TEnd \/ SilentSend \/ SilentGiveUp \/ SilentConnLost \/ SilentTimeout
TraceSpec == TraceInit /\ [][TraceNext]_tvars

HW == IF l > TLCGet(1) THEN TLCSet(1, l) /\ TLCSet(2, <<work, sched, q, sif>>) ELSE TRUE
TraceAccepted ==
  LET hw == TLCGet(1) IN
  IF hw = Len(Trace) + 1 THEN PrintT(<<"TRACE_OK", Len(Trace)>>)
  ELSE PrintT(<<"TRACE_REJECTED", hw, Trace[hw], TLCGet(2)>>) /\ FALSE
=============================================================================
