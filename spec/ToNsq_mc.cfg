\* the intended reader (delimiter stripped only when present): every input of length <= 7 over {x,y,d},
\* 2 destinations, publish errors possible
SPECIFICATION Spec
CONSTANTS
  Sym = {"x", "y"}
  D = "d"
  MaxLen = 7
  NDest = 2
  Trim = "ifdelim"
  CanFail = TRUE
INVARIANTS TypeOK InOrderExact Complete NoEmptyRecord
PROPERTIES NextRecordOnly Terminates
CHECK_DEADLOCK FALSE
