SPECIFICATION TraceSpec
CONSTANTS
  Msgs = {1, 2, 3, 4, 5, 6, 7, 8}
  Dests = {1, 2}
  Filter = FALSE
CONSTRAINT HW
INVARIANTS FinOnlyAfterAccept Unmodified ReqOtherwise AtLeastOnce
POSTCONDITION TraceAccepted
CHECK_DEADLOCK FALSE
