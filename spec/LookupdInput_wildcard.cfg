\* named deviation: /topic/delete and /topic/tombstone take any string as the topic; "*" matches every topic
SPECIFICATION Spec
CONSTANTS
  AsImplemented = {"unvalidatedAdminTopic"}
  MaxOwn = 2
CONSTRAINT Bounded
INVARIANTS TypeOK Total StillServing SizesRefused ClosedLeavesNothing
PROPERTIES OthersUntouched
CHECK_DEADLOCK FALSE
