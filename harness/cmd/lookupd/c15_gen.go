package main

// C15: the trusted concretiser -- input classes of LookupdInput.tla to concrete spellings
// (fixed boundary members first, then seeded random members).

import (
	"bytes"
	"encoding/binary"
	"encoding/json"
	"fmt"
	"math/rand"
	"strings"
)

type c15TcpRow struct {
	St, Cmd, T, C string
	X             bool
	Sz, Body      string
	Resp          string
	Closes        bool
	Eff           string
	Wf            bool
}

func (r c15TcpRow) class() string {
	return fmt.Sprintf("%s t=%s c=%s x=%v sz=%s body=%s", r.Cmd, r.T, r.C, r.X, r.Sz, r.Body)
}
func (r c15TcpRow) key() string { return r.St + "/" + r.class() }
func (r c15TcpRow) outcome() string {
	return fmt.Sprintf("%s closes=%v %s", r.Resp, r.Closes, r.Eff)
}

type c15HttpRow struct {
	Route, Method, Q, T, C, N string
	Ex                        bool
	Status                    int
	Msg, Eff                  string
	Wf, Exc                   bool
}

func (r c15HttpRow) class() string {
	return fmt.Sprintf("%s %s q=%s t=%s c=%s n=%s ex=%v", r.Method, r.Route, r.Q, r.T, r.C, r.N, r.Ex)
}

type c15Rows struct {
	Tcp  []c15TcpRow  `json:"tcp"`
	Http []c15HttpRow `json:"http"`
}

const c15Charset = ".abcdefghijklmnopqrstuvwxyzABCDEFGHIJKLMNOPQRSTUVWXYZ0123456789_-"

func c15RandName(rng *rand.Rand, n int) string {
	b := make([]byte, n)
	for i := range b {
		b[i] = c15Charset[rng.Intn(len(c15Charset))]
	}
	return string(b)
}

func c15BadByte(rng *rand.Rand, http bool) byte {
	for {
		c := byte(rng.Intn(256))
		if strings.IndexByte(c15Charset, c) >= 0 || c == '#' {
			continue
		}
		if !http && (c == ' ' || c == '\n') {
			continue
		}
		return c
	}
}

// c15Names: concrete members of a name class; role is "topic" or "chan"; boundary members first, the last one random
func c15Names(class, role string, rng *rand.Rand, http bool) []string {
	switch class {
	case "valid":
		return []string{"c15t", "a.b-c_D9", ".", "-", c15RandName(rng, 63), c15RandName(rng, 1+rng.Intn(62))}
	case "validEph":
		return []string{"x#ephemeral", c15RandName(rng, 53) + "#ephemeral", c15RandName(rng, 1+rng.Intn(52)) + "#ephemeral"}
	case "len64":
		return []string{c15RandName(rng, 54) + "#ephemeral", c15RandName(rng, 64)}
	case "bystander":
		// over HTTP only the first spelling: that is the one the admin exceptions of the table name
		if role == "topic" {
			if http {
				return []string{c15ByTopic}
			}
			return []string{c15ByTopic, c15ByEphTopic, c15ByTopic}
		}
		if http {
			return []string{c15ByChan}
		}
		return []string{c15ByChan, c15ByEphChan, c15ByEphChan}
	case "empty":
		return []string{""}
	case "long65":
		return []string{c15RandName(rng, 65), c15RandName(rng, 55) + "#ephemeral", c15RandName(rng, 200), c15RandName(rng, 5000),
			c15RandName(rng, 65+rng.Intn(300))}
	case "badChar":
		l := []string{"a$b", "a/b", "a\x00b", "a\tb", "t\xc3\xb8pic", "a\rb", "a*b", "a:b", "a\xffb", "a*"}
		if http {
			l = append(l, "a b", "a\nb", "a+b", "a&b", "a=b", "a%b", "a;b")
		}
		n := c15RandName(rng, 2+rng.Intn(30))
		i := 1 + rng.Intn(len(n)-1)
		return append(l, n[:i]+string([]byte{c15BadByte(rng, http)})+n[i:])
	case "ephAlone":
		return []string{"#ephemeral"}
	case "wildcard":
		return []string{"*"}
	case "badSuffix":
		return []string{"x#ephemera", "x#ephemeralx", "x#", "x#ephemeral#ephemeral", "x#EPHEMERAL", "#x", "x##ephemeral",
			c15RandName(rng, 1+rng.Intn(20)) + "#" + c15RandName(rng, rng.Intn(12))}
	}
	return nil
}

// pick: member i of a list with the boundary members rotated by off; the last member (random one) is used for the last index
func c15Pick(l []string, i, n, off int) string {
	if len(l) == 0 {
		return ""
	}
	if i == n-1 {
		return l[len(l)-1]
	}
	return l[(off+i)%len(l)]
}

// ---------------------------------------------------------------- TCP units

type c15Unit struct {
	Parts [][]byte // written one after the other, with a pause in between
	EOF   bool     // half-close after the last part
	Topic string   // concrete names of a REGISTER/UNREGISTER with valid names
	Chan  string
	Size  uint32 // IDENTIFY size field
	Addr  string // broadcast address of an IDENTIFY body
}

func (u c15Unit) bytes() []byte { return bytes.Join(u.Parts, nil) }

var c15Cmds = map[string]bool{"PING": true, "IDENTIFY": true, "REGISTER": true, "UNREGISTER": true}

// line: tokens joined by single spaces, decorated in ways strings.TrimSpace undoes
func c15Line(variant int, toks ...string) []byte {
	s := strings.Join(toks, " ")
	switch variant % 4 {
	case 1:
		return []byte(s + "\r\n")
	case 2:
		return []byte("  " + s + " \n")
	case 3:
		return []byte("\t" + s + "\t\r\n")
	}
	return []byte(s + "\n")
}

func c15Size(n uint32) []byte {
	var b [4]byte
	binary.BigEndian.PutUint32(b[:], n)
	return b[:]
}

func c15BodySpellings(class, addr string, rng *rand.Rand) [][]byte {
	f := map[string]interface{}{"broadcast_address": addr, "tcp_port": 4150, "http_port": 4151, "version": "1.3.0"}
	field := map[string]string{"BA": "broadcast_address", "TCP": "tcp_port", "HTTP": "http_port", "Ver": "version"}
	js := func(m map[string]interface{}) []byte { b, _ := json.Marshal(m); return b }
	cp := func() map[string]interface{} {
		m := map[string]interface{}{}
		for k, v := range f {
			m[k] = v
		}
		return m
	}
	switch class {
	case "allPresent":
		pretty, _ := json.MarshalIndent(f, " ", "\t")
		m2 := cp()
		m2["hostname"] = "h"
		m2["remote_address"] = "9.9.9.9:1"
		m3 := cp()
		m3["tcp_port"] = 70000
		m3["http_port"] = -1
		return [][]byte{js(f), append(pretty, " \n\t "...),
			[]byte(fmt.Sprintf(`{"Broadcast_Address":%q,"TCP_PORT":1,"Http_Port":2,"VERSION":"v"}`, addr)), js(m2), js(m3)}
	case "extraFields":
		m := cp()
		m["foo"] = map[string]interface{}{"nested": []interface{}{1, 2, map[string]interface{}{"x": nil}}}
		m["topology_zone"] = "z"
		m["topology_region"] = "r"
		m2 := cp()
		m2[c15RandName(rng, 1+rng.Intn(20))] = rng.Float64()
		return [][]byte{js(m), []byte(fmt.Sprintf(`{"version":"","broadcast_address":%q,"tcp_port":1,"http_port":2,"version":"1.0","x":[]}`, addr)), js(m2)}
	case "notJSON":
		junk := make([]byte, 1+rng.Intn(50))
		rng.Read(junk)
		if json.Valid(junk) {
			junk = []byte("\x01junk")
		}
		return [][]byte{[]byte("hello"), []byte("{"), []byte(`{"broadcast_address":`), []byte(`{'broadcast_address':'x'}`),
			[]byte("\x00"), append(js(f), "}x"...), junk}
	case "nonObject":
		return [][]byte{[]byte("[]"), []byte("[1,2]"), []byte("1"), []byte(`"str"`), []byte("true"), append(append([]byte("["), js(f)...), ']')}
	case "null":
		return [][]byte{[]byte("null"), []byte(" null ")}
	case "wrongTypes":
		var l [][]byte
		for k, v := range map[string]interface{}{"tcp_port": "4150", "broadcast_address": 5, "version": []int{}, "http_port": 1.5, "hostname": 5} {
			m := cp()
			m[k] = v
			l = append(l, js(m))
		}
		l = append(l, []byte(fmt.Sprintf(`{"broadcast_address":%q,"tcp_port":1e400,"http_port":2,"version":"1"}`, addr)))
		return l
	}
	if strings.HasPrefix(class, "miss") {
		m := cp()
		delete(m, field[class[4:]])
		return [][]byte{js(m)}
	}
	if strings.HasPrefix(class, "zero") {
		k := field[class[4:]]
		m := cp()
		if _, isStr := m[k].(string); isStr {
			m[k] = ""
		} else {
			m[k] = 0
		}
		m2 := cp()
		m2[k] = nil
		return [][]byte{js(m), js(m2)}
	}
	return nil
}

// c15TcpUnits: n concrete spellings of the row's class
func c15TcpUnits(row c15TcpRow, rng *rand.Rand, n int, addr string) []c15Unit {
	var out []c15Unit
	off := rng.Intn(1000)
	one := func(b ...[]byte) c15Unit { return c15Unit{Parts: b} }
	switch row.Cmd {
	case "MAGIC":
		var l [][]byte
		switch row.T {
		case "ok":
			l = [][]byte{[]byte("  V1")}
		case "bad4":
			r4 := make([]byte, 4)
			rng.Read(r4)
			if string(r4) == "  V1" {
				r4[0] = 'x'
			}
			l = [][]byte{[]byte("  V2"), []byte("V1  "), {0, 0, 0, 0}, []byte("GET "), []byte("  v1"), []byte("  V2PING\n"), []byte(" V1 "), r4}
		case "shortEOF":
			l = [][]byte{{}, []byte(" "), []byte("  V"), []byte("  ")}
		}
		for i := 0; i < n && i < len(l); i++ {
			u := one(l[(off+i)%len(l)])
			if i == n-1 || i == len(l)-1 {
				u = one(l[len(l)-1])
			}
			u.EOF = row.T != "ok"
			out = append(out, u)
		}
	case "EOF":
		if row.T == "bare" {
			out = append(out, c15Unit{Parts: [][]byte{{}}, EOF: true})
		} else {
			l := []string{"PING", "REGISTER c15_partial c", "IDENTIFY", "PIN", "UNREGISTER " + c15ByTopic}
			for i := 0; i < n && i < len(l); i++ {
				out = append(out, c15Unit{Parts: [][]byte{[]byte(l[(off+i)%len(l)])}, EOF: true})
			}
		}
	case "UNKNOWN":
		junk := make([]byte, 4+rng.Intn(40))
		for i := range junk {
			junk[i] = byte(1 + rng.Intn(255))
			if junk[i] == '\n' {
				junk[i] = 'n'
			}
		}
		js := string(junk)
		if t := strings.TrimSpace(js); t == "" || c15Cmds[strings.Split(t, " ")[0]] || strings.HasPrefix(js, "  V1") {
			js = "JUNK" + c15RandName(rng, 5)
		}
		l := []string{"FOOO", "ping", "PINGX", "IDENTIFY2", "REGISTER\tt", "SUB t c", "GET / HTTP/1.1", "\x00\x01\x02\x03",
			"V1V1", strings.Repeat("A", 70000), "PING\x00", "register a b", js}
		for i := 0; i < n && i < len(l); i++ {
			out = append(out, one(c15Line(off+i, c15Pick(l, i, c15Min(n, len(l)), off))))
		}
	case "EMPTY":
		l := []string{"\n", "\r\n", " \n", "\t\r\n", "      \n", " \t \x0b\x0c\r\n"}
		if row.St == "noMagic" {
			l = l[:3] // shorter than the magic
		}
		for i := 0; i < n && i < len(l); i++ {
			out = append(out, one([]byte(l[(off+i)%len(l)])))
		}
	case "PING":
		for i := 0; i < n; i++ {
			toks := []string{"PING"}
			if row.X {
				for j := 0; j <= rng.Intn(3); j++ {
					toks = append(toks, c15RandName(rng, 1+rng.Intn(8)))
				}
			}
			out = append(out, one(c15Line(off+i, toks...)))
		}
	case "REGISTER", "UNREGISTER":
		if row.T == "noparams" {
			for i := 0; i < c15Min(n, 3); i++ {
				out = append(out, one(c15Line(off+i, row.Cmd)))
			}
			break
		}
		tn := c15Names(row.T, "topic", rng, false)
		var cn []string
		if row.C != "absent" {
			cn = c15Names(row.C, "chan", rng, false)
		}
		for i := 0; i < n; i++ {
			t := c15Pick(tn, i, n, off)
			toks := []string{row.Cmd, t}
			c := ""
			if row.C != "absent" {
				c = c15Pick(cn, i, n, off/7)
				toks = append(toks, c)
			}
			if row.X {
				for j := 0; j <= rng.Intn(3); j++ {
					toks = append(toks, c15RandName(rng, 1+rng.Intn(8)))
				}
			}
			u := one(c15Line(off+i, toks...))
			u.Topic, u.Chan = t, c
			out = append(out, u)
		}
	case "IDENTIFY":
		lines := [][]byte{[]byte("IDENTIFY\n"), []byte(" IDENTIFY \r\n"), []byte("IDENTIFY foo bar\n")}
		bodyClass := row.Body
		if bodyClass == "-" {
			bodyClass = "allPresent"
		}
		bodies := c15BodySpellings(bodyClass, addr, rng)
		for i := 0; i < n; i++ {
			line := lines[(off+i)%len(lines)]
			body := bodies[(off+i)%len(bodies)]
			if row.Sz != "exact" && row.Sz != "split" {
				body = bytes.TrimSpace(body) // so that a shorter size really cuts the JSON value
			}
			u := c15Unit{Addr: addr}
			L := uint32(len(body))
			switch row.Sz {
			case "exact":
				u.Size = L
				u.Parts = [][]byte{bytes.Join([][]byte{line, c15Size(L), body}, nil)}
			case "split":
				u.Size = L
				all := bytes.Join([][]byte{line, c15Size(L), body}, nil)
				lo := len(line) + 1 // at least one size byte in the first write
				k := lo + rng.Intn(len(all)-lo)
				if i == 0 {
					k = len(line) + 4 // size complete, none of the body
				}
				u.Parts = [][]byte{all[:k], all[k:]}
			case "truncEOF":
				sz := []uint32{1, 5, L}[(off+i)%3]
				sent := rng.Intn(int(sz))
				u.Size = sz
				u.Parts = [][]byte{bytes.Join([][]byte{line, c15Size(sz), body[:c15Min(sent, len(body))]}, nil)}
				u.EOF = true
			case "largerEOF":
				sz := L + []uint32{1, 100, 4000}[(off+i)%3]
				u.Size = sz
				u.Parts = [][]byte{bytes.Join([][]byte{line, c15Size(sz), body}, nil)}
				u.EOF = true
			case "shortOfBody":
				sz := []uint32{1, L / 2, L - 1}[(off+i)%3]
				u.Size = sz
				u.Parts = [][]byte{bytes.Join([][]byte{line, c15Size(sz), body}, nil)}
			case "zero":
				u.Parts = [][]byte{append(append([]byte{}, line...), c15Size(0)...)}
				if i%2 == 1 {
					u.Parts[0] = append(u.Parts[0], body...)
				}
			case "missingEOF":
				u.Parts = [][]byte{append(append([]byte{}, line...), c15Size(L)[:(off+i)%4]...)}
				u.EOF = true
			case "huge":
				sz := []uint32{0x7fffffff, c15HugeMin, c15HugeMin + uint32(rng.Int63n(0x3fffffff))}[i%3]
				u.Size = sz
				u.Parts = [][]byte{bytes.Join([][]byte{line, c15Size(sz), body}, nil)}
			case "negative":
				sz := []uint32{0xffffffff, 0x80000000, 0xfffffffe, 0x80000000 + uint32(rng.Int63n(0x7fffffff))}[(off+i)%4]
				if i == n-1 && n > 1 {
					sz = 0x80000000 + uint32(rng.Int63n(0x7fffffff))
				}
				u.Size = sz
				u.Parts = [][]byte{bytes.Join([][]byte{line, c15Size(sz)}, nil)}
				if i%2 == 1 {
					u.Parts[0] = append(u.Parts[0], body...)
				}
			}
			out = append(out, u)
		}
	}
	// before the magic the first four bytes must not be the magic, and (except EMPTY / short magic) there must be four
	if row.St == "noMagic" && row.Cmd != "MAGIC" {
		var keep []c15Unit
		for _, u := range out {
			b := u.bytes()
			if bytes.HasPrefix(b, []byte("  V1")) || (row.Cmd != "EMPTY" && len(b) < 4) {
				continue
			}
			u.EOF = true
			keep = append(keep, u)
		}
		out = keep
	}
	return out
}

func c15Min(a, b int) int {
	if a < b {
		return a
	}
	return b
}
