package main

func cmdFuzz(args []string) int { return 2 }
