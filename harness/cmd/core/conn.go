package main

import (
	"bufio"
	"compress/flate"
	"crypto/tls"
	"encoding/binary"
	"encoding/json"
	"fmt"
	"io"
	"net"
	"strings"
	"sync"
	"time"

	"github.com/golang/snappy"
	"github.com/nsqio/nsq/verifharness/hlib"
)

// Frame is one decoded protocol frame.
type Frame struct {
	Type     int32 // 0 response, 1 error, 2 message
	Data     []byte
	ID       string
	Attempts uint16
	TS       int64
	Body     []byte
}

// Conn is a raw protocol-V2 client connection.
type Conn struct {
	Name    string
	c       net.Conn
	w       *bufio.Writer
	wmu     sync.Mutex
	frames  chan Frame
	closed  chan struct{}
	once    sync.Once
	rerr    error
	rd      io.Reader    // current read side (raw, TLS, snappy or deflate)
	flush   func() error // extra flush of the compression layer
	started bool
	hold    chan struct{}          // non-nil: the frame reader waits on it before every read (a consumer that stopped reading)
	Neg     map[string]interface{} // negotiated features from the IDENTIFY response
	under   io.ReadWriter          // what a compression layer sits on: the socket, or the TLS connection once upgraded
	underR  *bufio.Reader          // one buffered reader of `under`, shared by successive decompressors (a second IDENTIFY restarts the stream)
	noStart bool                   // identify() leaves the frame reader stopped (another IDENTIFY follows)
}

const barrierID = "ffffffffffffffff" // never issued by the generator (ids start with the timestamp)

func dial(addr, name string) (*Conn, error) {
	c, err := net.DialTimeout("tcp", addr, 5*time.Second)
	if err != nil {
		return nil, err
	}
	cn := &Conn{Name: name, c: c, w: bufio.NewWriter(c), frames: make(chan Frame, 4096), closed: make(chan struct{}), rd: c}
	if _, err := c.Write([]byte("  V2")); err != nil {
		return nil, err
	}
	return cn, nil
}

// start begins the frame reader; called once the (optional) feature negotiation is over
func (cn *Conn) start() {
	if !cn.started {
		cn.started = true
		go cn.readLoop()
	}
}

// readRawFrame reads one frame synchronously (used only during IDENTIFY negotiation)
func readRawFrame(r io.Reader) (int32, []byte, error) {
	var hdr [8]byte
	if _, err := io.ReadFull(r, hdr[:]); err != nil {
		return 0, nil, err
	}
	size := int32(binary.BigEndian.Uint32(hdr[:4]))
	if size < 4 || size > 64<<20 {
		return 0, nil, fmt.Errorf("bad frame size %d", size)
	}
	data := make([]byte, size-4)
	if _, err := io.ReadFull(r, data); err != nil {
		return 0, nil, err
	}
	return int32(binary.BigEndian.Uint32(hdr[4:])), data, nil
}

func (cn *Conn) readLoop() {
	r := bufio.NewReaderSize(cn.rd, 4096)
	for {
		if h := cn.hold; h != nil {
			<-h
		}
		var hdr [8]byte
		if _, err := io.ReadFull(r, hdr[:]); err != nil {
			cn.rerr = err
			break
		}
		size := int32(binary.BigEndian.Uint32(hdr[:4]))
		ft := int32(binary.BigEndian.Uint32(hdr[4:]))
		if size < 4 || size > 64<<20 {
			cn.rerr = fmt.Errorf("bad frame size %d", size)
			break
		}
		data := make([]byte, size-4)
		if _, err := io.ReadFull(r, data); err != nil {
			cn.rerr = err
			break
		}
		f := Frame{Type: ft, Data: data}
		if ft == 0 && string(data) == "_heartbeat_" {
			cn.send("NOP\n", nil)
			continue
		}
		if ft == 2 {
			if len(data) < 26 {
				cn.rerr = fmt.Errorf("short message frame")
				break
			}
			f.TS = int64(binary.BigEndian.Uint64(data[:8]))
			f.Attempts = binary.BigEndian.Uint16(data[8:10])
			f.ID = string(data[10:26])
			f.Body = data[26:]
			hlib.Emit("HRecv", "conn", cn.Name, "id", f.ID, "att", int(f.Attempts), "ts", f.TS, "body", f.Body, "now", time.Now().UnixNano())
		}
		cn.frames <- f
	}
	close(cn.closed)
}

// sendSplit writes line+a, lets gap pass, then writes b -- as ONE command (nothing else of this connection in between)
func (cn *Conn) sendSplit(line string, a, b []byte, gap time.Duration) error {
	cn.wmu.Lock()
	defer cn.wmu.Unlock()
	cn.c.SetWriteDeadline(time.Now().Add(20 * time.Second))
	for i, part := range [][]byte{append([]byte(line), a...), b} {
		if i == 1 {
			time.Sleep(gap)
		}
		if _, err := cn.w.Write(part); err != nil {
			return err
		}
		if err := cn.w.Flush(); err != nil {
			return err
		}
		if cn.flush != nil {
			if err := cn.flush(); err != nil {
				return err
			}
		}
	}
	return nil
}

func (cn *Conn) send(line string, body []byte) error {
	cn.wmu.Lock()
	defer cn.wmu.Unlock()
	cn.c.SetWriteDeadline(time.Now().Add(20 * time.Second))
	if _, err := cn.w.WriteString(line); err != nil {
		return err
	}
	if body != nil {
		if _, err := cn.w.Write(body); err != nil {
			return err
		}
	}
	if err := cn.w.Flush(); err != nil {
		return err
	}
	if cn.flush != nil {
		return cn.flush()
	}
	return nil
}

func lenPrefixed(b []byte) []byte {
	out := make([]byte, 4+len(b))
	binary.BigEndian.PutUint32(out, uint32(len(b)))
	copy(out[4:], b)
	return out
}

// next waits for the next frame.
func (cn *Conn) next(d time.Duration) (Frame, bool) {
	select {
	case f := <-cn.frames:
		return f, true
	case <-time.After(d):
		return Frame{}, false
	case <-cn.closed:
		select {
		case f := <-cn.frames:
			return f, true
		default:
		}
		return Frame{}, false
	}
}

func (cn *Conn) isClosed() bool {
	select {
	case <-cn.closed:
		return true
	default:
		return false
	}
}

func (cn *Conn) close() {
	cn.once.Do(func() { cn.c.Close() })
}

// expectResponse reads frames until a non-message frame arrives; message frames met on the way are returned.
func (cn *Conn) expectResponse(d time.Duration) (Frame, []Frame, error) {
	var msgs []Frame
	deadline := time.Now().Add(d)
	for {
		f, ok := cn.next(time.Until(deadline))
		if !ok {
			return Frame{}, msgs, fmt.Errorf("%s: no response within %s (closed=%v err=%v)", cn.Name, d, cn.isClosed(), cn.rerr)
		}
		if f.Type == 2 {
			msgs = append(msgs, f)
			continue
		}
		return f, msgs, nil
	}
}

func (cn *Conn) identify(extra map[string]interface{}) (map[string]interface{}, error) {
	m := map[string]interface{}{"client_id": cn.Name, "hostname": "h", "user_agent": "verif", "feature_negotiation": true}
	for k, v := range extra {
		m[k] = v
	}
	b, _ := json.Marshal(m)
	if err := cn.send("IDENTIFY\n", lenPrefixed(b)); err != nil {
		return nil, err
	}
	cn.c.SetReadDeadline(time.Now().Add(20 * time.Second))
	ft, data, err := readRawFrame(cn.rd)
	if err != nil {
		return nil, err
	}
	if ft != 0 {
		cn.start()
		return nil, fmt.Errorf("IDENTIFY: %s", data)
	}
	var resp map[string]interface{}
	json.Unmarshal(data, &resp)
	cn.Neg = resp
	expectOK := func() error {
		ft, data, err := readRawFrame(cn.rd)
		if err != nil {
			return err
		}
		if ft != 0 || string(data) != "OK" {
			return fmt.Errorf("upgrade: unexpected frame %d %q", ft, data)
		}
		return nil
	}
	under := cn.under
	if under == nil {
		under = cn.c
	}
	if v, _ := resp["tls_v1"].(bool); v {
		tc := tls.Client(cn.c, &tls.Config{InsecureSkipVerify: true})
		if err := tc.Handshake(); err != nil {
			return nil, err
		}
		under = tc
		cn.under = tc
		cn.rd = tc
		cn.w = bufio.NewWriter(tc)
		if err := expectOK(); err != nil {
			return nil, err
		}
	}
	if v, _ := resp["snappy"].(bool); v {
		if cn.underR == nil {
			cn.underR = bufio.NewReader(under)
		}
		cn.rd = snappy.NewReader(cn.underR)
		//lint:ignore SA1019 unbuffered snappy writer, as nsqd itself uses
		cn.w = bufio.NewWriter(snappy.NewWriter(under))
		if err := expectOK(); err != nil {
			return nil, err
		}
	}
	if v, _ := resp["deflate"].(bool); v {
		lvl := 6
		if l, ok := resp["deflate_level"].(float64); ok {
			lvl = int(l)
		}
		if cn.underR == nil {
			cn.underR = bufio.NewReader(under)
		}
		cn.rd = flate.NewReader(cn.underR)
		fw, _ := flate.NewWriter(under, lvl)
		cn.w = bufio.NewWriter(fw)
		cn.flush = fw.Flush
		if err := expectOK(); err != nil {
			return nil, err
		}
	}
	cn.c.SetReadDeadline(time.Time{})
	if !cn.noStart {
		cn.start()
	}
	return resp, nil
}

// identifyTwice: IDENTIFY, then IDENTIFY again asking for the same compression (nsqd accepts IDENTIFY as long as
// the connection has not subscribed): the server answers the second one over the layers negotiated so far and then
// restarts the compression stream on top of the socket / TLS connection; so does this client.
func (cn *Conn) identifyTwice(extra map[string]interface{}) (map[string]interface{}, error) {
	cn.noStart = true
	if _, err := cn.identify(extra); err != nil {
		cn.noStart = false
		return nil, err
	}
	cn.noStart = false
	again := map[string]interface{}{}
	for k, v := range extra {
		if k != "tls_v1" { // TLS is negotiated once
			again[k] = v
		}
	}
	resp, err := cn.identify(again)
	if err != nil {
		return nil, &secondIdentifyErr{err}
	}
	return resp, nil
}

// secondIdentifyErr: the first IDENTIFY went through on this very connection, the repeated one did not
type secondIdentifyErr struct{ err error }

func (e *secondIdentifyErr) Error() string { return e.err.Error() }

func (cn *Conn) sub(topic, channel string) error {
	if err := cn.send(fmt.Sprintf("SUB %s %s\n", topic, channel), nil); err != nil {
		return err
	}
	f, _, err := cn.expectResponse(20 * time.Second)
	if err != nil {
		return err
	}
	if f.Type != 0 || string(f.Data) != "OK" {
		return fmt.Errorf("SUB: %s", f.Data)
	}
	return nil
}

func (cn *Conn) cmd(kind, id string, arg string) error {
	hlib.Emit("HCmd", "conn", cn.Name, "cmd", kind, "id", id, "arg", arg, "now", time.Now().UnixNano())
	switch kind {
	case "FIN", "TOUCH":
		return cn.send(kind+" "+id+"\n", nil)
	case "REQ":
		return cn.send("REQ "+id+" "+arg+"\n", nil)
	case "RDY":
		return cn.send("RDY "+arg+"\n", nil)
	case "CLS":
		return cn.send("CLS\n", nil)
	}
	return fmt.Errorf("unknown cmd %s", kind)
}

// errCode returns the E_* code of an error frame.
func errCode(f Frame) string {
	s := string(f.Data)
	if i := strings.IndexByte(s, ' '); i > 0 {
		return s[:i]
	}
	return s
}

// barrier sends a TOUCH of a never-issued id and waits for its E_TOUCH_FAILED: every earlier command on this
// connection has then been executed. Returns frames (messages and errors) seen on the way.
func (cn *Conn) barrier(d time.Duration) ([]Frame, error) {
	if err := cn.send("TOUCH "+barrierID+"\n", nil); err != nil {
		return nil, err
	}
	var seen []Frame
	deadline := time.Now().Add(d)
	for {
		f, ok := cn.next(time.Until(deadline))
		if !ok {
			return seen, fmt.Errorf("%s: barrier not answered within %s (closed=%v)", cn.Name, d, cn.isClosed())
		}
		if f.Type == 1 && strings.Contains(string(f.Data), barrierID) {
			hlib.Emit("HBarrier", "conn", cn.Name)
			return seen, nil
		}
		seen = append(seen, f)
	}
}
