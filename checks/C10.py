"""C10 -- nsqd HTTP API: validation, status codes, effects, equivalence with TCP publish
(spec: NsqdHttp, NsqdHttpMC, NsqdHttpBeh, NsqdHttpTrace; harness: cmd/api10)."""
import json
import os
import re
from vlib import Inconclusive, log, NCPU

META = {
    "technique": "TLC checks the NsqdHttp outcome table (route x method x argument classes x body layouts x registry state) "
                 "against the property-level predicate StepOK, Never500, ExactEffect and HttpPubEqTcpPub over all request "
                 "sequences of a bounded registry; every table row / behaviour TLC prints is concretised and replayed against a "
                 "real in-process nsqd (status, answer shape, effect via GET /stats, TCP twin publish with both channels "
                 "drained); seeded random request traces of the real nsqd are validated by TLC against NsqdHttpTrace",
    "design_ref": "5/C10",
}

BEH = "NsqdHttpBeh"


def cfg_constants(ctx, cfg):
    s = open(os.path.join(ctx.specdir, cfg)).read()

    def num(name):
        m = re.search(r"^\s*%s\s*=\s*(-?\d+)" % name, s, re.M)
        if not m:
            raise Inconclusive("no constant %s in %s" % (name, cfg))
        return int(m.group(1))

    def strset(name):
        m = re.search(r"^\s*%s\s*=\s*\{([^}]*)\}" % name, s, re.M)
        if not m:
            raise Inconclusive("no constant %s in %s" % (name, cfg))
        return [x.strip().strip('"') for x in m.group(1).split(",") if x.strip()]

    return {"maxmsg": num("MaxMsg"), "maxbody": num("MaxBody"), "topics": strset("Topics"), "channels": strset("Channels")}


def behaviours_of(r):
    out = []
    for line in r.out.splitlines():
        if line.startswith('"BEH '):
            try:
                out.append(json.loads(line)[4:])
            except ValueError:
                raise Inconclusive("cannot parse a behaviour line printed by TLC: %r" % line[:200])
    return out


class Findings:
    def __init__(self, ctx):
        self.ctx = ctx
        self.seen = set()
        self.drift_seen = set()

    def take(self, rep, source):
        ctx = self.ctx
        for v in rep.get("violations") or []:
            if v["key"] in self.seen:
                continue
            self.seen.add(v["key"])
            path = ctx.save_replay("%s-%s" % (source, v["key"]), {"source": source, "key": v["key"], "what": v["what"],
                                                                    "replay": v["replay"]})
            ctx.violation("[%s] %s" % (source, v["what"]), path, key=v["key"])
        for d in rep.get("drift") or []:
            if d["key"] in self.drift_seen:
                continue
            self.drift_seen.add(d["key"])
            ctx.drift("[%s] %s: %s" % (source, d["key"], d["what"]))


def harness_report(ctx, args, what, timeout):
    rep = os.path.join(ctx.scratch, "rep-%s.json" % what)
    if os.path.exists(rep):
        os.unlink(rep)
    rc, out, err = ctx.run_harness(args + ["--report", rep, "--scratch", ctx.scratch, "--seed", ctx.seed],
                                   name="api10", timeout=timeout)
    if rc not in (0, 1) or not os.path.exists(rep):
        tail = (out + err)[-3000:]
        if ("panic:" in err or "fatal error:" in err) and "nsqio/nsq/nsqd" in err:
            # the harness hosts nsqd in-process: a crash of a daemon goroutine takes the harness down with it
            path = ctx.save_replay("crash-" + what, {"stderr": err[-20000:], "args": [str(a) for a in args]})
            ctx.violation("nsqd crashed (panic outside the HTTP handlers) while %s was running:\n%s" % (what, tail), path,
                          key="daemon-crash " + what)
            return None
        raise Inconclusive("harness %s failed (rc=%s):\n%s" % (what, rc, tail))
    R = json.load(open(rep))
    if R.get("inconclusive"):
        raise Inconclusive("%s: %s" % (what, "; ".join(R["inconclusive"][:3])))
    return R


def account(ctx, R, what):
    ctx.cov["evaluations"] += R["requests"]
    ctx.cov["distinct_nontrivial"] += R["distinct_shapes"]
    n = ctx.notes.setdefault("replay", {})
    n[what] = {"behaviours": R["behaviours"], "requests": R["requests"], "distinct_request_classes": R["distinct_shapes"],
               "twin_experiments": R.get("twin_runs", 0), "twin_accepted_by_both": R.get("twin_accepted", 0),
               "messages_drained": R.get("delivered", 0)}
    oc = ctx.notes.setdefault("outcomes", {})
    for k, v in (R.get("outcomes") or {}).items():
        oc[k] = oc.get(k, 0) + v
    for s in (R.get("samples") or [])[:2]:
        ctx.sample({what: s})


def run_replay_file(ctx, path, F):
    """bin/check C10 --replay <file saved by an earlier run>"""
    rp = json.load(open(path))
    inner = rp.get("replay") or {}
    beh = inner.get("behaviour")
    if beh is None and inner.get("twin"):
        beh = {"pre": [], "steps": [{"req": inner["class"], "status": 0, "msg": "*", "enq": [], "post": {}, "twin": True,
                                     "allowed": [200, 400, 404, 405, 413]}]}
    if beh is None:
        raise Inconclusive("replay file %s carries no behaviour" % path)
    bp = os.path.join(ctx.scratch, "replay.ndjson")
    with open(bp, "w") as f:
        f.write(json.dumps(beh) + "\n")
    post = beh["steps"][-1].get("post") or {}
    topics = sorted(post.keys()) or ["t1", "t2"]
    channels = sorted(next(iter(post.values()))["ch"].keys()) if post else ["c1", "c2"]
    R = harness_report(ctx, ["replay", "--beh", bp, "--maxmsg", inner.get("max_msg_size", 5), "--maxbody",
                             inner.get("max_body_size", 24), "--topics", ",".join(topics), "--channels", ",".join(channels),
                             "--workers", 1, "--variants", 5, "--twin-variants", 5], "replay-file", 600)
    if R is not None:
        account(ctx, R, "replay-file")
        F.take(R, "replay-file")
    ctx.cov["states"] = max(ctx.cov["states"], 1)
    ctx.cov["transitions"] = max(ctx.cov["transitions"], 1)


def run(ctx):
    quick = ctx.quick
    F = Findings(ctx)
    ctx.cov["rule"] = ("evaluations = requests sent to a real nsqd (replayed TLC behaviours, TCP twin experiments, random "
                       "traces); a case is distinct by its abstract request class (route, method, argument value classes incl. "
                       "duplicates, unparsable query, body layout with real lengths, declared/chunked) and answer status")
    ctx.assumptions += [
        "nsqd runs in-process with TLS not required and auth off (C11 owns those), max-msg-size / max-body-size set to the "
        "model's MaxMsg / MaxBody so body layouts need no class-to-size mapping",
        "the concretiser (classes -> names, defer spellings, bytes, chunking, query order) in harness/cmd/api10/common.go is trusted",
        "requests whose HTTP framing itself is broken (truncated bodies, malformed chunk headers) are not 'complete requests' "
        "and are not generated; nsqd answers 500 INTERNAL_ERROR to a malformed chunk header (noted, not flagged)",
        "the registry is observed through GET /stats?format=json at quiescence; replay waits for the predicted state "
        "(a stable wrong state is a violation, an unstable one inconclusive)",
        "redirects of httprouter (trailing slash, case-insensitive path fixing) are outside the table; 'unknown path' "
        "members avoid them",
    ]
    if ctx.replay:
        run_replay_file(ctx, ctx.replay, F)
        return

    # 1. the design: all request sequences over an evolving registry (bounded), all properties
    ctx.model_check("NsqdHttpMC", "NsqdHttp_mc.cfg" if quick else "NsqdHttp_thorough.cfg", timeout=1500)

    # 2. non-vacuity: with the two forbidden behaviours of the code switched on (as-implemented table) TLC must
    #    find Never500 / HttpPubEqTcpPub violated
    for cfg, prop in (("NsqdHttp_asimpl_misc.cfg", "Never500OnCompleteRequest"), ("NsqdHttp_asimpl_bin.cfg", "StepHttpPubEqTcpPub")):
        r = ctx.tlc(BEH, cfg, workers=4, timeout=600, label="as-implemented")
        if r.violated != prop:
            raise Inconclusive("self-test: as-implemented table %s should violate %s, TLC says %s\n%s"
                               % (cfg, prop, r.violated, r.out[-1500:]))
    ctx.notes["as_implemented_table_violates"] = ["Never500OnCompleteRequest", "StepHttpPubEqTcpPub"]

    # 3. binding A: every row / behaviour TLC prints is replayed against a real nsqd
    plans = [
        ("args", "NsqdHttp_args.cfg" if quick else "NsqdHttp_args_thorough.cfg", 1 if quick else 2, 1 if quick else 3),
        ("text", "NsqdHttp_text.cfg" if quick else "NsqdHttp_text_thorough.cfg", 1 if quick else 2, 1),
        ("text2", "NsqdHttp_text2.cfg", 1 if quick else 3, 1 if quick else 3),
        ("bin", "NsqdHttp_bin.cfg" if quick else "NsqdHttp_bin_thorough.cfg", 1 if quick else 2, 1 if quick else 2),
        ("seq", "NsqdHttp_seq.cfg" if quick else "NsqdHttp_seq_thorough.cfg", 2 if quick else 1, 2),
        # the same alphabet from a registry that already has topic t1 with channel c1: every pair of requests there
        # (e.g. a deferred publish, then /channel/empty: everything the channel holds goes, queued or not)
        ("seq1", "NsqdHttp_seq1.cfg", 1, 1),
    ]
    reported_a = set()
    for what, cfg, variants, tvariants in plans:
        r = ctx.model_check(BEH, cfg, workers=4, timeout=1500, label="table:" + what)
        behs = behaviours_of(r)
        if len(behs) < 100:
            raise Inconclusive("only %d behaviours printed for %s" % (len(behs), cfg))
        bp = os.path.join(ctx.scratch, "beh-%s.ndjson" % what)
        with open(bp, "w") as f:
            f.write("\n".join(behs) + "\n")
        k = cfg_constants(ctx, cfg)
        R = harness_report(ctx, ["replay", "--beh", bp, "--maxmsg", k["maxmsg"], "--maxbody", k["maxbody"],
                                 "--topics", ",".join(k["topics"]), "--channels", ",".join(k["channels"]),
                                 "--workers", min(16, NCPU), "--variants", variants, "--twin-variants", tvariants],
                            "replay-" + what, 3000)
        if R is None:
            continue
        account(ctx, R, what)
        F.take(R, "replay-" + what)
        for key in (R.get("notes") or {}):
            if key.startswith("violation:"):
                reported_a.add(key)
        log("replay %s: %d behaviours, %d requests, %d twin experiments (%d accepted by both), %d messages drained"
            % (what, R["behaviours"], R["requests"], R.get("twin_runs", 0), R.get("twin_accepted", 0), R.get("delivered", 0)))
    ctx.cov["exhaustive"] = True

    # 3b. /config: sequences of lookupd address lists (the option is applied by the lookup loop, outside the handlers)
    for i in range(2 if quick else 12):
        rep = os.path.join(ctx.scratch, "rep-cfgseq-%d.json" % i)
        rc, out, err = ctx.run_harness(["cfgseq", "--report", rep, "--scratch", ctx.scratch, "--seed", ctx.seed * 100 + i,
                                        "--rounds", 60], name="api10", timeout=600)
        if not os.path.exists(rep):
            if ("panic:" in err or "fatal error:" in err) and "nsqio/nsq/nsqd" in err:
                path = ctx.save_replay("crash-cfgseq", {"stderr": err[-20000:], "seed": ctx.seed * 100 + i})
                ctx.violation("nsqd crashed (panic outside the HTTP handlers) during a sequence of PUT /config/nsqlookupd_tcp_addresses "
                              "requests, each of which had been answered 200:\n%s" % err[-1500:], path, key="daemon-crash cfgseq")
                break
            raise Inconclusive("cfgseq failed (rc=%s): %s" % (rc, (out + err)[-1500:]))
        R = json.load(open(rep))
        ctx.cov["evaluations"] += R["requests"]
        for v in R.get("violations") or []:
            ctx.violation("[cfgseq] " + v["what"], ctx.save_replay("cfgseq", v), key=v["key"])

    # 3c. the metadata file cannot be replaced for a while: every request is still answered, everybody still served
    rep = os.path.join(ctx.scratch, "rep-metafault.json")
    rc, out, err = ctx.run_harness(["metafault", "--report", rep, "--scratch", ctx.scratch], name="api10", timeout=300)
    if os.path.exists(rep):
        R = json.load(open(rep))
        ctx.cov["evaluations"] += R["requests"]
        for v in R.get("violations") or []:
            ctx.violation("[metafault] " + v["what"], ctx.save_replay("metafault", v), key=v["key"])
        if R.get("inconclusive"):
            ctx.notes["metafault_inconclusive"] = R["inconclusive"]
    elif ("panic:" in err or "fatal error:" in err) and "nsqio/nsq/nsqd" in err:
        ctx.violation("nsqd crashed while its metadata file could not be replaced:\n%s" % err[-1500:],
                      ctx.save_replay("crash-metafault", {"stderr": err[-20000:]}), key="daemon-crash metafault")
    else:
        ctx.notes["metafault_inconclusive"] = (out + err)[-500:]

    # 4. binding B: random request traces of the real nsqd, validated by TLC.
    #    A trace stops being checkable at the first rejected step; classes that binding A already reported in this
    #    run are therefore not generated again here.
    avoid = []
    if any("route=freememory" in k and "got=500" in k for k in reported_a):
        avoid.append("freememory")
    if any("route=setblockrate" in k and "got=500" in k for k in reported_a):
        avoid.append("setblockrate")
    if any("route=mpub" in k and "got=200" in k and "binary=true chunked=true" in k for k in reported_a):
        avoid.append("binchunk")
    if avoid:
        ctx.notes["trace_generator_avoids_classes_already_reported"] = avoid
    k = cfg_constants(ctx, "NsqdHttpTrace.cfg")
    ntr, ln = (24, 80) if quick else (240, 120)
    trace = os.path.join(ctx.scratch, "http.ndjson")

    def gen():
        a = ["trace", "--out", trace, "--traces", ntr, "--len", ln, "--maxmsg", k["maxmsg"], "--maxbody", k["maxbody"],
             "--topics", ",".join(k["topics"]), "--channels", ",".join(k["channels"]), "--workers", min(12, NCPU)]
        if avoid:
            a += ["--avoid", ",".join(avoid)]
        return harness_report(ctx, a, "trace", 3000)

    T = gen()
    if T is not None:
        account(ctx, T, "trace")
        F.take(T, "trace")
        ctx.notes["trace_events"] = T["notes"].get("trace_events", 0)

        def probe():
            r = ctx.tlc("NsqdHttpTrace", "NsqdHttpTrace.cfg", workers=1, timeout=3000, jvm=["-Xss512m"],
                        files={trace: "trace.ndjson"}, record=False)
            if r.ok and "TRACE_OK" in r.out:
                return 0
            m = re.search(r'"TRACE_REJECTED",\s*(\d+)', r.out)
            if not m:
                raise Inconclusive("TLC failed validating the trace:\n" + r.out[-3000:])
            return int(m.group(1))

        at = probe()
        if at:
            # the registry is observed asynchronously (topic pump): a rejection counts only when the same seed
            # reproduces it at the same step
            log("trace rejected at line %d; regenerating with the same seed to confirm" % at)
            gen()
            at2 = probe()
            if at2 != at:
                raise Inconclusive("trace rejection at line %d was not reproduced (second run: %s)" % (at, at2 or "accepted"))
        ctx.validate_trace("NsqdHttpTrace", "NsqdHttpTrace.cfg", trace, T["behaviours"], "http", timeout=3000,
                           key="trace-rejected")
        ctx.validate_trace("NsqdHttpTrace", "NsqdHttpTrace_shape.cfg", trace, T["behaviours"], "http-shape", timeout=3000,
                           level="shape")
