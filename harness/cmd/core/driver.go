package main

import (
	"bytes"
	"encoding/binary"
	"fmt"
	"github.com/nsqio/nsq/internal/lg"
	"math/rand"
	"os"
	"strconv"
	"strings"
	"sync"
	"sync/atomic"
	"time"

	"github.com/nsqio/nsq/nsqd"
	"github.com/nsqio/nsq/verifharness/hlib"
)

// Scenario is one randomized run against one in-process nsqd.
type Scenario struct {
	Seed         int64
	Mode         string // core | contend | flow | churn | bytes
	MemQ         int64
	MaxBytes     int64
	MsgTimeout   time.Duration
	MaxMsgTmo    time.Duration
	MaxReqTmo    time.Duration
	Topics       []string
	Channels     map[string][]string // topic -> channel names
	ConsPerChan  int
	NPub         int // publishers
	NMsg         int // messages per publisher
	Phases       int
	OutBufSize   int
	OutBufTmo    int
	Deflate      bool
	DeflateLvl   int
	Snappy       bool
	TLS          bool
	BodyMax      int
	SampleRate   int
	Vanish       bool // a consumer stops reading mid-stream: the daemon's write to it fails (C01)
	Starve       bool // one channel has a timeout on every scan tick while it also holds deferred messages (C04 "soon after")
	RdyZero      bool // an idle consumer lowers RDY / CLS / its channel is paused, long before the next publish (C03)
	ReIdentify   bool // connections IDENTIFY twice, negotiating the same compression again, before they publish / subscribe (C07)
	MixedTmo     bool // two consumers of one channel with different negotiated msg_timeouts (C04)
	PauseBacklog bool // topic paused in the middle of fanning out a backlog (C03)
	Lonely       bool // an extra topic without any channel until the drain (C13: it is reported all the same)
	Topo         bool // nsqd runs the topology-aware-consumption experiment with a zone and a region; consumers announce the same zone, the same region only, or neither (C01: zone/regionLocalMsgChan are part of the channel queue)
	Lookupd      int  // 0: none configured; 1: an nsqlookupd that stays up; 2: one that nsqd connected to and that is gone by the time the topics are created
}

func (s Scenario) String() string {
	feat := ""
	if s.TLS {
		feat += " tls"
	}
	if s.Snappy {
		feat += " snappy"
	}
	if s.Deflate {
		feat += fmt.Sprintf(" deflate%d", s.DeflateLvl)
	}
	if s.OutBufSize != 0 || s.OutBufTmo != 0 {
		feat += fmt.Sprintf(" outbuf=%d/%dms", s.OutBufSize, s.OutBufTmo)
	}
	if s.Lonely {
		feat += " lonely-topic"
	}
	if s.MixedTmo {
		feat += " mixed-timeouts"
	}
	if s.ReIdentify {
		feat += " identify-twice"
	}
	if s.PauseBacklog {
		feat += " pause-backlog"
	}
	if s.Topo {
		feat += " topology"
	}
	if s.Lookupd != 0 {
		feat += []string{"", " lookupd", " lookupd-gone"}[s.Lookupd]
	}
	return fmt.Sprintf("mode=%s seed=%d memq=%d maxbytes=%d msgtmo=%s topics=%v chans=%v cons=%d pubs=%dx%d%s",
		s.Mode, s.Seed, s.MemQ, s.MaxBytes, s.MsgTimeout, s.Topics, s.Channels, s.ConsPerChan, s.NPub, s.NMsg, feat)
}

func genScenario(mode string, seed int64) Scenario {
	r := rand.New(rand.NewSource(seed*7919 + int64(len(mode))))
	s := Scenario{Seed: seed, Mode: mode, Channels: map[string][]string{}}
	s.MemQ = []int64{0, 1, 3, 1000}[r.Intn(4)]
	s.MaxBytes = []int64{2048, 100 << 20}[r.Intn(2)]
	s.MsgTimeout = []time.Duration{120 * time.Millisecond, 250 * time.Millisecond, 5 * time.Second}[r.Intn(3)]
	s.MaxMsgTmo = s.MsgTimeout * 3
	s.MaxReqTmo = 300 * time.Millisecond
	nt := 1 + r.Intn(2)
	for i := 0; i < nt; i++ {
		t := fmt.Sprintf("t%d", i)
		s.Topics = append(s.Topics, t)
		nc := 1 + r.Intn(3)
		for j := 0; j < nc; j++ {
			s.Channels[t] = append(s.Channels[t], fmt.Sprintf("c%d", j))
		}
	}
	s.ConsPerChan = 1 + r.Intn(3)
	s.NPub = 1 + r.Intn(3)
	s.NMsg = 6 + r.Intn(14)
	s.Phases = 2
	s.BodyMax = 64
	if mode == "core" {
		s.Vanish = r.Intn(3) == 0
	}
	if mode == "flow" {
		s.RdyZero = true
		s.PauseBacklog = rand.New(rand.NewSource(seed*2221+7)).Intn(2) == 0
	}
	if mode == "core" || mode == "churn" || mode == "flow" {
		// independent stream: the other choices for a given seed stay what they were
		s.Lookupd = []int{0, 0, 1, 2}[rand.New(rand.NewSource(seed*104729+11)).Intn(4)]
		s.Lonely = mode == "core" && rand.New(rand.NewSource(seed*15485863+5)).Intn(2) == 0
	}
	if mode == "core" || mode == "contend" || mode == "flow" || mode == "churn" || mode == "timing" {
		s.Topo = rand.New(rand.NewSource(seed*32452843+13)).Intn(3) == 0
	}
	switch mode {
	case "contend":
		s.Topics = s.Topics[:1]
		s.Channels[s.Topics[0]] = s.Channels[s.Topics[0]][:1]
		s.ConsPerChan = 2 + r.Intn(3)
		s.MsgTimeout = []time.Duration{100 * time.Millisecond, 200 * time.Millisecond}[r.Intn(2)]
		s.MaxMsgTmo = s.MsgTimeout * 3
	case "flow":
		// (independent stream) a third of the runs over deflate, some over snappy: the output path has a compressor in it
		fr := rand.New(rand.NewSource(seed*4409 + 17))
		s.Deflate = fr.Intn(3) == 0
		s.DeflateLvl = 1 + fr.Intn(6)
		s.Snappy = !s.Deflate && fr.Intn(4) == 0
		s.MsgTimeout = []time.Duration{150 * time.Millisecond, 5 * time.Second}[r.Intn(2)]
		s.MaxMsgTmo = s.MsgTimeout * 3
		s.OutBufSize = []int{0, 64, 16384}[r.Intn(3)]
		s.OutBufTmo = []int{0, 25, 100}[r.Intn(3)]
	case "timing":
		// one channel shared by deferred, requeued and timed-out messages with assorted deadlines (heap order),
		// TOUCH patterns that run into max-msg-timeout, REQ delays beyond max-req-timeout
		s.Topics = s.Topics[:1]
		s.Channels[s.Topics[0]] = s.Channels[s.Topics[0]][:1]
		s.ConsPerChan = 2 + r.Intn(2)
		s.MemQ = []int64{0, 5, 1000}[r.Intn(3)]
		s.MsgTimeout = []time.Duration{120 * time.Millisecond, 200 * time.Millisecond}[r.Intn(2)]
		s.MaxMsgTmo = s.MsgTimeout*2 + time.Duration(r.Intn(100))*time.Millisecond
		s.MaxReqTmo = time.Duration(150+r.Intn(150)) * time.Millisecond
		s.NMsg = 10 + r.Intn(12)
		s.Starve = r.Intn(3) == 0
		s.MixedTmo = !s.Starve && rand.New(rand.NewSource(seed*613+1)).Intn(3) == 0
		if s.MixedTmo {
			s.MaxMsgTmo = 8 * time.Second
		}
		if s.Starve {
			s.MsgTimeout, s.MaxMsgTmo, s.MaxReqTmo = 200*time.Millisecond, 600*time.Millisecond, 300*time.Millisecond
		}
	case "bytes":
		s.BodyMax = []int{300, 20000, 70000}[r.Intn(3)]
		s.NMsg = 4 + r.Intn(5)
		s.Deflate = r.Intn(3) == 0
		s.DeflateLvl = 1 + r.Intn(9) // may exceed the daemon's max-deflate-level (6): it is clamped
		s.Snappy = !s.Deflate && r.Intn(2) == 0
		s.TLS = r.Intn(3) == 0
		s.ReIdentify = (s.Deflate || s.Snappy) && rand.New(rand.NewSource(seed*977+3)).Intn(2) == 0
		s.OutBufSize = []int{0, 64, 16384, 65536}[r.Intn(4)]
		s.MsgTimeout = 5 * time.Second
		s.MaxMsgTmo = 15 * time.Second
	}
	return s
}

// ---- run state ----------------------------------------------------------

type pubRec struct {
	Key     string
	Topic   string
	Body    []byte
	Defer   int // ms
	Via     string
	Acked   bool
	SentSeq int64
}

type consumer struct {
	cn      *Conn
	topic   string
	channel string
	rdy     int64
	held    map[string]time.Time // ids received and not yet answered
	person  int
	closing bool
	dead    bool
}

type Run struct {
	sc           Scenario
	nd           *Node
	rng          *rand.Rand
	mu           sync.Mutex
	pubs         []*pubRec
	byKey        map[string]*pubRec
	connSeq      int64
	topoSeq      int64
	stop         int32 // consumers/publishers/admin pause their activity when 1
	fails        []string
	incon        string
	lastEv       int64 // event counter (activity detection)
	wg           sync.WaitGroup
	cons         []*consumer
	consMu       sync.Mutex
	emptied      map[string]bool // "topic/channel" emptied or deleted during the run
	draining     int32
	worstLate    int64
	timingChecks int
	exiting      int32 // graceful shutdown requested (restart mode): publishers and consumers lose their connections
}

func (r *Run) failf(f string, a ...interface{}) {
	r.mu.Lock()
	r.fails = append(r.fails, fmt.Sprintf(f, a...))
	r.mu.Unlock()
}

func (r *Run) inconclusive(f string, a ...interface{}) {
	r.mu.Lock()
	if r.incon == "" {
		r.incon = fmt.Sprintf(f, a...)
	}
	r.mu.Unlock()
}

func (r *Run) newConnName(prefix string) string {
	return fmt.Sprintf("%s%d", prefix, atomic.AddInt64(&r.connSeq, 1))
}

// body for publisher p, message i: ASCII key, '|', then arbitrary bytes
func (r *Run) makeBody(rng *rand.Rand, p, i int) (string, []byte) {
	key := fmt.Sprintf("p%02d-%05d", p, i)
	n := rng.Intn(r.sc.BodyMax + 1)
	var b bytes.Buffer
	b.WriteString(key)
	b.WriteByte('|')
	if r.sc.Mode == "bytes" {
		kind := rng.Intn(7)
		if kind == 6 {
			kind = 0
		}
		pad := make([]byte, n)
		switch kind {
		case 0:
			rng.Read(pad)
		case 1:
			for j := range pad {
				pad[j] = byte(j)
			}
		case 2:
			for j := range pad {
				pad[j] = "\n\x00\r "[rng.Intn(4)]
			}
		case 3: // looks like protocol framing / commands
			frag := [][]byte{[]byte("FIN 0123456789abcdef\n"), []byte("  V2"), {0, 0, 0, 6, 0, 0, 0, 1}, []byte("PUB x\n"), []byte("_heartbeat_"), {0, 0, 0, 0}}
			pad = pad[:0]
			for len(pad) < n {
				pad = append(pad, frag[rng.Intn(len(frag))]...)
			}
		case 4: // sizes around buffer boundaries
			sizes := []int{16384 - 40, 16384 - 37, 16384 - 36, 16384 - 35, 4096 - 36, 65536 - 36}
			pad = make([]byte, sizes[rng.Intn(len(sizes))])
			rng.Read(pad)
		default:
			// exactly max-msg-size (128 KiB in these runs), or one byte less
			pad = make([]byte, 128*1024-len(key)-1-rng.Intn(2))
			rng.Read(pad)
		}
		b.Write(pad)
	} else {
		if (r.sc.Mode == "core" || r.sc.Mode == "restart") && rng.Intn(12) == 0 {
			// within 26 bytes (the size of the on-disk header) of max-msg-size
			n = r.maxMsgSize() - len(key) - 1 - rng.Intn(27)
		}
		for j := 0; j < n; j++ {
			b.WriteByte(byte('a' + rng.Intn(26)))
		}
	}
	return key, b.Bytes()
}

// ---- publishers ---------------------------------------------------------

func (r *Run) publisher(p int, seed int64, count int, startIdx int) {
	defer r.wg.Done()
	rng := rand.New(rand.NewSource(seed))
	cn, err := dial(r.nd.TCP, r.newConnName("pub"))
	if err != nil {
		r.inconclusive("publisher dial: %v", err)
		return
	}
	defer cn.close()
	pextra := map[string]interface{}{}
	r.features(pextra)
	ident := cn.identify
	if r.sc.ReIdentify {
		ident = cn.identifyTwice
	}
	if _, err := ident(pextra); err != nil {
		if se, ok := err.(*secondIdentifyErr); ok {
			r.failf("[C07] a connection that negotiated %s and then sent IDENTIFY again with the same options could not read the daemon's answer: %v", r.sc.String()[strings.Index(r.sc.String(), "pubs="):], se)
			return
		}
		r.inconclusive("publisher identify: %v", err)
		return
	}
	i := startIdx
	end := startIdx + count
	for i < end && !cn.isClosed() {
		topic := r.sc.Topics[rng.Intn(len(r.sc.Topics))]
		kind := rng.Intn(10)
		if r.sc.Mode == "timing" && rng.Intn(2) == 0 {
			kind = []int{4, 7}[rng.Intn(2)] // DPUB or HTTP /pub (often with defer)
		}
		switch {
		case kind < 4: // PUB
			key, body := r.makeBody(rng, p, i)
			rec := r.record(key, topic, body, 0, "PUB")
			i++
			hlib.Emit("HPub", "key", key, "via", "PUB", "t", topic, "defer", 0, "now", time.Now().UnixNano())
			cn.send("PUB "+topic+"\n", lenPrefixed(body))
			r.ack(cn, []*pubRec{rec})
		case kind < 5: // DPUB
			key, body := r.makeBody(rng, p, i)
			d := 20 + rng.Intn(120)
			rec := r.record(key, topic, body, d, "DPUB")
			i++
			hlib.Emit("HPub", "key", key, "via", "DPUB", "t", topic, "defer", d, "now", time.Now().UnixNano())
			cn.send(fmt.Sprintf("DPUB %s %d\n", topic, d), lenPrefixed(body))
			r.ack(cn, []*pubRec{rec})
		case kind < 7: // MPUB
			n := 1 + rng.Intn(4)
			if i+n > end {
				n = end - i
			}
			var recs []*pubRec
			var buf bytes.Buffer
			binary.Write(&buf, binary.BigEndian, int32(n))
			for j := 0; j < n; j++ {
				key, body := r.makeBody(rng, p, i)
				recs = append(recs, r.record(key, topic, body, 0, "MPUB"))
				i++
				buf.Write(lenPrefixed(body))
				hlib.Emit("HPub", "key", key, "via", "MPUB", "t", topic, "defer", 0, "now", time.Now().UnixNano())
			}
			cn.send("MPUB "+topic+"\n", lenPrefixed(buf.Bytes()))
			r.ack(cn, recs)
		case kind < 8: // HTTP /pub (sometimes deferred)
			key, body := r.makeBody(rng, p, i)
			d := 0
			path := "/pub?topic=" + topic
			if rng.Intn(3) == 0 {
				d = 20 + rng.Intn(120)
				path += "&defer=" + strconv.Itoa(d)
			}
			rec := r.record(key, topic, body, d, "HTTP")
			i++
			hlib.Emit("HPub", "key", key, "via", "HTTP", "t", topic, "defer", d, "now", time.Now().UnixNano())
			st, _, err := r.nd.post(path, body)
			if err == nil && st == 200 {
				r.markAcked([]*pubRec{rec})
			}
		default: // HTTP /mpub binary or text
			n := 1 + rng.Intn(3)
			if i+n > end {
				n = end - i
			}
			binaryMode := rng.Intn(2) == 0
			if r.sc.Mode == "bytes" {
				binaryMode = rng.Intn(3) != 0
			}
			var recs []*pubRec
			var buf bytes.Buffer
			if binaryMode {
				binary.Write(&buf, binary.BigEndian, int32(n))
			}
			for j := 0; j < n; j++ {
				key, body := r.makeBody(rng, p, i)
				if !binaryMode {
					// '\n' is the only byte the text framing reserves; everything else, a trailing CR included, is body
					body = bytes.ReplaceAll(body, []byte("\n"), []byte("_"))
					switch rng.Intn(6) {
					case 0:
						body = append(body, '\r')
					case 1:
						body = append(body, '\r', '\r')
					case 2:
						body = append(body, ' ', '\t')
					}
				}
				recs = append(recs, r.record(key, topic, body, 0, "HMPUB"))
				i++
				hlib.Emit("HPub", "key", key, "via", "HMPUB", "t", topic, "defer", 0, "now", time.Now().UnixNano())
				if binaryMode {
					buf.Write(lenPrefixed(body))
				} else {
					if j > 0 && rng.Intn(5) == 0 {
						buf.WriteByte('\n') // an empty line between two messages: skipped, not a message
					}
					buf.Write(body)
					if j < n-1 || rng.Intn(3) != 0 {
						buf.WriteByte('\n') // the last line may end without a newline
					}
				}
			}
			path := "/mpub?topic=" + topic
			if binaryMode {
				path += "&binary=true"
			}
			st, _, err := r.nd.post(path, buf.Bytes())
			if err == nil && st == 200 {
				r.markAcked(recs)
			}
		}
		if rng.Intn(3) == 0 {
			time.Sleep(time.Duration(rng.Intn(8)) * time.Millisecond)
		}
	}
}

func (r *Run) record(key, topic string, body []byte, d int, via string) *pubRec {
	rec := &pubRec{Key: key, Topic: topic, Body: body, Defer: d, Via: via}
	r.mu.Lock()
	r.pubs = append(r.pubs, rec)
	r.byKey[key] = rec
	r.mu.Unlock()
	return rec
}

func (r *Run) ack(cn *Conn, recs []*pubRec) {
	f, _, err := cn.expectResponse(30 * time.Second)
	if err != nil {
		if atomic.LoadInt32(&r.exiting) == 0 {
			r.inconclusive("publish response: %v", err)
		}
		return
	}
	if f.Type == 0 && string(f.Data) == "OK" {
		r.markAcked(recs)
	}
}

func (r *Run) markAcked(recs []*pubRec) {
	r.mu.Lock()
	keys := make([]string, 0, len(recs))
	for _, rec := range recs {
		rec.Acked = true
		keys = append(keys, rec.Key)
	}
	r.mu.Unlock()
	hlib.Emit("HPubAck", "keys", keys)
}

// features adds the scenario's negotiated transport features to an IDENTIFY body
func (r *Run) features(extra map[string]interface{}) {
	if r.sc.TLS {
		extra["tls_v1"] = true
	}
	if r.sc.Snappy {
		extra["snappy"] = true
	}
	if r.sc.Deflate {
		extra["deflate"] = true
		extra["deflate_level"] = r.sc.DeflateLvl
	}
}

// ---- consumers ----------------------------------------------------------

func keyOf(body []byte) string {
	if i := bytes.IndexByte(body, '|'); i > 0 && i < 16 {
		return string(body[:i])
	}
	return ""
}

func (r *Run) newConsumer(topic, channel string, person int, rdy int64) (*consumer, error) {
	cn, err := dial(r.nd.TCP, r.newConnName("con"))
	if err != nil {
		return nil, err
	}
	extra := map[string]interface{}{}
	if r.sc.OutBufSize != 0 {
		extra["output_buffer_size"] = r.sc.OutBufSize
	}
	if r.sc.OutBufTmo != 0 {
		extra["output_buffer_timeout"] = r.sc.OutBufTmo
	}
	if r.sc.SampleRate != 0 && person == 9 {
		extra["sample_rate"] = r.sc.SampleRate
	}
	r.features(extra)
	if r.sc.Topo {
		// a third of the consumers each: in the daemon's zone, in its region only, elsewhere
		switch atomic.AddInt64(&r.topoSeq, 1) % 3 {
		case 0:
			extra["topology_zone"], extra["topology_region"] = "z1", "r1"
		case 1:
			extra["topology_zone"], extra["topology_region"] = "z2", "r1"
		default:
			extra["topology_zone"], extra["topology_region"] = "z9", "r9"
		}
	}
	ident := cn.identify
	if r.sc.ReIdentify {
		ident = cn.identifyTwice
	}
	if _, err := ident(extra); err != nil {
		if se, ok := err.(*secondIdentifyErr); ok {
			r.failf("[C07] a consumer that negotiated compression and then sent IDENTIFY again with the same options could not read the daemon's answer: %v", se)
		}
		return nil, err
	}
	if err := cn.sub(topic, channel); err != nil {
		return nil, err
	}
	c := &consumer{cn: cn, topic: topic, channel: channel, held: map[string]time.Time{}, person: person}
	if rdy > 0 {
		c.rdy = rdy
		cn.cmd("RDY", "", strconv.FormatInt(rdy, 10))
	}
	r.consMu.Lock()
	r.cons = append(r.cons, c)
	r.consMu.Unlock()
	return c, nil
}

// consumerLoop: personality-driven behaviour until the run is stopped.
//
//	0 prompt: FIN everything
//	1 mixed: FIN / REQ 0 / REQ d / TOUCH+FIN / ignore
//	2 slow: answers late (after the timeout may have passed), sometimes twice
//	3 flaky: like 1 but disconnects abruptly now and then (a replacement connects)
//	4 rdy-juggler: changes RDY up and down, CLS at some point
func (r *Run) consumerLoop(c *consumer, seed int64) {
	defer r.wg.Done()
	rng := rand.New(rand.NewSource(seed))
	for atomic.LoadInt32(&r.stop) == 0 {
		f, ok := c.cn.next(15 * time.Millisecond)
		if c.cn.isClosed() && !ok {
			c.dead = true
			return
		}
		if !ok {
			// idle: maybe answer something held, maybe change RDY
			r.idleAction(c, rng)
			continue
		}
		if f.Type != 2 {
			continue // error frames for failed FIN/REQ/TOUCH: accounted for from the trace
		}
		c.held[f.ID] = time.Now()
		lastIDs.Store(c, f.ID)
		r.onMessage(c, rng, f)
	}
}

func (r *Run) onMessage(c *consumer, rng *rand.Rand, f Frame) {
	draining := atomic.LoadInt32(&r.draining) == 1
	if draining || c.person == 0 {
		c.cn.cmd("FIN", f.ID, "")
		delete(c.held, f.ID)
		return
	}
	x := rng.Intn(100)
	switch c.person {
	case 1, 3, 4:
		switch {
		case x < 45:
			c.cn.cmd("FIN", f.ID, "")
			delete(c.held, f.ID)
		case x < 60:
			c.cn.cmd("REQ", f.ID, "0")
			delete(c.held, f.ID)
		case x < 72:
			c.cn.cmd("REQ", f.ID, strconv.Itoa(10+rng.Intn(400))) // may exceed max-req-timeout: clamped
			delete(c.held, f.ID)
		case x < 82:
			c.cn.cmd("TOUCH", f.ID, "")
		default:
			// ignore for now
		}
		if c.person == 3 && rng.Intn(12) == 0 {
			c.cn.close()
		}
	case 2, 5:
		// answer later (idleAction)
	}
}

func (r *Run) idleAction(c *consumer, rng *rand.Rand) {
	if atomic.LoadInt32(&r.draining) == 1 {
		for id := range c.held {
			c.cn.cmd("FIN", id, "")
			delete(c.held, id)
		}
		return
	}
	if c.person == 5 && len(c.held) > 0 {
		for id, since := range c.held {
			age := time.Since(since)
			switch {
			case age > r.sc.MaxMsgTmo+r.sc.MsgTimeout:
				delete(c.held, id) // the cap has expired it by now: it will come back
			case rng.Intn(3) == 0:
				c.cn.cmd("TOUCH", id, "")
			case rng.Intn(12) == 0:
				c.cn.cmd("FIN", id, "")
				delete(c.held, id)
			case rng.Intn(12) == 0:
				c.cn.cmd("REQ", id, strconv.Itoa(rng.Intn(600)))
				delete(c.held, id)
			}
			break
		}
		return
	}
	if len(c.held) > 0 && rng.Intn(3) == 0 {
		for id, since := range c.held {
			age := time.Since(since)
			switch {
			case c.person == 2 && age < r.sc.MsgTimeout/2:
				continue
			case rng.Intn(4) == 0:
				c.cn.cmd("TOUCH", id, "")
				continue
			case rng.Intn(4) == 0:
				c.cn.cmd("REQ", id, "0")
			default:
				c.cn.cmd("FIN", id, "")
				if c.person == 2 && rng.Intn(4) == 0 {
					c.cn.cmd("FIN", id, "") // duplicate answer
				}
			}
			delete(c.held, id)
			break
		}
	}
	if c.person == 4 && rng.Intn(6) == 0 && !c.closing {
		switch rng.Intn(5) {
		case 0:
			c.cn.cmd("RDY", "", "0")
			c.rdy = 0
		case 1:
			c.cn.cmd("CLS", "", "")
			c.closing = true
			if rng.Intn(2) == 0 {
				// ... and asks for more all the same: CLS stands, nothing more may come
				c.cn.cmd("RDY", "", strconv.Itoa(1+rng.Intn(4)))
			}
		default:
			n := int64(1 + rng.Intn(4))
			c.cn.cmd("RDY", "", strconv.FormatInt(n, 10))
			c.rdy = n
		}
	}
	if c.person == 4 && c.closing && rng.Intn(8) == 0 {
		// a consumer that has said CLS asks for more all the same: nothing more may come
		c.cn.cmd("RDY", "", strconv.Itoa(1+rng.Intn(4)))
	}
	// answers from the wrong connection: try to FIN a message another consumer holds
	if r.sc.Mode == "contend" && rng.Intn(10) == 0 {
		r.consMu.Lock()
		other := r.cons[rng.Intn(len(r.cons))]
		r.consMu.Unlock()
		if other != c && other.channel == c.channel && other.topic == c.topic {
			// racy read of the other consumer's map is avoided: use the shared last-seen id
			if id := other.lastID(); id != "" {
				switch rng.Intn(3) {
				case 0:
					c.cn.cmd("FIN", id, "")
				case 1:
					c.cn.cmd("REQ", id, "0")
				default:
					c.cn.cmd("TOUCH", id, "")
				}
			}
		}
	}
}

var lastIDs sync.Map // *consumer -> string

func (c *consumer) lastID() string {
	v, ok := lastIDs.Load(c)
	if !ok {
		return ""
	}
	return v.(string)
}

// ---- admin goroutine ----------------------------------------------------

func (r *Run) admin(seed int64) {
	defer r.wg.Done()
	rng := rand.New(rand.NewSource(seed))
	for atomic.LoadInt32(&r.stop) == 0 {
		time.Sleep(time.Duration(10+rng.Intn(40)) * time.Millisecond)
		t := r.sc.Topics[rng.Intn(len(r.sc.Topics))]
		chs := r.sc.Channels[t]
		ch := chs[rng.Intn(len(chs))]
		x := rng.Intn(100)
		switch {
		case x < 25:
			r.httpAdmin("/channel/pause?topic=" + t + "&channel=" + ch)
		case x < 50:
			r.httpAdmin("/channel/unpause?topic=" + t + "&channel=" + ch)
		case x < 62:
			r.httpAdmin("/topic/pause?topic=" + t)
		case x < 78:
			r.httpAdmin("/topic/unpause?topic=" + t)
		case x < 88 && r.sc.Mode == "churn":
			r.mu.Lock()
			r.emptied[t+"/"+ch] = true
			r.mu.Unlock()
			r.httpAdmin("/channel/empty?topic=" + t + "&channel=" + ch)
		case x < 94 && r.sc.Mode == "churn":
			nm := fmt.Sprintf("x%d", rng.Intn(3))
			r.httpAdmin("/channel/create?topic=" + t + "&channel=" + nm)
		case x < 100 && r.sc.Mode == "churn":
			nm := fmt.Sprintf("x%d", rng.Intn(3))
			r.mu.Lock()
			r.emptied[t+"/"+nm] = true
			r.mu.Unlock()
			r.httpAdmin("/channel/delete?topic=" + t + "&channel=" + nm)
		}
	}
}

func (r *Run) httpAdmin(path string) int {
	hlib.Emit("HAdmin", "path", path)
	st, _, err := r.nd.post(path, nil)
	if err != nil {
		r.inconclusive("admin %s: %v", path, err)
		return 0
	}
	hlib.Emit("HAdminDone", "path", path, "status", st)
	if st == 500 {
		r.failf("[C10] admin request %s answered 500", path)
	}
	return st
}

// ---- orchestration ------------------------------------------------------

func (r *Run) nodeOpts(o *nsqd.Options) {
	if r.sc.Seed%3 == 1 {
		// a third of the runs with --log-level=debug (the output is thrown away; what is logged is not)
		o.LogLevel = lg.DEBUG
	}
	o.MemQueueSize = r.sc.MemQ
	o.MaxBytesPerFile = r.sc.MaxBytes
	o.MsgTimeout = r.sc.MsgTimeout
	o.MaxMsgTimeout = r.sc.MaxMsgTmo
	o.MaxReqTimeout = r.sc.MaxReqTmo
	o.DeflateEnabled = true
	o.SnappyEnabled = true
	if r.sc.TLS {
		o.TLSCert = repoDir() + "/nsqd/test/certs/server.pem"
		o.TLSKey = repoDir() + "/nsqd/test/certs/server.key"
	}
	o.MaxMsgSize = int64(r.maxMsgSize())
	if r.sc.Starve {
		// a coarser scan tick keeps the expiry phases of the starving channel apart for the whole step
		o.QueueScanInterval = 50 * time.Millisecond
		o.MsgTimeout = 200 * time.Millisecond
		o.MaxMsgTimeout = 600 * time.Millisecond
		o.MaxReqTimeout = 300 * time.Millisecond
	}
	if r.sc.Topo {
		o.Experiments = []string{string(nsqd.TopologyAwareConsumption)}
		o.TopologyRegion, o.TopologyZone = "r1", "z1"
	}
	if r.sc.Vanish {
		o.MaxMsgSize = 8 << 20 // the stalled-consumer step publishes one message larger than any socket buffer
	}
}

func (r *Run) maxMsgSize() int { return 128 * 1024 }

func repoDir() string {
	if d := os.Getenv("VERIF_REPO"); d != "" {
		return d
	}
	return "/repo"
}

func trimGen(s string) string {
	if i := strings.IndexByte(s, '#'); i >= 0 {
		return s[:i]
	}
	return s
}
