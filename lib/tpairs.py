"""Binding A' at the topic level: NsqdTopic (implementation-shaped: channelMap vs. the message pump's cached channel
list, the channelUpdateChan / pauseChan handshakes, PutMessage's read lock, Topic.exit step by step) enumerates
every interleaving of up to three topic operations with the steps of the pump; the gated replayer (`core tpairs`)
forces each schedule on the real daemon in child processes (a panic is an observation) and the outcome -- which
channel ended up with which message, before and after unpausing / restarting -- is judged by the property
predicates.  Disagreement with NsqdTopic's prediction that breaks no predicate is SHAPE-DRIFT."""
import json
import os
import subprocess

from vlib import Inconclusive, log

# (opA, opB, opC, situation)
CASES_QUICK = [
    ("PUT", "GETD", "NONE", "idle"), ("PUT", "GETD", "NONE", "held"), ("PUT", "GETD", "NONE", "nochan"),
    ("GETD", "GETD", "PUT", "idle"), ("GETD", "GETD", "PUT", "held"),
    ("PUT", "DELC", "NONE", "held"), ("PUT", "DELC", "NONE", "idle"), ("GETD", "DELC", "NONE", "held"),
    ("PUT", "PAUSE", "NONE", "held"), ("PUT", "PAUSE", "GETD", "idle"), ("PUT", "UNPAUSE", "NONE", "paused"),
    ("PUT", "GETD", "NONE", "paused"), ("PUT", "DELC", "NONE", "paused"),
    ("PUT", "TEXIT", "NONE", "held"), ("PUT", "TEXIT", "NONE", "idle"), ("GETD", "TEXIT", "NONE", "held"),
    ("PUT", "TEXIT", "NONE", "paused"), ("DELC", "TEXIT", "NONE", "held"),
    ("PUT", "TDELETE", "NONE", "held"), ("GETD", "TDELETE", "NONE", "held"), ("DELC", "TDELETE", "NONE", "held"),
    # a channel asked for again while (or after) it is deleted: what the deletion discards does not come back
    ("DELC", "GETC", "NONE", "backlog"), ("DELC", "GETC", "NONE", "held"),
    # a topic that is in the map but has not been started (GetTopic asking the nsqlookupds, LoadMetadata): channels are
    # created, publishers find it -- and everything it accepted reaches every channel there is when it starts
    ("GETC", "GETD", "START", "unstarted"), ("PUT", "GETC", "START", "unstarted"),
    # ... paused before it is started (LoadMetadata does that for a topic that was paused): it starts paused
    ("PAUSE", "GETC", "START", "unstarted"),
]
CASES_THOROUGH = CASES_QUICK + [
    ("PUT", "GETD", "DELC", "held"), ("PUT", "GETD", "DELC", "idle"), ("PUT", "GETD", "PAUSE", "held"),
    ("PUT", "GETD", "UNPAUSE", "paused"), ("GETD", "GETD", "PUT", "paused"), ("GETD", "GETD", "PUT", "nochan"),
    ("PUT", "GETD", "TEXIT", "held"), ("PUT", "GETD", "TEXIT", "idle"), ("PUT", "DELC", "TEXIT", "held"),
    ("PUT", "PAUSE", "TEXIT", "held"), ("PUT", "GETD", "TDELETE", "held"), ("PUT", "DELC", "TDELETE", "idle"),
    ("PAUSE", "DELC", "PUT", "held"), ("GETD", "PAUSE", "NONE", "nochan"), ("PUT", "GETD", "NONE", "nochan"),
    ("GETD", "DELC", "PUT", "idle"), ("PAUSE", "TDELETE", "NONE", "held"), ("UNPAUSE", "TEXIT", "PUT", "paused"),
    ("DELC", "GETC", "PUT", "backlog"), ("DELC", "GETC", "GETC", "backlog"), ("DELC", "GETC", "TEXIT", "backlog"),
    ("PUT", "GETC", "NONE", "nochan"),
    ("PUT", "GETD", "START", "unstarted"),
]

VEC = ["m1c", "m2c", "m1d", "m2d", "m1tq", "m2tq", "m2acked", "m2failed", "c_in_map", "d_in_map", "paused", "mcount",
       "back_m1c", "back_m2c", "back_m1d", "back_m2d", "late"]
INVS = "OwedDelivered NoDup PausedHandsNothing CountMatches ExitKeeps"


def cfg_text(a, b, c, sit, handshake=True, refresh=True, join=True, emit=True, invs=True, startgate=True):
    t = ('SPECIFICATION Spec\nCONSTANTS\n  OpA = "%s"\n  OpB = "%s"\n  OpC = "%s"\n  Situation = "%s"\n'
         '  Handshake = %s\n  RefreshHonoursPause = %s\n  JoinShakes = %s\n  StartGate = %s\n'
         % (a, b, c, sit, str(handshake).upper(), str(refresh).upper(), str(join).upper(), str(startgate).upper()))
    if invs:
        t += "INVARIANTS %s\n" % INVS
    if emit:
        t += "CONSTRAINT Emit\n"
    return t + "CHECK_DEADLOCK FALSE\n"


def first_pos(s, ch):
    """first segment of actor ch (upper case: a segment up to a yield point; lower case: up to a wait for the pump)"""
    idx = [i for i in (s.find(ch), s.find(ch.lower())) if i >= 0]
    return min(idx) if idx else len(s)


def realizable(ops, sched):
    """Schedules the HTTP-driven replayer can force: once nsqd.Exit has begun the listeners are closed (an operation
    must have been accepted before), and once a topic deletion has finished the name denotes another topic."""
    for x, op in ops.items():
        if op == "TEXIT":
            for y in ops:
                if y != x and first_pos(sched, y) > first_pos(sched, x):
                    return False
        if op == "TDELETE":
            last = max(sched.rfind(x), sched.rfind(x.lower()))
            for y in ops:
                if y != x and first_pos(sched, y) > last:
                    return False
    return True


def enumerate_schedules(ctx, tuples, join=True, per_group=None):
    """join: the model variant that has the shape of the code under test (FALSE: GetChannel as first found)."""
    cases = []
    for (a, b, c, sit) in tuples:
        cfg = "NsqdTopic_%s_%s_%s_%s.cfg" % (a, b, c, sit)
        with open(os.path.join(ctx.specdir, cfg), "w") as f:
            f.write(cfg_text(a, b, c, sit, join=join, invs=join))
        r = ctx.tlc("NsqdTopic", cfg, workers=1, timeout=300, label="tpairs %s|%s|%s/%s" % (a, b, c, sit))
        if r.violated:
            raise Inconclusive("NsqdTopic (as coded) violates %s for %s|%s|%s/%s -- the model and the code disagree about the "
                               "design; see the TLC trace:\n%s" % (r.violated, a, b, c, sit, r.out[-2500:]))
        if r.crashed:
            raise Inconclusive("NsqdTopic failed for %s|%s|%s/%s:\n%s" % (a, b, c, sit, r.out[-2000:]))
        ctx.cov["states"] += r.distinct
        ctx.cov["transitions"] += r.generated
        groups = {}
        n = 0
        for t in r.prints("TSCHED"):
            v = [x.strip('"') for x in t]
            sched, porder = v[4], v[5][1:]
            vec = dict(zip(VEC, [int(x) for x in v[6:6 + len(VEC)]]))
            n += 1
            ops = {k: o for k, o in (("A", a), ("B", b), ("C", c)) if o != "NONE"}
            if not realizable(ops, sched):
                continue
            g = groups.setdefault(sched, {"opA": a, "opB": b, "opC": c, "situation": sit, "sched": sched, "alternatives": []})
            g["alternatives"].append({"porder": porder, "vec": vec})
        if n == 0:
            raise Inconclusive("no schedule printed for %s|%s|%s/%s" % (a, b, c, sit))
        gs = [groups[k] for k in sorted(groups)]
        if per_group and len(gs) > per_group:
            import random
            random.Random(ctx.seed * 7919 + len(cases)).shuffle(gs)
            gs = gs[:per_group]
        cases.extend(gs)
    return cases


def refute(ctx):
    """The as-found and two plausible-but-wrong designs must be refuted by TLC, or the model has lost its teeth."""
    wanted = [
        ("join returns at once (as first found)", ("GETD", "GETD", "PUT", "idle"), dict(join=False), "OwedDelivered"),
        ("creator does not wait for the pump", ("PUT", "GETD", "NONE", "held"), dict(handshake=False), "OwedDelivered"),
        ("refresh ignores pause", ("PUT", "PAUSE", "GETD", "idle"), dict(refresh=False), "PausedHandsNothing"),
        ("a channel created before Start() opens the queues", ("GETC", "GETD", "START", "unstarted"), dict(startgate=False), "OwedDelivered"),
    ]
    for what, (a, b, c, sit), kw, inv in wanted:
        cfg = "NsqdTopic_refute_%s_%s.cfg" % (inv, "_".join(sorted(kw)))
        with open(os.path.join(ctx.specdir, cfg), "w") as f:
            f.write(cfg_text(a, b, c, sit, emit=False, **kw))
        r = ctx.tlc("NsqdTopic", cfg, workers=1, timeout=300, label="tpairs refute: " + what, record=False)
        if r.violated != inv:
            raise Inconclusive("NsqdTopic variant '%s' is no longer refuted (expected %s, TLC says %s)" % (what, inv, r.violated))
    ctx.notes["nsqdtopic_refuted_variants"] = [w[0] for w in wanted]


def replay(ctx, cases, procs=8):
    h = ctx.harness("core")
    chunks = [cases[i::procs] for i in range(procs)]
    jobs = []
    for i, ch in enumerate(chunks):
        if not ch:
            continue
        d = os.path.join(ctx.scratch, "tpairs-%d" % i)
        os.makedirs(d, exist_ok=True)
        cf = os.path.join(d, "cases.json")
        json.dump(ch, open(cf, "w"))
        jobs.append({"dir": d, "cases": ch, "cf": cf, "from": 0, "obs": os.path.join(d, "obs.ndjson"),
                     "prog": os.path.join(d, "progress.txt"), "crashes": {}})
    active = list(jobs)
    while active:
        procs_ = []
        for j in active:
            p = subprocess.Popen([h, "tpairs", "--cases", j["cf"], "--out", j["obs"], "--progress", j["prog"],
                                  "--from", str(j["from"]), "--dir", j["dir"]], cwd=ctx.scratch, env=ctx.goenv(),
                                 stdout=subprocess.PIPE, stderr=subprocess.PIPE, text=True)
            procs_.append((j, p))
        nxt = []
        for j, p in procs_:
            try:
                out, err = p.communicate(timeout=1800)
            except subprocess.TimeoutExpired:
                p.kill()
                raise Inconclusive("topic replayer timed out")
            if p.returncode != 0:
                try:
                    idx = int(open(j["prog"]).read().strip())
                except Exception:
                    raise Inconclusive("topic replayer died without progress file:\n" + err[-2000:])
                if idx >= len(j["cases"]):
                    continue
                panic = "panic" in err or "fatal error" in err
                if not panic:
                    raise Inconclusive("topic replayer failed (not a panic):\n" + err[-2000:])
                j["crashes"][idx] = err[-1800:]
                j["from"] = idx + 1
                if j["from"] < len(j["cases"]):
                    nxt.append(j)
        active = nxt
    obs = []
    for j in jobs:
        if os.path.exists(j["obs"]):
            for line in open(j["obs"]):
                o = json.loads(line)
                o["real_crashed"] = False
                obs.append(o)
        for idx, tb in j["crashes"].items():
            obs.append({"case": j["cases"][idx], "real_crashed": True, "traceback": tb, "done": False})
    return obs


def classes(ops, kind):
    ex = "TEXIT" in ops
    if kind == "crash":
        return {"C08", "C05"} if ex else {"C08"}
    if kind == "blocked":
        return {"C08", "C05"} if ex else {"C08"}
    if kind == "lost":
        return {"C01", "C16"} if "START" in ops else {"C01"}
    if kind == "lost-restart":
        return {"C05"}
    if kind == "dup":
        return {"C02"}
    if kind == "paused-handed":
        return {"C03"}
    if kind == "count":
        return {"C13"}
    if kind in ("undeleted", "resurrected"):
        return {"C08"}
    return {"C01"}


def judge(ctx, prop, obs):
    kinds = {}
    ndrift0 = len(ctx.notes.get("shape_drift", []))
    conclusive = 0
    for o in obs:
        c = o["case"]
        ops = [x for x in (c["opA"], c["opB"], c["opC"]) if x != "NONE"]
        name = "|".join(ops) + "/" + c["situation"]
        sched = c["sched"]
        bad = []
        if o.get("inconclusive"):
            ctx.notes.setdefault("tpair_inconclusive", []).append(name + ":" + o["inconclusive"])
            continue
        conclusive += 1
        sit = c["situation"]
        deleted = set()
        if "DELC" in ops:
            deleted.add("c")
        if "TDELETE" in ops:
            deleted |= {"c", "d"}
        m2_acked = any(o["status"].get(k) == 200 for k, op in (("A", c["opA"]), ("B", c["opB"]), ("C", c["opC"])) if op == "PUT")
        if o["real_crashed"]:
            bad.append(("crash", "the daemon panicked: " + o["traceback"].strip().splitlines()[0][:200] + " ... " +
                        " | ".join(l.strip() for l in o["traceback"].splitlines() if "nsqd/" in l)[:400]))
        elif o.get("blocked"):
            bad.append(("blocked", o["blocked"]))
        elif "TEXIT" in ops:
            if o.get("restarted"):
                back = o.get("back") or {}
                was_paused = (sit == "paused" and "UNPAUSE" not in ops) or ("PAUSE" in ops and sit != "paused")
                if "PAUSE" not in ops and "UNPAUSE" not in ops and bool(o.get("paused")) != (sit == "paused"):
                    bad.append(("lost-restart", "the topic's paused flag was %s when the shutdown was requested and is %s after the restart"
                                % (sit == "paused", o.get("paused"))))
                for m in o.get("acked_at_exit") or []:
                    owed = ["c"] if (m == "m1" and sit in ("held", "paused", "backlog")) else (o["known_at_put"] if m == "m2" else [])
                    for x in owed:
                        if x in deleted or x not in (o.get("known_at_exit") or []):
                            continue
                        if m not in (back.get(x) or []):
                            bad.append(("lost-restart", "%s (acknowledged before the shutdown was requested, channel %s known then) "
                                        "did not come back on %s after graceful shutdown + restart; channels after restart: %s"
                                        % (m, x, x, json.dumps(back))))
                for x, bodies in back.items():
                    bodies = bodies or []
                    if len(set(bodies)) != len(bodies):
                        bad.append(("dup", "channel %s delivered %s after the restart" % (x, bodies)))
        else:
            final = o.get("final") or {}
            if o.get("topic_exists"):
                acked = (["m1"] if sit != "idle" else []) + (["m2"] if m2_acked else [])
                for m in acked:
                    owed = ["c"] if (m == "m1" and sit in ("held", "paused", "backlog")) else (o["known_at_put"] if m == "m2" else [])
                    if sit == "unstarted" and m in (o.get("acked_at_start") or []):
                        # accepted before the topic was started: owed to every channel that was known to exist when Start() was called
                        owed = sorted(set(owed) | set(o.get("known_at_start") or []))
                    for x in owed:
                        if x in deleted:
                            continue
                        if m not in (final.get(x) or []):
                            bad.append(("lost", "%s was acknowledged %s channel %s was known to exist, and %s never got it "
                                        "(after unpausing and draining every channel: %s)"
                                        % (m, "before the topic was started, at which moment" if sit == "unstarted" else "when", x, x, json.dumps(final))))
                for x, bodies in final.items():
                    bodies = bodies or []
                    if len(set(bodies)) != len(bodies):
                        bad.append(("dup", "channel %s delivered %s" % (x, bodies)))
                if o.get("paused"):
                    pp = o.get("paused_phase") or {}
                    if m2_acked and o.get("pause_acked_at_put"):
                        for x, bodies in pp.items():
                            if "m2" in bodies:
                                bad.append(("paused-handed", "m2 was published after the topic's pause had been acknowledged and "
                                            "channel %s delivered it while the topic was still paused" % x))
                    if (sit == "paused" and "UNPAUSE" not in ops) or (sit == "unstarted" and o.get("paused_at_start") and "UNPAUSE" not in ops):
                        for x, bodies in pp.items():
                            if "m1" in bodies:
                                bad.append(("paused-handed", "m1 was published to a paused topic and channel %s delivered it "
                                            "while the topic was still paused" % x))
                if "TDELETE" not in ops and o.get("message_count") != len(acked):
                    bad.append(("count", "topic message_count=%s but %d publishes were acknowledged" % (o.get("message_count"), len(acked))))
                delc_ok = any(o["status"].get(k) == 200 for k, op in (("A", c["opA"]), ("B", c["opB"]), ("C", c["opC"])) if op == "DELC")
                for x in deleted:
                    if x in (o.get("channels") or []) and "GETC" not in ops and x == "c":
                        bad.append(("undeleted", "channel c still listed after its deletion was acknowledged"))
                if sit == "backlog" and delc_ok and "m1" in (final.get("c") or []):
                    bad.append(("resurrected", "m1 sat in channel c's queue when the deletion of c was requested; the deletion was "
                                "acknowledged, and a channel c delivered m1 afterwards"))
            elif "TDELETE" not in ops:
                bad.append(("lost", "topic t is gone although nobody deleted it"))
        for kind, text in bad:
            cls = classes(ops, kind)
            kinds[(name, kind)] = kinds.get((name, kind), 0) + 1
            if prop in cls:
                ctx.violation("topic operations %s under schedule %s (forced through the yield points; + / - are steps of the "
                              "topic's message pump): %s" % (name, sched, text),
                              ctx.save_replay("tpair-%s-%s" % ("-".join(ops), kind), o), key="tpair:%s:%s" % ("|".join(ops), kind))
        # ---- conformance with NsqdTopic ------------------------------------------------------------------------
        if o["real_crashed"] or o.get("blocked"):
            if not bad:
                pass
            else:
                ctx.drift("topic ops %s schedule %s: NsqdTopic predicts completion, real daemon: %s" % (name, sched, bad[0][1][:200]))
            continue
        # the order in which the pump walks its channel list is the Go map's: a schedule TLC derived for the other order
        # cannot be forced in this run (the property predicates above were judged all the same)
        po = o.get("porder", "")
        if not any(a["porder"].startswith(po) or po.startswith(a["porder"]) for a in c["alternatives"]):
            ctx.notes["tpair_order_mismatch"] = ctx.notes.get("tpair_order_mismatch", 0) + 1
            conclusive -= 1
            continue
        if o.get("unexpected"):
            ctx.drift("topic ops %s schedule %s: %s" % (name, sched, o["unexpected"]))
            continue
        alts = [a for a in c["alternatives"] if a["porder"] == po]
        if not alts:
            ctx.drift("topic ops %s schedule %s: the pump copied in order '%s', NsqdTopic has %s" % (
                name, sched, o.get("porder"), sorted(a["porder"] for a in c["alternatives"])))
            continue
        v = alts[0]["vec"]
        if "TEXIT" in ops:
            if o.get("restarted"):
                back = o.get("back") or {}
                real = tuple(int(m in (back.get(x) or [])) for x in ("c", "d") for m in ("m1", "m2"))
                pred = (v["back_m1c"], v["back_m2c"], v["back_m1d"], v["back_m2d"])
                if real != pred:
                    ctx.drift("topic ops %s schedule %s: NsqdTopic predicts (m1@c m2@c m1@d m2@d) back after restart = %s, real daemon %s"
                              % (name, sched, pred, real))
        elif o.get("topic_exists"):
            final = o.get("final") or {}
            real = tuple(int(m in (final.get(x) or [])) for x in ("c", "d") for m in ("m1", "m2"))
            # what was still in a paused topic's queue reaches the channels once the judge unpauses
            tq = [m for m in ("m1", "m2") if v[m + "tq"]]
            live = [x for x in ("c", "d") if v[x + "_in_map"]]
            pred = tuple(int(bool(v[m + x]) or (m in tq and x in live)) for x in ("c", "d") for m in ("m1", "m2"))
            if real != pred or int(m2_acked) != v["m2acked"]:
                ctx.drift("topic ops %s schedule %s: NsqdTopic predicts (m1@c m2@c m1@d m2@d)=%s m2 acked=%s, real daemon %s acked=%s"
                          % (name, sched, pred, v["m2acked"], real, int(m2_acked)))
            elif o.get("paused") and o.get("topic_depth") != len(tq):
                ctx.drift("topic ops %s schedule %s: NsqdTopic predicts %d message(s) held back by the paused topic, real depth %s"
                          % (name, sched, len(tq), o.get("topic_depth")))
        elif "TDELETE" in ops:
            pass
    matched = conclusive - (len(ctx.notes.get("shape_drift", [])) - ndrift0)
    ctx.cov["traces_validated_against_impl"] += max(0, matched)
    ctx.notes.setdefault("tpair_outcomes", {}).update({"%s:%s" % k: v for k, v in kinds.items()})
    return conclusive


def run_tpairs(ctx, prop, tuples=None, sample=None, only=None, join=True, per_group=None):
    tuples = tuples or (CASES_QUICK if ctx.quick else CASES_THOROUGH)
    if only:
        tuples = [t for t in tuples if only(t)]
    refute(ctx)
    cases = enumerate_schedules(ctx, tuples, join=join, per_group=per_group or (40 if ctx.quick else 300))
    if sample and len(cases) > sample:
        import random
        rng = random.Random(ctx.seed)
        rng.shuffle(cases)
        cases = cases[:sample]
    obs = replay(ctx, cases)
    n = judge(ctx, prop, obs)
    ctx.cov["evaluations"] += len(obs)
    ctx.notes["tpair_schedules_replayed"] = ctx.notes.get("tpair_schedules_replayed", 0) + len(obs)
    ctx.notes["tpairs"] = ["|".join(x for x in t[:3] if x != "NONE") + "/" + t[3] for t in tuples]
    for o in obs[:2]:
        ctx.sample({"topic_replay": o})
    log("tpairs: %d schedules of %d operation groups replayed on the real daemon (%d conclusive)" % (len(obs), len(tuples), n))
    if n == 0:
        raise Inconclusive("no topic-level schedule could be replayed")
    return obs
