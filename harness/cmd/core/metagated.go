package main

import (
	"fmt"
	"os"
	"path/filepath"
	"strings"
	"sync"
	"time"

	"github.com/nsqio/nsq/internal/verif"
)

// metaGated: the deletion/persist race of C06 forced deterministically (in-process daemon, yield points):
// the deleting request is parked between Delete() and the map unlink until the notify goroutine spawned by
// the deletion has persisted; then it is released. Once idle, nsqd.dat must equal the live topology.
func metaGated(dir string, mc *metaCase) {
	var mu sync.Mutex
	spawn, done := 0, 0
	verif.SetSink(func(e verif.Event) {
		mu.Lock()
		switch e.Ev {
		case "NotifySpawn":
			spawn++
		case "NotifyDone":
			done++
		}
		mu.Unlock()
	})
	defer verif.SetSink(nil)
	g := newGateCtl()
	prefix := ""
	verif.SetGate(func(point string, key interface{}) {
		if prefix != "" && strings.HasPrefix(point+"|"+fmt.Sprint(key), prefix) {
			g.fn(point, "x")
		}
	})
	defer verif.SetGate(nil)
	nd, err := startNode(dir, nil)
	if err != nil {
		mc.Incon = err.Error()
		return
	}
	defer nd.stop(20 * time.Second)
	idle := func() bool {
		for i := 0; i < 400; i++ {
			mu.Lock()
			a, b := spawn, done
			mu.Unlock()
			if a == b {
				time.Sleep(30 * time.Millisecond)
				mu.Lock()
				ok := spawn == a && done == b
				mu.Unlock()
				if ok {
					return true
				}
			}
			time.Sleep(10 * time.Millisecond)
		}
		return false
	}
	for _, p := range []string{"/topic/create?topic=t1", "/channel/create?topic=t1&channel=c1", "/topic/create?topic=t2", "/channel/create?topic=t2&channel=c1"} {
		nd.post(p, nil)
		mc.Ops++
	}
	if !idle() {
		mc.Incon = "not idle after set-up"
		return
	}
	var path, point string
	if mc.Seed%2 == 0 {
		path, point, prefix = "/channel/delete?topic=t1&channel=c1", "chandelete.afterDelete", "chandelete.afterDelete|t1/c1#"
	} else {
		path, point, prefix = "/topic/delete?topic=t2", "topicdelete.afterDelete", "topicdelete.afterDelete|t2#"
	}
	g.arm(point + "|x")
	resp := make(chan int, 1)
	go func() { st, _, _ := nd.post(path, nil); resp <- st }()
	mc.Ops++
	select {
	case <-g.arrived:
	case <-time.After(10 * time.Second):
		mc.Incon = "deletion never reached " + point
		g.releaseAll()
		return
	}
	// the deletion's own notify goroutine(s) persist now, while the object is still linked in its map
	if !idle() {
		mc.Incon = "notify goroutines did not finish while the deletion was parked"
		g.releaseAll()
		return
	}
	g.releaseAll()
	select {
	case st := <-resp:
		if st != 200 {
			mc.failf("%s answered %d", path, st)
		}
	case <-time.After(10 * time.Second):
		mc.failf("%s did not return after its yield point was released", path)
		return
	}
	if !idle() {
		mc.Incon = "not idle after the deletion"
		return
	}
	_, b, err := nd.get("/stats?format=json")
	if err != nil {
		mc.Incon = err.Error()
		return
	}
	live, err := topoFromStats(b)
	if err != nil {
		mc.Incon = err.Error()
		return
	}
	fb, err := os.ReadFile(filepath.Join(dir, "nsqd.dat"))
	if err != nil {
		mc.failf("nsqd.dat missing: %v", err)
		return
	}
	file, err := topoFromDoc(fb)
	if err != nil {
		mc.failf("nsqd.dat is not a complete document: %v", err)
		return
	}
	mc.Loaded = file
	if strings.Join(file, ",") != strings.Join(live, ",") {
		mc.failf("[idle] %s completed and the daemon is idle with %v, but nsqd.dat (what a SIGKILL now leaves for the restart) lists %v", path, live, file)
	}
}
