"""C05 -- graceful shutdown and restart lose nothing (spec: NsqdCore with the EXIT operation)."""
import corelib
import pairs

META = {
    "technique": "TLC (NsqdCore): graceful shutdown (Channel.Close: flag, close clients, flush queue, flush in-flight) "
                 "interleaved at every yield point with FIN/REQ/TOUCH/timeout scan/delivery/Empty; every schedule forced "
                 "on the real daemon (gated replay), followed by a real restart on the same data path and a drain, "
                 "compared with the model's prediction; plus randomized publish/consume histories with nsqd.Exit at a "
                 "random moment, restart, drain and a two-lifetime ledger",
    "design_ref": "5/C05",
}


def run(ctx):
    # A': shutdown-at-point. TLC enumerates the schedules, the replayer forces them, restarts, and drains.
    pairs.run_pairs(ctx, "C05", pairs=[(x, "EXIT") for x in pairs.EXIT_PARTNERS])
    # B: random histories, shutdown at a random moment, restart, drain, ledger over both lifetimes
    n = 24 if ctx.quick else 300
    runs = corelib.drive(ctx, "restart", n)
    ok = corelib.ledger(ctx, "C05", runs)
    ctx.cov["evaluations"] += sum(r.get("events", 0) for r in runs)
    ctx.cov["traces_validated_against_impl"] += 0
    ctx.notes["restart_runs"] = len(runs)
    ctx.notes["restart_runs_conclusive"] = ok
    for r in runs[:2]:
        ctx.sample({"restart_run": r["scenario"], "events": r["events"], "published": r["published"], "acked": r["acked"]})
    if ok == 0:
        from vlib import Inconclusive
        raise Inconclusive("no restart run completed: %s" % ctx.notes.get("inconclusive_runs", [])[:3])
    ctx.cov["distinct_nontrivial"] = ctx.notes.get("pair_schedules_replayed", 0) + ok
    ctx.cov["rule"] = ("evaluations = forced schedules (shutdown at each yield point of each operation) + hook events of "
                       "random two-lifetime runs; distinct = schedules + completed restart runs")
    ctx.assumptions += [
        "only messages acknowledged before the shutdown request are owed; a FIN processed after the request may or may "
        "not reappear; deferred messages may come back immediately",
        "graceful shutdown = nsqd.Exit() in-process (what SIGTERM triggers in apps/nsqd)",
    ]
