package main

import (
	"encoding/json"
	"fmt"
	"regexp"
	"strings"
	"time"
)

const quarter = 250 * time.Millisecond // one unit of the model clock
const longWait = 20 * time.Second      // >= 10x anything nsqd needs to answer; a miss voids the attempt

// StepObs: everything the harness observed of one step of a behaviour on the real daemon.
type StepObs struct {
	Frame  string  `json:"frame"` // none | response | error | tlsfail | eof
	Code   string  `json:"code"`
	Msg    string  `json:"msg"`
	Closed bool    `json:"closed"`
	TLS    bool    `json:"tls"`
	Eff    Effects `json:"eff"`
	Nq     int     `json:"nq"`
	Status int     `json:"status"`
	Ans    Answer  `json:"ans"` // what the stub answered during this step (kind none: it was not asked)
	QTLS   string  `json:"qtls,omitempty"`
	QCN    string  `json:"qcn,omitempty"`
	QIP    string  `json:"qip,omitempty"`
	QMeth  string  `json:"qmeth,omitempty"`
	QSec   bool    `json:"qsecret_ok,omitempty"`
	NewQ   int     `json:"newq"`
	Note   string  `json:"note,omitempty"` // nsqd's own log line about a failed auth query
	send   time.Time
	recv   time.Time
}

// Run: one attempt to execute a behaviour.
type Run struct {
	B      *Behaviour
	Prefix string
	Obs    []StepObs
	Void   string // non-empty: the attempt cannot be used (timing, harness trouble) and says why
	Viol   []Finding
	Drift  []string
	Class  []string // measured expiry class per step: "" | "fresh" | "expired"

	lateEffect bool
	Truncated  bool // stopped before the behaviour's end for a reason that is itself reported
}

// preState: the harness' picture of the connection before a step, built from observations only
type preState struct {
	tls    bool
	authed bool
	st     string
	eff    Effects
	lastQ  *okQuery
}

type Finding struct {
	Key  string `json:"key"`
	What string `json:"what"`
}

type okQuery struct {
	ans    Answer
	lo, hi time.Time
	n      int
	step   int
}

var reNamed = regexp.MustCompile(`^E_INVALID (?:cannot (\w+) in current state|invalid command (\w+))`)

func opWord(op string) string {
	if op == "IDENTIFY_TLS" {
		return "IDENTIFY"
	}
	return op
}

var softCodes = map[string]bool{"E_FIN_FAILED": true, "E_REQ_FAILED": true, "E_TOUCH_FAILED": true}
var denialCodes = map[string]bool{"E_AUTH_FIRST": true, "E_UNAUTHORIZED": true, "E_AUTH_FAILED": true}

// runBehaviour drives one fresh connection of daemon d through the steps of b.
// random: the answers are offers (armed at every step), the run stops when the connection closes.
// lenient: a failed auth query the stub knows nothing about (transport trouble between nsqd and the stub on a
// loaded machine) voids the attempt instead of being taken as nsqd's behaviour.
func runBehaviour(d *Daemon, b *Behaviour, prefix string, random bool, lenient bool) *Run {
	r := &Run{B: b, Prefix: prefix}
	secret := prefix
	var sc *script
	if d.Stub != nil {
		sc = d.Stub.Register(secret, prefix, b.id)
		defer d.Stub.Unregister(secret)
	}
	nqNow := func() int {
		if sc == nil {
			return 0
		}
		return len(sc.Queries())
	}
	var conn *Conn
	closed := false
	tlsUp := false
	authed := false
	st := "init"
	pre := emptyEffects()
	var lastQ *okQuery
	var t0 time.Time
	defer func() {
		if conn != nil {
			conn.Close()
		}
	}()

	for i := range b.Steps {
		s := &b.Steps[i]
		var o StepObs
		o.Ans = noAns
		if s.Kind == "http" {
			status, _ := d.HTTPRequest(s.C.T, s.C.Cert, s.C.C, prefix)
			if status == -3 {
				r.Void = "HTTP request timed out"
				return r
			}
			o.Status = status
			o.Frame, o.Code = "none", ""
			eff, err := d.Effects(prefix)
			if err != nil {
				r.Void = "stats: " + err.Error()
				return r
			}
			o.Eff = eff
			r.Obs = append(r.Obs, o)
			r.Class = append(r.Class, "")
			r.checkHTTP(s, &o, pre)
			pre = eff
			continue
		}
		if closed {
			if random {
				break
			}
			r.Truncated = true
			r.Drift = append(r.Drift, fmt.Sprintf("step %d %s: spec continues but the real connection is closed", i, s.C.Op))
			break
		}
		if conn == nil {
			var err error
			conn, err = Dial(d.TCP)
			if err != nil {
				r.Void = "dial: " + err.Error()
				return r
			}
			t0 = time.Now()
		}
		if s.N > 0 {
			if dl := time.Until(t0.Add(time.Duration(s.N) * quarter)); dl > 0 {
				time.Sleep(dl)
			}
		}
		if sc != nil {
			sc.Arm(i, s.A)
		}
		ps := preState{tls: tlsUp, authed: authed, st: st, eff: pre, lastQ: lastQ}
		nq0 := nqNow()
		// A command that nsqd does not answer when it executes it (NOP, RDY) is sent together with a barrier:
		// a command that is a no-op in the connection's current state and is always answered (IDENTIFY while
		// in state init, FIN of an unknown id once subscribed).  The first frame that comes back is either
		// the refusal of the command itself or the barrier's answer -- no guessing how long silence lasts.
		wire := Encode(s.C, prefix+"_"+s.C.T, prefix+"_"+s.C.C, secret)
		if silentOnSuccess(s.C.Op) {
			if st == "init" {
				wire = append(wire, Encode(Cmd{Op: "IDENTIFY"}, "", "", "")...)
			} else {
				wire = append(wire, Encode(Cmd{Op: "FIN"}, "", "", "")...)
			}
		}
		o.send = time.Now()
		_, werr := conn.rw.Write(wire)
		if werr != nil {
			r.Void = "write failed on a connection believed open: " + werr.Error()
			return r
		}
		f := conn.ReadFrame(longWait)
		if f.Kind == "timeout" {
			r.Void = fmt.Sprintf("step %d %s: no answer within %v", i, s.C.Op, longWait)
			return r
		}
		if silentOnSuccess(s.C.Op) {
			if (st == "init" && f.Kind == "response" && strings.HasPrefix(f.Data, "{")) ||
				(st != "init" && f.Kind == "error" && errCode(f.Data) == "E_FIN_FAILED") {
				f = Frame{Kind: "none"} // the barrier was answered: the command itself was executed silently
			}
		}
		switch f.Kind {
		case "none":
			o.Frame = "none"
		case "response":
			o.Frame, o.Msg = "response", f.Data
			switch {
			case isIdentify(s.C.Op) && strings.HasPrefix(f.Data, "{"):
				var id struct {
					TLSv1        bool `json:"tls_v1"`
					AuthRequired bool `json:"auth_required"`
				}
				json.Unmarshal([]byte(f.Data), &id)
				o.Code = "JSON"
				if id.AuthRequired != b.Policy.Auth {
					r.Drift = append(r.Drift, fmt.Sprintf("step %d: IDENTIFY says auth_required=%v under policy %s", i, id.AuthRequired, b.Policy.Key()))
				}
				if s.C.Op == "IDENTIFY_TLS" && id.TLSv1 {
					ok, detail := conn.UpgradeTLS(d.certs.Config(s.C.Cert), longWait)
					if ok {
						o.Code = "JSON+OK"
						tlsUp = true
					} else {
						o.Frame, o.Msg = "tlsfail", detail
						o.Closed = true
						if strings.Contains(detail, "timeout") || strings.Contains(detail, "deadline") {
							r.Void = "TLS upgrade timed out: " + detail
							return r
						}
						if lenient && b.Policy.CertOK(s.C.Cert) {
							// nsqd gives the handshake 5 s; on a busy machine that can pass
							r.Void = "TLS upgrade with an acceptable certificate failed: " + detail
							return r
						}
					}
				}
			case s.C.Op == "AUTH" && strings.HasPrefix(f.Data, "{"):
				o.Code = "AUTHJSON"
				var au struct {
					PermissionCount int    `json:"permission_count"`
					Identity        string `json:"identity"`
				}
				json.Unmarshal([]byte(f.Data), &au)
				o.Msg = f.Data
			default:
				o.Code = f.Data
			}
		case "error":
			o.Frame, o.Msg, o.Code = "error", f.Data, errCode(f.Data)
			if o.Code == "E_AUTH_FAILED" {
				o.Note = d.Log.Find("[" + conn.raw.LocalAddr().String() + "]")
			}
			if m := reNamed.FindStringSubmatch(f.Data); m != nil {
				named := m[1] + m[2]
				if named != opWord(s.C.Op) {
					r.Void = fmt.Sprintf("step %d %s: received the refusal of an earlier command (%q)", i, s.C.Op, f.Data)
					return r
				}
			}
			if !softCodes[o.Code] {
				g := conn.ReadFrame(longWait)
				switch g.Kind {
				case "eof", "reset":
					o.Closed = true
				case "timeout":
					o.Closed = false // stayed open for 90 s after an error that should be fatal
				default:
					r.Void = fmt.Sprintf("step %d %s: extra frame after error: %s %q", i, s.C.Op, g.Kind, g.Data)
					return r
				}
			}
		case "eof", "reset":
			o.Frame, o.Closed, o.Msg = "eof", true, f.Data
		default:
			r.Void = fmt.Sprintf("step %d %s: unexpected %s frame %q", i, s.C.Op, f.Kind, f.Data)
			return r
		}
		o.recv = time.Now()
		o.TLS = tlsUp
		if o.Closed {
			closed = true
		}
		// what the auth server was asked during this step
		o.Nq = nqNow()
		o.NewQ = o.Nq - nq0
		if sc != nil && o.NewQ > 0 {
			qs := sc.Queries()
			q := qs[len(qs)-1]
			o.Ans = q.Ans
			o.QTLS, o.QCN, o.QIP, o.QMeth, o.QSec = q.TLS, q.CN, q.IP, q.Method, q.Secret == secret
		}
		if lenient && o.Code == "E_AUTH_FAILED" && !(o.NewQ > 0 && o.Ans.Kind != "ok") {
			r.Void = fmt.Sprintf("step %d %s: nsqd could not reach the auth server: %s", i, s.C.Op, o.Note)
			return r
		}
		eff, err := d.Effects(prefix)
		if err != nil {
			r.Void = "stats: " + err.Error()
			return r
		}
		o.Eff = eff

		// measured expiry class of the cached answer when this command was executed
		class := ""
		if lastQ != nil && lastQ.ans.Kind == "ok" && gated(s.C.Op) {
			ttl := time.Duration(lastQ.ans.TTL) * time.Second
			switch {
			case o.send.After(lastQ.hi.Add(ttl)):
				class = "expired"
			case o.recv.Before(lastQ.lo.Add(ttl)):
				class = "fresh"
			default:
				class = "ambiguous"
			}
			intended := "fresh"
			if (s.N-lastQ.n)*int(quarter/time.Millisecond) > lastQ.ans.TTL*1000 {
				intended = "expired"
			}
			if class != intended {
				if len(r.Viol) > 0 {
					// an earlier step of this attempt already broke a property (e.g. no re-fetch, so the harness'
					// and the daemon's idea of the cached answer differ from here on): report that, stop here
					r.Truncated = true
					break
				}
				r.Void = fmt.Sprintf("step %d %s: timing: wanted the cached answer %s, measured %s", i, s.C.Op, intended, class)
				return r
			}
		}
		r.Class = append(r.Class, class)
		r.Obs = append(r.Obs, o)

		r.checkProps(i, s, &o, ps, class)
		// a step that took longer than the lattice allows (slow machine) shifts the time base:
		// the gaps to later steps are then at least what the model says
		if nb := time.Now().Add(-time.Duration(s.N) * quarter); nb.After(t0) {
			t0 = nb
		}

		// advance the harness' picture of the connection from what was observed
		if o.NewQ > 0 && o.Ans.Kind == "ok" {
			qs := sc.Queries()
			lastQ = &okQuery{ans: o.Ans, lo: qs[len(qs)-1].At, hi: o.recv, n: s.N, step: i}
		} else if o.NewQ > 0 {
			lastQ = &okQuery{ans: Answer{Kind: "err", Auths: []Authz{}, TTL: 0}, lo: o.send, hi: o.recv, n: s.N, step: i}
		}
		if s.C.Op == "AUTH" && o.Frame == "response" {
			authed = true
		}
		if s.C.Op == "SUB" && o.Frame == "response" && o.Code == "OK" {
			st = "subscribed"
		}
		if s.C.Op == "CLS" && o.Frame == "response" && o.Code == "CLOSE_WAIT" {
			st = "closing"
		}
		pre = eff
	}

	// a second connection of the same client -- same address, same secret -- while the first one's answer is still valid: it
	// is judged by the answer the auth server gives FOR IT (here: nothing is granted), not by what another connection got
	twinQ := 0 // queries the second connection caused: not part of this connection's history
	if sc != nil && authed && !random && b.Policy.EffTLS() == "no" && lastQ != nil && lastQ.ans.Kind == "ok" &&
		len(lastQ.ans.Auths) > 0 && time.Since(lastQ.lo) < time.Duration(lastQ.ans.TTL)*time.Second-400*time.Millisecond {
		nq0 := nqNow()
		sc.Arm(len(b.Steps)+1, Answer{Kind: "ok", Auths: []Authz{}, TTL: 60})
		if c2, err := Dial(d.TCP); err == nil {
			c2.rw.Write(Encode(Cmd{Op: "IDENTIFY"}, "", "", ""))
			if f := c2.ReadFrame(longWait); f.Kind == "response" {
				c2.rw.Write(Encode(Cmd{Op: "AUTH"}, "", "", secret))
				f = c2.ReadFrame(longWait)
				if f.Kind == "response" && strings.HasPrefix(f.Data, "{") {
					r.viol("OnlyIfGranted:twin", "policy %s: a second connection sent AUTH with the secret of a connection that had been granted %v %d ms earlier; the auth server's answer for the second connection grants nothing (%d new queries reached it), yet nsqd authorised it: %s",
						b.Policy.Key(), lastQ.ans.Auths, time.Since(lastQ.lo).Milliseconds(), nqNow()-nq0, f.Data)
				}
			}
			c2.Close()
		}
		sc.Arm(len(b.Steps)+2, noAns)
		twinQ = nqNow() - nq0
	}

	// end of behaviour: flush the connection with a command whose refusal names it, so that every frame
	// nsqd sent has been seen, in order
	if conn != nil && !closed {
		if _, err := conn.rw.Write([]byte("FOO\n")); err == nil {
			f := conn.ReadFrame(longWait)
			switch {
			case f.Kind == "error" && strings.Contains(f.Data, "FOO"):
				conn.ReadFrame(longWait) // EOF
			case f.Kind == "timeout":
				r.Void = "final probe: no answer"
				return r
			default:
				r.Void = fmt.Sprintf("final probe: a late frame arrived first: %s %q", f.Kind, f.Data)
				return r
			}
		} else {
			r.Void = "final probe: the connection had closed without the harness noticing"
			return r
		}
	}
	if len(r.Obs) > 0 {
		// nothing may appear once the connection is gone
		eff, err := d.Effects(prefix)
		if err != nil {
			r.Void = "stats: " + err.Error()
			return r
		}
		last := &r.Obs[len(r.Obs)-1]
		if !eff.Equal(last.Eff) || nqNow()-twinQ != last.Nq {
			r.Void = fmt.Sprintf("registry or auth queries changed after the last answer: %v -> %v, queries %d -> %d", last.Eff, eff, last.Nq, nqNow()-twinQ)
			last.Eff = eff
			last.Nq = nqNow() - twinQ
			r.lateEffect = true
		}
	}
	return r
}
