package main

// C15 -- nsqlookupd survives arbitrary input: the real nsqlookupd binary as a child process, a well-behaved
// bystander producer, raw TCP helpers, liveness and bystander oracles, report.

import (
	"bufio"
	"bytes"
	"encoding/binary"
	"encoding/json"
	"errors"
	"fmt"
	"io"
	"net"
	"net/http"
	"net/url"
	"os"
	"os/exec"
	"regexp"
	"sort"
	"strconv"
	"strings"
	"sync"
	"syscall"
	"time"
)

const (
	c15Deadline   = 20 * time.Second // any single answer of the daemon (normally < 5 ms)
	c15StartWait  = 60 * time.Second
	c15ByTopic    = "c15_bystander_topic"
	c15ByChan     = "c15_bystander_chan"
	c15ByEphChan  = "c15_bystander_echan#ephemeral"  // second channel of the bystander topic
	c15ByEphTopic = "c15_bystander_etopic#ephemeral" // second topic of the bystander (with channel c15ByChan)
	c15ByAddr     = "c15-bystander"
	c15ByTCPPort  = 4150
	c15ByHTTPPort = 4151
	c15ByVersion  = "1.3.0-c15by"
	c15HugeMin    = 0x40000000
)

// ---------------------------------------------------------------- daemon (child process)

type c15Daemon struct {
	cmd     *exec.Cmd
	pid     int
	tcp     string
	http    string
	mu      sync.Mutex
	lines   []string // tail of stderr
	exited  chan struct{}
	exitErr error
}

var c15ListenRe = regexp.MustCompile(`(TCP|HTTP): listening on (\S+)`)

func c15StartDaemon(bin string) (*c15Daemon, error) {
	d := &c15Daemon{exited: make(chan struct{})}
	d.cmd = exec.Command(bin, "--tcp-address", "127.0.0.1:0", "--http-address", "127.0.0.1:0",
		"--broadcast-address", "c15-lookupd", "--log-level", "info")
	d.cmd.Stdout = io.Discard
	d.cmd.SysProcAttr = &syscall.SysProcAttr{Pdeathsig: syscall.SIGKILL}
	pr, err := d.cmd.StderrPipe()
	if err != nil {
		return nil, err
	}
	if err := d.cmd.Start(); err != nil {
		return nil, err
	}
	d.pid = d.cmd.Process.Pid
	ports := make(chan [2]string, 2)
	go func() {
		sc := bufio.NewScanner(pr)
		sc.Buffer(make([]byte, 1<<20), 1<<24)
		for sc.Scan() {
			ln := sc.Text()
			if len(ln) > 2000 {
				ln = ln[:2000] + "..."
			}
			d.mu.Lock()
			d.lines = append(d.lines, ln)
			if len(d.lines) > 400 {
				d.lines = append([]string(nil), d.lines[200:]...)
			}
			d.mu.Unlock()
			if m := c15ListenRe.FindStringSubmatch(ln); m != nil {
				select {
				case ports <- [2]string{m[1], m[2]}:
				default:
				}
			}
		}
		io.Copy(io.Discard, pr)
		d.exitErr = d.cmd.Wait()
		close(d.exited)
	}()
	deadline := time.After(c15StartWait)
	for d.tcp == "" || d.http == "" {
		select {
		case p := <-ports:
			if p[0] == "TCP" {
				d.tcp = p[1]
			} else {
				d.http = p[1]
			}
		case <-d.exited:
			return nil, fmt.Errorf("nsqlookupd exited during start: %v\n%s", d.exitErr, d.tail(20))
		case <-deadline:
			d.stop()
			return nil, fmt.Errorf("nsqlookupd did not report its ports within %s\n%s", c15StartWait, d.tail(20))
		}
	}
	return d, nil
}

func (d *c15Daemon) alive() bool {
	select {
	case <-d.exited:
		return false
	default:
		return true
	}
}

// waitExit: true when the process has exited within dur
func (d *c15Daemon) waitExit(dur time.Duration) bool {
	select {
	case <-d.exited:
		return true
	case <-time.After(dur):
		return false
	}
}

func (d *c15Daemon) tail(n int) string {
	d.mu.Lock()
	defer d.mu.Unlock()
	l := d.lines
	if len(l) > n {
		l = l[len(l)-n:]
	}
	return strings.Join(l, "\n")
}

// panicText: the "panic: ..." / "fatal error: ..." line of the child, if any
func (d *c15Daemon) panicText() string {
	d.mu.Lock()
	defer d.mu.Unlock()
	for _, l := range d.lines {
		if strings.HasPrefix(l, "panic:") || strings.HasPrefix(l, "fatal error:") {
			return l
		}
	}
	return ""
}

func (d *c15Daemon) stop() {
	if d == nil || d.cmd == nil || d.cmd.Process == nil {
		return
	}
	d.cmd.Process.Kill()
	select {
	case <-d.exited:
	case <-time.After(10 * time.Second):
	}
}

// mem: VmSize and VmRSS of the child in kB (0,0 when unreadable)
func (d *c15Daemon) mem() (vsz, rss int64) {
	b, err := os.ReadFile(fmt.Sprintf("/proc/%d/status", d.pid))
	if err != nil {
		return 0, 0
	}
	for _, ln := range strings.Split(string(b), "\n") {
		f := strings.Fields(ln)
		if len(f) >= 2 && f[0] == "VmSize:" {
			vsz, _ = strconv.ParseInt(f[1], 10, 64)
		}
		if len(f) >= 2 && f[0] == "VmRSS:" {
			rss, _ = strconv.ParseInt(f[1], 10, 64)
		}
	}
	return
}

// ---------------------------------------------------------------- raw TCP

type c15Conn struct {
	c *net.TCPConn
	r *bufio.Reader
}

func c15Dial(addr string) (*c15Conn, error) {
	c, err := net.DialTimeout("tcp", addr, c15Deadline)
	if err != nil {
		return nil, err
	}
	return &c15Conn{c: c.(*net.TCPConn), r: bufio.NewReader(c)}, nil
}

func (c *c15Conn) send(b []byte) error {
	c.c.SetWriteDeadline(time.Now().Add(c15Deadline))
	_, err := c.c.Write(b)
	return err
}

func (c *c15Conn) closeWrite() { c.c.CloseWrite() }
func (c *c15Conn) close()      { c.c.Close() }

// readFrame: one response frame (4-byte big-endian length + data).
// status: "frame" | "eof" (clean close) | "reset" | "timeout" | "badframe"
func (c *c15Conn) readFrame(d time.Duration) ([]byte, string) {
	c.c.SetReadDeadline(time.Now().Add(d))
	var hdr [4]byte
	if _, err := io.ReadFull(c.r, hdr[:]); err != nil {
		return nil, c15ReadStatus(err, true)
	}
	n := binary.BigEndian.Uint32(hdr[:])
	if n > 1<<20 {
		return hdr[:], "badframe"
	}
	buf := make([]byte, n)
	if _, err := io.ReadFull(c.r, buf); err != nil {
		return nil, c15ReadStatus(err, false)
	}
	return buf, "frame"
}

func c15ReadStatus(err error, atBoundary bool) string {
	var ne net.Error
	if errors.As(err, &ne) && ne.Timeout() {
		return "timeout"
	}
	if err == io.EOF && atBoundary {
		return "eof"
	}
	if err == io.EOF || err == io.ErrUnexpectedEOF {
		return "badframe"
	}
	return "reset"
}

// c15Kind: the response kind of the table for a frame's data
func c15Kind(data []byte) string {
	s := string(data)
	if s == "OK" {
		return "OK"
	}
	if strings.HasPrefix(s, "E_") {
		if i := strings.IndexByte(s, ' '); i > 0 {
			return s[:i]
		}
		return s
	}
	if strings.HasPrefix(s, "{") {
		var m map[string]interface{}
		if json.Unmarshal(data, &m) == nil {
			if _, ok := m["tcp_port"]; ok {
				return "IDJSON"
			}
		}
	}
	return "OTHER:" + c15Quote(data, 60)
}

func c15Quote(b []byte, max int) string {
	if len(b) > max {
		return strconv.Quote(string(b[:max])) + fmt.Sprintf("...(%d bytes)", len(b))
	}
	return strconv.Quote(string(b))
}

func c15Frame(body []byte) []byte {
	var b bytes.Buffer
	binary.Write(&b, binary.BigEndian, uint32(len(body)))
	b.Write(body)
	return b.Bytes()
}

func c15IdentifyBytes(body []byte) []byte {
	return append([]byte("IDENTIFY\n"), c15Frame(body)...)
}

func c15PeerBody(addr string, tcp, httpPort int, version string) []byte {
	b, _ := json.Marshal(map[string]interface{}{"broadcast_address": addr, "hostname": addr, "tcp_port": tcp,
		"http_port": httpPort, "version": version})
	return b
}

// ---------------------------------------------------------------- HTTP helpers

var c15HTTP = &http.Client{
	Timeout:       c15Deadline,
	CheckRedirect: func(*http.Request, []*http.Request) error { return http.ErrUseLastResponse },
	Transport:     &http.Transport{MaxIdleConnsPerHost: 8, DisableCompression: true},
}

func c15Do(method, rawurl string, body []byte) (int, []byte, error) {
	var rd io.Reader
	if body != nil {
		rd = bytes.NewReader(body)
	}
	req, err := http.NewRequest(method, rawurl, rd)
	if err != nil {
		return 0, nil, err
	}
	resp, err := c15HTTP.Do(req)
	if err != nil {
		return 0, nil, err
	}
	defer resp.Body.Close()
	b, err := io.ReadAll(io.LimitReader(resp.Body, 64<<20))
	return resp.StatusCode, b, err
}

func (d *c15Daemon) get(pathq string) (int, []byte, error) {
	return c15Do("GET", "http://"+d.http+pathq, nil)
}

// ---------------------------------------------------------------- bystander + world

type c15World struct {
	bin      string
	d        *c15Daemon
	by       *c15Conn
	lastPing time.Time
	restarts int
	id       int
	seq      int
}

func (w *c15World) start() error {
	w.shutdown()
	d, err := c15StartDaemon(w.bin)
	if err != nil {
		return err
	}
	w.d = d
	return w.registerBystander()
}

func (w *c15World) registerBystander() error {
	if w.by != nil {
		w.by.close()
	}
	c, err := c15Dial(w.d.tcp)
	if err != nil {
		return fmt.Errorf("bystander dial: %v", err)
	}
	w.by = c
	c.send(append([]byte("  V1"), c15IdentifyBytes(c15PeerBody(c15ByAddr, c15ByTCPPort, c15ByHTTPPort, c15ByVersion))...))
	if b, st := c.readFrame(c15Deadline); st != "frame" || c15Kind(b) != "IDJSON" {
		return fmt.Errorf("bystander IDENTIFY: %s %s", st, c15Quote(b, 80))
	}
	for _, cmd := range c15ByRegister {
		c.send([]byte(cmd))
		if b, st := c.readFrame(c15Deadline); st != "frame" || c15Kind(b) != "OK" {
			return fmt.Errorf("bystander %q: %s %s", cmd, st, c15Quote(b, 80))
		}
	}
	w.lastPing = time.Now()
	return nil
}

var c15ByRegister = []string{"REGISTER " + c15ByTopic + " " + c15ByChan + "\n", "REGISTER " + c15ByTopic + " " + c15ByEphChan + "\n",
	"REGISTER " + c15ByEphTopic + " " + c15ByChan + "\n"}

// bystander restores what an admin call removed or hid: UNREGISTER topic, REGISTER topic channel
func (w *c15World) restoreBystander() error {
	for _, cmd := range append([]string{"UNREGISTER " + c15ByTopic + "\n", "UNREGISTER " + c15ByEphTopic + "\n"}, c15ByRegister...) {
		w.by.send([]byte(cmd))
		if b, st := w.by.readFrame(c15Deadline); st != "frame" || c15Kind(b) != "OK" {
			return fmt.Errorf("bystander %q: %s %s", cmd, st, c15Quote(b, 80))
		}
	}
	return nil
}

func (w *c15World) shutdown() {
	if w.by != nil {
		w.by.close()
		w.by = nil
	}
	if w.d != nil {
		w.d.stop()
		w.d = nil
	}
}

// what is expected to be visible of the bystander
type c15ByView struct {
	TopicKey  bool // /lookup?topic=bt is 200
	Producer  bool // ... and lists the bystander
	Channel   bool // ... and lists the channel
	NodeTopic bool // /nodes entry lists the topic
	EphChan   bool // the topic's second, #ephemeral channel is listed
	EphTopic  bool // the bystander's second, #ephemeral topic is there with producer and channel
}

var c15ByIntact = c15ByView{true, true, true, true, true, true}

// bystanderView: what /lookup and /nodes show; err != nil when it could not be observed
func (w *c15World) bystanderView() (c15ByView, string, error) {
	var v c15ByView
	st, body, err := w.d.get("/lookup?topic=" + c15ByTopic)
	if err != nil {
		return v, "", err
	}
	detail := fmt.Sprintf("/lookup -> %d %s", st, c15Quote(body, 300))
	if st == 200 {
		v.TopicKey = true
		var r struct {
			Channels  []string `json:"channels"`
			Producers []struct {
				BroadcastAddress string `json:"broadcast_address"`
				TCPPort          int    `json:"tcp_port"`
				HTTPPort         int    `json:"http_port"`
				Version          string `json:"version"`
			} `json:"producers"`
		}
		if err := json.Unmarshal(body, &r); err != nil {
			return v, detail, nil
		}
		for _, p := range r.Producers {
			if p.BroadcastAddress == c15ByAddr && p.TCPPort == c15ByTCPPort && p.HTTPPort == c15ByHTTPPort && p.Version == c15ByVersion {
				v.Producer = true
			}
		}
		for _, c := range r.Channels {
			if c == c15ByChan {
				v.Channel = true
			}
			if c == c15ByEphChan {
				v.EphChan = true
			}
		}
	}
	if st2, body2, err2 := w.d.get("/lookup?topic=" + c15Esc(c15ByEphTopic)); err2 != nil {
		return v, detail, err2
	} else if st2 == 200 {
		var r struct {
			Channels  []string `json:"channels"`
			Producers []struct {
				BroadcastAddress string `json:"broadcast_address"`
			} `json:"producers"`
		}
		json.Unmarshal(body2, &r)
		for _, p := range r.Producers {
			if p.BroadcastAddress == c15ByAddr {
				v.EphTopic = true
			}
		}
		chanListed := false
		for _, c := range r.Channels {
			chanListed = chanListed || c == c15ByChan
		}
		v.EphTopic = v.EphTopic && chanListed
		if !v.EphTopic {
			detail += fmt.Sprintf("; /lookup (ephemeral topic) -> %d %s", st2, c15Quote(body2, 200))
		}
	} else {
		detail += fmt.Sprintf("; /lookup (ephemeral topic) -> %d", st2)
	}
	st, body, err = w.d.get("/nodes")
	if err != nil {
		return v, detail, err
	}
	found := false
	if st == 200 {
		var r struct {
			Producers []struct {
				BroadcastAddress string   `json:"broadcast_address"`
				TCPPort          int      `json:"tcp_port"`
				HTTPPort         int      `json:"http_port"`
				Version          string   `json:"version"`
				Topics           []string `json:"topics"`
			} `json:"producers"`
		}
		json.Unmarshal(body, &r)
		for _, p := range r.Producers {
			if p.BroadcastAddress == c15ByAddr && p.TCPPort == c15ByTCPPort && p.HTTPPort == c15ByHTTPPort && p.Version == c15ByVersion {
				found = true
				for _, t := range p.Topics {
					if t == c15ByTopic {
						v.NodeTopic = true
					}
				}
			}
		}
	}
	if !found {
		detail += fmt.Sprintf("; /nodes -> %d without the bystander", st)
		v.NodeTopic = false
		if v == (c15ByView{}) {
			return v, detail + " (bystander gone from /nodes)", nil
		}
		// node entry missing although the lookup shows it: report through NodeTopic=false
	}
	return v, detail, nil
}

// liveness: GET /ping and a fresh TCP connection (magic + PING -> OK). "" when fine.
func (w *c15World) liveness() string {
	var last string
	for attempt := 0; attempt < 2; attempt++ {
		last = ""
		st, body, err := w.d.get("/ping")
		if err != nil {
			last = "GET /ping: " + err.Error()
		} else if st != 200 || string(body) != "OK" {
			last = fmt.Sprintf("GET /ping -> %d %s", st, c15Quote(body, 80))
		}
		if last == "" {
			c, err := c15Dial(w.d.tcp)
			if err != nil {
				last = "fresh TCP connection: " + err.Error()
			} else {
				c.send([]byte("  V1PING\n"))
				b, s := c.readFrame(c15Deadline)
				c.close()
				if s != "frame" || c15Kind(b) != "OK" {
					last = fmt.Sprintf("fresh TCP connection, PING -> %s %s", s, c15Quote(b, 80))
				}
			}
		}
		if last == "" {
			return ""
		}
		if !w.d.alive() {
			return last
		}
	}
	return last
}

// bystander's own connection still served (PING -> OK); done every second or so
func (w *c15World) bystanderPing() string {
	if time.Since(w.lastPing) < time.Second {
		return ""
	}
	w.lastPing = time.Now()
	if err := w.by.send([]byte("PING\n")); err != nil {
		return "bystander PING write: " + err.Error()
	}
	b, st := w.by.readFrame(c15Deadline)
	if st != "frame" || c15Kind(b) != "OK" {
		return fmt.Sprintf("bystander PING -> %s %s", st, c15Quote(b, 80))
	}
	return ""
}

// ---------------------------------------------------------------- report

type c15Finding struct {
	Level    string `json:"level"` // violation | drift | inconclusive
	Kind     string `json:"kind"`
	Key      string `json:"key"`
	What     string `json:"what"`
	Row      string `json:"row"`
	Input    string `json:"input"`
	Observed string `json:"observed"`
	Stderr   string `json:"stderr_tail,omitempty"`
}

type c15Report struct {
	mu           sync.Mutex
	Evaluations  int                      `json:"evaluations"`
	RowsRun      int                      `json:"rows_run"`
	RowsSkipped  int                      `json:"rows_skipped"`
	Triples      map[string]int           `json:"triples"`
	Distinct     int                      `json:"distinct_nontrivial"`
	Findings     []c15Finding             `json:"findings"`
	Samples      []map[string]interface{} `json:"samples"`
	Restarts     int                      `json:"daemon_restarts"`
	Mem          []map[string]interface{} `json:"mem"`
	Traces       int                      `json:"traces"`
	TraceEvents  int                      `json:"trace_events"`
	Inconclusive string                   `json:"inconclusive,omitempty"`
	Notes        map[string]interface{}   `json:"notes"`
	perKey       map[string]int
}

func c15NewReport() *c15Report {
	return &c15Report{Triples: map[string]int{}, perKey: map[string]int{}, Notes: map[string]interface{}{}, Findings: []c15Finding{}, Samples: []map[string]interface{}{}, Mem: []map[string]interface{}{}}
}

func (r *c15Report) triple(state, class, outcome string) {
	r.mu.Lock()
	r.Triples[state+" | "+class+" | "+outcome]++
	r.Evaluations++
	r.mu.Unlock()
}

func (r *c15Report) add(f c15Finding) {
	r.mu.Lock()
	defer r.mu.Unlock()
	r.perKey[f.Level+f.Key]++
	if r.perKey[f.Level+f.Key] > 3 { // a few reproductions per key are enough
		return
	}
	r.Findings = append(r.Findings, f)
}

func (r *c15Report) sample(m map[string]interface{}) {
	r.mu.Lock()
	if len(r.Samples) < 40 {
		r.Samples = append(r.Samples, m)
	}
	r.mu.Unlock()
}

func (r *c15Report) write(path string) error {
	r.mu.Lock()
	defer r.mu.Unlock()
	r.Distinct = len(r.Triples)
	sort.Slice(r.Findings, func(i, j int) bool { return r.Findings[i].Key < r.Findings[j].Key })
	b, err := json.MarshalIndent(r, "", " ")
	if err != nil {
		return err
	}
	return os.WriteFile(path, b, 0644)
}

func c15Esc(s string) string { return url.QueryEscape(s) }
