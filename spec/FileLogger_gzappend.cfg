\* the design WITHOUT O_EXCL for gzip (re-open and append after a restart): TLC must find FinOnlyAfterDurable /
\* NothingOwedIsMissing violated -- kill with an open member, restart, append behind the torn member, FIN
SPECIFICATION Spec
CONSTANTS
  Msgs = {1}
  MaxInFlight = 1
  MaxNow = 1
  DatePeriod = 1
  MaxRev = 3
  MaxHups = 0
  MaxRestarts = 1
  MaxPower = 1
  PreNames = {}
  PreSize = 2
  ForeignNames <- ForeignQ
  MaxForeign = 1
  GzipAppendOnRestart = TRUE
  OptSet <- RestartOpts
CONSTRAINT RevBound
INVARIANTS TypeOK DurSane FinOnlyAfterDurable NothingOwedIsMissing Custody SyncOnOpenFile
PROPERTIES NeverOverwrite
CHECK_DEADLOCK FALSE
