\* replay family auth4 (thorough): depth 4 over a smaller command set
SPECIFICATION Spec
CONSTANTS
  Policies <- AuthPlain
  Cmds <- TlsAuthCmds
  AnswersA <- SmallAnswers
  AnswersR <- SmallAnswers
  Waits = {0, 2}
  MaxDepth = 4
  MaxNow = 18
  HttpReqs <- NoHttp
INVARIANTS TypeOK PropertyLevel PlainHttpServed RefetchIffExpired QueryCountLaw CodeStricter NeverOnExpiry EmitBehaviour
CHECK_DEADLOCK FALSE
