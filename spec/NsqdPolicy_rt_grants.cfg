\* replay family grants (thorough)
SPECIFICATION Spec
CONSTANTS
  Policies <- AuthPlain
  Cmds <- GrantCmds
  AnswersA <- FullAnswers
  AnswersR <- MidAnswers
  Waits = {0}
  MaxDepth = 2
  MaxNow = 0
  HttpReqs <- NoHttp
INVARIANTS TypeOK PropertyLevel PlainHttpServed RefetchIffExpired QueryCountLaw CodeStricter NeverOnExpiry EmitBehaviour
CHECK_DEADLOCK FALSE
