package main

import (
	"flag"
	"fmt"
	"math/rand"
	"os"
	"strings"
	"sync"
	"sync/atomic"
	"time"

	"github.com/nsqio/nsq/internal/verif"
	"github.com/nsqio/nsq/nsqd"
	"github.com/nsqio/nsq/verifharness/hlib"
)

// qscan: the queue-scan scheduler (queueScanLoop / queueScanWorker) under more channels than the selection count,
// channel churn and worker-pool resizes.  Records the QS* hook events and the channels' ScanIF / ScanDef pops for
// QueueScanTrace, and measures how late every deferral and every timeout is picked up (C04 "soon after").

type qsReport struct {
	Scenario     string   `json:"scenario"`
	Events       int      `json:"events"`
	Rounds       int      `json:"rounds"`
	Again        int      `json:"rounds_without_tick"`
	Refreshes    int      `json:"refreshes"`
	Deliveries   int      `json:"deliveries"`
	WorstLateMs  int64    `json:"worst_late_ms"`
	BoundMs      int64    `json:"bound_ms"`
	Fails        []string `json:"fails"`
	Inconclusive string   `json:"inconclusive"`
	Trace        string   `json:"trace"`
}

func qscanMain(args []string) int {
	fs := flag.NewFlagSet("qscan", flag.ExitOnError)
	seed := fs.Int64("seed", 1, "seed")
	out := fs.String("out", "qscan.ndjson", "trace")
	rep := fs.String("report", "qscan.json", "report")
	dir := fs.String("dir", "", "scratch dir")
	fs.Parse(args)
	if *dir == "" {
		d, _ := os.MkdirTemp("", "qscan-")
		*dir = d
		defer os.RemoveAll(d)
	}
	r := runQScan(*seed, *dir, *out)
	hlib.WriteJSON(*rep, r)
	if len(r.Fails) > 0 {
		return 1
	}
	if r.Inconclusive != "" {
		return 2
	}
	return 0
}

func runQScan(seed int64, dir, out string) *qsReport {
	rng := rand.New(rand.NewSource(seed*7877 + 3))
	nchan := []int{3, 8, 14, 22}[rng.Intn(4)]
	count := []int{5, 20}[rng.Intn(2)]
	poolMax := []int{1, 3, 4}[rng.Intn(3)]
	msgTmo := 150 * time.Millisecond
	rep := &qsReport{Scenario: fmt.Sprintf("qscan seed=%d channels=%d selection-count=%d pool-max=%d", seed, nchan, count, poolMax)}
	var mu sync.Mutex
	var evs []verif.Event
	verif.SetSink(func(e verif.Event) {
		if strings.HasPrefix(e.Ev, "QS") || e.Ev == "ScanIF" || e.Ev == "ScanDef" || e.Ev == "NsqdNew" {
			mu.Lock()
			evs = append(evs, e)
			mu.Unlock()
		}
	})
	defer verif.SetSink(nil)
	nd, err := startNode(dir, func(o *nsqd.Options) {
		o.MemQueueSize = 100
		o.MsgTimeout = msgTmo
		o.MaxMsgTimeout = time.Second
		o.MaxReqTimeout = time.Second
		o.QueueScanInterval = 10 * time.Millisecond
		o.QueueScanRefreshInterval = 60 * time.Millisecond
		o.QueueScanSelectionCount = count
		o.QueueScanWorkerPoolMax = poolMax
		o.QueueScanDirtyPercent = 0.25
	})
	if err != nil {
		rep.Inconclusive = "start: " + err.Error()
		return rep
	}
	stopped := false
	defer func() {
		if !stopped {
			nd.stop(20 * time.Second)
		}
	}()
	var fmu sync.Mutex
	failf := func(f string, a ...interface{}) {
		fmu.Lock()
		if len(rep.Fails) < 10 {
			rep.Fails = append(rep.Fails, fmt.Sprintf(f, a...))
		}
		fmu.Unlock()
	}
	topics := []string{"t0", "t1"}
	for _, t := range topics {
		nd.post("/topic/create?topic="+t, nil)
	}
	// lateness ledger
	var worst int64
	var deliveries int64
	type pubInfo struct {
		sent  time.Time
		delay time.Duration
	}
	var pmu sync.Mutex
	pubs := map[string]pubInfo{}
	stop := int32(0)
	var wg sync.WaitGroup
	startConsumer := func(topic, ch string, sloppy bool) {
		cn, err := dial(nd.TCP, "q-"+topic+"-"+ch)
		if err != nil {
			return
		}
		if _, err := cn.identify(map[string]interface{}{"output_buffer_timeout": 25}); err != nil {
			cn.close()
			return
		}
		if err := cn.sub(topic, ch); err != nil {
			cn.close()
			return
		}
		cn.cmd("RDY", "", "50")
		wg.Add(1)
		go func() {
			defer wg.Done()
			defer cn.close()
			first := map[string]time.Time{}
			for atomic.LoadInt32(&stop) < 2 {
				f, ok := cn.next(20 * time.Millisecond)
				if !ok {
					if cn.isClosed() {
						return
					}
					continue
				}
				if f.Type != 2 {
					continue
				}
				now := time.Now()
				atomic.AddInt64(&deliveries, 1)
				key := keyOf(f.Body)
				if f.Attempts == 1 {
					pmu.Lock()
					pi, ok := pubs[key]
					pmu.Unlock()
					if ok {
						if late := int64(now.Sub(pi.sent.Add(pi.delay))); late > atomic.LoadInt64(&worst) {
							atomic.StoreInt64(&worst, late)
						}
					}
					if sloppy && atomic.LoadInt32(&stop) == 0 {
						first[f.ID] = now // no answer: it has to time out
						continue
					}
				} else if t0, ok := first[f.ID]; ok && f.Attempts == 2 {
					if late := int64(now.Sub(t0.Add(msgTmo))); late > atomic.LoadInt64(&worst) {
						atomic.StoreInt64(&worst, late)
					}
					delete(first, f.ID)
				}
				cn.cmd("FIN", f.ID, "")
			}
		}()
	}
	chanNames := map[string][]string{}
	mkChan := func(i int) {
		t := topics[i%2]
		c := fmt.Sprintf("c%d", i)
		if st, _, err := nd.post("/channel/create?topic="+t+"&channel="+c, nil); err != nil || st != 200 {
			return
		}
		chanNames[t] = append(chanNames[t], c)
		startConsumer(t, c, i%3 == 0)
	}
	initial := nchan * 2 / 3
	if initial < 1 {
		initial = 1
	}
	for i := 0; i < initial; i++ {
		mkChan(i)
	}
	// publisher: deferred publishes for ~1.2 s, channels added and one deleted on the way
	pcn, err := dial(nd.TCP, "q-pub")
	if err != nil {
		rep.Inconclusive = "dial: " + err.Error()
		return rep
	}
	defer pcn.close()
	if _, err := pcn.identify(nil); err != nil {
		rep.Inconclusive = "identify: " + err.Error()
		return rep
	}
	next := initial
	t0 := time.Now()
	for i := 0; time.Since(t0) < 1200*time.Millisecond; i++ {
		t := topics[rng.Intn(2)]
		d := time.Duration(20+rng.Intn(180)) * time.Millisecond
		key := fmt.Sprintf("k%d", i)
		pmu.Lock()
		pubs[key] = pubInfo{time.Now(), d}
		pmu.Unlock()
		pcn.send(fmt.Sprintf("DPUB %s %d\n", t, d/time.Millisecond), lenPrefixed([]byte(key+"|x")))
		if i%9 == 4 && i < 36 && next < nchan {
			mkChan(next)
			next++
		}
		if i == 40 || i == 55 || i == 70 {
			// one channel goes and another one comes, back to back: as many channels as before, but not the same ones --
			// the newcomer (its consumer leaves every first delivery to time out) needs its deadlines looked after too
			t := topics[(i/5)%2]
			if len(chanNames[t]) > 1 {
				c := chanNames[t][0]
				chanNames[t] = chanNames[t][1:]
				nd.post("/channel/delete?topic="+t+"&channel="+c, nil)
				nm := fmt.Sprintf("s%d", i)
				if st, _, err := nd.post("/channel/create?topic="+t+"&channel="+nm, nil); err == nil && st == 200 {
					chanNames[t] = append(chanNames[t], nm)
					startConsumer(t, nm, true)
				}
			}
		}
		time.Sleep(time.Duration(3+rng.Intn(12)) * time.Millisecond)
	}
	atomic.StoreInt32(&stop, 1) // consumers answer everything from now on
	// drain: nothing queued, in flight or deferred on any channel
	drained := false
	for i := 0; i < 600 && !drained; i++ {
		time.Sleep(20 * time.Millisecond)
		st, _, err := nd.stats("")
		if err != nil {
			continue
		}
		drained = true
		for _, ts := range st.Topics {
			if ts.Depth != 0 {
				drained = false
			}
			for _, cs := range ts.Channels {
				if cs.Depth != 0 || cs.InFlightCount != 0 || cs.DeferredCount != 0 {
					drained = false
				}
			}
		}
	}
	atomic.StoreInt32(&stop, 2)
	wg.Wait()
	if !drained {
		failf("[C01][C04] 12 s after the last publish some channel still holds queued / in-flight / deferred messages although every consumer answers: a deadline is not being picked up, what waits behind it is not redelivered")
	}
	bound := int64(time.Second)
	if l0 := 25 * atomic.LoadInt64(&maxOversleep); l0 > bound {
		bound = l0
	}
	rep.WorstLateMs, rep.BoundMs, rep.Deliveries = atomic.LoadInt64(&worst)/1e6, bound/1e6, int(atomic.LoadInt64(&deliveries))
	if atomic.LoadInt64(&worst) > bound {
		failf("[C04] with %d channels (selection count %d, scan every 10 ms) a deferral or timeout was picked up %d ms after its deadline (bound %d ms)",
			nchan, count, rep.WorstLateMs, rep.BoundMs)
	}
	nd.stop(20 * time.Second)
	stopped = true
	verif.SetSink(nil)
	// ---- trace ------------------------------------------------------------------------------------------------------
	w, err := hlib.NewNDJSON(out)
	if err != nil {
		rep.Inconclusive = err.Error()
		return rep
	}
	mu.Lock()
	for _, e := range evs {
		m := map[string]interface{}{"ev": e.Ev}
		switch e.Ev {
		case "QSRefresh":
			m["chans"] = hlib.KVGet(e, "chans")
			m["pool"] = hlib.KVInt(e, "pool")
			m["max"] = hlib.KVInt(e, "max")
			rep.Refreshes++
		case "QSTick":
			m["n"] = hlib.KVInt(e, "n")
		case "QSBegin":
			m["num"], m["n"], m["count"] = hlib.KVInt(e, "num"), hlib.KVInt(e, "n"), hlib.KVInt(e, "count")
		case "QSWork", "ScanIF", "ScanDef":
			m["c"] = hlib.KVStr(e, "c")
		case "QSDone":
			m["c"] = hlib.KVStr(e, "c")
			m["dirty"] = hlib.KVGet(e, "dirty")
		case "QSRound":
			m["num"], m["dirty"] = hlib.KVInt(e, "num"), hlib.KVInt(e, "dirty")
			pct, _ := hlib.KVGet(e, "pct").(float64)
			m["pct"] = int64(pct*100 + 0.5)
			rep.Rounds++
			if float64(hlib.KVInt(e, "dirty"))/float64(hlib.KVInt(e, "num")) > pct {
				rep.Again++
			}
		}
		w.Put(m)
	}
	rep.Events = len(evs)
	mu.Unlock()
	w.Close()
	rep.Trace = out
	return rep
}
