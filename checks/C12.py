"""C12 -- message ids unique and increasing per topic (spec: Guid, GuidTrace)."""
import json
import os
import re
from vlib import Inconclusive, log

META = {
    "technique": "TLAPS proof of the generator's inductive invariant without bounds (GuidProof.tla: any clock value at every "
                 "call, any sequence mask, any number of calls); TLC exhaustive check of Guid.tla; every NewGUID transition of the bounded model replayed through the real "
                 "generator by state injection; hook traces of full-speed concurrent calls validated against GuidTrace.tla; "
                 "end to end: TLC check of TopicIds.tla (concurrent publish commands drawing ids from one topic), and "
                 "Begin/End + consumed-id traces of concurrent TCP PUB/DPUB/MPUB and HTTP /pub, /mpub publishers against "
                 "a real nsqd (MPUBs around the 4096-per-tick boundary, node ids 0/1/odd/even/1023, injected "
                 "sequence-nearly-exhausted and clock-behind generator states) validated against TopicIdsTrace.tla "
                 "plus a Go-side ledger over every id",
    "design_ref": "5/C12",
}


def ids_selftest(ctx, trace):
    """Binding self-test: one id of a recorded execution is made equal to another one; TopicIdsTrace must say no.
    The pair is chosen so that only the Unique clause can object: a one-message command B that was open when a
    bigger command A ended gets A's last id, which is above B's floor."""
    seg, hit = [], None
    with open(trace) as f:
        for line in f:
            e = json.loads(line)
            if e["ev"] == "Reset":
                if hit is not None:
                    break
                seg, done, floor, ends = [], [0, 0, 0], {}, []
            seg.append(e)
            if e["ev"] == "Begin":
                floor[e["c"]] = (done, len(seg) - 1)
            elif e["ev"] == "End":
                fl, bpos = floor.pop(e["c"])
                if hit is None and len(e["ids"]) == 1:
                    # an earlier End A (position > B's Begin) with at least 2 ids whose last id is above B's floor
                    for apos, aid in reversed(ends):
                        if apos < bpos:
                            break
                        if aid > fl and len(seg[apos]["ids"]) > 1:
                            hit = (len(seg) - 1, apos)
                            break
                if hit is not None and hit[0] == len(seg) - 1:
                    e["ids"] = [list(seg[hit[1]]["ids"][-1])]
                    break
                done = max(done, e["ids"][-1])
                ends.append((len(seg) - 1, e["ids"][-1]))
            if hit is None and len(seg) > 40000:
                break
    if hit is None:
        # no such pair among the recorded commands: duplicate an id anyway (whatever clause objects)
        last = None
        for i, e in enumerate(seg):
            if e["ev"] == "End":
                if last is not None:
                    e["ids"] = [list(seg[last]["ids"][-1])] + e["ids"][1:]
                    hit = (i, last)
                    seg = seg[:i + 1]
                    break
                last = i
    if hit is None:
        raise Inconclusive("self-test: the recorded trace has no two completed commands to corrupt")
    bad = os.path.join(ctx.scratch, "ids-corrupt.ndjson")
    with open(bad, "w") as f:
        for e in seg:
            f.write(json.dumps(e) + "\n")
    r = ctx.tlc("TopicIdsTrace", "TopicIdsTrace.cfg", workers=1, timeout=600, jvm=["-Xss512m"],
                files={bad: "trace.ndjson"}, record=False, label="ids-selftest", private=True)
    if r.ok or "TRACE_REJECTED" not in r.out:
        raise Inconclusive("self-test: a recorded trace in which command %d got an id of command %d is accepted by "
                           "TopicIdsTrace:\n%s" % (seg[hit[0]]["c"], seg[hit[1]]["c"], r.out[-1500:]))
    m = re.search(r'"Unique",\s*(<<\s*"position".*?>>\s*>>|"ok")', r.out, re.S)
    ctx.notes["ids_selftest"] = "corrupted trace (command %d given the last id of command %d) rejected at event %d; Unique clause: %s" % (
        seg[hit[0]]["c"], seg[hit[1]]["c"], hit[0] + 1, re.sub(r"\s+", "", m.group(1)) if m else "?")


def publish_paths(ctx):
    """C12 bound to the publish paths (Topic.GenerateID via PUB/DPUB/MPUB, /pub, /mpub)."""
    quick = ctx.quick
    # the design: concurrent commands drawing ids from one source; Unique, BatchIncreasing, RealTimeOrder;
    # every End of the model passes the predicate the trace validation applies (EndRefinesObs)
    ctx.model_check("TopicIdsMC", "TopicIds_mc.cfg" if quick else "TopicIds_thorough.cfg", timeout=1800)
    # the state pruning of the trace validation loses nothing, also for a broken id source
    ctx.model_check("TopicIdsMC", "TopicIds_prune.cfg" if quick else "TopicIds_prune_thorough.cfg", timeout=600)
    # vacuity guard: with an id source that may reuse ids TLC must find the violation
    r = ctx.tlc("TopicIdsMC", "TopicIds_reuse.cfg", timeout=300, record=False, label="reuse")
    if r.violated is None:
        raise Inconclusive("TopicIds with Reuse=TRUE: TLC reports no violation (the properties are vacuous):\n" + r.out[-1500:])
    ctx.notes["topicids_broken_source"] = "Reuse=TRUE: TLC reports %s violated" % r.violated

    trace = os.path.join(ctx.scratch, "ids.ndjson")
    rep = os.path.join(ctx.scratch, "ids.json")
    args = ["--seed", ctx.seed, "--out", trace, "--report", rep, "--workdir", ctx.scratch]
    if quick:
        args += ["--runs", 6, "--max-pubs", 6, "--large", 6, "--small", 250, "--tlc-ids", 30000]
    else:
        args += ["--runs", 40, "--max-pubs", 8, "--large", 12, "--small", 400, "--tight-cap", 8000, "--tlc-ids", 80000]
    rc, out, err = ctx.run_harness(args, timeout=3000, name="ids")
    if not os.path.exists(rep):
        raise Inconclusive("ids harness (rc %s): %s%s" % (rc, out[-1500:], err[-1500:]))
    R = json.load(open(rep))
    ctx.cov["evaluations"] += R["ids"]
    ctx.cov["distinct_nontrivial"] += R["distinct_shapes"]
    ctx.notes["publish_paths"] = {k: R[k] for k in (
        "runs", "nodes", "commands", "large_mpubs", "large_sizes", "ids", "exhausted_ticks", "max_ids_per_tick",
        "nudges", "nudged_runs", "tainted_runs", "unacked", "two_topic_runs", "cross_topic_equal_ids",
        "consumer_error_frames", "traces", "trace_events", "trace_ids", "traces_windowed", "wall_ms")}
    log("ids harness: %d runs, %d ids, %d large MPUBs, %d exhausted ticks, %d nudges, %.1fs" % (
        R["runs"], R["ids"], R["large_mpubs"], R["exhausted_ticks"], sum(R["nudges"].values()), R["wall_ms"] / 1000.0))
    for s in (R["samples"] or [])[:3]:
        ctx.sample({"publish_command": s})
    # the harness's own ledger over ALL ids it observed: one violation per kind
    by_key = {}
    for v in R["violations"] or []:
        by_key.setdefault(v["key"], []).append(v)
    for key, vs in sorted(by_key.items()):
        if key == "node-field":
            # how an id encodes the node is the code's business, not the property's: reported as drift only
            ctx.drift("publish paths: %s (%d cases)" % (vs[0]["what"], R["violation_counts"][key]))
            continue
        ctx.violation("publish paths, ledger over the ids the real nsqd handed out: %s (%d cases of '%s')" % (
            vs[0]["what"], R["violation_counts"][key], key),
            ctx.save_replay("ids-" + key, {"key": key, "cases": vs, "count": R["violation_counts"][key],
                                           "harness": "cmd/ids " + " ".join(str(a) for a in args[:2] + args[8:])}),
            key="ids:" + key)
    # the recorded executions against the property-level spec
    accepted = False
    if R["traces"] > 0 and R["trace_events"] > R["traces"]:
        accepted = ctx.validate_trace("TopicIdsTrace", "TopicIdsTrace.cfg", trace, R["traces"], "topic-ids", timeout=3000,
                                      key="ids:trace")
    if accepted:
        ids_selftest(ctx, trace)
    if R.get("inconclusive"):
        raise Inconclusive("ids harness: " + R["inconclusive"])
    if R["large_mpubs"] == 0 or not accepted and not ctx.violations:
        raise Inconclusive("ids harness produced no usable execution (large MPUBs %d, traces %d)" % (R["large_mpubs"], R["traces"]))


def run(ctx):
    quick = ctx.quick
    # 0. without bounds: the inductive invariant of the generator, proved
    # (GuidProof.tla: any clock value at every call, any sequence mask, any number of calls: the high-water mark dominates
    # everything issued, a successful call returns an id above every id handed out before, a failing call changes nothing)
    ctx.tlaps("GuidProof")
    # 1. the design: exhaustive over clock walks (stand still, advance, step back) and sequence exhaustion
    ctx.model_check("Guid", "Guid_mc.cfg" if quick else "Guid_thorough.cfg", timeout=600)
    # 2. binding A: all NewGUID edges of the bounded model, replayed by state injection
    r = ctx.tlc("GuidEdges", "Guid_edges.cfg", workers=1, timeout=300, label="edges")
    if r.crashed:
        raise Inconclusive("edge dump failed:\n" + r.out[-2000:])
    edges = {}
    for t in r.prints("EDGE"):
        v = [x.strip('"') for x in t]
        if len(v) != 17:
            raise Inconclusive("cannot parse edge %r" % (t,))
        e = {"clock": int(v[0]), "lastTs": int(v[1]), "sq": int(v[2]), "lastId": [int(x) for x in v[3:6]],
             "node": int(v[6]), "err": v[7], "lastTs2": int(v[8]), "sq2": int(v[9]),
             "lastId2": [int(x) for x in v[10:13]], "retId": [int(x) for x in v[13:16]], "seqMask": int(v[16])}
        edges[json.dumps(e, sort_keys=True)] = e
    if len(edges) < 20:
        raise Inconclusive("only %d edges extracted" % len(edges))
    epath = os.path.join(ctx.scratch, "edges.json")
    with open(epath, "w") as f:
        json.dump(list(edges.values()), f)
    rep = os.path.join(ctx.scratch, "replay.json")
    rc, out, err = ctx.run_harness(["guid-replay", "--edges", epath, "--report", rep])
    if not os.path.exists(rep):
        raise Inconclusive("guid-replay: " + out + err)
    R = json.load(open(rep))
    # an edge whose call could not be pinned to one clock tick (a generator that sits a tick out inside the call, say) cannot be
    # judged by state injection; the concurrent layers below still can -- the check is inconclusive only if they find nothing
    pending = ("guid-replay: " + (R.get("inconclusive") or out + err)) if rc == 2 else ""
    ctx.cov["evaluations"] += R["calls"]
    ctx.cov["distinct_nontrivial"] += R["distinct_shapes"]
    ctx.notes["replayed_edges"] = len(edges)
    ctx.notes["replay_result_classes"] = R["errs"]
    for s in R["samples"][:3]:
        ctx.sample({"replayed_edge": s})
    for v in R["violations"] or []:
        ctx.violation("replayed TLC NewGUID transition: real generator broke the id-source contract: " + v,
                      ctx.save_replay("guid-edge", {"violation": v, "edges": list(edges.values())}))
    for v in R.get("drift") or []:
        ctx.drift("replayed TLC NewGUID transition: " + v)
    # 3. binding B: full-speed concurrent generators, hook trace validated by TLC + ledger in Go
    trace = os.path.join(ctx.scratch, "guid.ndjson")
    rep2 = os.path.join(ctx.scratch, "trace.json")
    args = ["guid-trace", "--seed", ctx.seed, "--out", trace, "--report", rep2]
    if quick:
        args += ["--runs", 8, "--goroutines", 8, "--per", 20000, "--max-trace", 60000]
    else:
        args += ["--runs", 40, "--goroutines", 16, "--per", 100000, "--max-trace", 600000]
    rc, out, err = ctx.run_harness(args, timeout=1800)
    if rc == 2 or not os.path.exists(rep2):
        raise Inconclusive("guid-trace: " + out + err)
    T = json.load(open(rep2))
    ctx.cov["evaluations"] += T["calls"]
    ctx.cov["distinct_nontrivial"] += T["distinct_shapes"]
    ctx.notes["ids_issued"] = T["issued"]
    ctx.notes["sequence_rollovers_seen"] = T["rollovers"]
    ctx.notes["error_returns"] = T["errs"]
    for s in T["samples"][:3]:
        ctx.sample({"trace_event": s})
    for v in T["violations"] or []:
        ctx.violation("ledger: " + v, ctx.save_replay("guid-ledger", {"violation": v}))
    for v in (T.get("drift") or [])[:5]:
        ctx.drift("generator ledger: " + v)
    ctx.validate_trace("GuidAbsTrace", "GuidAbsTrace.cfg", trace, T["traces"], "guid", timeout=1800)
    ctx.validate_trace("GuidTrace", "GuidTrace.cfg", trace, T["traces"], "guid-shape", timeout=1800, level="shape")
    # 4. binding C: the publish paths of a real nsqd, end to end
    publish_paths(ctx)
    # shutdowns requested while the generator refuses and publishers wait inside Topic.GenerateID (and other random
    # two-lifetime histories): every id a topic handed out -- also during the shutdown -- belongs to one message
    import corelib
    rruns = corelib.drive(ctx, "restart", 12 if quick else 120, extra=["--variant", "genstall"])
    corelib.ledger(ctx, "C12", rruns)
    ctx.notes["restart_runs"] = len(rruns)
    ctx.notes["restart_runs_generator_stalled"] = sum(1 for r in rruns if "generator-stalled" in r["scenario"])
    if pending and not ctx.violations:
        raise Inconclusive(pending)
    ctx.cov["rule"] = ("evaluations = real NewGUID calls (replayed TLC edges + full-speed concurrent calls) + ids handed "
                       "out to messages published through the real daemon; a generator case is distinct by (result class, "
                       "clock-vs-lastTs offset, sequence before/after), a publish command by (kind, size class, node-id "
                       "class, ticks spanned, whether it met an exhausted tick, whether it opened a tick)")
    ctx.assumptions += [
        "ids compared as (ts, node, seq) triples; the 64-bit packing is decomposed by the harness",
        "a clock step back is emulated by injecting a future lastTimestamp (time.Now cannot be overridden)",
        "sequence width 2 bits in the exhaustive model, 12 bits in trace validation",
        "publish paths: Begin is recorded just before the request is written and End after the OK/200 was read (one "
        "mutex), so recorded intervals contain the real ones; ids are read off first deliveries (attempts = 1) to one "
        "consumer per topic; ids compare only within one topic of one daemon lifetime",
        "publish paths: TLC gets whole commands of a window of at most --tlc-ids ids per trace (put on the first command "
        "the ledger objected to, else on a large MPUB); the Go-side ledger checks every id of every run",
        "publish paths: with the verif build tag the daemon hands out at most ~2500 ids per tick on this machine, so "
        "sequence exhaustion and a clock behind the generator are provoked by injecting FUTURE generator states into "
        "the live topic (never a state at or below an id already handed out; a late injection discards the run); "
        "two of three runs are nudged, the others run undisturbed",
        "an id whose node field differs from the configured node-id is reported as SHAPE-DRIFT only (how an id encodes "
        "the node is the code's business; the property speaks of one topic of one nsqd)",
    ]
