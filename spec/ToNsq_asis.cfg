\* the reader as it was before the fix (last byte stripped unconditionally); TLC is EXPECTED to find an input
\* for which the published records differ from Records(input) -- the lead that was reproduced on the real binary
SPECIFICATION Spec
CONSTANTS
  Sym = {"x", "y"}
  D = "d"
  MaxLen = 7
  NDest = 1
  Trim = "always"
  CanFail = FALSE
INVARIANTS TypeOK InOrderExact Complete NoEmptyRecord
CHECK_DEADLOCK FALSE
