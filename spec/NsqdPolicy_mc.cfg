\* quick exhaustive check: all 20 valid policies, all 28 commands, every answer of the 77-answer domain to AUTH, 15 answers to re-fetches, 3 commands per connection, HTTP requests (771 k distinct states, ~20 s)
SPECIFICATION Spec
CONSTANTS
  Policies <- AllPolicies
  Cmds <- AllCmds
  AnswersA <- FullAnswers
  AnswersR <- MidAnswers
  Waits = {0, 2, 3}
  MaxDepth = 3
  MaxNow = 18
  HttpReqs <- AllHttp
VIEW View
INVARIANTS TypeOK PropertyLevel RefetchIffExpired CodeStricter NeverOnExpiry
PROPERTIES ClosedIsFinal PolicyFixed
CHECK_DEADLOCK FALSE
