------------------------------- MODULE ToNsq -------------------------------
(***************************************************************************)
(* C20, first clause: apps/to_nsq/to_nsq.go.                               *)
(*                                                                         *)
(* User level: Records(input) -- the sequence of non-empty maximal         *)
(* delimiter-free chunks of the input, INCLUDING an unterminated last one. *)
(* Every destination must be sent exactly Records(input), in order.        *)
(*                                                                         *)
(* Implementation level: main's reader goroutine calling readAndPublish in *)
(* a loop; one action per branch of readAndPublish.  bufio.ReadBytes is    *)
(* one atomic step (standard library; its 4096-byte refills are exercised  *)
(* on the real binary by generated long inputs, not here).                 *)
(*                                                                         *)
(* Trim = "ifdelim" is the reader as it is now (strips the last byte only   *)
(* when it is the delimiter).  Trim = "always" is the reader as it was      *)
(* before the fix of the defect this check found (line = line[:len(line)-1] *)
(* whenever len(line) > 0, so an unterminated final record lost its last    *)
(* byte); it is kept as a second implementation-shaped variant: TLC shows   *)
(* the input on which it departs from Records (ToNsq_asis.cfg), and the     *)
(* harness reports which of the two variants the real binary agrees with.   *)
(* TLC checks the reader against Records for EVERY input of length <=       *)
(* MaxLen over Sym \cup {D}; a mismatch found in the model is a lead that   *)
(* the harness reproduces (or refutes) on the real binary.                  *)
(***************************************************************************)
EXTENDS Integers, Sequences, FiniteSets, TLC

CONSTANTS Sym,      \* non-delimiter byte symbols, e.g. {"x","y"}
          D,        \* the delimiter symbol
          MaxLen,   \* inputs of length 0..MaxLen
          NDest,    \* number of destination nsqds (producers map)
          Trim,     \* "always" | "ifdelim"
          CanFail   \* may a Publish return an error (-> log.Fatal)

ASSUME D \notin Sym /\ Trim \in {"always", "ifdelim"} /\ NDest \in 1..3 /\ CanFail \in BOOLEAN

Alphabet == Sym \cup {D}
Inputs == UNION {[1..n -> Alphabet] : n \in 0..MaxLen}
Dest == 1..NDest

----------------------------------------------------------------------------
(* the property's function *)
RECURSIVE RecsFrom(_, _, _)
RecsFrom(s, i, cur) ==
  IF i > Len(s) THEN (IF cur = <<>> THEN <<>> ELSE <<cur>>)
  ELSE IF s[i] = D THEN (IF cur = <<>> THEN <<>> ELSE <<cur>>) \o RecsFrom(s, i + 1, <<>>)
  ELSE RecsFrom(s, i + 1, Append(cur, s[i]))
Records(s) == RecsFrom(s, 1, <<>>)

IsPrefix(a, b) == Len(a) <= Len(b) /\ \A i \in 1..Len(a) : a[i] = b[i]

----------------------------------------------------------------------------
VARIABLES input,   \* the whole of stdin (chosen in Init, never changes)
          pos,     \* bytes of input consumed by the bufio.Reader's caller
          line,    \* readAndPublish's local
          eof,     \* readErr == io.EOF
          pc,      \* "read" | "trim" | "check" | "pub" | "ret" | "done" | "fatal"
          k,       \* next producer to publish to (ranging over the map)
          pub      \* per destination: records accepted by Publish (what the nsqd holds)

vars == <<input, pos, line, eof, pc, k, pub>>

Init == /\ input \in Inputs
        /\ pos = 0 /\ line = <<>> /\ eof = FALSE /\ pc = "read" /\ k = 1
        /\ pub = [d \in Dest |-> <<>>]

(* r.ReadBytes(delim): up to and including the first delimiter, or everything left + io.EOF *)
DelimAt == {i \in (pos + 1)..Len(input) : input[i] = D}
Read == /\ pc = "read"
        /\ IF DelimAt # {}
           THEN LET j == CHOOSE i \in DelimAt : \A i2 \in DelimAt : i <= i2 IN
                /\ line' = SubSeq(input, pos + 1, j) /\ pos' = j /\ eof' = FALSE
           ELSE /\ line' = SubSeq(input, pos + 1, Len(input)) /\ pos' = Len(input) /\ eof' = TRUE
        /\ pc' = "trim"
        /\ UNCHANGED <<input, k, pub>>

(* if len(line) > 0 { line = line[:len(line)-1] }   -- "trim the delimiter" *)
TrimStep == /\ pc = "trim"
            /\ line' = IF Len(line) > 0 /\ (Trim = "always" \/ line[Len(line)] = D)
                       THEN SubSeq(line, 1, Len(line) - 1) ELSE line
            /\ pc' = "check"
            /\ UNCHANGED <<input, pos, eof, k, pub>>

(* if len(line) == 0 { return readErr } *)
Check == /\ pc = "check"
         /\ pc' = IF Len(line) = 0 THEN "ret" ELSE "pub"
         /\ k' = 1
         /\ UNCHANGED <<input, pos, line, eof, pub>>

(* for _, producer := range producers { err := producer.Publish(topic, line) ... } *)
PublishOK == /\ pc = "pub"
             /\ pub' = [pub EXCEPT ![k] = Append(@, line)]
             /\ IF k = NDest THEN pc' = "ret" /\ k' = 1 ELSE pc' = "pub" /\ k' = k + 1
             /\ UNCHANGED <<input, pos, line, eof>>
PublishErr == /\ pc = "pub" /\ CanFail
              /\ pc' = "fatal"            \* return err -> log.Fatal(err)
              /\ UNCHANGED <<input, pos, line, eof, k, pub>>

(* back in main's loop: io.EOF -> close(stopChan), producers stopped, exit 0; nil -> next call *)
Return == /\ pc = "ret"
          /\ pc' = IF eof THEN "done" ELSE "read"
          /\ UNCHANGED <<input, pos, line, eof, k, pub>>

Next == Read \/ TrimStep \/ Check \/ PublishOK \/ PublishErr \/ Return
Spec == Init /\ [][Next]_vars /\ WF_vars(Next)

----------------------------------------------------------------------------
TypeOK == /\ pos \in 0..Len(input) /\ k \in Dest /\ eof \in BOOLEAN
          /\ pc \in {"read", "trim", "check", "pub", "ret", "done", "fatal"}

(* C20/to_nsq as invariants and an action property *)
R == Records(input)
InOrderExact   == \A d \in Dest : IsPrefix(pub[d], R)                       \* never a wrong, altered or reordered record
Complete       == pc = "done" => \A d \in Dest : pub[d] = R                 \* clean exit: every record, every destination
NoEmptyRecord  == \A d \in Dest : \A i \in 1..Len(pub[d]) : pub[d][i] # <<>>
NextRecordOnly == [][\A d \in Dest : \/ pub'[d] = pub[d]
                                     \/ /\ Len(pub[d]) < Len(R)
                                        /\ pub'[d] = Append(pub[d], R[Len(pub[d]) + 1])]_vars
Terminates     == <>(pc \in {"done", "fatal"})
ExitsCleanUnlessPublishFails == CanFail \/ [](pc # "fatal")

(* binding A: one row per input at the clean-exit state (NDest = 1, CanFail = FALSE: deterministic) *)
RECURSIVE Flat(_)
Flat(rs) == IF rs = <<>> THEN <<>> ELSE Head(rs) \o <<"/">> \o Flat(Tail(rs))
RowOut == pc = "done" => PrintT(<<"ROW", Trim, input, "|", Flat(R), "|", Flat(pub[1])>>)
=============================================================================
