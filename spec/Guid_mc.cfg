SPECIFICATION Spec
CONSTANTS
  SeqMask = 2
  MaxClock = 4
  MaxBack = 2
  Nodes = {1}
INVARIANTS TypeOK HighWater LastIdNotAhead
PROPERTIES Refines StrictlyIncreasing NeverReuse ErrLeavesLastId RecoversWhenClockPasses
CHECK_DEADLOCK FALSE
