------------------------------ MODULE RelayAbs ------------------------------
(***************************************************************************)
(* C20, second clause, at the level an operator can observe from outside   *)
(* nsq_to_nsq / nsq_to_http:                                               *)
(*   - on the source side (the TCP connection to the source nsqd): message *)
(*     frames delivered to the relay, and the FIN / REQ commands it sends; *)
(*   - on the destination side: requests received carrying a body, and the *)
(*     answer the destination gave (accepted: PUB -> OK, HTTP 2xx;         *)
(*     definitely refused: E_* frame, connection closed after the body was *)
(*     read, HTTP 3xx/4xx/5xx).                                            *)
(* The property: a source message is finished only after a destination     *)
(* accepted that very body; every refusal is answered by a requeue; a body *)
(* no source message has never reaches a destination (unless a filter was  *)
(* requested); and once everything has settled every message has arrived.  *)
(* Failures that name no message (connection refused, closed before the     *)
(* body was read, no answer until the client gave up) are counted too: when *)
(* settled, there are at least as many requeues as failures of all kinds.   *)
(*                                                                         *)
(* Relay.tla (the tools' algorithm) is checked by TLC to refine this spec; *)
(* RelayTrace.tla validates recorded executions of the real binaries       *)
(* against it -- a rejection there is a violation of the property.         *)
(***************************************************************************)
EXTENDS Integers, FiniteSets

RECURSIVE Sum(_, _)
Sum(f, S) == IF S = {} THEN 0 ELSE LET x == CHOOSE y \in S : TRUE IN f[x] + Sum(f, S \ {x})

CONSTANTS Msgs,     \* source messages (bodies are pairwise different, so a body identifies its message)
          Dests,    \* destinations
          Filter    \* TRUE when --require-json-field/--whitelist-json-field/--sample was requested

VARIABLES delivered,  \* per message: message frames the source nsqd sent to the relay
          acc,        \* per message: destinations that accepted its body
          dfail,      \* per message: definite refusals of its body
          reqs,       \* per message: REQ commands sent by the relay
          fins,       \* per message: FIN commands sent by the relay
          ifail,      \* failures the relay certainly noticed but that name no message: connection refused /
                      \* closed before the body was read, request left unanswered until the client gave up
          unknown,    \* requests that carried a body no source message has
          ended       \* the run has settled (nothing queued, in flight or outstanding anywhere)

avars == <<delivered, acc, dfail, ifail, reqs, fins, unknown, ended>>

AInit == /\ delivered = [m \in Msgs |-> 0] /\ acc = [m \in Msgs |-> {}]
         /\ dfail = [m \in Msgs |-> 0] /\ reqs = [m \in Msgs |-> 0] /\ fins = [m \in Msgs |-> 0]
         /\ ifail = 0 /\ unknown = 0 /\ ended = FALSE

ADeliver(m)   == /\ delivered' = [delivered EXCEPT ![m] = @ + 1]
                 /\ UNCHANGED <<acc, dfail, ifail, reqs, fins, unknown, ended>>
\* a destination can only be handed what the relay has itself received
AAccept(m, d) == /\ delivered[m] > 0
                 /\ acc' = [acc EXCEPT ![m] = @ \cup {d}]
                 /\ UNCHANGED <<delivered, dfail, ifail, reqs, fins, unknown, ended>>
ARefuse(m, d) == /\ delivered[m] > 0
                 /\ dfail' = [dfail EXCEPT ![m] = @ + 1]
                 /\ UNCHANGED <<delivered, acc, ifail, reqs, fins, unknown, ended>>
AFail         == /\ ifail' = ifail + 1
                 /\ UNCHANGED <<delivered, acc, dfail, reqs, fins, unknown, ended>>
\* Unmodified: a request with a body that is no source body -- only when a filter may rewrite bodies
AUnknown      == /\ Filter
                 /\ unknown' = unknown + 1
                 /\ UNCHANGED <<delivered, acc, dfail, ifail, reqs, fins, ended>>
\* FinOnlyAfterAccept
AFin(m)       == /\ delivered[m] > 0
                 /\ acc[m] # {} \/ Filter
                 /\ fins' = [fins EXCEPT ![m] = @ + 1]
                 /\ UNCHANGED <<delivered, acc, dfail, ifail, reqs, unknown, ended>>
AReq(m)       == /\ delivered[m] > 0
                 /\ reqs' = [reqs EXCEPT ![m] = @ + 1]
                 /\ UNCHANGED <<delivered, acc, dfail, ifail, fins, unknown, ended>>
\* settled: ReqOtherwise (every definite refusal was answered by a requeue) and AtLeastOnce
AEnd          == /\ ~ended
                 /\ \A m \in Msgs : /\ delivered[m] > 0 => fins[m] > 0
                                    /\ reqs[m] >= dfail[m]
                                    /\ fins[m] > 0 => (acc[m] # {} \/ Filter)
                 /\ Sum(reqs, Msgs) >= Sum(dfail, Msgs) + ifail
                 /\ ended' = TRUE
                 /\ UNCHANGED <<delivered, acc, dfail, ifail, reqs, fins, unknown>>

ANext == \/ \E m \in Msgs : ADeliver(m) \/ AFin(m) \/ AReq(m)
         \/ \E m \in Msgs, d \in Dests : AAccept(m, d) \/ ARefuse(m, d)
         \/ AFail \/ AUnknown \/ AEnd
ASpec == AInit /\ [][ANext]_avars

(* the statement's clauses as consequences *)
FinOnlyAfterAccept == \A m \in Msgs : fins[m] > 0 => (acc[m] # {} \/ Filter)
Unmodified         == Filter \/ unknown = 0
ReqOtherwise       == ended => /\ \A m \in Msgs : reqs[m] >= dfail[m]
                               /\ Sum(reqs, Msgs) >= Sum(dfail, Msgs) + ifail
AtLeastOnce        == ended => \A m \in Msgs : delivered[m] > 0 => (acc[m] # {} \/ Filter)
=============================================================================
