SPECIFICATION Spec
CONSTANTS
  Producers = {"p1", "p2"}
  Topics = {"t1"}
  Channels = {"c1"}
  EphTopics = {}
  EphChannels = {}
  SharedNode = {}
  InactiveK = 2
  TombK = 1
  MaxNow = 4
VIEW view
INVARIANT StateOut
ACTION_CONSTRAINT EdgeOut
CHECK_DEADLOCK FALSE
