----------------------------- MODULE GuidEdges -----------------------------
(* Prints every NewGUID transition of the bounded Guid model, for replay     *)
(* through the real generator (binding A).                                  *)
EXTENDS Guid
EdgeOut ==
  \A n \in Nodes :
    (clock' = clock /\ backs' = backs /\ ret'.node = n) =>
      PrintT(<<"EDGE", clock, lastTs[n], sq[n], lastId[n], n, ret'.err,
               lastTs'[n], sq'[n], lastId'[n], ret'.id, SeqMask>>)
=============================================================================
