package main

import (
	"bytes"
	"encoding/binary"
	"fmt"
	"math/rand"
	"net"
	"os"
	"sort"
	"strconv"
	"strings"
	"sync"
	"sync/atomic"
	"time"

	"github.com/nsqio/nsq/internal/verif"
	"github.com/nsqio/nsq/nsqd"
	"github.com/nsqio/nsq/verifharness/hlib"
)

type RunResult struct {
	Scenario     string         `json:"scenario"`
	Events       int            `json:"events"`
	Published    int            `json:"published"`
	Acked        int            `json:"acked"`
	Fails        []string       `json:"fails"`
	Inconclusive string         `json:"inconclusive,omitempty"`
	Snapshots    int            `json:"snapshots"`
	Trace        string         `json:"trace"`
	TimingChecks int            `json:"timing_checks"`
	WorstLateMs  int64          `json:"worst_late_ms"`
	Shapes       map[string]int `json:"shapes"`
}

var evCount int64

func personalities(mode string, rng *rand.Rand) int {
	switch mode {
	case "core":
		return []int{0, 1, 1, 2, 3}[rng.Intn(5)]
	case "contend":
		return []int{1, 2, 2, 3}[rng.Intn(4)]
	case "flow":
		return []int{4, 4, 1, 0}[rng.Intn(4)]
	case "churn":
		return []int{0, 1, 3}[rng.Intn(3)]
	case "timing":
		return []int{1, 2, 5, 5}[rng.Intn(4)]
	case "bytes":
		return []int{0, 1}[rng.Intn(2)]
	}
	return 0
}

// runScenario executes one scenario and returns the recorded events (hook + harness, in sequence order).
func runScenario(sc Scenario, dir string) ([]verif.Event, *RunResult) {
	res := &RunResult{Scenario: sc.String()}
	r := &Run{sc: sc, rng: rand.New(rand.NewSource(sc.Seed)), byKey: map[string]*pubRec{}, emptied: map[string]bool{}}
	rec := &countingRecorder{}
	rec.Install()
	defer rec.Uninstall()
	hlib.Emit("Reset", "scenario", sc.String(), "now", time.Now().UnixNano())
	finish := func() []verif.Event { rec.Uninstall(); return rec.Take() }
	var lkd *lookupdInst
	if sc.Lookupd != 0 {
		li, err := startLookupd()
		if err != nil {
			res.Inconclusive = "start nsqlookupd: " + err.Error()
			return nil, res
		}
		lkd = li
		defer func() {
			if lkd != nil {
				lkd.l.Exit()
			}
		}()
	}
	nd, err := startNode(dir, func(o *nsqd.Options) {
		r.nodeOpts(o)
		if lkd != nil {
			o.NSQLookupdTCPAddresses = []string{lkd.tcp}
		}
	})
	if err != nil {
		res.Inconclusive = "start nsqd: " + err.Error()
		return nil, res
	}
	r.nd = nd
	if lkd != nil {
		// wait until nsqd has identified itself to the nsqlookupd (it then knows where to ask for a topic's channels)
		ok := false
		for i := 0; i < 500 && !ok; i++ {
			var nodes struct {
				Producers []map[string]interface{} `json:"producers"`
			}
			if st, err := httpJSON("http://"+lkd.http+"/nodes", &nodes); err == nil && st == 200 && len(nodes.Producers) > 0 {
				ok = true
			} else {
				time.Sleep(10 * time.Millisecond)
			}
		}
		if !ok {
			res.Inconclusive = "nsqd did not connect to nsqlookupd"
			nd.stop(30 * time.Second)
			return nil, res
		}
		if sc.Lookupd == 2 {
			lkd.l.Exit() // from now on every query of nsqd to it fails
			lkd = nil
		}
	}
	stopped := false
	defer func() {
		if !stopped {
			nd.stop(30 * time.Second)
		}
	}()
	for _, t := range sc.Topics {
		r.httpAdmin("/topic/create?topic=" + t)
		for _, c := range sc.Channels[t] {
			r.httpAdmin("/channel/create?topic=" + t + "&channel=" + c)
		}
	}
	// consumers
	for _, t := range sc.Topics {
		for _, c := range sc.Channels[t] {
			for i := 0; i < sc.ConsPerChan; i++ {
				p := personalities(sc.Mode, r.rng)
				rdy := int64(1 + r.rng.Intn(3))
				if p == 4 && r.rng.Intn(3) == 0 {
					rdy = 0 // subscribed without RDY yet
				}
				if _, err := r.newConsumer(t, c, p, rdy); err != nil {
					res.Inconclusive = "consumer: " + err.Error()
					res.Fails = r.fails // what was already observed stands
					return nil, res
				}
			}
		}
	}
	if sc.Lonely {
		// a topic nobody has subscribed to yet: it accepts messages and must be accounted for like any other
		r.httpAdmin("/topic/create?topic=lonely")
	}
	perPhase := sc.NMsg / sc.Phases
	if perPhase < 1 {
		perPhase = 1
	}
	for ph := 0; ph < sc.Phases; ph++ {
		atomic.StoreInt32(&r.stop, 0)
		r.startConsumerLoops()
		if sc.Lonely {
			for j := 0; j < 2; j++ {
				key, body := r.makeBody(r.rng, 90+ph, j)
				// every other one deferred: its delay will long have run out when the topic gets its first channel
				dms, qs := 0, ""
				if j == 1 {
					dms, qs = 40, "&defer=40"
				}
				rec := r.record(key, "lonely", body, dms, "HTTP")
				hlib.Emit("HPub", "key", key, "via", "HTTP", "t", "lonely", "defer", dms, "now", time.Now().UnixNano())
				if st, _, err := nd.post("/pub?topic=lonely"+qs, body); err == nil && st == 200 {
					r.markAcked([]*pubRec{rec})
				}
			}
		}
		if sc.Mode == "flow" || sc.Mode == "churn" {
			r.wg.Add(1)
			go r.admin(sc.Seed*31 + int64(ph))
		}
		var pubDone = make(chan struct{})
		go func() {
			var pwg = make(chan struct{}, sc.NPub)
			for p := 0; p < sc.NPub; p++ {
				r.wg.Add(1)
				go func(p int) {
					r.publisher(p, sc.Seed*1000+int64(p*10+ph), perPhase, ph*perPhase)
					pwg <- struct{}{}
				}(p)
			}
			for p := 0; p < sc.NPub; p++ {
				<-pwg
			}
			close(pubDone)
		}()
		select {
		case <-pubDone:
		case <-time.After(120 * time.Second):
			res.Inconclusive = "publishers did not finish"
			atomic.StoreInt32(&r.stop, 1)
			return finish(), res
		}
		time.Sleep(time.Duration(100+r.rng.Intn(200)) * time.Millisecond)
		atomic.StoreInt32(&r.stop, 1)
		r.wg.Wait()
		if r.quiescentSnapshot(fmt.Sprintf("phase%d", ph)) {
			res.Snapshots++
		}
	}
	if sc.Mode == "bytes" || sc.Mode == "core" {
		r.tornPublishStep()
	}
	if sc.Mode == "contend" || sc.Mode == "core" {
		r.clsHoldStep()
	}
	if sc.Mode == "bytes" || sc.Mode == "flow" {
		r.bigFrameStep()
	}
	if sc.Mode == "flow" {
		r.pauseRaceStep()
	}
	if sc.Vanish {
		r.vanishStep()
	}
	if sc.Starve {
		r.starveStep()
	}
	if sc.RdyZero {
		r.rdyZeroStep()
	}
	if sc.MixedTmo {
		r.mixedTimeoutStep()
	}
	if sc.PauseBacklog {
		r.pauseBacklogStep()
	}
	// ---- drain
	if sc.Lonely {
		r.httpAdmin("/channel/create?topic=lonely&channel=late")
	}
	atomic.StoreInt32(&r.draining, 1)
	for _, t := range sc.Topics {
		r.httpAdmin("/topic/unpause?topic=" + t)
	}
	st, _, err := nd.stats("")
	if err != nil {
		res.Inconclusive = "stats: " + err.Error()
		return finish(), res
	}
	for _, ts := range st.Topics {
		for _, cs := range ts.Channels {
			r.httpAdmin("/channel/unpause?topic=" + ts.Name + "&channel=" + q(cs.Name))
			// one fresh prompt consumer per channel guarantees a ready consumer exists
			if _, err := r.newConsumer(ts.Name, cs.Name, 0, 5); err != nil {
				res.Inconclusive = "drain consumer: " + err.Error()
				return finish(), res
			}
		}
	}
	r.consMu.Lock()
	for _, c := range r.cons {
		if !c.cn.isClosed() && !c.closing && c.person != 0 {
			c.cn.cmd("RDY", "", "5")
			c.rdy = 5
		}
	}
	r.consMu.Unlock()
	atomic.StoreInt32(&r.stop, 0)
	r.startConsumerLoops()
	drained := false
	lastChange := time.Now()
	lastCount := atomic.LoadInt64(&evCount)
	deadline := time.Now().Add(90 * time.Second)
	empties := 0
	var lastStats string
	lastLeft, lastLeftChange, pollsSince := int64(-1), time.Now(), 0
	for time.Now().Before(deadline) {
		time.Sleep(40 * time.Millisecond)
		st, _, err := nd.stats("")
		if err != nil {
			res.Inconclusive = "stats: " + err.Error()
			break
		}
		left := int64(0)
		for _, ts := range st.Topics {
			left += ts.Depth
			for _, cs := range ts.Channels {
				left += cs.Depth + cs.InFlightCount + cs.DeferredCount
			}
		}
		lastStats = fmt.Sprintf("left=%d", left)
		if left != lastLeft {
			lastLeft, lastLeftChange, pollsSince = left, time.Now(), 0
		}
		pollsSince++
		if left > 0 && time.Since(lastLeftChange) > 60*time.Second && pollsSince > 600 {
			// the daemon answered several hundred /stats requests over a minute (so neither it nor this machine is
			// merely slow), a prompt consumer with RDY 5 sits on every channel, every timeout in these scenarios is
			// at most 15 s -- and the number of messages owed has not moved once
			r.failf("[C01] STUCK: %s unchanged for 60s (%d /stats answers meanwhile) with a prompt ready consumer on every channel", lastStats, pollsSince)
			break
		}
		if left == 0 {
			empties++
			if empties >= 3 {
				drained = true
				break
			}
		} else {
			empties = 0
		}
		if c := atomic.LoadInt64(&evCount); c != lastCount {
			lastCount = c
			lastChange = time.Now()
		} else if time.Since(lastChange) > 15*time.Second {
			// nothing at all has happened inside nsqd for 15 s although messages are owed and ready
			// consumers exist: the daemon is stuck, not slow
			r.failf("[C01] STUCK: no hook event for 15s while %s with ready consumers on every channel", lastStats)
			break
		}
	}
	atomic.StoreInt32(&r.stop, 1)
	r.wg.Wait()
	if !drained && len(r.fails) == 0 && res.Inconclusive == "" {
		res.Inconclusive = "drain deadline passed (" + lastStats + ")"
	}
	if drained {
		if r.quiescentSnapshot("final") {
			res.Snapshots++
		}
		hlib.Emit("HEnd")
	}
	evs := finish()
	if err := nd.stop(60 * time.Second); err != nil {
		r.failf("[C05] shutdown: %v", err)
	}
	stopped = true
	r.consMu.Lock()
	for _, c := range r.cons {
		c.cn.close()
	}
	r.consMu.Unlock()
	res.Published = len(r.pubs)
	for _, p := range r.pubs {
		if p.Acked {
			res.Acked++
		}
	}
	r.ledger(evs, drained)
	res.TimingChecks = r.timingLedger(evs)
	res.WorstLateMs = r.worstLate / 1000000
	res.Fails = r.fails
	if res.Inconclusive == "" {
		res.Inconclusive = r.incon
	}
	res.Events = len(evs)
	return evs, res
}

func (r *Run) startConsumerLoops() {
	r.consMu.Lock()
	defer r.consMu.Unlock()
	for i, c := range r.cons {
		if c.dead || c.cn.isClosed() {
			if !c.dead {
				c.dead = true
			}
			continue
		}
		r.wg.Add(1)
		go r.consumerLoop(c, r.sc.Seed*131+int64(i)+int64(len(r.pubs)))
	}
	// replace dead flaky consumers (reconnect) while not draining
	if atomic.LoadInt32(&r.draining) == 0 {
		var add [][2]string
		for _, c := range r.cons {
			if c.dead && c.person == 3 {
				c.person = -3 // replaced
				add = append(add, [2]string{c.topic, c.channel})
			}
		}
		r.consMu.Unlock()
		for _, tc := range add {
			if nc, err := r.newConsumer(tc[0], tc[1], 1, 2); err == nil {
				r.wg.Add(1)
				go r.consumerLoop(nc, r.sc.Seed*977+int64(len(r.cons)))
			}
		}
		r.consMu.Lock()
	}
}

// quiescentSnapshot: barriers on every live consumer connection, then /stats until two consecutive reads
// agree and no hook event happened in between; the snapshot is emitted as HStats* events.
func (r *Run) quiescentSnapshot(label string) bool {
	r.consMu.Lock()
	cons := append([]*consumer(nil), r.cons...)
	r.consMu.Unlock()
	for _, c := range cons {
		if c.cn.isClosed() {
			continue
		}
		frames, err := c.cn.barrier(30 * time.Second)
		if err != nil {
			if c.cn.isClosed() {
				continue
			}
			r.inconclusive("barrier: %v", err)
			return false
		}
		for _, f := range frames {
			if f.Type == 2 {
				c.held[f.ID] = time.Now()
				lastIDs.Store(c, f.ID)
			}
		}
	}
	for try := 0; try < 200; try++ {
		c0 := atomic.LoadInt64(&evCount)
		s1, _, err := r.nd.stats("")
		if err != nil {
			r.inconclusive("stats: %v", err)
			return false
		}
		time.Sleep(25 * time.Millisecond)
		s2, _, err := r.nd.stats("")
		if err != nil {
			r.inconclusive("stats: %v", err)
			return false
		}
		if summarizeAll(s1) != summarizeAll(s2) || atomic.LoadInt64(&evCount) != c0 {
			continue
		}
		// drain frames that arrived meanwhile into held maps (keeps the client-side ledger exact)
		hlib.Emit("HQuiet", "label", label)
		if atomic.LoadInt64(&evCount) != c0 {
			continue
		}
		var tnames []string
		for _, ts := range s1.Topics {
			tnames = append(tnames, ts.Name)
		}
		hlib.Emit("HStatsTopics", "topics", tnames)
		for _, ts := range s1.Topics {
			hlib.Emit("HStatsT", "t", ts.Name, "count", ts.MessageCount, "bytes", ts.MessageBytes, "depth", ts.Depth, "paused", ts.Paused)
			for _, cs := range ts.Channels {
				hlib.Emit("HStatsC", "c", ts.Name+"/"+cs.Name, "depth", cs.Depth, "inflight", cs.InFlightCount, "deferred", cs.DeferredCount,
					"count", cs.MessageCount, "requeue", cs.RequeueCount, "timeout", cs.TimeoutCount, "paused", cs.Paused, "nclients", cs.ClientCount)
				for _, k := range cs.Clients {
					hlib.Emit("HStatsK", "conn", k.ClientID, "rdy", k.ReadyCount, "inflight", k.InFlightCount, "fin", k.FinishCount,
						"req", k.RequeueCount, "msgs", k.MessageCount, "state", k.State)
				}
			}
		}
		// the other renderings of /stats are compared only if nothing moved while they were fetched
		for v := 0; v < 5; v++ {
			c1 := atomic.LoadInt64(&evCount)
			sa, _, err := r.nd.stats("")
			if err != nil {
				break
			}
			nf := len(r.fails)
			r.statsVariants(sa)
			sb, _, err := r.nd.stats("")
			if err == nil && summarizeAll(sa) == summarizeAll(sb) && atomic.LoadInt64(&evCount) == c1 {
				break
			}
			r.mu.Lock()
			r.fails = r.fails[:nf] // the daemon was not quiescent during the comparison: discard and retry
			r.mu.Unlock()
		}
		hlib.Emit("HStatsEnd", "label", label)
		return true
	}
	r.inconclusive("no quiescent point reached for snapshot %s", label)
	return false
}

// ledger: black-box oracle over the client-visible history (independent of the hook events' meaning)
func (r *Run) ledger(evs []verif.Event, drained bool) {
	type dk struct{ conn, id string }
	// id <-> key, from the frames consumers received
	idOfKey := map[string]string{}
	keyOfID := map[string]string{}
	tsOfID := map[string]int64{}
	for _, e := range evs {
		if e.Ev != "HRecv" {
			continue
		}
		id := hlib.KVStr(e, "id")
		d, _ := hlib.KVGet(e, "body").(verif.BodyDigest)
		key := keyOf([]byte(d.Pre))
		ts := hlib.KVInt(e, "ts")
		if len(id) != 16 {
			r.failf("[C07] message id %q is not 16 characters", id)
		}
		for _, ch := range id {
			if !((ch >= '0' && ch <= '9') || (ch >= 'a' && ch <= 'f')) {
				r.failf("[C07] message id %q is not lower-case hex", id)
				break
			}
		}
		if key == "" {
			r.failf("[C07] received a body that was never published (prefix %q)", d.Pre)
			continue
		}
		rec := r.byKey[key]
		if rec == nil {
			r.failf("[C07] received unknown key %q", key)
			continue
		}
		if d.Len != len(rec.Body) || d.CRC != verif.Digest(rec.Body).CRC {
			r.failf("[C07] body of %s differs from what was published (len %d vs %d)", key, d.Len, len(rec.Body))
		}
		if prev, ok := idOfKey[key]; ok && prev != id {
			r.failf("[C07] message %s delivered under two ids %s and %s", key, prev, id)
		}
		tid := rec.Topic + ":" + id // ids are unique per topic (C12), not across topics
		if prev, ok := keyOfID[tid]; ok && prev != key {
			r.failf("[C12] id %s used for two messages %s and %s", tid, prev, key)
		}
		if prev, ok := tsOfID[tid]; ok && prev != ts {
			r.failf("[C07] timestamp of %s changed between deliveries: %d vs %d", tid, prev, ts)
		}
		idOfKey[key], keyOfID[tid], tsOfID[tid] = id, key, ts
	}
	_ = drained
	// C13, client-visible: what /stats says about a consumer is bounded by what that consumer did -- it was not requeued more
	// often than it sent REQ, did not finish more than it sent FIN, and was sent at least what it received
	{
		sentReq, sentFin, recvd := map[string]int64{}, map[string]int64{}, map[string]int64{}
		n13 := 0
		for _, e := range evs {
			switch e.Ev {
			case "HCmd":
				switch hlib.KVStr(e, "cmd") {
				case "REQ":
					sentReq[hlib.KVStr(e, "conn")]++
				case "FIN":
					sentFin[hlib.KVStr(e, "conn")]++
				}
			case "HRecv":
				recvd[hlib.KVStr(e, "conn")]++
			case "HStatsK":
				cn := hlib.KVStr(e, "conn")
				if _, ours := recvd[cn]; !ours && sentReq[cn] == 0 && sentFin[cn] == 0 {
					continue
				}
				if n13 < 4 {
					if q := hlib.KVInt(e, "req"); q > sentReq[cn] {
						n13++
						r.failf("[C13] /stats reports requeue_count=%d for consumer %s, which has sent %d REQ so far", q, cn, sentReq[cn])
					}
					if f := hlib.KVInt(e, "fin"); f > sentFin[cn] {
						n13++
						r.failf("[C13] /stats reports finish_count=%d for consumer %s, which has sent %d FIN so far", f, cn, sentFin[cn])
					}
					if m := hlib.KVInt(e, "msgs"); m < recvd[cn] {
						n13++
						r.failf("[C13] /stats reports message_count=%d for consumer %s, which has received %d messages so far", m, cn, recvd[cn])
					}
				}
			}
		}
	}
	// C03, client-visible: POST /topic/pause is answered only after the topic's pump has taken notice, so whatever is published
	// from then on stays in the topic until somebody asks for an unpause -- no consumer can receive it in between, whatever
	// kind of publish it was and wherever the topic had to put it
	type ival struct{ open bool }
	cur := map[string]*ival{}     // topic -> the interval "pause answered 200, no unpause requested yet"
	unpausing := map[string]int{} // topic -> unpause requests under way
	under := map[string]*ival{}   // key -> interval its publish began in
	topicOf := func(path, pre string) string {
		if !strings.HasPrefix(path, pre) {
			return ""
		}
		return strings.TrimPrefix(path, pre)
	}
	reported := 0
	for _, e := range evs {
		switch e.Ev {
		case "HAdmin":
			if t := topicOf(hlib.KVStr(e, "path"), "/topic/unpause?topic="); t != "" {
				unpausing[t]++
				if iv := cur[t]; iv != nil {
					iv.open = false
					delete(cur, t)
				}
			}
		case "HAdminDone":
			path := hlib.KVStr(e, "path")
			if t := topicOf(path, "/topic/unpause?topic="); t != "" {
				unpausing[t]--
			}
			if t := topicOf(path, "/topic/pause?topic="); t != "" && hlib.KVInt(e, "status") == 200 && unpausing[t] == 0 && cur[t] == nil {
				cur[t] = &ival{open: true}
			}
		case "HPub":
			if iv := cur[hlib.KVStr(e, "t")]; iv != nil {
				under[hlib.KVStr(e, "key")] = iv
			}
		case "HRecv":
			d, _ := hlib.KVGet(e, "body").(verif.BodyDigest)
			key := keyOf([]byte(d.Pre))
			if iv := under[key]; iv != nil && iv.open && reported < 3 {
				reported++
				via := ""
				if rec := r.byKey[key]; rec != nil {
					via = fmt.Sprintf(" (%s, defer %d ms, topic %s)", rec.Via, rec.Defer, rec.Topic)
				}
				r.failf("[C03] message %s%s was published after POST /topic/pause had been answered 200 and was delivered to a consumer before anybody asked for an unpause", key, via)
			}
		}
	}
}

func (r *Run) statsVariants(s *Stats) {
	// /stats in text form and under filters must report the same numbers (C13)
	for _, ts := range s.Topics {
		ft, _, err := r.nd.stats("&topic=" + q(ts.Name))
		if err != nil {
			r.inconclusive("stats filter: %v", err)
			return
		}
		if len(ft.Topics) != 1 || ft.Topics[0].Name != ts.Name {
			r.failf("[C13] /stats?topic=%s returned %d topics", ts.Name, len(ft.Topics))
			continue
		}
		if a, b := summarize(ft.Topics[0]), summarize(ts); a != b {
			r.failf("[C13] /stats?topic=%s differs from the unfiltered view: %s vs %s", ts.Name, a, b)
		}
		for _, cs := range ts.Channels {
			fc, _, err := r.nd.stats("&topic=" + q(ts.Name) + "&channel=" + q(cs.Name))
			if err != nil {
				r.inconclusive("stats filter: %v", err)
				return
			}
			if len(fc.Topics) != 1 || len(fc.Topics[0].Channels) != 1 || fc.Topics[0].Channels[0].Name != cs.Name {
				r.failf("[C13] /stats?topic=%s&channel=%s did not return exactly that channel", ts.Name, cs.Name)
				continue
			}
			if a, b := summarizeC(fc.Topics[0].Channels[0]), summarizeC(cs); a != b {
				r.failf("[C13] /stats?topic=%s&channel=%s differs from the unfiltered view: %s vs %s", ts.Name, cs.Name, a, b)
			}
		}
	}
	st, body, err := r.nd.get("/stats")
	if err != nil || st != 200 {
		r.inconclusive("stats text: %v %d", err, st)
		return
	}
	checkTextStats(r, s, string(body))
	// no negative numbers anywhere
	for _, ts := range s.Topics {
		if ts.Depth < 0 || ts.MessageCount < 0 {
			r.failf("[C13] negative topic counter in %s", ts.Name)
		}
		for _, cs := range ts.Channels {
			if cs.Depth < 0 || cs.InFlightCount < 0 || cs.DeferredCount < 0 {
				r.failf("[C13] negative channel counter in %s/%s", ts.Name, cs.Name)
			}
			var held int64
			for _, k := range cs.Clients {
				if k.InFlightCount < 0 || k.ReadyCount < 0 {
					r.failf("[C13] negative client counter for %s on %s/%s: in_flight=%d ready=%d", k.ClientID, ts.Name, cs.Name, k.InFlightCount, k.ReadyCount)
				}
				held += k.InFlightCount
			}
			// (this reading was taken at a quiescent point) the connected consumers cannot hold more messages than the
			// channel has in flight; what is in flight to a consumer that is gone is the channel's alone
			if held > cs.InFlightCount {
				r.failf("[C13] the consumers of %s/%s report %d messages in flight between them while the channel has %d in flight", ts.Name, cs.Name, held, cs.InFlightCount)
			}
		}
	}
}

func summarizeAll(s *Stats) string {
	ts := []string{}
	for _, t := range s.Topics {
		ts = append(ts, summarize(t))
	}
	sort.Strings(ts)
	return fmt.Sprint(ts)
}

func summarizeC(c ChannelStat) string {
	ks := []string{}
	for _, k := range c.Clients {
		ks = append(ks, fmt.Sprintf("%s:%d:%d:%d:%d:%d", k.ClientID, k.ReadyCount, k.InFlightCount, k.MessageCount, k.FinishCount, k.RequeueCount))
	}
	sort.Strings(ks)
	return fmt.Sprintf("%s d=%d if=%d df=%d mc=%d rq=%d to=%d p=%v %v", c.Name, c.Depth, c.InFlightCount, c.DeferredCount, c.MessageCount, c.RequeueCount, c.TimeoutCount, c.Paused, ks)
}

func summarize(t TopicStat) string {
	cs := []string{}
	for _, c := range t.Channels {
		cs = append(cs, summarizeC(c))
	}
	sort.Strings(cs)
	return fmt.Sprintf("%s d=%d mc=%d mb=%d p=%v %v", t.Name, t.Depth, t.MessageCount, t.MessageBytes, t.Paused, cs)
}

func atoi(s string) int64 {
	n, _ := strconv.ParseInt(s, 10, 64)
	return n
}

var _ = os.Getenv

type countingRecorder struct{ evs []verif.Event }

func (c *countingRecorder) Install()   { verif.SetSink(countingSink(&c.evs)) }
func (c *countingRecorder) Uninstall() { verif.SetSink(nil) }
func (c *countingRecorder) Take() []verif.Event {
	evs := c.evs
	c.evs = nil
	return evs
}

// vanishStep: a consumer subscribes with RDY 1 and a 1 s heartbeat (= write deadline), then stops reading; a
// message larger than the socket buffers is published; the daemon's write to that consumer fails. The message
// was in flight to a consumer that vanished: it must come back (C01).
func (r *Run) vanishStep() {
	t := r.sc.Topics[0]
	r.httpAdmin("/channel/create?topic=" + t + "&channel=vch")
	cn, err := dial(r.nd.TCP, r.newConnName("van"))
	if err != nil {
		r.inconclusive("vanish dial: %v", err)
		return
	}
	if tc, ok := cn.c.(*net.TCPConn); ok {
		tc.SetReadBuffer(4096)
	}
	if _, err := cn.identify(map[string]interface{}{"heartbeat_interval": 1000}); err != nil {
		r.inconclusive("vanish identify: %v", err)
		return
	}
	if err := cn.sub(t, "vch"); err != nil {
		r.inconclusive("vanish sub: %v", err)
		return
	}
	cn.hold = make(chan struct{}) // from now on nothing is read from the socket
	cn.cmd("RDY", "", "1")
	time.Sleep(50 * time.Millisecond)
	key := "p98-00000"
	body := make([]byte, 6<<20)
	copy(body, key+"|")
	for i := len(key) + 1; i < len(body); i++ {
		body[i] = byte('a' + i%26)
	}
	rec := r.record(key, t, body, 0, "HTTP")
	hlib.Emit("HPub", "key", key, "via", "HTTP", "t", t, "defer", 0, "now", time.Now().UnixNano())
	if st, _, err := r.nd.post("/pub?topic="+t, body); err == nil && st == 200 {
		r.markAcked([]*pubRec{rec})
	}
	time.Sleep(2500 * time.Millisecond)
	cn.c.Close()
	close(cn.hold)
}

// rdyZeroStep: an idle consumer on its own channel evaluates "ready" and parks; then its RDY goes to 0 (or it
// sends CLS, or its channel is paused); more than a second later a message is published. Nothing newer than the
// change may be sent to it (C03).
func (r *Run) rdyZeroStep() {
	t := r.sc.Topics[0]
	r.httpAdmin("/channel/create?topic=" + t + "&channel=zch")
	z, err := r.newConsumer(t, "zch", 0, 1)
	if err != nil {
		r.inconclusive("rdyzero consumer: %v", err)
		return
	}
	if _, err := z.cn.barrier(20 * time.Second); err != nil {
		r.inconclusive("rdyzero barrier: %v", err)
		return
	}
	time.Sleep(50 * time.Millisecond)
	watch := []*consumer{z}
	switch r.rng.Intn(5) {
	case 4:
		// the pause comes first, the subscription second: a consumer that connects to a paused channel gets nothing either
		r.httpAdmin("/channel/pause?topic=" + t + "&channel=zch")
		z2, err := r.newConsumer(t, "zch", 0, 5)
		if err != nil {
			r.inconclusive("rdyzero late subscriber: %v", err)
			return
		}
		if _, err := z2.cn.barrier(20 * time.Second); err != nil {
			r.inconclusive("rdyzero barrier: %v", err)
			return
		}
		watch = append(watch, z2)
	case 0:
		z.cn.cmd("RDY", "", "0")
		z.rdy = 0
	case 1:
		z.cn.cmd("CLS", "", "")
		z.closing = true
	case 2:
		z.cn.cmd("RDY", "", "3")
		z.cn.cmd("RDY", "", "0")
		z.rdy = 0
	default:
		r.httpAdmin("/channel/pause?topic=" + t + "&channel=zch")
	}
	if _, err := z.cn.barrier(20 * time.Second); err != nil && !z.closing {
		r.inconclusive("rdyzero barrier: %v", err)
		return
	}
	time.Sleep(1300 * time.Millisecond)
	key, body := "p97-00000", []byte("p97-00000|after the change")
	rec := r.record(key, t, body, 0, "HTTP")
	hlib.Emit("HPub", "key", key, "via", "HTTP", "t", t, "defer", 0, "now", time.Now().UnixNano())
	if st, _, err := r.nd.post("/pub?topic="+t, body); err == nil && st == 200 {
		r.markAcked([]*pubRec{rec})
	}
	time.Sleep(300 * time.Millisecond)
	// client-side view of the same clause: the connection must not have been handed the message
	for _, w := range watch {
		for {
			f, ok := w.cn.next(10 * time.Millisecond)
			if !ok {
				break
			}
			if f.Type == 2 && keyOf(f.Body) == key {
				r.failf("[C03] a message published 1.3 s after the consumer's RDY 0 / CLS / channel pause had been processed was sent to it")
				w.held[f.ID] = time.Now()
			}
		}
	}
}

// starveStep: >= 4 channels; on one of them a consumer holds many messages and never answers, so that channel
// has an expired in-flight message on every queue-scan tick; the same channel also holds deferred messages.
// They must still be picked up soon after their deadline (C04), which timingLedger measures at the scan.
func (r *Run) starveStep() {
	t := "starve"
	r.httpAdmin("/topic/create?topic=" + t)
	r.httpAdmin("/channel/create?topic=" + t + "&channel=s0")
	// the other channels of the daemon are idle: the scan sees one busy channel among several (it rescans at once only
	// when more than a quarter of the channels had work)
	r.httpAdmin("/topic/create?topic=idle")
	for i := 0; i < 5; i++ {
		r.httpAdmin(fmt.Sprintf("/channel/create?topic=idle&channel=i%d", i))
	}
	// quiet the scenario's own channels: their consumers stop taking messages, what they hold times out once
	r.consMu.Lock()
	for _, c := range r.cons {
		if !c.cn.isClosed() && !c.closing {
			c.cn.cmd("RDY", "", "0")
			c.rdy = 0
		}
	}
	r.consMu.Unlock()
	time.Sleep(r.sc.MaxMsgTmo + 150*time.Millisecond)
	stuck, err := dial(r.nd.TCP, r.newConnName("stk"))
	if err != nil {
		r.inconclusive("starve dial: %v", err)
		return
	}
	defer stuck.close()
	if _, err := stuck.identify(nil); err != nil {
		r.inconclusive("starve identify: %v", err)
		return
	}
	if err := stuck.sub(t, "s0"); err != nil {
		r.inconclusive("starve sub: %v", err)
		return
	}
	stuck.cmd("RDY", "", "200")
	// the stuck consumer reads (so the daemon can keep redelivering) but never answers
	var lastMu sync.Mutex
	lastFrames := map[string]bool{}
	stopEat := make(chan struct{})
	eaten := make(chan struct{})
	go func() {
		defer close(eaten)
		for {
			select {
			case <-stopEat:
				return
			default:
			}
			if f, ok := stuck.next(20 * time.Millisecond); ok && f.Type == 2 {
				lastMu.Lock()
				lastFrames[f.ID] = true
				lastMu.Unlock()
			}
		}
	}()
	n := 150
	for i := 0; i < n; i++ {
		key := fmt.Sprintf("p96-%05d", i)
		body := []byte(key + "|s")
		rec := r.record(key, t, body, 0, "HTTP")
		if st, _, err := r.nd.post("/pub?topic="+t, body); err == nil && st == 200 {
			r.markAcked([]*pubRec{rec})
		}
		time.Sleep(3 * time.Millisecond) // spread the deliveries so that every 10 ms scan tick has an expiry
	}
	// from about one second on, s0 has expiries on every tick; now the deferred ones
	time.Sleep(300 * time.Millisecond)
	for i := 0; i < 6; i++ {
		key := fmt.Sprintf("p95-%05d", i)
		body := []byte(key + "|d")
		d := 60 + 40*i // all within max-req-timeout
		rec := r.record(key, t, body, d, "HTTP")
		hlib.Emit("HPub", "key", key, "via", "HTTP", "t", t, "defer", d, "now", time.Now().UnixNano())
		if st, _, err := r.nd.post(fmt.Sprintf("/pub?topic=%s&defer=%d", t, d), body); err == nil && st == 200 {
			r.markAcked([]*pubRec{rec})
		}
	}
	time.Sleep(3500 * time.Millisecond)
	close(stopEat)
	<-eaten
	// release: FIN whatever the stuck consumer currently holds, keep doing so for a moment
	for round := 0; round < 40; round++ {
		lastMu.Lock()
		ids := lastFrames
		lastFrames = map[string]bool{}
		lastMu.Unlock()
		for id := range ids {
			stuck.cmd("FIN", id, "")
		}
		for {
			f, ok := stuck.next(10 * time.Millisecond)
			if !ok {
				break
			}
			if f.Type == 2 {
				stuck.cmd("FIN", f.ID, "")
			}
		}
	}
}

// mixedTimeoutStep: two consumers of ONE channel negotiated different msg_timeouts. The one with the long timeout
// holds a message; later the one with the short timeout gets a message and holds it too. The second message's
// deadline is EARLIER than the first one's although it was delivered later: it must still time out on time (C04:
// the timing ledger measures how long after its deadline the scan picked it up).
func (r *Run) mixedTimeoutStep() {
	t := r.sc.Topics[0]
	r.httpAdmin("/channel/create?topic=" + t + "&channel=mix")
	heldID := ""
	hold := func(name string, tmoMs int, key string) *Conn {
		cn, err := dial(r.nd.TCP, r.newConnName(name))
		if err != nil {
			r.inconclusive("mixed dial: %v", err)
			return nil
		}
		if _, err := cn.identify(map[string]interface{}{"msg_timeout": tmoMs}); err != nil {
			r.inconclusive("mixed identify: %v", err)
			return nil
		}
		if err := cn.sub(t, "mix"); err != nil {
			r.inconclusive("mixed sub: %v", err)
			return nil
		}
		cn.cmd("RDY", "", "1")
		body := []byte(key + "|mixed")
		rec := r.record(key, t, body, 0, "HTTP")
		hlib.Emit("HPub", "key", key, "via", "HTTP", "t", t, "defer", 0, "now", time.Now().UnixNano())
		if st, _, err := r.nd.post("/pub?topic="+t, body); err == nil && st == 200 {
			r.markAcked([]*pubRec{rec})
		}
		deadline := time.Now().Add(10 * time.Second)
		for time.Now().Before(deadline) {
			if f, ok := cn.next(50 * time.Millisecond); ok && f.Type == 2 {
				heldID = f.ID
				return cn // held, never answered
			}
		}
		r.inconclusive("mixed: the message did not reach the consumer")
		return cn
	}
	long := hold("mxl", 6000, "p95-00000")
	if long == nil {
		return
	}
	defer long.close()
	time.Sleep(150 * time.Millisecond)
	if heldID != "" {
		// ... and asks for more time once: the timeout restarts with what THIS connection negotiated (C04: TouchCalc)
		long.cmd("TOUCH", heldID, "")
	}
	time.Sleep(200 * time.Millisecond) // several scan ticks see the long deadline at the head of the heap
	short := hold("mxs", 1000, "p95-00001")
	if short == nil {
		return
	}
	defer short.close()
	time.Sleep(2500 * time.Millisecond) // the short one's deadline (1 s) passes well within this
}

// pauseRaceStep: a consumer waits (RDY 1, nothing queued); its channel is paused and a message is published at the same
// moment, twenty times over.  Whichever the consumer's pump sees first, afterwards /stats says about the consumer what the
// consumer did (C13: the snapshot that follows, and the ledger's bounds) and nothing is lost (C01).
func (r *Run) pauseRaceStep() {
	t := r.sc.Topics[0]
	r.httpAdmin("/topic/unpause?topic=" + t)
	r.httpAdmin("/channel/create?topic=" + t + "&channel=race")
	cn, err := dial(r.nd.TCP, r.newConnName("race"))
	if err != nil {
		return
	}
	defer cn.close()
	if _, err := cn.identify(map[string]interface{}{"output_buffer_timeout": 25}); err != nil {
		return
	}
	if err := cn.sub(t, "race"); err != nil {
		return
	}
	cn.cmd("RDY", "", "1")
	for round := 0; round < 20; round++ {
		key := fmt.Sprintf("p93-%05d", round)
		body := []byte(key + "|race")
		rec := r.record(key, t, body, 0, "HTTP")
		var wg sync.WaitGroup
		var start int32
		wg.Add(2)
		go func() {
			defer wg.Done()
			for atomic.LoadInt32(&start) == 0 {
			}
			r.httpAdmin("/channel/pause?topic=" + t + "&channel=race")
		}()
		go func() {
			defer wg.Done()
			for atomic.LoadInt32(&start) == 0 {
			}
			hlib.Emit("HPub", "key", key, "via", "HTTP", "t", t, "defer", 0, "now", time.Now().UnixNano())
			if st, _, err := r.nd.post("/pub?topic="+t, body); err == nil && st == 200 {
				r.markAcked([]*pubRec{rec})
			}
		}()
		time.Sleep(time.Duration(r.rng.Intn(300)) * time.Microsecond)
		atomic.StoreInt32(&start, 1)
		wg.Wait()
		time.Sleep(3 * time.Millisecond)
		r.httpAdmin("/channel/unpause?topic=" + t + "&channel=race")
		deadline := time.Now().Add(3 * time.Second)
		for time.Now().Before(deadline) {
			if f, ok := cn.next(20 * time.Millisecond); ok && f.Type == 2 {
				cn.cmd("FIN", f.ID, "")
				if keyOf(f.Body) == key {
					break
				}
			}
		}
	}
	time.Sleep(50 * time.Millisecond)
	r.quiescentSnapshot("pause-race")
}

// pauseBacklogStep: a topic is paused while its pump is busy with a backlog. Once POST /topic/pause has been
// answered nothing more may be handed to the channels (C03: the trace spec rejects a TTake after TPauseEnd).
func (r *Run) pauseBacklogStep() {
	t := r.sc.Topics[0]
	for round := 0; round < 6; round++ {
		r.httpAdmin("/topic/pause?topic=" + t)
		// the backlog builds up in the topic's queue while it is paused
		var recs []*pubRec
		var buf bytes.Buffer
		n := 60
		binary.Write(&buf, binary.BigEndian, int32(n))
		for j := 0; j < n; j++ {
			key := fmt.Sprintf("p94-%02d%03d", round, j)
			body := []byte(key + "|backlog")
			recs = append(recs, r.record(key, t, body, 0, "HMPUB"))
			hlib.Emit("HPub", "key", key, "via", "HMPUB", "t", t, "defer", 0, "now", time.Now().UnixNano())
			buf.Write(lenPrefixed(body))
		}
		if st, _, err := r.nd.post("/mpub?topic="+t+"&binary=true", buf.Bytes()); err == nil && st == 200 {
			r.markAcked(recs)
		}
		// unpause: the pump starts fanning the backlog out; pause again right away, in the middle of it
		r.httpAdmin("/topic/unpause?topic=" + t)
		time.Sleep(time.Duration(r.rng.Intn(400)) * time.Microsecond)
		r.httpAdmin("/topic/pause?topic=" + t)
		time.Sleep(30 * time.Millisecond) // anything handed over now was handed over after the acknowledged pause
	}
	r.httpAdmin("/topic/unpause?topic=" + t)
}

// tornPublishStep: publishers that die in the middle of a body (PUB, DPUB, the second message of an MPUB), with bodies
// larger than the connection's read buffer: nothing of them is ever published (C07: what is delivered is what was
// published, whole; C09: a rejected publish enqueues nothing, MPUB is all-or-nothing).  Their keys are in nobody's
// ledger, so a delivery of any of them is reported as a body that was never published.
func (r *Run) tornPublishStep() {
	t := r.sc.Topics[0]
	for i, kind := range []string{"PUB", "DPUB", "MPUB"} {
		cn, err := dial(r.nd.TCP, r.newConnName("torn"))
		if err != nil {
			return
		}
		if _, err := cn.identify(nil); err != nil {
			cn.close()
			return
		}
		size := []int{17000, 40000, 70000}[r.rng.Intn(3)]
		if size > r.maxMsgSize()-100 {
			size = r.maxMsgSize() - 100
		}
		body := make([]byte, size)
		r.rng.Read(body)
		copy(body, []byte(fmt.Sprintf("torn-%d|", i)))
		part := size/2 + r.rng.Intn(size/4)
		var buf bytes.Buffer
		be := func(n int) []byte { b := make([]byte, 4); binary.BigEndian.PutUint32(b, uint32(n)); return b }
		switch kind {
		case "PUB":
			buf.WriteString("PUB " + t + "\n")
			buf.Write(be(size))
			buf.Write(body[:part])
		case "DPUB":
			buf.WriteString("DPUB " + t + " 20\n")
			buf.Write(be(size))
			buf.Write(body[:part])
		case "MPUB":
			first := append([]byte("torn-m|"), body[8:size/2]...)
			buf.WriteString("MPUB " + t + "\n")
			buf.Write(be(4 + 4 + len(first) + 4 + size))
			buf.Write(be(2))
			buf.Write(be(len(first)))
			buf.Write(first)
			buf.Write(be(size))
			buf.Write(body[:part])
		}
		cn.wmu.Lock()
		cn.c.SetWriteDeadline(time.Now().Add(10 * time.Second))
		cn.c.Write(buf.Bytes())
		cn.wmu.Unlock()
		time.Sleep(5 * time.Millisecond)
		cn.close()
	}
	time.Sleep(50 * time.Millisecond)
}

// clsHoldStep: a consumer that holds unanswered messages sends CLS while another consumer of the channel is ready.  CLS
// means "send me nothing more": what the closing consumer holds stays its own until it answers or its timeout expires
// (C02).
func (r *Run) clsHoldStep() {
	t := r.sc.Topics[0]
	r.httpAdmin("/channel/create?topic=" + t + "&channel=clsch")
	dialC := func(name string, rdy string) *Conn {
		cn, err := dial(r.nd.TCP, r.newConnName(name))
		if err != nil {
			return nil
		}
		if _, err := cn.identify(map[string]interface{}{"output_buffer_timeout": 25}); err != nil {
			cn.close()
			return nil
		}
		if err := cn.sub(t, "clsch"); err != nil {
			cn.close()
			return nil
		}
		cn.cmd("RDY", "", rdy)
		return cn
	}
	a := dialC("clsa", "2")
	if a == nil {
		r.inconclusive("cls step: connect")
		return
	}
	defer a.close()
	var keys []string
	for i := 0; i < 2; i++ {
		key := fmt.Sprintf("p96-%05d", i)
		body := []byte(key + "|held over CLS")
		rec := r.record(key, t, body, 0, "HTTP")
		hlib.Emit("HPub", "key", key, "via", "HTTP", "t", t, "defer", 0, "now", time.Now().UnixNano())
		if st, _, err := r.nd.post("/pub?topic="+t, body); err == nil && st == 200 {
			r.markAcked([]*pubRec{rec})
		}
		keys = append(keys, key)
	}
	held := map[string]string{} // id -> key
	deadline := time.Now().Add(5 * time.Second)
	for len(held) < 2 && time.Now().Before(deadline) {
		f, ok := a.next(50 * time.Millisecond)
		if ok && f.Type == 2 && strings.HasPrefix(keyOf(f.Body), "p96-") {
			held[f.ID] = keyOf(f.Body)
		}
	}
	if len(held) < 2 {
		for id := range held {
			a.cmd("FIN", id, "")
		}
		return // other consumers of the scenario do not exist on this channel; nothing to judge
	}
	b := dialC("clsb", "2")
	if b == nil {
		r.inconclusive("cls step: connect")
		return
	}
	defer b.close()
	if _, err := b.barrier(10 * time.Second); err != nil {
		r.inconclusive("cls step barrier: %v", err)
		return
	}
	a.cmd("CLS", "", "")
	if _, err := a.barrier(10 * time.Second); err != nil {
		r.inconclusive("cls step barrier: %v", err)
		return
	}
	// what the daemon did with the held messages in the meantime is judged from its own events (NsqdAbs!AKCmd: a command
	// moves only the message it names; AIFPop: only the holder or its expired timeout takes a message out of flight)
	end := time.Now().Add(r.sc.MsgTimeout / 2)
	for time.Now().Before(end) {
		f, ok := b.next(20 * time.Millisecond)
		if ok && f.Type == 2 {
			b.cmd("FIN", f.ID, "")
		}
	}
	for id := range held {
		a.cmd("FIN", id, "")
	}
	a.barrier(10 * time.Second)
}

// bigFrameStep: one message that fills its consumer's RDY count, larger than the connection's output buffer and hard to
// compress, on whatever the scenario negotiates (plain, TLS, snappy, deflate; output buffer sizes / timeouts): what nsqd
// has written for a ready consumer reaches it within the output-buffer timeout -- here: within the lateness bound --,
// not at the next heartbeat (C03: "... may still arrive (within the output-buffer timeout)").
func (r *Run) bigFrameStep() {
	t := r.sc.Topics[0]
	r.httpAdmin("/topic/unpause?topic=" + t) // the phases before may have left it paused
	r.httpAdmin("/channel/create?topic=" + t + "&channel=bigch")
	c, err := r.newConsumer(t, "bigch", 0, 1)
	if err != nil {
		r.inconclusive("big frame consumer: %v", err)
		return
	}
	if _, err := c.cn.barrier(20 * time.Second); err != nil {
		r.inconclusive("big frame barrier: %v", err)
		return
	}
	// whatever the topic still had in its queue when the channel was created comes first: answered and out of the way
	for quiet := 0; quiet < 6; {
		if f, ok := c.cn.next(50 * time.Millisecond); ok && f.Type == 2 {
			c.cn.cmd("FIN", f.ID, "")
			quiet = 0
			continue
		}
		quiet++
		if st, _, err := r.nd.stats(""); err == nil {
			for _, ts := range st.Topics {
				if ts.Name == t && ts.Depth > 0 {
					quiet = 0
				}
			}
		}
		if c.cn.isClosed() {
			return
		}
	}
	for i := 0; i < 3; i++ {
		size := []int{40000, 70000, 33000}[i]
		if size > r.maxMsgSize()-100 {
			size = r.maxMsgSize() - 100
		}
		key := fmt.Sprintf("p95-%05d", i)
		body := make([]byte, size)
		r.rng.Read(body)
		copy(body, []byte(key+"|"))
		rec := r.record(key, t, body, 0, "HTTP")
		hlib.Emit("HPub", "key", key, "via", "HTTP", "t", t, "defer", 0, "now", time.Now().UnixNano())
		t0 := time.Now()
		if st, _, err := r.nd.post("/pub?topic="+t, body); err != nil || st != 200 {
			return
		}
		r.markAcked([]*pubRec{rec})
		bound := time.Second
		if l0 := time.Duration(25 * atomic.LoadInt64(&maxOversleep)); l0 > bound {
			bound = l0
		}
		var got *Frame
		deadline := time.Now().Add(bound + 5*time.Second)
		for time.Now().Before(deadline) && got == nil {
			f, ok := c.cn.next(50 * time.Millisecond)
			if ok && f.Type == 2 && keyOf(f.Body) == key {
				got = &f
			} else if ok && f.Type == 2 {
				// something the topic still had in its queue when this channel was created: answered, so that RDY 1 is free again
				c.cn.cmd("FIN", f.ID, "")
			}
			if c.cn.isClosed() {
				break
			}
		}
		if got == nil {
			r.failf("[C03] a %d-byte message published for an idle consumer with RDY 1 had not arrived %s later (its frame was written; the connection was not flushed)", size, bound+5*time.Second)
			return
		}
		if late := time.Since(t0); late > bound {
			r.failf("[C03] a %d-byte message published for an idle consumer with RDY 1 arrived %s after the publish was acknowledged (bound %s): its frame sat in the connection's output path well beyond the output-buffer timeout", size, late, bound)
		}
		c.held[got.ID] = time.Now()
		c.cn.cmd("FIN", got.ID, "")
		delete(c.held, got.ID)
		if _, err := c.cn.barrier(20 * time.Second); err != nil {
			return
		}
	}
}
