------------------------------- MODULE Admin -------------------------------
(***************************************************************************)
(* C17 -- nsqadmin: state-changing actions require an admin identity.      *)
(*                                                                         *)
(* One nsqadmin in front of a fixed small cluster (2 nsqlookupd, 3 nsqd).  *)
(* A request is processed the way nsqadmin/http.go does it, one action per *)
(* branch of the handlers:                                                 *)
(*   Receive -> Route -> (Gate -> Decode -> Discover -> Post)              *)
(*                     | (Cidr -> ConfigApply)  | Serve      -> Done       *)
(* `ups` collects every request nsqadmin makes to an upstream daemon while *)
(* it handles the current request.  The property is stated over the        *)
(* finished request (pc = "done") with definitions that do not look at the *)
(* handler steps: HasAdminIdentity, RelevantPosts, InCidr.                 *)
(*                                                                         *)
(* The model is also the generator of the gate table (binding A): every    *)
(* "done" state is one row  cfg x lk x request -> status, upstream set.    *)
(***************************************************************************)
EXTENDS Naturals, Sequences, FiniteSets, TLC, Json

CONSTANTS
  AdminLists,      \* set of admin lists, e.g. {{}, {"alice"}, {"alice","bob"}}
  Headers,         \* configured ACL header names (canonical spelling)
  Vals,            \* identity values put on the wire
  Cidrs,           \* allowed-CIDR settings for the /config family ("" = no gate)
  Srcs,            \* client source addresses for the /config family
  Deep             \* BOOLEAN: thorough tier adds request shapes

----------------------------------------------------------------------------
(* The cluster the stubs play (static: stubs answer, they do not change).  *)
Lookupds == {"L1", "L2"}
Nsqds    == {"N1", "N2", "N3"}
DeadNode == "DEAD"            \* an address nobody listens on

Produces == [n \in Nsqds |->
               CASE n = "N1" -> {"t1"} [] n = "N2" -> {"t1", "t2"} [] n = "N3" -> {"t3"}]
\* topic registrations each lookupd has, and the producers it reports per topic;
\* L1 lags behind L2; N3 registered nowhere.
Registered == [l \in Lookupds |-> IF l = "L1" THEN {"t1"} ELSE {"t1", "t2"}]
KnownProd(l, t) ==
  CASE l = "L1" /\ t = "t1" -> {"N1"}
    [] l = "L2" /\ t = "t1" -> {"N1", "N2"}
    [] l = "L2" /\ t = "t2" -> {"N2"}
    [] OTHER -> {}

----------------------------------------------------------------------------
(* HTTP details the property depends on.                                   *)
\* header names are case-insensitive: spelling on the wire -> canonical
HCanon(h) == IF h = "x-verif-acl" THEN "X-Verif-Acl" ELSE h
\* optional whitespace around a field value is not part of the value (RFC 7230 3.2.4)
Wire(v) == IF v = " alice " THEN "alice" ELSE v

ValidName(s) == s \notin {"", "in valid"}      \* protocol.IsValidTopicName classes used here

\* addresses as octet tuples; v4-mapped v6 is v4
Octets(a) ==
  CASE a = "127.0.0.1"   -> <<127, 0, 0, 1>>
    [] a = "127.0.0.2"   -> <<127, 0, 0, 2>>
    [] a = "127.200.1.9" -> <<127, 200, 1, 9>>
    [] a = "192.0.2.2"   -> <<192, 0, 2, 2>>
    [] a = "10.1.2.3"    -> <<10, 1, 2, 3>>
    [] a = "::ffff:127.0.0.1" -> <<127, 0, 0, 1>>
    [] a = "::1"         -> <<0,0,0,0, 0,0,0,0, 0,0,0,0, 0,0,0,1>>
    [] a = "fd00::2"     -> <<253,0,0,0, 0,0,0,0, 0,0,0,0, 0,0,0,2>>
    [] OTHER             -> <<>>                 \* not an address ("noport")
CidrNet(c) ==
  CASE c = "127.0.0.1/8"  -> [ip |-> <<127, 0, 0, 0>>, bits |-> 8]
    [] c = "127.0.0.1/32" -> [ip |-> <<127, 0, 0, 1>>, bits |-> 32]
    [] c = "10.0.0.0/8"   -> [ip |-> <<10, 0, 0, 0>>, bits |-> 8]
    [] c = "192.0.2.0/30" -> [ip |-> <<192, 0, 2, 0>>, bits |-> 30]
    [] c = "0.0.0.0/0"    -> [ip |-> <<0, 0, 0, 0>>, bits |-> 0]
    [] c = "::1/128"      -> [ip |-> <<0,0,0,0, 0,0,0,0, 0,0,0,0, 0,0,0,1>>, bits |-> 128]
    [] c = "fd00::/8"     -> [ip |-> <<253,0,0,0, 0,0,0,0, 0,0,0,0, 0,0,0,0>>, bits |-> 8]
Pow2(k) == CASE k = 0 -> 1 [] k = 1 -> 2 [] k = 2 -> 4 [] k = 3 -> 8 [] k = 4 -> 16
             [] k = 5 -> 32 [] k = 6 -> 64 [] k = 7 -> 128 [] k = 8 -> 256
\* number of leading bits of octet i covered by a prefix of `bits` bits
Covered(bits, i) == LET lo == 8 * (i - 1) IN
                    IF bits <= lo THEN 0 ELSE IF bits >= lo + 8 THEN 8 ELSE bits - lo
InCidr(c, a) ==
  LET n == CidrNet(c)  o == Octets(a) IN
  /\ Len(o) = Len(n.ip)
  /\ \A i \in 1..Len(o) :
        LET k == Covered(n.bits, i) IN (o[i] \div Pow2(8 - k)) = (n.ip[i] \div Pow2(8 - k))

----------------------------------------------------------------------------
(* Requests.  One record shape for all families; unused fields are "".     *)
Req(route, method, hname, hval, topic, channel, action, body, node, opt, src, put) ==
  [route |-> route, method |-> method, hname |-> hname, hval |-> hval, topic |-> topic,
   channel |-> channel, action |-> action, body |-> body, node |-> node, opt |-> opt,
   src |-> src, put |-> put]

Idents == {<<"none", "">>} \cup (Headers \X Vals) \cup ({"x-verif-acl"} \X {"alice", "mallory"})

ReqTopics == IF Deep THEN {"t1", "t2", "t3", "t9"} ELSE {"t1", "t2", "t3"}
Actions   == {"pause", "unpause", "empty"}

\* route, method, and the arguments that make sense for it (without identity)
MutShapes ==
     {<<"topics", "POST", t, c, "", "ok", "">> : t \in ReqTopics \cup {"in valid"}, c \in {"", "c1"}}
\cup {<<"topics", "POST", "t1", "in valid", "", "ok", "">>, <<"topics", "POST", "t1", "c1", "", "badjson", "">>}
\cup {<<"topic", "POST", t, "", a, "ok", "">> : t \in ReqTopics, a \in Actions}
\cup {<<"topic", "POST", "t1", "", "bogus", "ok", "">>, <<"topic", "POST", "t1", "", "pause", "badjson", "">>}
\cup {<<"channel", "POST", t, "c1", a, "ok", "">> : t \in ReqTopics, a \in Actions}
\cup {<<"channel", "POST", "t1", "c1", "bogus", "ok", "">>, <<"channel", "POST", "t1", "c1", "empty", "badjson", "">>}
\cup {<<"topic", "DELETE", t, "", "", "", "">> : t \in ReqTopics}
\cup {<<"channel", "DELETE", t, "c1", "", "", "">> : t \in ReqTopics}
\cup {<<"node", "DELETE", t, "", "", "ok", n>> : t \in {"t1", "t2"}, n \in {"N1", "N2", DeadNode}}
\cup {<<"node", "DELETE", "in valid", "", "", "ok", "N1">>, <<"node", "DELETE", "t1", "", "", "badjson", "N1">>}

\* registered read-only routes, and everything else that must answer 404/405 without side effects
ReadShapes ==
  {<<"topics", "GET", "", "", "", "", "">>, <<"topic", "GET", "t1", "", "", "", "">>,
   <<"channel", "GET", "t1", "c1", "", "", "">>, <<"nodes", "GET", "", "", "", "", "">>,
   <<"node", "GET", "", "", "", "", "N1">>, <<"counter", "GET", "", "", "", "", "">>,
   <<"ping", "GET", "", "", "", "", "">>, <<"index", "GET", "", "", "", "", "">>}
Registered405 ==     \* registered paths with a method that is not registered for them
  {<<"topics", "PUT", "t1", "", "", "ok", "">>, <<"topics", "DELETE", "t1", "", "", "ok", "">>,
   <<"topic", "PUT", "t1", "", "pause", "ok", "">>, <<"channel", "PUT", "t1", "c1", "pause", "ok", "">>,
   <<"nodes", "POST", "t1", "", "", "ok", "">>, <<"nodes", "DELETE", "t1", "", "", "ok", "">>,
   <<"node", "POST", "t1", "", "", "ok", "N1">>, <<"node", "PUT", "t1", "", "", "ok", "N1">>,
   <<"counter", "POST", "", "", "", "ok", "">>, <<"counter", "DELETE", "", "", "", "", "">>,
   <<"ping", "POST", "", "", "", "ok", "">>}
Unrouted == {<<"bogus", m, "t1", "", "pause", "ok", "">> : m \in {"GET", "POST", "DELETE"}}

ApiShapes == MutShapes \cup ReadShapes \cup Registered405 \cup Unrouted
ApiRequests ==
  {Req(s[1], s[2], i[1], i[2], s[3], s[4], s[5], s[6], s[7], "", "", "") : s \in ApiShapes, i \in Idents}

\* /config family: values a PUT can carry
Puts(opt) == CASE opt = "nsqlookupd_http_addresses" -> {"L1", "L1L2", "none", "badjson", "empty"}
               [] opt = "log_level" -> {"debug", "nope", "empty"}
               [] OTHER -> {"debug"}
ConfigIdents == {<<"none", "">>} \cup {<<h, v>> \in Headers \X Vals : v \in {"alice", "mallory"}}
ConfigRequests ==
     {Req("config", "GET", i[1], i[2], "", "", "", "", "", o, s, "") :
        o \in {"nsqlookupd_http_addresses", "log_level", "bogus_opt"}, s \in Srcs, i \in ConfigIdents}
\cup UNION {{Req("config", "PUT", i[1], i[2], "", "", "", "", "", o, s, p) : s \in Srcs, i \in ConfigIdents, p \in Puts(o)} :
               o \in {"nsqlookupd_http_addresses", "log_level", "bogus_opt"}}
\cup {Req("config", m, "none", "", "", "", "", "", "", "log_level", s, "debug") : m \in {"POST", "DELETE"}, s \in Srcs}

----------------------------------------------------------------------------
(* Configurations.  fam = "gate": the identity gate, /config not exercised; *)
(* fam = "config": the CIDR gate.  bad = an upstream that answers 500 to    *)
(* every POST (the action must still reach all the others).                 *)
Cfg(fam, admins, header, mode, cidr, bad, lk0) ==
  [fam |-> fam, admins |-> admins, header |-> header, mode |-> mode, cidr |-> cidr, bad |-> bad, lk0 |-> lk0]
GateCfgs ==
     {Cfg("gate", a, h, "lookupd", "127.0.0.1/8", "none", lk) :
        a \in AdminLists, h \in Headers, lk \in {{"L1", "L2"}, {"L1"}}}
\cup {Cfg("gate", a, h, "direct", "127.0.0.1/8", "none", {}) : a \in AdminLists, h \in Headers}
\cup {Cfg("gate", {"alice"}, "X-Forwarded-User", "lookupd", "127.0.0.1/8", b, {"L1", "L2"}) : b \in {"L1", "N1"}}
\cup {Cfg("gate", {"alice"}, "X-Forwarded-User", "direct", "127.0.0.1/8", "N1", {})}
\* a lookupd-mode nsqadmin whose lookupd list was emptied through /config: nothing left to ask
\cup {Cfg("gate", {"alice"}, "X-Forwarded-User", "lookupd", "127.0.0.1/8", "none", {})}
ConfigCfgs ==
  {Cfg("config", a, "X-Forwarded-User", "lookupd", c, "none", {"L1", "L2"}) : a \in {{}, {"alice"}}, c \in Cidrs}
Cfgs == GateCfgs \cup ConfigCfgs

----------------------------------------------------------------------------
VARIABLES cfg, lk, lkPre, req, pc, ups, status, warn, prods
vars == <<cfg, lk, lkPre, req, pc, ups, status, warn, prods>>

NoReq == Req("", "", "", "", "", "", "", "", "", "", "", "")
NsqdList == IF cfg.mode = "direct" THEN Nsqds ELSE {}

Up(to, m, path, topic, channel, node) ==
  [to |-> to, m |-> m, path |-> path, topic |-> topic, channel |-> channel, node |-> node]
IsPost(u) == u.m = "POST"

(* ---- property-level definitions (no reference to handler steps) ------- *)
IsMutating(r) ==
  \/ r.route = "topics" /\ r.method = "POST"
  \/ r.route \in {"topic", "channel"} /\ r.method \in {"POST", "DELETE"}
  \/ r.route = "node" /\ r.method = "DELETE"
IsReadOnly(r) == r.method = "GET" /\ r.route \in {"topics", "topic", "channel", "nodes", "node", "counter", "ping", "index"}
IsConfig(r)   == r.route = "config" /\ r.method \in {"GET", "PUT"}

User(c, r) == IF HCanon(r.hname) = c.header THEN Wire(r.hval) ELSE ""
HasAdminIdentity(c, r) == c.admins = {} \/ User(c, r) \in c.admins

WellFormed(r) ==
  /\ r.body \in {"", "ok"}
  /\ r.route = "topics" => ValidName(r.topic) /\ (r.channel = "" \/ ValidName(r.channel))
  /\ (r.route \in {"topic", "channel"} /\ r.method = "POST") => r.action \in Actions
  /\ r.route = "node" => ValidName(r.topic)

\* the nsqd that produce topic t as far as the daemons nsqadmin is configured with can tell
RelevantNsqds(t) ==
  IF lk # {} THEN UNION {KnownProd(l, t) : l \in lk} ELSE {n \in NsqdList : t \in Produces[n]}
Verb(r) ==
  CASE r.route = "topic"   /\ r.method = "POST"   -> "/topic/" \o r.action
    [] r.route = "channel" /\ r.method = "POST"   -> "/channel/" \o r.action
    [] r.route = "topic"   /\ r.method = "DELETE" -> "/topic/delete"
    [] r.route = "channel" /\ r.method = "DELETE" -> "/channel/delete"
    [] OTHER -> ""
\* what "carried out on every relevant nsqd and nsqlookupd" means per action
RelevantPosts(r) ==
  CASE r.route = "topics" ->
         {Up(l, "POST", "/topic/create", r.topic, "", "") : l \in lk}
         \cup (IF r.channel = "" THEN {} ELSE
                 {Up(l, "POST", "/channel/create", r.topic, r.channel, "") : l \in lk}
                 \cup {Up(n, "POST", "/channel/create", r.topic, r.channel, "") : n \in RelevantNsqds(r.topic)})
    [] r.route \in {"topic", "channel"} /\ r.method = "DELETE" ->
         {Up(l, "POST", Verb(r), r.topic, r.channel, "") : l \in lk}
         \cup {Up(n, "POST", Verb(r), r.topic, r.channel, "") : n \in RelevantNsqds(r.topic)}
    [] r.route \in {"topic", "channel"} /\ r.method = "POST" ->
         {Up(n, "POST", Verb(r), r.topic, r.channel, "") : n \in RelevantNsqds(r.topic)}
    [] r.route = "node" ->
         {Up(l, "POST", "/topic/tombstone", r.topic, "", r.node) : l \in lk}
         \cup (IF r.node = DeadNode THEN {} ELSE {Up(r.node, "POST", "/topic/delete", r.topic, "", "")})
    [] OTHER -> {}

ConfigAllowed(c, r) == c.cidr = "" \/ InCidr(c.cidr, r.src)

(* ---- handler steps ----------------------------------------------------- *)
Init ==
  /\ cfg \in Cfgs
  /\ lk = cfg.lk0 /\ lkPre = cfg.lk0
  /\ req = NoReq /\ pc = "idle" /\ ups = {} /\ status = 0 /\ warn = FALSE /\ prods = {}

Finish(s, w) == pc' = "done" /\ status' = s /\ warn' = w

Receive ==
  /\ pc = "idle"
  /\ req' \in IF cfg.fam = "gate" THEN ApiRequests ELSE ConfigRequests
  /\ pc' = "route" /\ ups' = {} /\ status' = 0 /\ warn' = FALSE /\ prods' = {}
  /\ lkPre' = lk
  /\ UNCHANGED <<cfg, lk>>

Route ==
  /\ pc = "route"
  /\ UNCHANGED <<cfg, lk, lkPre, req, ups, prods>>
  /\ IF req.route = "bogus" THEN Finish(404, FALSE)
     ELSE IF IsMutating(req) THEN pc' = "gate" /\ UNCHANGED <<status, warn>>
     ELSE IF IsReadOnly(req) THEN pc' = "serve" /\ UNCHANGED <<status, warn>>
     ELSE IF IsConfig(req) THEN pc' = "cidr" /\ UNCHANGED <<status, warn>>
     ELSE Finish(405, FALSE)

\* isAuthorizedAdminRequest at the top of every mutating handler
Gate ==
  /\ pc = "gate"
  /\ UNCHANGED <<cfg, lk, lkPre, req, ups, prods>>
  /\ LET user == IF HCanon(req.hname) = cfg.header THEN Wire(req.hval) ELSE "" IN
     IF Cardinality(cfg.admins) = 0 \/ \E v \in cfg.admins : v = user
     THEN pc' = "decode" /\ UNCHANGED <<status, warn>>
     ELSE Finish(403, FALSE)

Decode ==
  /\ pc = "decode"
  /\ UNCHANGED <<cfg, lk, lkPre, req, ups, prods>>
  /\ IF req.body = "badjson" THEN Finish(400, FALSE)
     ELSE IF req.route \in {"topics", "node"} /\ ~ValidName(req.topic) THEN Finish(400, FALSE)
     ELSE IF req.route = "topics" /\ req.channel # "" /\ ~ValidName(req.channel) THEN Finish(400, FALSE)
     ELSE IF req.route \in {"topic", "channel"} /\ req.method = "POST" /\ req.action \notin Actions
          THEN Finish(400, FALSE)
     ELSE pc' = "discover" /\ UNCHANGED <<status, warn>>

\* an upstream that answers 500 to POSTs turns the answer into "200 with a warning"
BadHit(posts) == \E u \in posts : u.to = cfg.bad

\* GetTopicProducers / GetLookupdTopicProducers / GetNSQDProducers, with the reads they cost
LookupGets(t) == {Up(l, "GET", "/lookup", t, "", "") : l \in lk}
DirectGets(t) == {Up(n, "GET", "/stats", t, "", "") : n \in NsqdList}
                 \cup {Up(n, "GET", "/info", "", "", "") : n \in {m \in NsqdList : t \in Produces[m]}}
LookupOk(t)   == {l \in lk : t \in Registered[l]}

Discover ==
  /\ pc = "discover"
  /\ UNCHANGED <<cfg, lk, lkPre, req>>
  /\ LET t == req.topic IN
     CASE req.route = "topics" ->
            \* lookupd POSTs come first, then (with a channel) the producer lookup on the lookupds only
            LET pl == {Up(l, "POST", "/topic/create", t, "", "") : l \in lk}
                      \cup (IF req.channel = "" THEN {} ELSE
                              {Up(l, "POST", "/channel/create", t, req.channel, "") : l \in lk}) IN
            IF req.channel = "" THEN
              /\ ups' = pl /\ prods' = {} /\ Finish(200, BadHit(pl))
            ELSE IF LookupOk(t) = {} THEN
              /\ ups' = pl \cup LookupGets(t) /\ prods' = {} /\ Finish(502, FALSE)
            ELSE
              /\ ups' = pl \cup LookupGets(t)
              /\ prods' = UNION {KnownProd(l, t) : l \in LookupOk(t)}
              /\ pc' = "post" /\ status' = 0 /\ warn' = (LookupOk(t) # lk \/ BadHit(pl))
       [] req.route \in {"topic", "channel"} ->
            IF lk # {} THEN
              IF LookupOk(t) = {} THEN ups' = LookupGets(t) /\ prods' = {} /\ Finish(502, FALSE)
              ELSE /\ ups' = LookupGets(t) /\ prods' = UNION {KnownProd(l, t) : l \in LookupOk(t)}
                   /\ pc' = "post" /\ status' = 0 /\ warn' = (LookupOk(t) # lk)
            ELSE IF NsqdList = {} THEN ups' = {} /\ prods' = {} /\ Finish(502, FALSE)
            ELSE /\ ups' = DirectGets(t) /\ prods' = {n \in NsqdList : t \in Produces[n]}
                 /\ pc' = "post" /\ status' = 0 /\ warn' = FALSE
       [] req.route = "node" ->
            LET pl == {Up(l, "POST", "/topic/tombstone", t, "", req.node) : l \in lk} IN
            IF req.node = DeadNode
            THEN ups' = pl \cup {Up(DeadNode, "GET", "/info", "", "", "")} /\ prods' = {} /\ Finish(502, FALSE)
            ELSE /\ ups' = pl \cup {Up(req.node, "GET", "/info", "", "", ""), Up(req.node, "GET", "/stats", "", "", "")}
                 /\ prods' = {req.node}
                 /\ pc' = "post" /\ status' = 0 /\ warn' = BadHit(pl)

\* nsqlookupdPOST / producersPOST: one POST per target, errors collected, never stop early
Post ==
  /\ pc = "post"
  /\ UNCHANGED <<cfg, lk, lkPre, req, prods>>
  /\ LET t == req.topic
         posts ==
           CASE req.route = "topics" -> {Up(n, "POST", "/channel/create", t, req.channel, "") : n \in prods}
             [] req.route = "node"   -> {Up(n, "POST", "/topic/delete", t, "", "") : n \in prods}
             [] req.method = "DELETE" ->
                  {Up(l, "POST", Verb(req), t, req.channel, "") : l \in lk}
                  \cup {Up(n, "POST", Verb(req), t, req.channel, "") : n \in prods}
             [] OTHER -> {Up(n, "POST", Verb(req), t, req.channel, "") : n \in prods}
     IN /\ ups' = ups \cup posts
        /\ Finish(200, warn \/ BadHit(posts))

\* read-only views: served whatever the identity; what they fetch is C18's business
Serve ==
  /\ pc = "serve"
  /\ UNCHANGED <<cfg, lk, lkPre, req, ups, prods>>
  /\ Finish(IF lk = {} /\ NsqdList = {} /\ req.route \notin {"ping", "index"} THEN 502 ELSE 200, FALSE)

\* doConfig: CIDR test first, then PUT validation/apply, then read-back
Cidr ==
  /\ pc = "cidr"
  /\ UNCHANGED <<cfg, lk, lkPre, req, ups, prods>>
  /\ IF cfg.cidr = "" THEN pc' = "apply" /\ UNCHANGED <<status, warn>>
     ELSE IF Octets(req.src) = <<>> THEN Finish(400, FALSE)
     ELSE IF InCidr(cfg.cidr, req.src) THEN pc' = "apply" /\ UNCHANGED <<status, warn>>
     ELSE Finish(403, FALSE)

NewLk(p) == CASE p = "L1" -> {"L1"} [] p = "L1L2" -> {"L1", "L2"} [] p = "none" -> {}

ConfigApply ==
  /\ pc = "apply"
  /\ UNCHANGED <<cfg, lkPre, req, ups, prods>>
  /\ IF req.method = "GET" THEN
       /\ UNCHANGED lk
       /\ Finish(IF req.opt = "bogus_opt" THEN 400 ELSE 200, FALSE)
     ELSE IF req.put = "empty" THEN UNCHANGED lk /\ Finish(413, FALSE)
     ELSE IF req.opt = "nsqlookupd_http_addresses" THEN
       IF req.put = "badjson" THEN UNCHANGED lk /\ Finish(400, FALSE)
       ELSE lk' = NewLk(req.put) /\ Finish(200, FALSE)
     ELSE IF req.opt = "log_level" THEN
       UNCHANGED lk /\ Finish(IF req.put = "debug" THEN 200 ELSE 400, FALSE)
     ELSE UNCHANGED lk /\ Finish(400, FALSE)

Done ==
  /\ pc = "done"
  /\ pc' = "idle" /\ req' = NoReq /\ ups' = {} /\ status' = 0 /\ warn' = FALSE /\ prods' = {}
  /\ UNCHANGED <<cfg, lk, lkPre>>

Next == Receive \/ Route \/ Gate \/ Decode \/ Discover \/ Post \/ Serve \/ Cidr \/ ConfigApply \/ Done
Spec == Init /\ [][Next]_vars /\ WF_vars(Route \/ Gate \/ Decode \/ Discover \/ Post \/ Serve \/ Cidr \/ ConfigApply)

----------------------------------------------------------------------------
(* The property (C17), over finished requests.                             *)
TypeOK ==
  /\ cfg \in Cfgs /\ lk \subseteq Lookupds
  /\ pc \in {"idle", "route", "gate", "decode", "discover", "post", "serve", "cidr", "apply", "done"}
  /\ status \in {0, 200, 400, 403, 404, 405, 413, 502}

Finished == pc = "done"

\* a 403 means nothing at all was sent upstream
ForbiddenMeansSilent == Finished /\ status = 403 => ups = {}
\* no admin identity => 403 and silence, for every mutating route
NonAdminRefused ==
  Finished /\ IsMutating(req) /\ ~HasAdminIdentity(cfg, req) => status = 403 /\ ups = {}
\* nothing but a mutating route with an admin identity (or no admin list) ever POSTs upstream
OnlyAdminsMutate ==
  (\E u \in ups : IsPost(u)) => IsMutating(req) /\ HasAdminIdentity(cfg, req)
\* with an admin identity the action reaches every relevant daemon
ForwardReachesAllRelevant ==
  Finished /\ IsMutating(req) /\ HasAdminIdentity(cfg, req) /\ WellFormed(req) /\ status = 200
    => RelevantPosts(req) \subseteq ups
\* ... and an admin is never refused
AdminNeverForbidden == Finished /\ IsMutating(req) /\ HasAdminIdentity(cfg, req) => status # 403
\* read-only views stay available, whatever the identity
ReadOnlyAlwaysServed ==
  Finished /\ IsReadOnly(req) => /\ status # 403 /\ ~\E u \in ups : IsPost(u)
                                 /\ (lk # {} \/ NsqdList # {}) => status = 200
\* /config is reachable exactly from the allowed CIDR (malformed peer address: 400)
ConfigGate ==
  Finished /\ IsConfig(req) /\ Octets(req.src) # <<>> =>
     (status = 403 <=> ~ConfigAllowed(cfg, req))
\* the configuration changes only through an allowed PUT
ConfigChangesOnlyWhenAllowed ==
  [][lk' # lk => IsConfig(req) /\ req.method = "PUT" /\ ConfigAllowed(cfg, req) /\ status' = 200]_vars
\* the gate is total: every request gets exactly one answer
GateTotal == (pc = "route") ~> (pc = "done")

----------------------------------------------------------------------------
(* Binding A: one printed row per finished request.                        *)
ASSUME PrintT(<<"CLUSTER", ToJson([produces |-> Produces, registered |-> Registered,
                                   known |-> [l \in Lookupds |-> [t \in {"t1", "t2", "t3"} |-> KnownProd(l, t)]]])>>)
RowOut ==
  Finished =>
    PrintT(<<"ROW", ToJson([cfg |-> cfg, lk |-> lkPre, lkPost |-> lk, req |-> req, status |-> status, warn |-> warn,
                            ups |-> ups, admin |-> HasAdminIdentity(cfg, req), mut |-> IsMutating(req),
                            relevant |-> IF IsMutating(req) /\ WellFormed(req) THEN RelevantPosts(req) ELSE {}])>>)
=============================================================================
