SPECIFICATION Spec
CONSTANTS
  Topics = {"t1"}
  Chans = {"c1"}
  PersistAfterDelete = TRUE
  MaxKills = 1
  MaxOps = 4
INVARIANTS RestartSetWasVisited LoadedWasVisited IdleFileEqualsLive AckedPausePersisted
CHECK_DEADLOCK FALSE
