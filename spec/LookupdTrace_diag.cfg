SPECIFICATION TraceSpec
CONSTANTS
  Producers = {"p1", "p2", "p3"}
  Topics = {"t1", "t2#ephemeral"}
  Channels = {"c1", "c2#ephemeral"}
  EphTopics = {"t2#ephemeral"}
  EphChannels = {"c2#ephemeral"}
  SharedNode = {}
  InactiveK = 1000
  TombK = 1000
  MaxNow = 0
  Pollers = {"q1", "q2", "q3"}
  Admins = {"a1", "a2"}
  AllowLoss = TRUE
CONSTRAINT HW
INVARIANTS TypeOK ProdsOnlyUnderKeys TombOnlyForProds NoLostRegistration
PROPERTIES GoneAtOnce
POSTCONDITION TraceAccepted
CHECK_DEADLOCK FALSE
