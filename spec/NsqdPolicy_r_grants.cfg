\* replay family grants (quick): AUTH answered with each of the 77 answers, then each gated command
SPECIFICATION Spec
CONSTANTS
  Policies <- AuthPlain
  Cmds <- GrantCmds
  AnswersA <- FullAnswers
  AnswersR <- SmallAnswers
  Waits = {0}
  MaxDepth = 2
  MaxNow = 0
  HttpReqs <- NoHttp
INVARIANTS TypeOK PropertyLevel PlainHttpServed RefetchIffExpired QueryCountLaw CodeStricter NeverOnExpiry EmitBehaviour
CHECK_DEADLOCK FALSE
