SPECIFICATION Spec
CONSTANTS
  Lookupds = {"l1", "l2"}
  MaxOps = 7
  MaxFaults = 3
  K = 2
  ByName = TRUE
  SkipPingWhenBusy = FALSE
  KeyByIdentity = FALSE
INVARIANT Converges
INVARIANT Refreshed
CHECK_DEADLOCK FALSE
