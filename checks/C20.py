"""C20 -- relay tools forward every record exactly and acknowledge only on success
(specs: ToNsq, RelayAbs <= Relay, RelayTrace; harness: cmd/relay)."""
import json
import os
import random
import re
import shutil
from concurrent.futures import ThreadPoolExecutor

from vlib import Inconclusive, log

META = {
    "technique": "TLC exhaustive check of ToNsq.tla (implementation-shaped reader vs Records for every input of length <= 7 "
                 "over {x,y,delim}) and of Relay.tla refining RelayAbs.tla (FIN only after accept, REQ otherwise, at least "
                 "once; adversarial destination schedules, source timeouts, all modes); binding A: every TLC-enumerated "
                 "input fed to the real to_nsq binary publishing to real nsqds, plus generated inputs at 4096-byte reader "
                 "boundaries; binding B: the real nsq_to_nsq / nsq_to_http binaries run between a logging proxy in front of "
                 "a real source nsqd and fake destinations playing TLC-generated schedules, the recorded executions "
                 "validated by TLC against RelayTrace.tla",
    "design_ref": "5/C20",
}

KEY_LASTBYTE = "to_nsq:unterminated-final-record"
NWORK = max(4, min(16, (os.cpu_count() or 8)))


# ----------------------------------------------------------------------------- parsing TLC output
def _split(tokens, sep):
    parts, cur = [], []
    for x in tokens:
        if x == sep:
            parts.append(cur)
            cur = []
        else:
            cur.append(x)
    parts.append(cur)
    return parts


def _recs(p):
    out, c = [], ""
    for x in p:
        if x == "/":
            out.append(c)
            c = ""
        else:
            c += x
    return out


def parse_rows(r):
    """ROW lines of ToNsq_rows_*.cfg -> {input: (records, published by the implementation-shaped reader)}"""
    rows = {}
    for t in r.prints("ROW"):
        v = [x.strip('"') for x in t]
        parts = _split(v[1:], "|")
        if len(parts) != 3:
            raise Inconclusive("cannot parse ROW %r" % (t,))
        rows["".join(parts[0])] = (_recs(parts[1]), _recs(parts[2]))
    return rows


def parse_scheds(r, ndest):
    out = []
    for t in r.prints("SCHED"):
        v = [x.strip('"') for x in t]
        if int(v[0]) != ndest:
            raise Inconclusive("SCHED for %s destinations in a %d-destination config" % (v[0], ndest))
        parts = _split(v[1:], "|")[1:]
        if len(parts) != ndest:
            raise Inconclusive("cannot parse SCHED %r" % (t,))
        out.append(parts)
    return out


# ----------------------------------------------------------------------------- part 1: to_nsq
CONCS = [  # (x, y, delimiter) byte values; the first uses the tool's default delimiter
    (ord("x"), ord("y"), 10), (0, 255, ord(",")), (10, 13, 255), (ord(" "), ord("\t"), ord("a")),
    (ord(","), 10, ord(" ")), (254, 1, 13), (ord("x"), ord("x"), ord("|")),
    # the default delimiter again, with bytes next to it that line-oriented readers like to treat specially
    (ord("x"), 13, 10), (13, 0, 10),
]


def tonsq_cases(ctx, asis, fixed):
    rng = random.Random(ctx.seed)
    inputs = sorted(asis, key=lambda s: (len(s), s))
    cases = []

    def add(i, conc, nd, rate=0):
        rec, a = asis[i]
        cases.append({"in": i, "rec": rec, "asis": a, "fixed": fixed[i][1], "x": conc[0], "y": conc[1], "d": conc[2],
                      "ndest": nd, "rate": rate})
    if ctx.quick:
        for i in inputs:
            if len(i) <= 5:                                     # all 364 short inputs, default delimiter
                add(i, CONCS[0], 1 + (len(cases) % 2))
        longer = [i for i in inputs if len(i) > 5]
        for i in rng.sample(longer, 260):                       # seeded sample of the length-6/7 inputs
            add(i, CONCS[rng.randrange(len(CONCS))], 1 + rng.randrange(2))
        for i in rng.sample(inputs, 60):                        # other byte values / delimiters on short ones too
            add(i, CONCS[1 + rng.randrange(len(CONCS) - 1)], 1 + rng.randrange(2))
        for i in inputs:
            if 1 <= len(i) <= 4:                                # CR / NUL around the default delimiter
                add(i, CONCS[7 + len(cases) % 2], 1)
        nlong = 14
    else:
        for i in inputs:                                        # all 3280 inputs: default delimiter and another one
            add(i, CONCS[0], 1 + (len(cases) % 2))
            add(i, CONCS[1 + rng.randrange(len(CONCS) - 1)], 1 + rng.randrange(2))
            add(i, CONCS[7 + len(cases) % 2], 1)
        nlong = 60
    for i in rng.sample([i for i in inputs if 2 <= len(i) <= 5], 6):   # the throttled loop (--rate)
        add(i, CONCS[0], 1, rate=200)
    # ToNsq.tla PublishErr: a destination that accepts k PUBs and refuses the next; what it accepted must be the
    # first k records
    multi = [i for i in inputs if len(asis[i][0]) >= 2]
    for i in rng.sample(multi, 30 if ctx.quick else 200):
        add(i, CONCS[rng.randrange(len(CONCS))], 1)
        cases[-1]["fail_after"] = rng.randrange(0, len(asis[i][0]) + 1)
    return cases, nlong


def run_tonsq(ctx, cases, nlong, tag="tonsq", seed=None):
    job = os.path.join(ctx.scratch, tag + "-job.json")
    rep = os.path.join(ctx.scratch, tag + "-report.json")
    with open(job, "w") as f:
        json.dump({"bin": ctx.repo_bin("to_nsq"), "seed": ctx.seed if seed is None else seed, "workers": NWORK,
                   "cases": cases, "long": nlong}, f)
    rc, out, err = ctx.run_harness(["tonsq", "--job", job, "--report", rep], timeout=3000, name="relay")
    if rc != 0 or not os.path.exists(rep):
        raise Inconclusive("relay tonsq: rc=%s %s %s" % (rc, out[-1500:], err[-1500:]))
    return json.load(open(rep))


def judge_tonsq(ctx, R):
    ctx.cov["evaluations"] += R["runs"]
    ctx.cov["distinct_nontrivial"] += R["distinct_nontrivial"]
    ctx.notes["to_nsq_runs"] = R["runs"]
    ctx.notes["to_nsq_records_compared"] = R["records_compared"]
    ctx.notes["to_nsq_reader_shape_agreement"] = R["shape"]
    ctx.notes["to_nsq_mismatch_by_class"] = R["mismatch_by_class"]
    ctx.notes["to_nsq_runs_with_failing_destination"] = R.get("runs_with_failing_destination", 0)
    for n in (R.get("shape_notes") or [])[:5]:
        ctx.drift("to_nsq: " + n)
    for s in (R.get("samples") or [])[:3]:
        ctx.sample({"to_nsq_run": s})
    if R.get("inconclusive"):
        raise Inconclusive("to_nsq binding: " + "; ".join(R["inconclusive"][:5]))
    if R["shape"].get("neither", 0):
        ctx.drift("to_nsq: on %d enumerated inputs the binary publishes what neither modelled reader "
                  "(Trim=always / Trim=ifdelim) publishes" % R["shape"]["neither"])
    by = {}
    for m in R.get("mismatches") or []:
        by.setdefault(m["class"], []).append(m)
    for cls, n in sorted((R.get("mismatch_by_class") or {}).items()):
        ms = by.get(cls, [])
        ex = ms[0] if ms else {}
        what = ("to_nsq: %d of %d inputs were not forwarded as Records(input) [%s]; e.g. stdin (hex) %s with delimiter "
                "byte %s to %s destination(s): expected records %s, destination nsqd holds %s"
                % (n, R["runs"], cls, ex.get("input_hex"), ex.get("delim"), ex.get("ndest"), ex.get("expected_hex"),
                   ex.get("got_hex_dest1")))
        path = ctx.save_replay("tonsq-" + cls, {"kind": "tonsq", "class": cls, "count": n, "seed": ctx.seed, "mismatches": ms})
        ctx.sample({"to_nsq_mismatch": ex})
        ctx.violation(what, path, key=KEY_LASTBYTE if cls == "unterminated-final-record-loses-last-byte" else None)


# ----------------------------------------------------------------------------- part 2: nsq_to_nsq / nsq_to_http
MODES = ["round-robin", "hostpool", "epsilon-greedy"]
COMBOS = [("nsq_to_nsq", m, "") for m in MODES] + [("nsq_to_http", m, me) for m in MODES for me in ("post", "get")]


def relay_scenarios(ctx, s1, s2):
    rng = random.Random(ctx.seed * 7919 + 13)
    sc = []

    def add(tool, mode, method, ndest, sched, **kw):
        d = {"id": str(len(sc)), "tool": tool, "mode": mode, "method": method or "post", "ndest": ndest, "sched": sched,
             "nmsgs": kw.pop("nmsgs", rng.choice([1, 3, 4, 6])), "backoff": kw.pop("backoff", rng.random() < 0.4),
             "filter": "", "seed": ctx.seed * 100003 + len(sc)}
        d.update(kw)
        sc.append(d)
    pools = {1: [s for s in s1 if any(s)], 2: [s for s in s2 if any(s)]}
    if ctx.quick:
        per = 3
        for (tool, mode, method) in COMBOS:
            for nd in (1, 2):
                for s in rng.sample(pools[nd], per):
                    add(tool, mode, method, nd, s)
    else:
        k = 0
        for nd in (1, 2):
            for s in pools[nd]:
                for j in range(6):                      # every schedule under 6 of the 9 tool/mode/method combinations
                    tool, mode, method = COMBOS[(k + j * 3 + (j // 3)) % len(COMBOS)]
                    add(tool, mode, method, nd, s)
                k += 1
    # the empty schedule (destinations accept from the start), once per tool
    add("nsq_to_nsq", "hostpool", "", 2, [[], []], nmsgs=8)
    add("nsq_to_http", "round-robin", "get", 2, [[], []], nmsgs=8)
    # an acceptance that comes after the source's msg-timeout: late FIN of a message that was redelivered meanwhile
    for i in range(1 if ctx.quick else 4):
        add("nsq_to_nsq", MODES[i % 3], "", 1 + i % 2, [["A", "R"], ["R", "A"]][: 1 + i % 2], long_stall=True, nmsgs=3)
    # told to stop (SIGTERM) while a destination keeps a request waiting: nothing is finished that no destination has accepted
    for i in range(4 if ctx.quick else 18):
        tool, mode, method = COMBOS[(i * 2) % len(COMBOS)]
        add(tool, mode, method, 1 + i % 2, [["A", "A"], ["A"]][: 1 + i % 2], term_mid=True, nmsgs=4, backoff=False)
    # a filter / sampling was requested (validated against RelayAbs with Filter = TRUE)
    add("nsq_to_nsq", "hostpool", "", 1, [["R"]], filter="require", nmsgs=6)
    add("nsq_to_nsq", "round-robin", "", 1, [["R"]], filter="requirevalue", nmsgs=8)
    add("nsq_to_nsq", "round-robin", "", 2, [["R"], ["L"]], filter="whitelist", nmsgs=6)
    add("nsq_to_http", "hostpool", "post", 1, [["R", "A", "R"]], filter="sample", nmsgs=8)
    # probe (not judged): go-nsq's default max_attempts = 5
    add("nsq_to_nsq", "hostpool", "", 1, [["R"] * 7], defaults=True, nmsgs=1, backoff=False)
    return sc


def run_relay(ctx, scenarios, tag="relay"):
    job = os.path.join(ctx.scratch, tag + "-job.json")
    rep = os.path.join(ctx.scratch, tag + "-report.json")
    tr = os.path.join(ctx.scratch, tag + "-trace.ndjson")
    ftr = os.path.join(ctx.scratch, tag + "-ftrace.ndjson")
    strc = os.path.join(ctx.scratch, tag + "-strace.ndjson")
    with open(job, "w") as f:
        json.dump({"bins": {"nsq_to_nsq": ctx.repo_bin("nsq_to_nsq"), "nsq_to_http": ctx.repo_bin("nsq_to_http")},
                   "seed": ctx.seed, "workers": NWORK, "deadline_s": 120, "scenarios": scenarios}, f)
    rc, out, err = ctx.run_harness(["relay", "--job", job, "--report", rep, "--trace", tr, "--ftrace", ftr, "--strace", strc],
                                   timeout=3000, name="relay")
    if rc != 0 or not os.path.exists(rep):
        raise Inconclusive("relay relay: rc=%s %s %s" % (rc, out[-1500:], err[-1500:]))
    return json.load(open(rep)), tr, (ftr, strc)


def judge_relay(ctx, R, tr, ftr_strc):
    ftr, strc = ftr_strc
    ctx.cov["evaluations"] += R["scenarios"]
    ctx.cov["distinct_nontrivial"] += R["distinct_nontrivial"]
    ctx.notes["relay_scenarios"] = R["scenarios"]
    ctx.notes["relay_events"] = R["events"]
    ctx.notes["relay_probe_default_max_attempts"] = R.get("probe")
    pr = R.get("probe") or {}
    if pr.get("fin_without_accept"):
        # with the tools' default consumer configuration (go-nsq max_attempts = 5) a message refused 5 times is
        # FINished by the consumer library without ever having been accepted by a destination
        ctx.violation("nsq_to_nsq with its default configuration FINished a source message that no destination had accepted "
                      "(destination refused 7 times in a row; go-nsq gives up after max_attempts=5): " + str(pr.get("stderr_tail", ""))[-200:],
                      ctx.save_replay("relay-default-max-attempts", pr), key="relay:default-max-attempts-giveup")
    tot = {"delivered": 0, "fins": 0, "reqs": 0, "accepts": 0, "refusals": 0}
    quies = {}
    inconc = []
    for r in R["results"]:
        for k in tot:
            tot[k] += r.get(k, 0)
        quies[r["quiescence"]] = quies.get(r["quiescence"], 0) + 1
        sc = r["scenario"]
        label = "%s mode=%s %s ndest=%d schedule=%s" % (sc["tool"], sc["mode"], sc["method"] if sc["tool"] == "nsq_to_http"
                                                       else "", sc["ndest"], r.get("concrete_schedule"))
        for v in r.get("violations") or []:
            path = ctx.save_replay("relay-" + r["id"], {"kind": "relay", "scenario": sc, "violations": r["violations"],
                                                         "events": r.get("events"), "stderr": r.get("stderr_tail")})
            ctx.violation("%s: %s" % (label, v), path)
        for d in r.get("drift") or []:
            ctx.drift("%s: %s" % (label, d))
        if r.get("inconclusive") and not sc.get("defaults"):
            inconc.append("%s: %s" % (label, r["inconclusive"]))
    ctx.notes["relay_totals"] = tot
    ctx.notes["relay_quiescence"] = quies
    for s in (R.get("samples") or [])[:3]:
        ctx.sample({"relay_run": s})
    # the recorded executions against the property-level spec
    if R["traces"]:
        ctx.validate_trace("RelayTrace", "RelayTrace.cfg", tr, R["traces"], "relay", timeout=1800)
    if R["filter_traces"]:
        ctx.validate_trace("RelayTrace", "RelayTrace_filter.cfg", ftr, R["filter_traces"], "relay-filter", timeout=1800)
    # ... and against the implementation-shaped spec (a rejection there alone is model drift)
    if R.get("shape_traces"):
        ctx.validate_trace("RelayShapeTrace", "RelayShapeTrace.cfg", strc, R["shape_traces"], "relay-shape", timeout=1800,
                           level="shape")
    if inconc and not ctx.violations:
        raise Inconclusive("%d relay scenario(s) did not settle: %s" % (len(inconc), " || ".join(inconc[:3])))
    if inconc:
        ctx.notes["relay_unsettled"] = inconc[:10]


# ----------------------------------------------------------------------------- models
def tlc_models(ctx):
    """The exhaustive runs (independent of the real-code runs; overlapped with them)."""
    q = ctx.quick
    ctx.model_check("ToNsq", "ToNsq_mc.cfg", timeout=900, label="intended reader = Records, all inputs <= 7")
    lead = ctx.model_check("ToNsq", "ToNsq_asis.cfg", expect_ok=False, timeout=900, label="reader before the fix (lead)")
    ctx.notes["tonsq_model_lead"] = ("TLC: the reader variant Trim=always (last byte stripped unconditionally; the code before "
                                     "the fix) violates %s" % lead.violated) if not lead.ok else "TLC: Trim=always satisfies Records"
    m = re.search(r"input = (<<.*?>>)", lead.out)
    if m and not lead.ok:
        ctx.notes["tonsq_model_lead"] += " on input " + m.group(1)
    ctx.model_check("Relay", "Relay_mc.cfg", timeout=1800, label="safety+refinement async/hostpool")
    ctx.model_check("Relay", "Relay_live.cfg", timeout=1800, label="liveness sync/rr")
    ctx.model_check("Relay", "Relay_filter.cfg", timeout=1800, label="filter requested")
    g = ctx.model_check("Relay", "Relay_giveup.cfg", expect_ok=False, timeout=900, label="max_attempts > 0 (lead)")
    ctx.notes["relay_model_lead_max_attempts"] = (
        "TLC: with go-nsq max_attempts > 0 the model violates %s (consumer gives up: FIN without accept); the relays are "
        "therefore run with --consumer-opt max_attempts,0" % g.violated) if not g.ok else "no violation with max_attempts > 0"
    if not q:
        ctx.model_check("Relay", "Relay_connlost.cfg", timeout=3000, workers=8, label="thorough, ConnLost")
        base = open(os.path.join(ctx.specdir, "Relay_thorough.cfg")).read()
        for kind in ("async", "sync"):
            for mode in ("rr", "hostpool", "eps"):
                name = "Relay_thorough_%s_%s.cfg" % (kind, mode)
                txt = re.sub(r'Kind = "\w+"', 'Kind = "%s"' % kind, base)
                txt = re.sub(r'Mode = "\w+"', 'Mode = "%s"' % mode, txt)
                with open(os.path.join(ctx.specdir, name), "w") as f:
                    f.write(txt)
                ctx.model_check("Relay", name, timeout=3000, workers=8, label="thorough %s/%s" % (kind, mode))


def run(ctx):
    if ctx.replay:
        return replay(ctx)
    # rows and schedules first (the real-code runs need them)
    ra = ctx.tlc("ToNsq", "ToNsq_rows_always.cfg", workers=1, timeout=600, label="rows (Trim=always)")
    rf = ctx.tlc("ToNsq", "ToNsq_rows_ifdelim.cfg", workers=1, timeout=600, label="rows (Trim=ifdelim)")
    r1 = ctx.tlc("Relay", "Relay_sched1.cfg", workers=1, timeout=600, label="schedules, 1 destination")
    r2 = ctx.tlc("Relay", "Relay_sched2.cfg", workers=1, timeout=600, label="schedules, 2 destinations")
    for r in (ra, rf, r1, r2):
        if r.crashed or not r.ok:
            raise Inconclusive("TLC enumeration failed:\n" + r.out[-2000:])
    asis, fixed = parse_rows(ra), parse_rows(rf)
    if len(asis) != 3280 or set(asis) != set(fixed):
        raise Inconclusive("expected 3280 enumerated inputs, got %d / %d" % (len(asis), len(fixed)))
    for i in asis:
        if asis[i][0] != fixed[i][0] or fixed[i][0] != fixed[i][1]:
            raise Inconclusive("row tables inconsistent on input %r" % i)
    s1, s2 = parse_scheds(r1, 1), parse_scheds(r2, 2)
    if len(s1) < 50 or len(s2) < 100:
        raise Inconclusive("only %d / %d schedules extracted" % (len(s1), len(s2)))
    ctx.notes["tlc_enumerated_inputs"] = len(asis)
    ctx.notes["tlc_enumerated_schedules"] = {"1 destination": len(s1), "2 destinations": len(s2)}

    with ThreadPoolExecutor(max_workers=1) as ex:
        fut = ex.submit(tlc_models, ctx)
        # binding A
        cases, nlong = tonsq_cases(ctx, asis, fixed)
        RT = run_tonsq(ctx, cases, nlong)
        # binding B
        scen = relay_scenarios(ctx, s1, s2)
        RR, tr, ftr = run_relay(ctx, scen)
        fut.result()
    judge_tonsq(ctx, RT)
    judge_relay(ctx, RR, tr, ftr)

    ctx.cov["rule"] = ("evaluations = executions of the real binaries (to_nsq runs + relay scenarios). to_nsq: a case is "
                       "distinct by (symbolic input over x/y/delim or generated long input, delimiter byte, number of "
                       "destinations) and non-trivial when the input is not empty. relays: distinct by (tool, mode, method, "
                       "destinations, set of concrete schedule items, backoff, filter), non-trivial when at least one "
                       "refusal or requeue happened")
    ctx.assumptions += [
        "relays are run with --consumer-opt max_attempts,0: with go-nsq's default (5) the consumer library itself FINishes "
        "a message after 5 failed attempts (modelled: Relay_giveup.cfg; observed: notes.relay_probe_default_max_attempts)",
        "relays are run with short default_requeue_delay / backoff / msg_timeout / http timeouts (consumer options and "
        "flags of the tools) so that refusals, backoff and timeouts happen within seconds",
        "a destination 'accepted' = fake nsqd answered PUB with OK / stub endpoint answered 2xx; 'definitely refused' = E_* "
        "frame, connection closed after the body was read, HTTP 3xx/4xx/5xx; hangs and connections closed before the "
        "body was read count as neither",
        "ReqOtherwise is judged only when everything has settled: strictly (every delivery answered) or, failing that, "
        "after 5 s without any event while nothing is queued, in flight or outstanding",
        "bufio.Reader.ReadBytes is one atomic step in ToNsq.tla; buffer refills are exercised by generated inputs only",
        "bodies are pairwise different per scenario, so a body identifies its source message",
        "RelayShapeTrace: destination choice left open (Mode = any); HandleMessage reaching the publish call, source "
        "msg-timeouts (bounded by the source's own timeout counter) and requests dying with their connection are silent "
        "steps; answers are placed where the fake destination took the schedule item",
    ]


def replay(ctx):
    obj = json.load(open(ctx.replay))
    if obj.get("kind") == "tonsq":
        cases = []
        for m in obj["mismatches"]:
            sym = m.get("symbolic") or ""
            if not sym:
                continue
            mm = re.search(r"x=(\d+) y=(\d+) d=(\d+)", m["case"])
            x, y, d = (int(g) for g in mm.groups())
            recs = [c for c in re.split("d+", sym) if c]
            cases.append({"in": sym, "rec": recs, "asis": [], "fixed": recs, "x": x, "y": y, "d": d, "ndest": m["ndest"]})
            fa = re.search(r"fail_after=(\d+)", m["case"])
            if fa:
                cases[-1]["fail_after"] = int(fa.group(1))
        # generated long inputs are regenerated from the recorded seed (the first 60 of them)
        nlong = 60 if any(not (m.get("symbolic") or "") for m in obj["mismatches"]) else 0
        R = run_tonsq(ctx, cases, nlong, tag="replay", seed=obj.get("seed"))
        judge_tonsq(ctx, R)
    elif obj.get("kind") == "relay":
        RR, tr, ftr = run_relay(ctx, [obj["scenario"]], tag="replay")
        judge_relay(ctx, RR, tr, ftr)
    else:
        raise Inconclusive("unknown replay file")
    ctx.cov["rule"] = "replay of a recorded failing case against the real binaries"
