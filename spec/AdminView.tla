----------------------------- MODULE AdminView -----------------------------
(***************************************************************************)
(* C18 -- nsqadmin's cluster view equals the sum of its parts.             *)
(*                                                                         *)
(* A cluster is what the upstream daemons REPORT: per nsqd its /stats      *)
(* content, per nsqlookupd its registrations, per upstream a failure       *)
(* class.  The views of nsqadmin (/api/topics, /api/topics/:t,             *)
(* /api/topics/:t/:c, /api/nodes, /api/nodes/:n, /api/counter) are         *)
(* functions of that cluster: unions, per-field sums, de-duplicated node   *)
(* lists; a warning iff some-but-not-all relevant upstreams failed; 502    *)
(* iff all of them failed.                                                 *)
(*                                                                         *)
(* 64-bit counters are pairs <<hi, lo>> standing for hi*B + lo (B = 10^12  *)
(* in the harness); only + is needed.                                      *)
(*                                                                         *)
(* The second half is implementation-shaped: the parallel fetch with       *)
(* per-upstream error collection of internal/clusterinfo (answers arrive   *)
(* in any order, are appended under a lock, errors are counted), checked   *)
(* to produce exactly the views above for every arrival order.             *)
(***************************************************************************)
EXTENDS Naturals, Sequences, FiniteSets, TLC, Json

CONSTANTS
  MaxL, MaxN,        \* lookupds <= MaxL (<= 2), nsqds <= MaxN (<= 3)
  Profiles,          \* nsqd content profiles used in the enumeration
  LPatterns,         \* lookupd registration patterns
  PlainFail,         \* failure classes with a defined view (upstream counts as failed)
  ShapeFail,         \* valid JSON of the wrong shape: only "never crashes" is decided
  Machine            \* BOOLEAN: also run the fan-out machine on every case

----------------------------------------------------------------------------
(* 64-bit numbers *)
Z == <<0, 0>>
One == <<0, 1>>
Big == <<1, 0>>
Plus(a, b) == <<a[1] + b[1], a[2] + b[2]>>
K(k, a) == <<k * a[1], k * a[2]>>
Minus(a, b) == <<a[1] - b[1], a[2] - b[2]>>      \* used for depth - backend_depth only (never negative here)
RECURSIVE SumF(_, _)
SumF(f, S) == IF S = {} THEN Z ELSE LET x == CHOOSE y \in S : TRUE IN Plus(f[x], SumF(f, S \ {x}))
RECURSIVE SumN(_, _)
SumN(f, S) == IF S = {} THEN 0 ELSE LET x == CHOOSE y \in S : TRUE IN f[x] + SumN(f, S \ {x})

EmptyF == [x \in {} |-> 0]
MaxP(a, b) == IF a[1] > b[1] \/ (a[1] = b[1] /\ a[2] >= b[2]) THEN a ELSE b      \* the low half stays below the base
RECURSIVE MaxF(_, _)
MaxF(f, S) == IF S = {} THEN Z ELSE LET x == CHOOSE y \in S : TRUE IN MaxP(f[x], MaxF(f, S \ {x}))
(* End-to-end latency: every stub reports, per topic and per channel, message_count samples whose 99th percentile is
   the record's depth and whose median is its backend_depth.  One node's row shows exactly that; an aggregate shows
   the summed sample counts and, per quantile, the largest of the nodes' values.                                     *)
E2eRow(r) == [count |-> r.message_count,
              p99 |-> [count |-> r.message_count, max |-> r.depth],
              p50 |-> [count |-> r.message_count, max |-> r.backend_depth]]
E2eSum(rows, S) ==
  LET n == SumF([x \in S |-> rows[x].message_count], S) IN
  [count |-> n,
   p99 |-> [count |-> n, max |-> MaxF([x \in S |-> rows[x].depth], S)],
   p50 |-> [count |-> n, max |-> MaxF([x \in S |-> rows[x].backend_depth], S)]]

----------------------------------------------------------------------------
(* Cluster contents.                                                       *)
AllLookupds == {"L1", "L2"}
AllNsqds    == {"N1", "N2", "N3"}
LIx(l) == IF l = "L1" THEN 1 ELSE 2
NIx(n) == CASE n = "N1" -> 1 [] n = "N2" -> 2 [] n = "N3" -> 3
Ver(n) == CASE n = "N1" -> "1.2.0" [] n = "N2" -> "1.3.0" [] n = "N3" -> "1.3.0"

\* every counter of one channel / topic is a different multiple of one load value, so that a view
\* mixing up fields or nodes cannot produce the right number
Ch(x, clients, paused) ==
  [depth |-> K(3, x), backend_depth |-> K(1, x), in_flight_count |-> K(2, x), deferred_count |-> K(4, x),
   requeue_count |-> K(5, x), timeout_count |-> K(6, x), message_count |-> K(7, x),
   paused |-> paused, clients |-> clients]
Tp(x, paused, channels) ==
  [depth |-> K(5, x), backend_depth |-> K(2, x), message_count |-> K(9, x), paused |-> paused, channels |-> channels]
Cl(n, t, c, k) == {n \o "/" \o t \o "/" \o c \o "/" \o i : i \in IF k = 0 THEN {} ELSE IF k = 1 THEN {"a"} ELSE {"a", "b"}}

Prof(p, n) ==
  CASE p = "empty"  -> EmptyF
    [] p = "one"    -> "t1" :> Tp(One, FALSE, "c1" :> Ch(One, Cl(n, "t1", "c1", 1), FALSE))
    [] p = "two"    -> "t1" :> Tp(Big, TRUE, "c1" :> Ch(Big, Cl(n, "t1", "c1", 2), FALSE) @@ "c2" :> Ch(Z, {}, TRUE))
                       @@ "t2" :> Tp(Z, FALSE, EmptyF)
    [] p = "cross"  -> "t1" :> Tp(Z, FALSE, "c2" :> Ch(One, Cl(n, "t1", "c2", 1), FALSE))
                       @@ "t2" :> Tp(One, FALSE, "c1" :> Ch(Big, Cl(n, "t2", "c1", 1), FALSE))
    [] p = "t2only" -> "t2" :> Tp(Big, FALSE, "c2" :> Ch(One, Cl(n, "t2", "c2", 2), TRUE))

NsqdOf(p, n) == [ver |-> Ver(n), topics |-> Prof(p, n)]

LastOf(S) == IF "N3" \in S THEN "N3" ELSE IF "N2" \in S THEN "N2" ELSE "N1"
TopicsOf(ns) == UNION {DOMAIN ns[n].topics : n \in DOMAIN ns}
\* what lookupd reports, derived from what is there
LPat(p, ns) ==
  LET full == [n \in DOMAIN ns |-> [topics |-> DOMAIN ns[n].topics, tomb |-> {}]] IN
  CASE p = "full"  -> [topics |-> TopicsOf(ns), nodes |-> full]
    [] p = "lagN"  -> [topics |-> TopicsOf(ns), nodes |-> [n \in DOMAIN ns \ {LastOf(DOMAIN ns)} |-> full[n]]]
    [] p = "lagT"  -> [topics |-> TopicsOf(ns) \ {"t2"},
                       nodes |-> [n \in DOMAIN ns |-> [topics |-> full[n].topics \ {"t2"}, tomb |-> {}]]]
    [] p = "tomb"  -> [topics |-> TopicsOf(ns),
                       nodes |-> [n \in DOMAIN ns |-> [topics |-> full[n].topics,
                                                        tomb |-> IF n = "N1" THEN full[n].topics \cap {"t1"} ELSE {}]]]
    [] p = "extra" -> [topics |-> TopicsOf(ns) \cup {"t3"}, nodes |-> full]

\* gone: nsqd that lookupds still name but that are not there any more
MkCluster(mode, ns, ls, fail, gone) ==
  [mode |-> mode, L |-> DOMAIN ls, N |-> DOMAIN ns \ gone, nsqd |-> [n \in DOMAIN ns \ gone |-> ns[n]], lookupd |-> ls,
   fail |-> [u \in DOMAIN ls \cup (DOMAIN ns \ gone) |-> IF u \in DOMAIN fail THEN fail[u] ELSE "ok"]]

----------------------------------------------------------------------------
(* The views, as functions of a cluster cl.                                *)
\* plain classes: every endpoint of u answers with an error (refused/reset, 500, garbage bytes,
\* JSON of the wrong type, no answer in time)
Failed(cl, u) == cl.fail[u] \in PlainFail
Ok(cl, u)     == ~Failed(cl, u)
\* wrong-shape classes hit particular endpoints; elsewhere the upstream answers normally
ShapeHit(cl, u, ep) ==
  \/ cl.fail[u] = "tomblen"  /\ ep = "lnodes"
  \/ cl.fail[u] = "nullprod" /\ ep \in {"lnodes", "lookup"}
  \/ cl.fail[u] \in ShapeFail \ {"tomblen", "nullprod"} /\ ep = "stats"

View(st, warn, body) == [st |-> st, warn |-> warn, v |-> body]
AliveOnly == View(0, FALSE, EmptyF)      \* no view is decided, only that nsqadmin survives
BadGateway == View(502, FALSE, EmptyF)
NotFound == View(404, FALSE, EmptyF)

\* a wrong-shape answer on the path of a view: the statement only decides "does not crash"
ShapeOnPath(cl, U, ep) == \E u \in U : ShapeHit(cl, u, ep)
\* the upstreams asked first by every view but /api/topics, and the endpoint used
First(cl) == IF cl.mode = "lookupd" THEN cl.L ELSE cl.N
FirstEp(cl, what) == IF cl.mode = "lookupd" THEN what ELSE "stats"

(* ---- who produces what ------------------------------------------------ *)
LookupErr(cl, l, t) == Failed(cl, l) \/ t \notin cl.lookupd[l].topics      \* /lookup answers 404 for an unknown topic
LookupProds(cl, l, t) == {n \in DOMAIN cl.lookupd[l].nodes :
                            t \in cl.lookupd[l].nodes[n].topics /\ t \notin cl.lookupd[l].nodes[n].tomb}
HasTopic(cl, n, t) == n \in cl.N /\ t \in DOMAIN cl.nsqd[n].topics
HasChan(cl, n, t, c) == HasTopic(cl, n, t) /\ c \in DOMAIN cl.nsqd[n].topics[t].channels

\* [all failed?, some failed?, producers] for topic t
TopicProducers(cl, t) ==
  IF cl.mode = "lookupd"
  THEN LET errs == {l \in cl.L : LookupErr(cl, l, t)} IN
       [none |-> errs = cl.L, warn |-> errs # {},
        prods |-> UNION {LookupProds(cl, l, t) : l \in cl.L \ errs}]
  ELSE LET errs == {n \in cl.N : Failed(cl, n)} IN
       [none |-> errs = cl.N, warn |-> errs # {}, prods |-> {n \in cl.N \ errs : HasTopic(cl, n, t)}]

\* all nodes: [all failed?, some failed?, nodes]
AllProducers(cl) ==
  IF cl.mode = "lookupd"
  THEN LET errs == {l \in cl.L : Failed(cl, l)} IN
       [none |-> errs = cl.L, warn |-> errs # {}, prods |-> UNION {DOMAIN cl.lookupd[l].nodes : l \in cl.L \ errs}]
  ELSE LET errs == {n \in cl.N : Failed(cl, n)} IN
       [none |-> errs = cl.N, warn |-> errs # {}, prods |-> cl.N \ errs]

\* a producer named by a lookupd need not exist any more (n \notin cl.N: connection refused)
StatErr(cl, n) == n \notin cl.N \/ Failed(cl, n)

QTopics == {"t1", "t2", "t3"}       \* topic and channel names the views are asked for
QChans  == {"c1", "c2"}

(* ---- /api/topics ------------------------------------------------------ *)
TopicsView(cl) ==
  LET U    == IF cl.mode = "lookupd" THEN cl.L ELSE cl.N
      errs == {u \in U : Failed(cl, u)}
      each(u) == IF cl.mode = "lookupd" THEN cl.lookupd[u].topics ELSE DOMAIN cl.nsqd[u].topics IN
  IF ShapeOnPath(cl, U, FirstEp(cl, "ltopics")) THEN AliveOnly
  ELSE IF errs = U THEN BadGateway
  ELSE View(200, errs # {}, [topics |-> UNION {each(u) : u \in U \ errs}])

(* ---- /api/topics?inactive=true ---------------------------------------- *)
\* the channels a lookupd has registered for topic t: those of the nsqd it lists for t (t3: registered by nsqd that are gone)
LChans(cl, l, t) ==
  UNION {DOMAIN cl.nsqd[n].topics[t].channels :
           n \in {m \in (DOMAIN cl.lookupd[l].nodes) \cap cl.N : t \in cl.lookupd[l].nodes[m].topics /\ t \in DOMAIN cl.nsqd[m].topics}}
  \cup (IF t = "t3" /\ t \in cl.lookupd[l].topics THEN {"c1", "c2"} ELSE {})

\* topics no nsqlookupd has a producer for, each with the UNION of the channels the nsqlookupds know for it
InactiveView(cl) ==
  LET tv == TopicsView(cl) IN
  IF tv.st # 200 THEN tv
  ELSE IF cl.mode # "lookupd" THEN View(200, tv.warn, [topics |-> EmptyF])
  ELSE IF ShapeOnPath(cl, cl.L, "lookup") THEN AliveOnly
  ELSE LET okL == {l \in cl.L : Ok(cl, l)}
           prods(t) == UNION {LookupProds(cl, l, t) : l \in {k \in okL : t \in cl.lookupd[k].topics}}
           inact == {t \in tv.v.topics : prods(t) = {}} IN
       View(200, tv.warn, [topics |-> [t \in inact |-> UNION {LChans(cl, l, t) : l \in okL}]])

(* ---- /api/topics/:t --------------------------------------------------- *)
ChanSum(cl, S, t, c) ==      \* per-field sums of channel c of topic t over the nsqd in S that have it
  LET H == {n \in S : HasChan(cl, n, t, c)}
      f(field) == SumF([n \in H |-> cl.nsqd[n].topics[t].channels[c][field]], H) IN
  [depth |-> f("depth"), backend_depth |-> f("backend_depth"),
   memory_depth |-> Minus(f("depth"), f("backend_depth")),
   in_flight_count |-> f("in_flight_count"), deferred_count |-> f("deferred_count"),
   requeue_count |-> f("requeue_count"), timeout_count |-> f("timeout_count"),
   message_count |-> f("message_count"),
   client_count |-> SumN([n \in H |-> Cardinality(cl.nsqd[n].topics[t].channels[c].clients)], H),
   paused |-> \E n \in H : cl.nsqd[n].topics[t].channels[c].paused,
   e2e |-> E2eSum([n \in H |-> cl.nsqd[n].topics[t].channels[c]], H),
   nodes |-> H]

TopicView(cl, t) ==
  LET tp == TopicProducers(cl, t)
      P  == tp.prods
      errs == {n \in P : StatErr(cl, n)}
      S  == {n \in P \ errs : HasTopic(cl, n, t)}
      f(field) == SumF([n \in S |-> cl.nsqd[n].topics[t][field]], S)
      chans == UNION {DOMAIN cl.nsqd[n].topics[t].channels : n \in S} IN
  IF ShapeOnPath(cl, First(cl), FirstEp(cl, "lookup")) \/ ShapeOnPath(cl, P \cap cl.N, "stats") THEN AliveOnly
  ELSE IF tp.none THEN BadGateway
  ELSE IF errs = P THEN BadGateway                     \* also when P = {} (a topic nobody produces)
  ELSE View(200, tp.warn \/ errs # {},
            [depth |-> f("depth"), backend_depth |-> f("backend_depth"),
             memory_depth |-> Minus(f("depth"), f("backend_depth")), message_count |-> f("message_count"),
             paused |-> \E n \in S : cl.nsqd[n].topics[t].paused,
             e2e |-> E2eSum([n \in S |-> cl.nsqd[n].topics[t]], S),
             channels |-> [c \in chans |-> ChanSum(cl, S, t, c)],
             nodes |-> [n \in S |-> [depth |-> cl.nsqd[n].topics[t].depth,
                                     message_count |-> cl.nsqd[n].topics[t].message_count,
                                     e2e |-> E2eRow(cl.nsqd[n].topics[t])]]])

(* ---- /api/topics/:t/:c ------------------------------------------------ *)
ChannelView(cl, t, c) ==
  LET tp == TopicProducers(cl, t)
      P  == tp.prods
      errs == {n \in P : StatErr(cl, n)}
      H  == {n \in P \ errs : HasChan(cl, n, t, c)} IN
  IF ShapeOnPath(cl, First(cl), FirstEp(cl, "lookup")) \/ ShapeOnPath(cl, P \cap cl.N, "stats") THEN AliveOnly
  ELSE IF tp.none THEN BadGateway
  ELSE IF errs = P THEN BadGateway
  ELSE IF H = {} THEN AliveOnly                        \* a channel nobody reports: no view is defined
  ELSE View(200, tp.warn \/ errs # {},
            [sum |-> ChanSum(cl, H, t, c),
             clients |-> UNION {cl.nsqd[n].topics[t].channels[c].clients : n \in H},
             nodes |-> [n \in H |-> [depth |-> cl.nsqd[n].topics[t].channels[c].depth,
                                     message_count |-> cl.nsqd[n].topics[t].channels[c].message_count,
                                     e2e |-> E2eRow(cl.nsqd[n].topics[t].channels[c])]]])

(* ---- /api/nodes ------------------------------------------------------- *)
\* nsqadmin keeps the record of whichever lookupd answered first: any reporting lookupd's list is acceptable
NodeTopicCands(cl, n) ==
  IF cl.mode = "lookupd"
  THEN {{<<t, t \in cl.lookupd[l].nodes[n].tomb>> : t \in cl.lookupd[l].nodes[n].topics} :
          l \in {k \in cl.L : Ok(cl, k) /\ n \in DOMAIN cl.lookupd[k].nodes}}
  ELSE {{<<t, FALSE>> : t \in DOMAIN cl.nsqd[n].topics}}
VerLT(a, b) == a = "1.2.0" /\ b = "1.3.0"
NodesView(cl) ==
  LET ap == AllProducers(cl)
      maxv == IF \E n \in ap.prods : Ver(n) = "1.3.0" THEN "1.3.0" ELSE "1.2.0" IN
  IF ShapeOnPath(cl, First(cl), FirstEp(cl, "lnodes")) THEN AliveOnly
  ELSE IF ap.none THEN BadGateway
  ELSE View(200, ap.warn,
            [nodes |-> [n \in ap.prods |->
                [nremote |-> IF cl.mode = "lookupd"
                             THEN Cardinality({l \in cl.L : Ok(cl, l) /\ n \in DOMAIN cl.lookupd[l].nodes}) ELSE 0,
                 ood |-> cl.mode = "lookupd" /\ VerLT(Ver(n), maxv),
                 cands |-> NodeTopicCands(cl, n)]]])

(* ---- /api/nodes/:n ---------------------------------------------------- *)
NodeView(cl, n) ==
  LET ap == AllProducers(cl) IN
  IF ShapeOnPath(cl, First(cl), FirstEp(cl, "lnodes")) \/ ShapeOnPath(cl, {n} \cap cl.N, "stats") THEN AliveOnly
  ELSE IF ap.none THEN BadGateway
  ELSE IF n \notin ap.prods THEN NotFound
  ELSE IF StatErr(cl, n) THEN BadGateway
  ELSE LET T == DOMAIN cl.nsqd[n].topics
           nclients(t) == SumN([c \in DOMAIN cl.nsqd[n].topics[t].channels |->
                                  Cardinality(cl.nsqd[n].topics[t].channels[c].clients)],
                               DOMAIN cl.nsqd[n].topics[t].channels) IN
       View(200, ap.warn,
            [total_messages |-> SumF([t \in T |-> cl.nsqd[n].topics[t].message_count], T),
             total_clients |-> SumN([t \in T |-> nclients(t)], T),
             topics |-> [t \in T |->
                [depth |-> cl.nsqd[n].topics[t].depth, message_count |-> cl.nsqd[n].topics[t].message_count,
                 channels |-> [c \in DOMAIN cl.nsqd[n].topics[t].channels |->
                    [depth |-> cl.nsqd[n].topics[t].channels[c].depth,
                     message_count |-> cl.nsqd[n].topics[t].channels[c].message_count,
                     clients |-> cl.nsqd[n].topics[t].channels[c].clients]]]]])

(* ---- /api/counter ----------------------------------------------------- *)
CounterView(cl) ==
  LET ap == AllProducers(cl)
      P  == ap.prods
      errs == {n \in P : StatErr(cl, n)}
      S  == P \ errs
      keys == {<<t, c, n>> \in QTopics \X QChans \X S : HasChan(cl, n, t, c)} IN
  IF ShapeOnPath(cl, First(cl), FirstEp(cl, "lnodes")) \/ ShapeOnPath(cl, P \cap cl.N, "stats") THEN AliveOnly
  ELSE IF ap.none THEN BadGateway
  ELSE IF errs = P THEN BadGateway
  ELSE View(200, ap.warn \/ errs # {},
            [stats |-> {[t |-> k[1], c |-> k[2], n |-> k[3],
                         mc |-> cl.nsqd[k[3]].topics[k[1]].channels[k[2]].message_count] : k \in keys}])

Views(cl) ==
  [topics |-> TopicsView(cl),
   inactive |-> InactiveView(cl),
   topic |-> [t \in QTopics |-> TopicView(cl, t)],
   channel |-> [t \in {"t1", "t2"} |-> [c \in QChans |-> ChannelView(cl, t, c)]],
   nodes |-> NodesView(cl),
   node |-> [n \in AllNsqds |-> NodeView(cl, n)],
   counter |-> CounterView(cl)]

----------------------------------------------------------------------------
(* Laws of the views (checked on every enumerated cluster).                *)
\* a view is 502 only when no relevant upstream answered
Law502(cl) ==
  /\ TopicsView(cl).st = 502 => \A u \in (IF cl.mode = "lookupd" THEN cl.L ELSE cl.N) : Failed(cl, u)
  /\ NodesView(cl).st = 502 => \A u \in (IF cl.mode = "lookupd" THEN cl.L ELSE cl.N) : Failed(cl, u)
\* with every upstream healthy nothing carries a warning and nothing is a 502 except topics nobody produces
LawHealthy(cl) ==
  (\A u \in cl.L \cup cl.N : cl.fail[u] = "ok") =>
     /\ TopicsView(cl).st = 200 /\ ~TopicsView(cl).warn
     /\ NodesView(cl).st = 200 /\ ~NodesView(cl).warn
     /\ CounterView(cl).st = 200 \/ AllProducers(cl).prods = {}
\* the topic view's total equals the sum of its per-node entries and the per-channel totals are
\* the sums of the channel views
LawSums(cl) ==
  \A t \in {"t1", "t2"} :
    LET tv == TopicView(cl, t) IN
    tv.st = 200 =>
      /\ tv.v.depth = SumF([n \in DOMAIN tv.v.nodes |-> tv.v.nodes[n].depth], DOMAIN tv.v.nodes)
      /\ \A c \in DOMAIN tv.v.channels :
           LET cv == ChannelView(cl, t, c) IN
           cv.st = 200 => cv.v.sum.depth = tv.v.channels[c].depth /\ cv.v.sum.nodes = tv.v.channels[c].nodes
\* a failing upstream never adds anything: the view under failures is contained in the healthy view
LawMonotone(cl) ==
  LET h == [cl EXCEPT !.fail = [u \in DOMAIN cl.fail |-> "ok"]] IN
  TopicsView(cl).st = 200 /\ TopicsView(h).st = 200 => TopicsView(cl).v.topics \subseteq TopicsView(h).v.topics

----------------------------------------------------------------------------
(* The enumerated domain.                                                  *)
NsqdSets == {S \in SUBSET AllNsqds : S # {} /\ Cardinality(S) <= MaxN /\ \A n \in S : \A m \in AllNsqds : NIx(m) < NIx(n) => m \in S}
LkSets   == {S \in SUBSET AllLookupds : S # {} /\ Cardinality(S) <= MaxL /\ ("L2" \in S => "L1" \in S)}
Contents == UNION {[S -> Profiles] : S \in NsqdSets}          \* nsqd -> profile
Nsqds(pf) == [n \in DOMAIN pf |-> NsqdOf(pf[n], n)]
LkPats   == UNION {[S -> LPatterns] : S \in LkSets}

NoFail == EmptyF
MaxNsqdSet == CHOOSE S \in NsqdSets : \A T \in NsqdSets : Cardinality(T) <= Cardinality(S)
MaxLkSet   == CHOOSE S \in LkSets : \A T \in LkSets : Cardinality(T) <= Cardinality(S)
Lks(lp, pf) == [l \in DOMAIN lp |-> LPat(lp[l], Nsqds(pf))]
\* slice A: every content, every registration pattern, nothing failing
SliceA ==
     {MkCluster("lookupd", Nsqds(pf), Lks(lp, pf), NoFail, {}) : pf \in Contents, lp \in LkPats}
\cup {MkCluster("direct", Nsqds(pf), EmptyF, NoFail, {}) : pf \in Contents}
\* slice B: a few contents, every assignment of failure classes with at most two failing upstreams
\*          (single failures: every class; double failures: two classes; total failure: plain classes)
FContents == {pf \in Contents : DOMAIN pf = MaxNsqdSet /\ pf["N1"] = "two"
                                /\ (\A n \in DOMAIN pf : n # "N1" => pf[n] \in {"cross", "one"})}
FLk == {lp \in LkPats : DOMAIN lp = MaxLkSet /\ lp["L1"] \in {"full", "lagN"}
                        /\ (\A l \in DOMAIN lp : l # "L1" => lp[l] = "full")}
Pair2 == PlainFail \cap {"e500", "garbage"}
FailAssign(U) ==
     {(u :> f) : u \in U, f \in PlainFail \cup ShapeFail}
\cup {(u :> f) @@ (w :> g) : u \in U, w \in U, f \in Pair2, g \in Pair2}
\cup {[u \in U |-> f] : f \in PlainFail}
\* a failure class must fit the kind of upstream
Fits(u, f) == f \in PlainFail
              \/ (u \in AllLookupds /\ f \in {"tomblen", "nullprod"})
              \/ (u \in AllNsqds /\ f \in ShapeFail \ {"tomblen", "nullprod"})
FitAll(g) == \A u \in DOMAIN g : Fits(u, g[u])
SliceB ==
     {MkCluster("lookupd", Nsqds(pf), Lks(lp, pf), fa, {}) :
         pf \in FContents, lp \in FLk, fa \in {g \in FailAssign(MaxLkSet \cup MaxNsqdSet) : FitAll(g)}}
\cup {MkCluster("direct", Nsqds(pf), EmptyF, fa, {}) :
         pf \in FContents, fa \in {g \in FailAssign(MaxNsqdSet) : FitAll(g)}}
\* slice C: the lookupds still name an nsqd that is gone (connection refused), alone and together
\*          with one failing upstream
SliceC ==
  {MkCluster("lookupd", Nsqds(pf), Lks(lp, pf), fa, {LastOf(DOMAIN pf)}) :
     pf \in {q \in FContents : Cardinality(DOMAIN q) > 1}, lp \in FLk,
     fa \in {NoFail} \cup {(u :> "e500") : u \in MaxLkSet \cup (MaxNsqdSet \ {LastOf(MaxNsqdSet)})}}

Cases == SliceA \cup SliceB \cup SliceC

----------------------------------------------------------------------------
(* Implementation-shaped part: the fan-out of clusterinfo.Get* for the     *)
(* topic list and the node list.  Upstream answers arrive in any order.    *)
VARIABLES cl,        \* the cluster of this case
          pend,      \* upstreams whose answer is still outstanding
          tacc,      \* topics appended so far (sequence, arrival order)
          nacc,      \* node name -> first record seen (GetLookupdProducers keeps the first)
          nrem,      \* node name -> number of lookupds that listed it so far
          errs,      \* number of failed answers
          phase      \* "case" | "fetch" | "done"
vars == <<cl, pend, tacc, nacc, nrem, errs, phase>>

FanOut(c) == IF c.mode = "lookupd" THEN c.L ELSE c.N

Init ==
  /\ cl \in Cases
  /\ pend = {} /\ tacc = <<>> /\ nacc = EmptyF /\ nrem = EmptyF /\ errs = 0 /\ phase = "case"

Start ==
  /\ phase = "case" /\ Machine
  /\ ~ShapeOnPath(cl, FanOut(cl), FirstEp(cl, "lnodes")) /\ ~ShapeOnPath(cl, FanOut(cl), FirstEp(cl, "ltopics"))
  /\ phase' = "fetch" /\ pend' = FanOut(cl)
  /\ UNCHANGED <<cl, tacc, nacc, nrem, errs>>

RECURSIVE SetToSeq(_)
SetToSeq(S) == IF S = {} THEN <<>> ELSE LET x == CHOOSE y \in S : TRUE IN <<x>> \o SetToSeq(S \ {x})

\* one goroutine finishes: error -> errs++, else append under the lock
Arrive(u) ==
  /\ phase = "fetch" /\ u \in pend
  /\ pend' = pend \ {u}
  /\ IF Failed(cl, u)
     THEN errs' = errs + 1 /\ UNCHANGED <<tacc, nacc, nrem>>
     ELSE /\ errs' = errs
          /\ tacc' = tacc \o SetToSeq(IF cl.mode = "lookupd" THEN cl.lookupd[u].topics ELSE DOMAIN cl.nsqd[u].topics)
          /\ IF cl.mode = "lookupd"
             THEN LET new == DOMAIN cl.lookupd[u].nodes IN
                  /\ nacc' = [n \in DOMAIN nacc \cup new |->
                                IF n \in DOMAIN nacc THEN nacc[n]
                                ELSE {<<t, t \in cl.lookupd[u].nodes[n].tomb>> : t \in cl.lookupd[u].nodes[n].topics}]
                  /\ nrem' = [n \in DOMAIN nrem \cup new |->
                                (IF n \in DOMAIN nrem THEN nrem[n] ELSE 0) + (IF n \in new THEN 1 ELSE 0)]
             ELSE /\ nacc' = [n \in DOMAIN nacc \cup {u} |-> IF n = u THEN {<<t, FALSE>> : t \in DOMAIN cl.nsqd[u].topics} ELSE nacc[n]]
                  /\ nrem' = [n \in DOMAIN nrem \cup {u} |-> 0]
  /\ UNCHANGED <<cl, phase>>

Finish ==
  /\ phase = "fetch" /\ pend = {}
  /\ phase' = "done"
  /\ UNCHANGED <<cl, pend, tacc, nacc, nrem, errs>>

Next == Start \/ (\E u \in AllLookupds \cup AllNsqds : Arrive(u)) \/ Finish
Spec == Init /\ [][Next]_vars

Range(s) == {s[i] : i \in 1..Len(s)}
\* whatever the arrival order, the fan-out ends in the view
MachineMatchesViews ==
  phase = "done" =>
    LET tv == TopicsView(cl)  nv == NodesView(cl) IN
    /\ (errs = Cardinality(FanOut(cl))) <=> (tv.st = 502)
    /\ tv.st = 200 => /\ Range(tacc) = tv.v.topics
                      /\ tv.warn <=> (errs > 0)
    /\ nv.st = 200 => /\ DOMAIN nacc = DOMAIN nv.v.nodes
                      /\ \A n \in DOMAIN nacc : /\ nacc[n] \in nv.v.nodes[n].cands
                                                /\ nrem[n] = nv.v.nodes[n].nremote
                      /\ nv.warn <=> (errs > 0)

Laws == Law502(cl) /\ LawHealthy(cl) /\ LawSums(cl) /\ LawMonotone(cl)

TypeOK == phase \in {"case", "fetch", "done"} /\ pend \subseteq AllLookupds \cup AllNsqds /\ errs \in 0..5

----------------------------------------------------------------------------
(* Binding A: one printed case per enumerated cluster, with the predicted views. *)
CaseOut == phase = "case" => PrintT(<<"CASE", ToJson([cl |-> cl, pred |-> Views(cl)])>>)
=============================================================================
