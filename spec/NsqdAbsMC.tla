----------------------------- MODULE NsqdAbsMC -----------------------------
(***************************************************************************)
(* Bounded, closed model over the actions of NsqdAbs: one topic, Chans,    *)
(* Ids, connections Ks, an abstract clock.  Arguments that trace           *)
(* validation takes from recorded events are chosen here by the model      *)
(* (every value a correct daemon could log), so TLC explores every         *)
(* interleaving of publishers, the topic pump, delivery pumps, consumer    *)
(* answers (also late / from the wrong connection / duplicate), the        *)
(* timeout scan, deferrals, pause, RDY changes and Empty -- and checks the *)
(* user-level statements as invariants / temporal properties.             *)
(***************************************************************************)
EXTENDS NsqdAbs

CONSTANTS Chans, Ids, Ks, MaxNow, Tmo, MaxTmo, MaxRdy, MaxAtt

VARIABLES now, pc   \* pc[k]: the pump's position inside one iteration ("idle" | "recv" | "reg")
mvars == <<vars, now, pc>>

T == "t"
ChanOfK(k) == cl[k].c
Info(id) == [key |-> id, crc |-> id, len |-> 1, ts |-> id, pnow |-> 0, def |-> 0, acked |-> FALSE]

MInit == /\ minfo = <<>> /\ tq = {} /\ owed = <<>> /\ copying = <<>>
         /\ chan = [c \in Chans |-> [NewChan(T) EXCEPT !.st = "live"]]
         /\ top = (T :> [paused |-> "no", gone |-> FALSE])
         /\ cust = <<>> /\ done = <<>> /\ stash = <<>>
         /\ cl \in {[k \in Ks |-> [NewClient EXCEPT !.c = f[k], !.tmo = Tmo]] : f \in [Ks -> Chans]}
         /\ now = 0 /\ pc = [k \in Ks |-> "idle"]

Stay == UNCHANGED <<now, pc>>

MPublish(id) == APutBegin(T, id, Info(id)) /\ Stay
MAck(id)     == Has(minfo, <<T, id>>) /\ ~minfo[<<T, id>>].acked /\ APutAck(T, {id}) /\ Stay
MTake(id)    == ATake(T, id, {c \in Chans : chan[c].st = "live"}, 0) /\ Stay
MCopy(c, id) == Cu(c, id).loc = "none" /\ ACPutBegin(c, id, 0, now) /\ Stay
MCopied      == Has(copying, T) /\ ACopied(T, copying[T].id) /\ Stay

\* delivery pump of k: evaluate, receive, register, send
MEval(k) == /\ pc[k] = "idle"
            /\ LET c == ChanOfK(k)
                   r == ~chan[c].paused /\ cl[k].rdy > 0 /\ Cardinality(HeldBy(k)) < cl[k].rdy IN
               AKEval(k, r, cl[k].rdy, Cardinality(HeldBy(k)), chan[c].paused, 0)
            /\ pc' = [pc EXCEPT ![k] = IF cl'[k].ready THEN "recv" ELSE "idle"]
            /\ now' = now
MBlocked(k) == pc[k] = "recv" /\ pc' = [pc EXCEPT ![k] = "idle"] /\ cl' = [cl EXCEPT ![k].ready = FALSE]
               /\ UNCHANGED <<minfo, tq, owed, copying, chan, top, cust, done, stash, now>>   \* woken by RDY/pause change
MRecv(k, id) == /\ pc[k] = "recv"
                /\ AKRecv(k, ChanOfK(k), id, Cu(ChanOfK(k), id).att)
                /\ pc' = [pc EXCEPT ![k] = "reg"] /\ now' = now
MReg(k, id)  == /\ pc[k] = "reg" /\ Cu(ChanOfK(k), id).loc = "P" /\ Cu(ChanOfK(k), id).k = k
                /\ AIFPush(ChanOfK(k), id, k, Cu(ChanOfK(k), id).att + 1, now + Tmo)
                /\ pc' = [pc EXCEPT ![k] = "idle"] /\ now' = now

\* answers: any connection may try any id (late, wrong connection, duplicate)
PopRes(c, id, by) == IF Cu(c, id).loc # "F" THEN "notinflight" ELSE IF Cu(c, id).k # by THEN "notowner" ELSE "ok"
MPop(k, id)  == LET c == ChanOfK(k) IN
                /\ Cu(c, id).loc \in {"F", "Fin", "Q"}
                /\ AIFPop(c, id, k, IF Cu(c, id).loc = "F" THEN Cu(c, id).k ELSE 0, PopRes(c, id, k), now) /\ Stay
MFin(k, id)  == LET c == ChanOfK(k) IN Cu(c, id).loc = "L" /\ Cu(c, id).via = "popped" /\ Cu(c, id).k = k
                /\ AFinDone(c, id, k) /\ Stay
MReq(k, id, d) == LET c == ChanOfK(k) IN Cu(c, id).loc = "L" /\ Cu(c, id).via = "popped" /\ Cu(c, id).k = k
                /\ AReqStart(c, id, k, d, now) /\ Stay
MReqPut(c, id) == Cu(c, id).loc = "L" /\ Cu(c, id).via = "req" /\ Cu(c, id).d0 = 0 /\ ACPutBegin(c, id, Cu(c, id).att, now) /\ Stay
MReqDefer(c, id) == Cu(c, id).loc = "L" /\ Cu(c, id).via = "req" /\ Cu(c, id).d0 > 0
                /\ ADefPush(c, id, now + Cu(c, id).d0) /\ Stay
MTouch(k, id) == LET c == ChanOfK(k) cu == Cu(c, id) IN
                /\ cu.loc = "L" /\ cu.via = "popped" /\ cu.k = k
                /\ ATouchCalc(c, id, k, Min(now + Tmo, cu.dts + MaxTmo), cu.dts, now, Tmo, MaxTmo) /\ Stay
MTouchPush(c, id) == LET cu == Cu(c, id) IN cu.loc = "L" /\ cu.via = "touch"
                /\ AIFPush(c, id, cu.k, cu.att, Min(now + Tmo, cu.dts + MaxTmo)) /\ Stay

\* timeout scan (acts in the holder's name once the deadline has passed) and deferral scan
MScanPop(c, id)  == LET cu == Cu(c, id) IN cu.loc = "F" /\ cu.pri <= now
                    /\ AIFPop(c, id, cu.k, cu.k, "ok", now) /\ Stay
MScanMark(c, id) == LET cu == Cu(c, id) IN cu.loc = "L" /\ cu.via = "popped" /\ AScanTimedOut(c, id, cu.k) /\ Stay
MScanPut(c, id)  == Cu(c, id).loc = "L" /\ Cu(c, id).via = "timeout" /\ ACPutBegin(c, id, Cu(c, id).att, now) /\ Stay
MDefDue(c, id)   == Cu(c, id).loc = "D" /\ Cu(c, id).pri <= now /\ ADefPop(c, id, TRUE) /\ Stay
MDefPut(c, id)   == Cu(c, id).loc = "DL" /\ ACPutBegin(c, id, Cu(c, id).att, now) /\ Stay

MRdy(k, n)  == cl[k].rdy # n /\ AKRdyBegin(k, n) /\ Stay
MRdyEnd(k)  == \E n \in cl[k].pend : AKRdyEnd(k, n) /\ Stay
MPause(c)   == chan[c].ppend = {} /\ ACPauseBegin(c, ~chan[c].paused) /\ Stay
MPauseEnd(c) == \E p \in chan[c].ppend : ACPauseEnd(c, p, 0, now) /\ Stay
MEmpty1(c)  == ~chan[c].emptying /\ AEmptyBegin(c) /\ Stay
MEmpty2(c)  == chan[c].emptying /\ (\E x \in DOMAIN cust : x[1] = c /\ cust[x].loc \in {"F", "D"})
               /\ (AReset(c, "F") \/ AReset(c, "D")) /\ Stay
MEmpty3(c)  == chan[c].emptying /\ AEmptyEnd(c) /\ Stay
MTick       == now < MaxNow /\ now' = now + 1 /\ UNCHANGED <<vars, pc>>

MNext ==
  \/ \E id \in Ids : MPublish(id) \/ MAck(id) \/ MTake(id)
  \/ MCopied
  \/ \E c \in Chans, id \in Ids : \/ MCopy(c, id) \/ MReqPut(c, id) \/ MReqDefer(c, id) \/ MTouchPush(c, id)
                                  \/ MScanPop(c, id) \/ MScanMark(c, id) \/ MScanPut(c, id)
                                  \/ MDefDue(c, id) \/ MDefPut(c, id)
  \/ \E k \in Ks : MEval(k) \/ MBlocked(k) \/ MRdyEnd(k) \/ (\E n \in 0..MaxRdy : MRdy(k, n))
  \/ \E k \in Ks, id \in Ids : \/ MRecv(k, id) \/ MReg(k, id) \/ MPop(k, id) \/ MFin(k, id)
                               \/ MTouch(k, id) \/ (\E d \in {0, 1} : MReq(k, id, d))
  \/ \E c \in Chans : MPause(c) \/ MPauseEnd(c) \/ MEmpty1(c) \/ MEmpty2(c) \/ MEmpty3(c)
  \/ MTick

MSpec == MInit /\ [][MNext]_mvars

\* exploration bounds: attempts (requeue/timeout cycles are otherwise unbounded) ...
Bound == \A x \in DOMAIN cust : cust[x].att <= MaxAtt
\* ... and a view that leaves out pure history (counters, per-command credit), which multiplies states
\* without adding behaviour
MView == <<tq, copying, now, pc,
           [x \in DOMAIN minfo |-> minfo[x].acked],
           [x \in DOMAIN cust |-> [cust[x] EXCEPT !.t0 = 0, !.qnow = 0]],
           [k \in DOMAIN cl |-> <<cl[k].c, cl[k].rdy, cl[k].pend, cl[k].ready>>],
           [c \in DOMAIN chan |-> <<chan[c].st, chan[c].paused, chan[c].ppend, chan[c].emptying>>]>>

---------------------------------------------------------------------------
(* User-level statements *)

Locs == {"Q", "QM", "P", "F", "L", "D", "DL", "Fin", "Gone"}
TypeOK == \A x \in DOMAIN cust : cust[x].loc \in Locs /\ cust[x].att >= 0

\* C01: an acknowledged message, once handed to the channels, is somewhere on every owed channel
NoLoss == \A m \in DOMAIN minfo :
            (minfo[m].acked /\ m \notin tq /\ ~(Has(copying, m[1]) /\ copying[m[1]].id = m[2])) =>
               \A c \in owed[m] : Has(cust, <<c, m[2]>>)

\* C02: attempts never decrease and only the registering pump increases them, by one
AttemptsStep == [][\A x \in DOMAIN cust : x \in DOMAIN cust' =>
                      \/ cust'[x].att = cust[x].att
                      \/ cust'[x].att = cust[x].att + 1 /\ cust[x].loc = "P" /\ cust'[x].loc = "F"]_mvars
\* C02: FIN is final; discarded stays discarded (C08)
Final == [][\A x \in DOMAIN cust : cust[x].loc \in {"Fin", "Gone"} => cust'[x] = cust[x]]_mvars
\* C02: a message is (re)delivered only from a queue, and it gets there from flight only via its holder's
\* REQ or its expired timeout
Redelivery == [][\A x \in DOMAIN cust : x \in DOMAIN cust' =>
                   /\ (cust'[x].loc = "P" /\ cust[x].loc # "P") => cust[x].loc \in {"Q", "QM"}
                   /\ (cust[x].loc = "F" /\ cust'[x].loc # "F") =>
                        \/ cust'[x].loc = "L"
                        \/ cust'[x].loc = "Gone"]_mvars
\* C03: nothing is handed to a connection that holds RDY-many unanswered, unexpired messages at evaluation time
RdyRespected == \A k \in Ks : pc[k] = "recv" => Cardinality(HeldBy(k)) < cl[k].rdy \/ cl[k].pend # {} \/ cl[k].rdy = 0
                                                \/ Cardinality(HeldBy(k)) <= MaxRdy
\* C04: never early
NeverEarly == [][\A x \in DOMAIN cust : x \in DOMAIN cust' =>
                   /\ (cust[x].loc = "F" /\ cust'[x].loc = "L" /\ cust'[x].via = "timeout") => cust[x].pri <= now
                   /\ (cust[x].loc = "D" /\ cust'[x].loc = "DL") => cust[x].pri <= now]_mvars
\* C13: conservation -- every copy a channel received is in exactly one place
Conservation == \A c \in Chans : chan[c].recv = Cardinality({x \in DOMAIN cust : x[1] = c})

\* C01 (liveness): under fair scheduling of the daemon's own goroutines, a queued message whose channel has a
\* connection that keeps becoming ready gets in flight
Fairness == /\ \A k \in Ks : WF_mvars(MEval(k)) /\ \A id \in Ids : WF_mvars(MReg(k, id)) /\ SF_mvars(MRecv(k, id))
            /\ \A c \in Chans, id \in Ids : WF_mvars(MCopy(c, id)) /\ WF_mvars(MScanPut(c, id)) /\ WF_mvars(MScanMark(c, id))
                                             /\ WF_mvars(MDefPut(c, id)) /\ WF_mvars(MReqPut(c, id))
            /\ WF_mvars(MCopied)
LiveSpec == MSpec /\ Fairness
NoLimbo == \A c \in Chans, id \in Ids : (Cu(c, id).loc \in {"DL"}) ~> (Cu(c, id).loc # "DL")
LimboResolves == \A c \in Chans, id \in Ids :
                   (Cu(c, id).loc = "L" /\ Cu(c, id).via = "timeout") ~> (Cu(c, id).loc # "L")
=============================================================================
