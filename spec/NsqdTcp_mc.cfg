SPECIFICATION Spec
CONSTANTS
  Setups <- SetupsQuick
  PrefixFine = FALSE
  Backlog = 2
INVARIANTS TypeOK TableTotal
PROPERTIES StateMonotone FatalClosesOnlySelf RejectedPublishEnqueuesNothing LimitsHold
CHECK_DEADLOCK FALSE
