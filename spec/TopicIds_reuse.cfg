\* vacuity guard: the broken id source (Issue may hand out a used id) -- TLC must report a violation
SPECIFICATION Spec
CONSTANTS
  Pubs = {p1, p2}
  Ids <- MCIds
  MaxId = 3
  Zero = 0
  Less <- IntLess
  MaxBatch = 2
  MaxCmds = 2
  Reuse = TRUE
INVARIANTS Unique BatchIncreasing RealTimeOrder
PROPERTIES EndAboveFloor EndRefinesObs SourceMonotone
CHECK_DEADLOCK FALSE
