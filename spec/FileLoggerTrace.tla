-------------------------- MODULE FileLoggerTrace --------------------------
(***************************************************************************)
(* Property-level trace validation for C19.                                *)
(*                                                                         *)
(* The real nsq_to_file binary runs under strace against a real nsqd; the  *)
(* harness (harness/cmd/filelogger) turns the syscall log into the         *)
(* operations of FileLoggerAbs, one JSON object per line:                  *)
(*   {"ev":"Reset"}                       next run (fresh directories)     *)
(*   {"ev":"Pre","n":N,"sz":K}            name N existed before the tool   *)
(*                                        started, K records of content    *)
(*   {"ev":"Create","n":N}                openat(O_CREAT) made a new file  *)
(*   {"ev":"Append","i":I,"recs":[m..]}   write(2) at the end of inode I   *)
(*                                        completed these records (plain:  *)
(*                                        newline written; gzip: member    *)
(*                                        trailer written and the member   *)
(*                                        decompresses)                    *)
(*   {"ev":"Rewrite","i":I,"k":K,"recs":[..]}  O_TRUNC / write below the   *)
(*                                        end: records after K replaced    *)
(*   {"ev":"Member","i":I}                write(2) put the first bytes of  *)
(*                                        a gzip member at the end of I    *)
(*   {"ev":"Died"}                        the traced process is gone       *)
(*                                        (exit / SIGKILL); a restart may  *)
(*                                        follow.  After it, Append lists  *)
(*                                        what the later writes COMPLETED; *)
(*                                        FsAppend decides whether a       *)
(*                                        reader can get to it (not after  *)
(*                                        a torn member)                   *)
(*   {"ev":"Fsync","i":I}                 fsync/fdatasync returned 0       *)
(*   {"ev":"Link","s":N,"d":N}            link(at) returned 0              *)
(*   {"ev":"Unlink","n":N}                unlink(at) returned 0            *)
(*   {"ev":"Rename","s":N,"d":N}          rename* returned 0               *)
(*   {"ev":"Fin","m":M}                   write(2) of "FIN <id>" to the    *)
(*                                        nsqd socket was ENTERED          *)
(*   {"ev":"Settled","m":[..]}            after the stop: the messages     *)
(*                                        nsqd no longer owes (everything  *)
(*                                        published minus what a drain     *)
(*                                        consumer still received) -- the  *)
(*                                        black-box view of `fin`          *)
(*   {"ev":"PowerLoss"}                   the worst case FileLoggerAbs     *)
(*                                        allows at that instant: every    *)
(*                                        file cut back to its fsynced     *)
(*                                        prefix; the invariants are then  *)
(*                                        evaluated on what is left        *)
(* Names are small integers per path, inodes are numbered in order of      *)
(* Pre/Create (as NewIno does), messages 1..n in order of publication.     *)
(* File events are logged when the syscall has RETURNED, Fin when the      *)
(* write is ENTERED: a Fin that is logged before the Fsync covering it     *)
(* really was issued before that fsync had returned.                       *)
(* Every invariant / action property of FileLoggerAbs is evaluated at      *)
(* every step of the recorded execution.                                   *)
(***************************************************************************)
EXTENDS FileLoggerAbs, Json

Trace == ndJsonDeserialize("trace.ndjson")
VARIABLE l
tvars == <<avars, l>>

TraceInit == /\ dir = <<>> /\ data = <<>> /\ dur = <<>> /\ tail = <<>> /\ fin = {} /\ epoch = 0
             /\ l = 1 /\ TLCSet(1, 1) /\ TLCSet(2, <<>>)

IsEvent(e) == l <= Len(Trace) /\ Trace[l].ev = e /\ l' = l + 1

TReset  == /\ IsEvent("Reset")
           /\ dir' = <<>> /\ data' = <<>> /\ dur' = <<>> /\ tail' = <<>> /\ fin' = {} /\ epoch' = epoch + 1
TPre    == /\ IsEvent("Pre")
           /\ LET e == Trace[l]  i == NewIno IN
              /\ e.n \notin DOMAIN dir
              /\ dir'  = dir  @@ (e.n :> i)
              /\ data' = data @@ (i :> [k \in 1..e.sz |-> 0 - i])
              /\ dur'  = dur  @@ (i :> e.sz)
              /\ tail' = tail @@ (i :> "clean")
           /\ UNCHANGED <<fin, epoch>>
TCreate == IsEvent("Create") /\ FsCreate(Trace[l].n)
TAppend == IsEvent("Append") /\ FsAppend(Trace[l].i, Trace[l].recs)
TRewrite == IsEvent("Rewrite") /\ FsRewrite(Trace[l].i, Trace[l].k, Trace[l].recs)
TMember == IsEvent("Member") /\ FsOpenMember(Trace[l].i)
TDied   == IsEvent("Died")   /\ ProcessDeath
TFsync  == IsEvent("Fsync")  /\ FsFsync(Trace[l].i)
TLink   == IsEvent("Link")   /\ FsLink(Trace[l].s, Trace[l].d)
TUnlink == IsEvent("Unlink") /\ FsUnlink(Trace[l].n)
TRename == IsEvent("Rename") /\ FsRename(Trace[l].s, Trace[l].d)
TFin    == IsEvent("Fin")    /\ Fin(Trace[l].m)
TSettled == /\ IsEvent("Settled")
            /\ fin' = fin \cup Range(Trace[l].m)
            /\ UNCHANGED <<dir, data, dur, tail, epoch>>
\* PowerLoss of FileLoggerAbs with the least it may leave (cut = dur)
TPowerLoss == /\ IsEvent("PowerLoss")
              /\ data' = [i \in DOMAIN data |-> SubSeq(data[i], 1, dur[i])]
              /\ epoch' = epoch + 1
              /\ tail' = Torn
              /\ UNCHANGED <<dir, dur, fin>>

TraceNext == TReset \/ TPre \/ TCreate \/ TAppend \/ TRewrite \/ TFsync \/ TLink \/ TUnlink \/ TRename \/ TFin \/ TSettled \/ TPowerLoss \/ TMember \/ TDied
TraceSpec == TraceInit /\ [][TraceNext]_tvars

HW == IF l > TLCGet(1) THEN TLCSet(1, l) /\ TLCSet(2, [dir |-> dir, dur |-> dur, fin |-> fin]) ELSE TRUE
TraceAccepted ==
  LET hw == TLCGet(1) IN
  IF hw = Len(Trace) + 1 THEN PrintT(<<"TRACE_OK", Len(Trace)>>)
  ELSE PrintT(<<"TRACE_REJECTED", hw, Trace[hw], TLCGet(2)>>) /\ FALSE
=============================================================================
