"""C04 -- timeouts and delays: never early, boundedly late, range-checked (specs: NsqdAbs clocked guards, DelayTable)."""
import json
import os

import corelib
from vlib import Inconclusive

META = {
    "technique": "TLC: DelayTable (total table command x number class -> outcome, clauses as invariants) replayed row by "
                 "row with many spellings against a real nsqd; NsqdAbs clocked guards (deadline = delivery + timeout, "
                 "TOUCH cap, scan never early, REQ clamp, deferral lower bounds) checked by TLC on hook traces of the "
                 "'timing' driver; client-side lower bounds with causally ordered clock readings; TLC on QueueScan (the "
                 "scan scheduler: selection, worker pool, repeat-while-dirty, liveness under a fair sampler) with real runs "
                 "over more channels than the selection count measured for lateness and validated against QueueScanTrace",
    "design_ref": "5/C04",
}


def run(ctx):
    import nsqdmc
    nsqdmc.model_check(ctx)
    # A: the range table
    r = ctx.model_check("DelayTable", "DelayTable.cfg", workers=1, timeout=300)
    rows = {}
    for t in r.prints("ROW"):
        v = [x.strip('"') for x in t]
        rows[tuple(v)] = {"cmd": v[0], "form": v[1], "mag": v[2], "res": v[3], "delay": v[4]}
    if len(rows) < 60:
        raise Inconclusive("only %d rows extracted from DelayTable" % len(rows))
    rf = os.path.join(ctx.scratch, "rows.json")
    json.dump(list(rows.values()), open(rf, "w"))
    of = os.path.join(ctx.scratch, "delay-obs.json")
    d = os.path.join(ctx.scratch, "delays-data")
    os.makedirs(d, exist_ok=True)
    rc, out, err = ctx.run_harness(["delays", "--rows", rf, "--out", of, "--dir", d], name="core", timeout=900)
    if rc != 0 or not os.path.exists(of):
        raise Inconclusive("delay table replay failed: " + (out + err)[-2000:])
    obs = json.load(open(of))
    nbad = 0
    for o in obs:
        if o.get("inconclusive"):
            ctx.notes.setdefault("delay_rows_inconclusive", []).append(o["spelling"] + ": " + o["inconclusive"])
            continue
        if o.get("bad"):
            nbad += 1
            ctx.violation("%s with delay written %r (class %s/%s): %s" % (o["row"]["cmd"], o["spelling"], o["row"]["form"],
                                                                          o["row"]["mag"], o["bad"]),
                          ctx.save_replay("delay-%s-%s-%s" % (o["row"]["cmd"], o["row"]["form"], o["row"]["mag"]), o),
                          key="delay:%s:%s:%s" % (o["row"]["cmd"], o["row"]["form"], o["row"]["mag"]))
    ctx.cov["evaluations"] += len(obs)
    ctx.notes["delay_table_rows"] = len(rows)
    ctx.notes["delay_spellings_replayed"] = len(obs)
    ctx.cov["exhaustive_table"] = True
    for o in obs[:3]:
        ctx.sample({"delay_row": o})
    corelib.queue_scan(ctx, "C04", 8 if ctx.quick else 60)
    # B: clocked traces
    n = 16 if ctx.quick else 150
    # (core: several channels per topic -- a deferred publish is deferred on every one of them)
    corelib.run_modes(ctx, "C04", [("timing", n), ("contend", n // 2), ("core", n // 2)])
    if not ctx.quick:
        corelib.repo_tests(ctx, "C04")
    ctx.cov["distinct_nontrivial"] = len(rows) + len(ctx.notes.get("event_kinds", {}))
    ctx.cov["rule"] = ("evaluations = concrete spellings replayed + hook/harness events validated; distinct = table rows "
                       "(command x form x magnitude) + event kinds exercised")
    ctx.assumptions += [
        "'boundedly late' is measured (scan pick-up minus deadline); a violation only beyond 10 s with a 10 ms scan interval",
        "lower bounds use a clock reading taken before the causally preceding command was written",
        "a deferred publish that spills to the topic's disk queue loses its deferral (documented), such messages are exempt",
    ]
