\* a filter / sampling was requested: messages may be dropped (FIN without forwarding) or rewritten; what is
\* left of the property: refusals are requeued, nothing is lost at the source, everything settles
SPECIFICATION Spec
CONSTANTS
  Msgs = {1, 2}
  Dests = {1, 2}
  Kind = "async"
  Mode = "eps"
  Handlers = 2
  Items = {"A", "R", "L", "D"}
  MaxSched = 1
  MaxBad = 2
  MaxTimeouts = 1
  MaxConnLost = 0
  MaxAttempts = 0
  Filter = TRUE
INVARIANTS TypeOK FinOnlyAfterAccept ReqOtherwise Unmodified AtLeastOnce NeverLost
PROPERTIES Refines FailedIsRequeued Settles
CHECK_DEADLOCK FALSE
