"""C08 -- delete, empty and ephemeral semantics (spec: NsqdAbs)."""
import corelib

META = {
    "technique": "TLC model checking of NsqdAbs/NsqdAbsMC and NsqdCore; every TLC-enumerated interleaving of operation pairs "
                 "forced on the real daemon through yield points (gated replay) and compared with the model's prediction; traces of a real in-process nsqd (verif hooks + client-side "
                 "observations) from the seeded 'churn' and 'flow' drivers validated against NsqdAbs by TLC; black-box "
                 "ledger on client-visible frames and /stats; NsqdTopic: channel / topic deletion against publish, channel creation and the pump's copy steps, forced on the real daemon",
    "design_ref": "5/C08",
}


def run(ctx):
    import nsqdmc
    nsqdmc.model_check(ctx)
    import pairs
    # binding A': every interleaving (TLC, NsqdCore) of two operations' critical sections forced on the real daemon
    pairs.run_pairs(ctx, "C08", sample=None if not ctx.quick else 220)
    import tpairs
    # topic level (NsqdTopic): channel and topic deletion against publish, channel creation, pause and the pump's copy steps
    tpairs.run_tpairs(ctx, "C08", only=lambda t: {"DELC", "TDELETE"} & set(t))
    # what is left behind: disk files, re-creation, ephemeral objects, concurrent deletions all answered
    import json, os
    from vlib import Inconclusive
    cases = []
    for i in range(12 if ctx.quick else 120):
        cases.append({"kind": "recreate", "seed": ctx.seed * 100 + i, "fails": []})
    for i in range(2 if ctx.quick else 12):
        cases.append({"kind": "deleterace", "seed": ctx.seed * 100 + i, "fails": []})
    for i in range(2 if ctx.quick else 10):
        cases.append({"kind": "ephemeral", "seed": ctx.seed * 100 + i, "fails": []})
    for i in range(12 if ctx.quick else 60):     # 6 yield points x same / other channel (x timing of the release)
        cases.append({"kind": "ephsub", "seed": ctx.seed * 120 + i, "fails": []})
    for i in range(2 if ctx.quick else 12):
        cases.append({"kind": "emptybusy", "seed": ctx.seed * 100 + i, "fails": []})
    for i in range(2 if ctx.quick else 8):
        cases.append({"kind": "emptydeferred", "seed": ctx.seed * 100 + i, "fails": []})
    for i in range(2 if ctx.quick else 8):
        cases.append({"kind": "mpubdelete", "seed": ctx.seed * 100 + i, "fails": []})
    cf = os.path.join(ctx.scratch, "c08-cases.json")
    json.dump(cases, open(cf, "w"))
    of = os.path.join(ctx.scratch, "c08-obs.json")
    d = os.path.join(ctx.scratch, "c08-data")
    os.makedirs(d, exist_ok=True)
    rc, out, err = ctx.run_harness(["c08extra", "--cases", cf, "--out", of, "--dir", d], name="core", timeout=3000)
    if rc != 0 or not os.path.exists(of):
        if "panic:" in err:
            ctx.violation("the daemon panicked during delete / re-create / ephemeral scenarios: " + err[-600:],
                          ctx.save_replay("c08extra-crash", {"stderr": err[-3000:]}), key="c08extra:crash")
        else:
            raise Inconclusive("c08extra failed: " + (out + err)[-1500:])
    else:
        for o in json.load(open(of)):
            if o.get("inconclusive"):
                ctx.notes.setdefault("inconclusive_cases", []).append(o["kind"] + ": " + o["inconclusive"][:150])
                continue
            ctx.cov["evaluations"] += o.get("ops", 0)
            for f in o["fails"]:
                ctx.violation("%s (seed %d): %s" % (o["kind"], o["seed"], f), ctx.save_replay("c08-" + o["kind"], o),
                              key="c08extra:%s:%s" % (o["kind"], f[:30]))
    n = 16 if ctx.quick else 120
    corelib.run_modes(ctx, "C08", [("churn", n), ("flow", n // 2)])
    ctx.cov["distinct_nontrivial"] = len(ctx.notes.get("event_kinds", {}))
    ctx.cov["rule"] = ("evaluations = hook/harness events of real executions checked step by step by TLC against "
                       "NsqdAbs; distinct = event kinds (spec actions) exercised")
    ctx.assumptions += [
        "hook events are emitted inside the critical section performing the change (DESIGN.md appendix A)",
        "a rejection is attributed to the property whose clause the failing guard stands for (lib/corelib.py)",
    ]
