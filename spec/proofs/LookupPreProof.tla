---------------------------- MODULE LookupPreProof ----------------------------
(* LookupPre for ANY number of nsqlookupds and channels, proved with TLAPS: as  *)
(* coded (the peer info outlives the connection) a topic first created starts   *)
(* with every channel known to an nsqlookupd that has been reachable since nsqd *)
(* learnt its address.                                                          *)
EXTENDS LookupPre, TLAPS

ASSUME Keep == ForgetOnClose = FALSE

IndInv ==
  /\ conn \in [Peers -> {"up", "down"}] /\ info \in [Peers -> BOOLEAN] /\ httpUp \in [Peers -> BOOLEAN]
  /\ reg \in [Peers -> SUBSET Chans] /\ created \in BOOLEAN
  /\ healthy \subseteq Peers /\ healthyAt \subseteq Peers
  /\ \A p \in healthy : info[p] /\ httpUp[p]
  /\ created => \A p \in healthyAt : reg[p] \subseteq got

THEOREM Safe == Spec => []PreCreated
<1>1. Init => IndInv
  BY DEF Init, IndInv
<1>2. IndInv /\ [Next]_vars => IndInv'
  <2> SUFFICES ASSUME IndInv, [Next]_vars PROVE IndInv'
    OBVIOUS
  <2> USE Keep DEF IndInv
  <2>1. ASSUME NEW p \in Peers, Connect(p) PROVE IndInv'
    BY <2>1 DEF Connect
  <2>2. ASSUME NEW p \in Peers, CmdFails(p) PROVE IndInv'
    BY <2>2 DEF CmdFails
  <2>3. ASSUME NEW p \in Peers, Down(p) PROVE IndInv'
    BY <2>3 DEF Down
  <2>4. ASSUME NEW p \in Peers, NEW c \in Chans, Register(p, c) PROVE IndInv'
    BY <2>4 DEF Register
  <2>5. CASE GetTopic
    BY <2>5 DEF GetTopic
  <2>6. CASE UNCHANGED vars
    BY <2>6 DEF vars
  <2> QED BY <2>1, <2>2, <2>3, <2>4, <2>5, <2>6 DEF Next
<1>3. IndInv => PreCreated
  BY DEF IndInv, PreCreated
<1> QED BY <1>1, <1>2, <1>3, PTL DEF Spec
=============================================================================
