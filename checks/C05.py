"""C05 -- graceful shutdown and restart lose nothing (spec: NsqdCore with the EXIT operation)."""
import corelib
import pairs

META = {
    "technique": "TLC (NsqdCore): graceful shutdown (Channel.Close: flag, close clients, flush queue, flush in-flight) "
                 "interleaved at every yield point with FIN/REQ/TOUCH/timeout scan/delivery/Empty; every schedule forced "
                 "on the real daemon (gated replay), followed by a real restart on the same data path and a drain, "
                 "compared with the model's prediction; plus randomized publish/consume histories with nsqd.Exit at a "
                 "random moment (also right after the last FIN), restart (with idle restart cycles in between), drain and a ledger over the lifetimes; NsqdTopic: shutdown at every yield point of topic-level operations and of the pump's copy round, real restart",
    "design_ref": "5/C05",
}


def shutdown_traces(ctx, runs):
    """The recorded shutdown of every restart run against the close protocol (NsqdShutdown / NsqdShutdownTrace)."""
    import os
    todo = [r["trace"] for r in runs if r.get("trace") and not r.get("inconclusive") and os.path.exists(r["trace"])]
    if not todo:
        return
    allp = os.path.join(ctx.scratch, "shutdown-all.ndjson")
    with open(allp, "w") as out:
        for t in todo:
            with open(t) as f:
                out.write(f.read())
    ctx.validate_trace("NsqdShutdownTrace", "NsqdShutdownTrace.cfg", allp, len(todo), "shutdown-protocol", timeout=1800,
                       key="trace:shutdown-protocol")


def exit_storm(ctx, trials):
    """A shutdown request while topics / channels are being created and ephemeral ones removed: it must complete.
    One trial per child process (a panic of the in-process daemon is the observation); the schedule is the Go
    scheduler's, the number of trials makes a lost race show (7 of 60 trials died before the repair)."""
    import os
    import subprocess
    from concurrent.futures import ThreadPoolExecutor
    h = ctx.harness("core")

    def one(i):
        d = os.path.join(ctx.scratch, "storm-%d" % i)
        os.makedirs(d, exist_ok=True)
        try:
            p = subprocess.run([h, "exitstorm", "--dir", d, "--delay-us", str(500 + (i % 5) * 1000 + ctx.seed % 7 * 100)],
                               cwd=ctx.scratch, env=ctx.goenv(), capture_output=True, text=True, timeout=120)
            return i, p.returncode, p.stdout, p.stderr
        except subprocess.TimeoutExpired:
            return i, -1, "", "timeout"

    done = died = 0
    with ThreadPoolExecutor(max_workers=4) as ex:
        for i, rc, out, err in ex.map(one, range(trials)):
            if rc == 0:
                done += 1
            elif "panic:" in err or "fatal error:" in err:
                died += 1
                head = [l for l in err.splitlines() if l.startswith("panic:") or l.startswith("fatal error:")]
                frames = [l.strip() for l in err.splitlines() if "nsqio/nsq/nsqd." in l][:4]
                if died == 1:
                    ctx.violation("a graceful shutdown requested while topics/channels were being created did not complete: "
                                  "the daemon died with `%s` in %s" % ((head or ["?"])[0][:200], " | ".join(frames)[:400]),
                                  ctx.save_replay("exitstorm", {"trial": i, "stderr": err[-6000:]}), key="shutdown:panic-in-exit")
            elif rc == 3:
                ctx.violation("a graceful shutdown requested while topics/channels were being created did not return: " + out.strip()[:200],
                              ctx.save_replay("exitstorm-blocked", {"trial": i, "stdout": out, "stderr": err[-3000:]}), key="shutdown:blocked")
            else:
                ctx.notes.setdefault("exitstorm_inconclusive", []).append((out + err)[-200:])
    ctx.notes["exitstorm"] = {"trials": trials, "completed": done, "daemon_died": died}
    ctx.cov["evaluations"] += done + died
    from vlib import log
    log("exit storm: %d/%d shutdowns completed, %d daemon deaths" % (done, trials, died))


def run(ctx):
    # the close protocol with message accounting, and the variant that returns a channel-close error before the
    # topic's own flush (must be refuted)
    ctx.model_check("NsqdShutdown", "NsqdShutdown_mc.cfg", timeout=600)
    r = ctx.tlc("NsqdShutdown", "NsqdShutdown_abort.cfg", timeout=600, label="abort-on-close-error (expected: violated)")
    if not r.violated:
        from vlib import Inconclusive
        raise Inconclusive("NsqdShutdown_abort.cfg is not refuted")
    # A': shutdown-at-point. TLC enumerates the schedules, the replayer forces them, restarts, and drains.
    pairs.run_pairs(ctx, "C05", pairs=[(x, "EXIT") for x in pairs.EXIT_PARTNERS])
    import tpairs
    # topic level (NsqdTopic): graceful shutdown at every yield point of publish / channel creation / deletion / pause and
    # of the message pump's copy round, then a real restart
    tpairs.run_tpairs(ctx, "C05", only=lambda t: "TEXIT" in t)
    # B: random histories, shutdown at a random moment, restart, drain, ledger over both lifetimes
    n = 24 if ctx.quick else 300
    runs = corelib.drive(ctx, "restart", n)
    ok = corelib.ledger(ctx, "C05", runs)
    shutdown_traces(ctx, runs)
    ctx.cov["evaluations"] += sum(r.get("events", 0) for r in runs)
    ctx.cov["traces_validated_against_impl"] += 0
    ctx.notes["restart_runs"] = len(runs)
    ctx.notes["restart_runs_conclusive"] = ok
    for r in runs[:2]:
        ctx.sample({"restart_run": r["scenario"], "events": r["events"], "published": r["published"], "acked": r["acked"]})
    exit_storm(ctx, 40 if ctx.quick else 240)
    if ok == 0:
        from vlib import Inconclusive
        raise Inconclusive("no restart run completed: %s" % ctx.notes.get("inconclusive_runs", [])[:3])
    ctx.cov["distinct_nontrivial"] = ctx.notes.get("pair_schedules_replayed", 0) + ok
    ctx.cov["rule"] = ("evaluations = forced schedules (shutdown at each yield point of each operation) + hook events of "
                       "random two-lifetime runs; distinct = schedules + completed restart runs")
    ctx.assumptions += [
        "only messages acknowledged before the shutdown request are owed; a FIN processed after the request may or may "
        "not reappear; deferred messages may come back immediately",
        "graceful shutdown = nsqd.Exit() in-process (what SIGTERM triggers in apps/nsqd)",
    ]
