package main

import (
	"bytes"
	"compress/gzip"
	"fmt"
	"io"
	"path/filepath"
	"regexp"
	"sort"
	"strconv"
	"strings"
)

// Abstract file-system view reconstructed from the syscall log: the operations of FileLoggerAbs.tla.

type inode struct {
	id    int
	gz    bool
	bytes []byte
	recs  []int // readable records (tokens) as of the last event emitted
	// incremental gzip parse state
	gzOff      int    // bytes[:gzOff] are complete members (or members given up as torn, see died)
	gzText     []byte // the decompressed content of the complete ones
	memberOpen bool   // bytes beyond gzOff: an unterminated member
}

type openFile struct {
	ino    *inode
	append bool
	off    int
}

type fsModel struct {
	dirs    []string          // data directories (absolute, with trailing slash)
	names   map[string]int    // path -> name id
	dir     map[string]*inode // existing entries
	inodes  []*inode
	fds     map[int]*openFile
	bodyTok map[string]int // message body -> token (1..n)
	idTok   map[string]int // message id (hex) -> token
	events  []map[string]interface{}
	cwd     string
	// statistics
	nFin, nFsync, nAppendRecs, nLinkEEXIST, nOpenEEXIST, nLink, nUnlink, nCreate, nOpenOld int
	nTorn                                                                                  int
	unknownFin                                                                             []string
	finOrder                                                                               []int
}

func newFSModel(dirs []string, bodies map[string]int, ids map[string]int) *fsModel {
	m := &fsModel{names: map[string]int{}, dir: map[string]*inode{}, fds: map[int]*openFile{}, bodyTok: bodies, idTok: ids}
	for _, d := range dirs {
		m.dirs = append(m.dirs, strings.TrimSuffix(d, "/")+"/")
	}
	return m
}

func (m *fsModel) isData(p string) bool {
	for _, d := range m.dirs {
		if strings.HasPrefix(p, d) {
			return true
		}
	}
	return false
}

func (m *fsModel) nameID(p string) int {
	if id, ok := m.names[p]; ok {
		return id
	}
	id := len(m.names) + 1
	m.names[p] = id
	return id
}

func (m *fsModel) emit(ev string, kv ...interface{}) {
	e := map[string]interface{}{"ev": ev}
	for i := 0; i+1 < len(kv); i += 2 {
		e[kv[i].(string)] = kv[i+1]
	}
	m.events = append(m.events, e)
}

// tokenOfLine: a line is message t's record when it IS the body, or ends with it (a body appended to an
// unterminated foreign line is still "body + newline written to the file": the statement asks no more).
func (m *fsModel) tokenOfLine(line []byte, foreign int) int {
	if t, ok := m.bodyTok[string(line)]; ok {
		return t
	}
	for j := 1; j < len(line); j++ {
		if t, ok := m.bodyTok[string(line[j:])]; ok {
			return t
		}
	}
	return foreign
}

func (m *fsModel) linesToRecs(text []byte, foreign int) []int {
	var recs []int
	for {
		i := bytes.IndexByte(text, '\n')
		if i < 0 {
			break
		}
		recs = append(recs, m.tokenOfLine(text[:i], foreign))
		text = text[i+1:]
	}
	return recs
}

// gunzipMembers decompresses complete members from b starting at off; returns new offset and text of them.
func gunzipMembers(b []byte, off int) (int, []byte) {
	var text []byte
	for off < len(b) {
		br := bytes.NewReader(b[off:])
		zr, err := gzip.NewReader(br)
		if err != nil {
			break
		}
		zr.Multistream(false)
		t, err := io.ReadAll(zr)
		if err != nil {
			break
		}
		text = append(text, t...)
		off = len(b) - br.Len()
	}
	return off, text
}

// recompute the readable records of an inode from its bytes
func (m *fsModel) readable(in *inode) []int {
	foreign := -in.id // lines that are not a message's record: foreign content (token -inode, as in the spec)
	if in.gz {
		if in.gzOff > len(in.bytes) {
			in.gzOff, in.gzText = 0, nil
		}
		off, t := gunzipMembers(in.bytes, in.gzOff)
		in.gzOff = off
		in.gzText = append(in.gzText, t...)
		return m.linesToRecs(in.gzText, foreign)
	}
	return m.linesToRecs(in.bytes, foreign)
}

// after a change of in.bytes: emit Append (old records are a prefix of the new ones) or Rewrite
func (m *fsModel) changed(in *inode, rewritten bool) {
	if rewritten {
		in.gzOff, in.gzText = 0, nil
	}
	before := in.gzOff
	nr := m.readable(in)
	closed := in.gz && in.gzOff > before // a gzip member was terminated by this write (possibly an empty one)
	defer func() {
		if !in.gz {
			return
		}
		if len(in.bytes) > in.gzOff && !in.memberOpen {
			in.memberOpen = true
			m.emit("Member", "i", in.id)
		} else if len(in.bytes) == in.gzOff {
			in.memberOpen = false
		}
	}()
	k := 0
	for k < len(in.recs) && k < len(nr) && in.recs[k] == nr[k] {
		k++
	}
	if k == len(in.recs) {
		if len(nr) > k {
			m.emit("Append", "i", in.id, "recs", nr[k:])
			m.nAppendRecs += len(nr) - k
		} else if closed {
			m.emit("Append", "i", in.id, "recs", []int{})
		}
	} else {
		tail := nr[k:]
		if tail == nil {
			tail = []int{}
		}
		m.emit("Rewrite", "i", in.id, "k", k, "recs", tail)
	}
	in.recs = nr
}

// died: the traced process is gone.  Members it left unterminated stay torn for ever; what a later process appends
// behind them is still parsed (from the end of the torn bytes) and reported as Append -- whether a reader can get to
// it is the specification's business (FsAppend on a torn tail), not the harness's.
func (m *fsModel) died() {
	for _, in := range m.inodes {
		if in.gz && len(in.bytes) > in.gzOff {
			in.gzOff = len(in.bytes)
			m.nTorn++
		}
		in.memberOpen = false
	}
	m.fds = map[int]*openFile{} // no descriptor survives the process, the files do
	m.emit("Died")
}

// declare a file that exists before the tool starts
func (m *fsModel) pre(path string, content []byte) {
	in := &inode{id: len(m.inodes) + 1, gz: strings.HasSuffix(path, ".gz"), bytes: append([]byte(nil), content...)}
	m.inodes = append(m.inodes, in)
	m.dir[path] = in
	in.recs = m.readable(in)
	for i := range in.recs {
		in.recs[i] = -in.id // the Pre event carries only the COUNT of records; the spec fills in -inode
	}
	m.emit("Pre", "n", m.nameID(path), "sz", len(in.recs))
}

var reFin = regexp.MustCompile(`FIN ([0-9a-f]{16})\n`)

func (m *fsModel) abs(dirfd string, p string) string {
	if filepath.IsAbs(p) {
		return filepath.Clean(p)
	}
	_, base := fdOf(dirfd)
	if base == "" {
		base = m.cwd
	}
	return filepath.Clean(filepath.Join(base, p))
}

// apply translates the syscall records (in log order: file operations at their return, FIN at entry).
func (m *fsModel) apply(recs []*sysRec) error {
	type item struct {
		seq int
		r   *sysRec
		fin bool
	}
	var items []item
	for _, r := range recs {
		if r.name == "write" && len(r.args) >= 2 {
			_, p := fdOf(r.args[0])
			if strings.HasPrefix(p, "socket:") || strings.HasPrefix(p, "TCP") {
				items = append(items, item{r.entrySeq, r, true})
				continue
			}
		}
		if r.exitSeq == neverReturned {
			continue // never returned: the process died inside; nothing later depends on it
		}
		items = append(items, item{r.exitSeq, r, false})
	}
	sort.SliceStable(items, func(a, b int) bool { return items[a].seq < items[b].seq })
	for _, it := range items {
		r := it.r
		if it.fin {
			data, _ := strOf(r.args[1])
			for _, mm := range reFin.FindAllStringSubmatch(data, -1) {
				t, ok := m.idTok[mm[1]]
				if !ok {
					m.unknownFin = append(m.unknownFin, mm[1])
					continue
				}
				m.emit("Fin", "m", t)
				m.finOrder = append(m.finOrder, t)
				m.nFin++
			}
			continue
		}
		failed := strings.HasPrefix(r.ret, "-1")
		switch r.name {
		case "openat", "open", "creat":
			var p, flags string
			switch r.name {
			case "openat":
				if len(r.args) < 3 {
					continue
				}
				s, _ := strOf(r.args[1])
				p, flags = m.abs(r.args[0], s), r.args[2]
			case "open":
				s, _ := strOf(r.args[0])
				p, flags = m.abs("", s), r.args[1]
			default:
				s, _ := strOf(r.args[0])
				p, flags = m.abs("", s), "O_WRONLY|O_CREAT|O_TRUNC"
			}
			if !m.isData(p) {
				continue
			}
			if failed {
				if r.errno == "EEXIST" {
					m.nOpenEEXIST++
					if _, ok := m.dir[p]; !ok {
						return fmt.Errorf("open(%s) = EEXIST but the harness's view has no such file", p)
					}
				}
				continue
			}
			if strings.Contains(flags, "O_DIRECTORY") || !strings.Contains(flags, "O_WRONLY") && !strings.Contains(flags, "O_RDWR") {
				continue // read-only opens change nothing
			}
			fd, _ := fdOf(r.ret)
			in, existed := m.dir[p]
			if !existed {
				if !strings.Contains(flags, "O_CREAT") {
					return fmt.Errorf("open(%s) without O_CREAT succeeded on a file the harness does not know", p)
				}
				in = &inode{id: len(m.inodes) + 1, gz: strings.HasSuffix(p, ".gz")}
				m.inodes = append(m.inodes, in)
				m.dir[p] = in
				m.emit("Create", "n", m.nameID(p))
				m.nCreate++
			} else {
				m.nOpenOld++
				if strings.Contains(flags, "O_EXCL") && strings.Contains(flags, "O_CREAT") {
					return fmt.Errorf("open(%s, O_EXCL) succeeded on a file the harness believes to exist", p)
				}
				if strings.Contains(flags, "O_TRUNC") && len(in.bytes) > 0 {
					in.bytes = nil
					m.changed(in, true)
				}
			}
			m.fds[fd] = &openFile{ino: in, append: strings.Contains(flags, "O_APPEND")}
		case "write", "pwrite64":
			if len(r.args) < 3 {
				continue
			}
			fd, p := fdOf(r.args[0])
			of, ok := m.fds[fd]
			if !ok {
				if m.isData(p) {
					return fmt.Errorf("write to data file %s through a descriptor the harness did not see opened", p)
				}
				continue
			}
			if failed {
				continue
			}
			data, complete := strOf(r.args[1])
			n, _ := strconv.Atoi(r.ret)
			if !complete && n > len(data) {
				return fmt.Errorf("strace abbreviated a write of %d bytes to a data file", n)
			}
			data = data[:n]
			in := of.ino
			off := of.off
			if r.name == "pwrite64" && len(r.args) >= 4 {
				off, _ = strconv.Atoi(r.args[3])
			} else if of.append {
				off = len(in.bytes)
			}
			rewritten := off < len(in.bytes)
			for len(in.bytes) < off {
				in.bytes = append(in.bytes, 0)
			}
			in.bytes = append(in.bytes[:off], append([]byte(data), in.bytes[min(len(in.bytes), off+len(data)):]...)...)
			if r.name == "write" {
				of.off = off + len(data)
			}
			m.changed(in, rewritten)
		case "writev", "pwritev", "pwritev2", "sendfile", "copy_file_range", "fallocate":
			if len(r.args) > 0 {
				fd, _ := fdOf(r.args[0])
				if _, ok := m.fds[fd]; ok {
					return fmt.Errorf("%s on a data file: not understood by the harness", r.name)
				}
			}
		case "ftruncate", "truncate":
			if failed || len(r.args) < 2 {
				continue
			}
			var in *inode
			if r.name == "ftruncate" {
				fd, _ := fdOf(r.args[0])
				if of, ok := m.fds[fd]; ok {
					in = of.ino
				}
			} else {
				s, _ := strOf(r.args[0])
				in = m.dir[m.abs("", s)]
			}
			if in == nil {
				continue
			}
			n, _ := strconv.Atoi(r.args[1])
			if n < len(in.bytes) {
				in.bytes = in.bytes[:n]
				m.changed(in, true)
			}
		case "fsync", "fdatasync":
			if failed || len(r.args) < 1 {
				continue
			}
			fd, _ := fdOf(r.args[0])
			if of, ok := m.fds[fd]; ok {
				m.emit("Fsync", "i", of.ino.id)
				m.nFsync++
			}
		case "close":
			if len(r.args) < 1 {
				continue
			}
			fd, _ := fdOf(r.args[0])
			delete(m.fds, fd)
		case "link", "linkat":
			var s, d string
			if r.name == "link" {
				a, _ := strOf(r.args[0])
				b, _ := strOf(r.args[1])
				s, d = m.abs("", a), m.abs("", b)
			} else {
				if len(r.args) < 4 {
					continue
				}
				a, _ := strOf(r.args[1])
				b, _ := strOf(r.args[3])
				s, d = m.abs(r.args[0], a), m.abs(r.args[2], b)
			}
			if !m.isData(s) && !m.isData(d) {
				continue
			}
			if failed {
				if r.errno == "EEXIST" {
					m.nLinkEEXIST++
				}
				continue
			}
			in, ok := m.dir[s]
			if !ok {
				return fmt.Errorf("link(%s, %s): source unknown to the harness", s, d)
			}
			if _, ok := m.dir[d]; ok {
				return fmt.Errorf("link(%s, %s) succeeded but the harness believes the destination exists", s, d)
			}
			m.dir[d] = in
			m.emit("Link", "s", m.nameID(s), "d", m.nameID(d))
			m.nLink++
		case "unlink", "unlinkat":
			var p string
			if r.name == "unlink" {
				a, _ := strOf(r.args[0])
				p = m.abs("", a)
			} else {
				if len(r.args) < 2 {
					continue
				}
				a, _ := strOf(r.args[1])
				p = m.abs(r.args[0], a)
			}
			if !m.isData(p) || failed {
				continue
			}
			if _, ok := m.dir[p]; !ok {
				continue // a directory or something the harness never saw: not a data file
			}
			delete(m.dir, p)
			m.emit("Unlink", "n", m.nameID(p))
			m.nUnlink++
		case "rename", "renameat", "renameat2":
			var s, d string
			if r.name == "rename" {
				a, _ := strOf(r.args[0])
				b, _ := strOf(r.args[1])
				s, d = m.abs("", a), m.abs("", b)
			} else {
				if len(r.args) < 4 {
					continue
				}
				a, _ := strOf(r.args[1])
				b, _ := strOf(r.args[3])
				s, d = m.abs(r.args[0], a), m.abs(r.args[2], b)
			}
			if failed || (!m.isData(s) && !m.isData(d)) {
				continue
			}
			in, ok := m.dir[s]
			if !ok {
				continue
			}
			delete(m.dir, s)
			m.dir[d] = in
			m.emit("Rename", "s", m.nameID(s), "d", m.nameID(d))
		}
	}
	return nil
}

func min(a, b int) int {
	if a < b {
		return a
	}
	return b
}
