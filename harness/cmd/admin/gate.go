package main

// C17: the identity / CIDR gate of nsqadmin, replayed row by row from the table TLC enumerated out
// of Admin.tla, against the real nsqadmin (in-process) in front of recording stub upstreams.

import (
	"bufio"
	"bytes"
	"encoding/json"
	"flag"
	"fmt"
	"io"
	"math/rand"
	"net"
	"net/http"
	"net/http/httptest"
	"net/url"
	"os"
	"sort"
	"strings"
	"sync"
	"time"

	"github.com/nsqio/nsq/nsqadmin"
	"github.com/nsqio/nsq/verifharness/hlib"
)

func init() {
	subcmds["gate-replay"] = gateReplay
	subcmds["gate-trace"] = gateTrace
}

type GateCfg struct {
	Fam    string   `json:"fam"`
	Admins []string `json:"admins"`
	Header string   `json:"header"`
	Mode   string   `json:"mode"`
	Cidr   string   `json:"cidr"`
	Bad    string   `json:"bad"`
	Lk0    []string `json:"lk0"`
}

type GateReq struct {
	Route   string `json:"route"`
	Method  string `json:"method"`
	Hname   string `json:"hname"`
	Hval    string `json:"hval"`
	Topic   string `json:"topic"`
	Channel string `json:"channel"`
	Action  string `json:"action"`
	Body    string `json:"body"`
	Node    string `json:"node"`
	Opt     string `json:"opt"`
	Src     string `json:"src"`
	Put     string `json:"put"`
}

type GateRow struct {
	Cfg      GateCfg  `json:"cfg"`
	Lk       []string `json:"lk"`
	LkPost   []string `json:"lkPost"`
	Req      GateReq  `json:"req"`
	Status   int      `json:"status"`
	Warn     bool     `json:"warn"`
	Ups      []UpReq  `json:"ups"`
	Admin    bool     `json:"admin"`
	Mut      bool     `json:"mut"`
	Relevant []UpReq  `json:"relevant"`
}

type GateObs struct {
	Status int      `json:"status"`
	Warn   bool     `json:"warn"`
	Ups    []UpReq  `json:"ups"`
	LkPost []string `json:"lk_post,omitempty"`
	Body   string   `json:"body,omitempty"`
	Via    string   `json:"via"`
}

type GateFinding struct {
	Kind string   `json:"kind"` // violation | drift
	Key  string   `json:"key"`
	What string   `json:"what"`
	Row  *GateRow `json:"row"`
	Obs  *GateObs `json:"observed"`
}

type nullLogger struct{}

func (nullLogger) Output(int, string) error { return nil }

// gateEnv: one real nsqadmin with its stub upstreams, for one configuration.
type gateEnv struct {
	cfg    GateCfg
	cell   *Cell
	admin  *nsqadmin.NSQAdmin
	direct http.Handler
	port   int
	conns  map[string]*rawConn
	curLk  []string
	fwd    string // forwarding headers to add to the next request
}

// inCidrAddr: an address inside each allowed CIDR (used to put nsqadmin into a row's pre-state and
// to read its state back through the real /config handler)
var inCidrAddr = map[string]string{"": "127.0.0.1", "127.0.0.1/8": "127.0.0.1", "127.0.0.1/32": "127.0.0.1",
	"10.0.0.0/8": "10.0.0.1", "192.0.2.0/30": "192.0.2.1", "0.0.0.0/0": "1.2.3.4", "::1/128": "::1", "fd00::/8": "fd00::1"}

// nameSfx: appended to every topic and channel name of a replay pass ("" or "#ephemeral": the same table over names that
// carry the one character of a valid name that means something in a URL)
var nameSfx string

// dnIdents: identities are spelt the way a directory or a client certificate spells them -- "alice" is "CN=alice,OU=eng",
// "mallory" is "OU=eng" (a piece of alice's name) -- in the admin list and in the requests alike
var dnIdents bool

func idv(s string) string {
	if !dnIdents {
		return s
	}
	s = strings.ReplaceAll(s, "alice", "CN=alice,OU=eng")
	return strings.ReplaceAll(s, "mallory", "OU=eng")
}

func cn(s string) string {
	if s == "" {
		return s
	}
	return s + nameSfx
}

func c17Cluster(bad string) *Cluster {
	one := func(x int64) ChanC { return ChanC{Depth: Pair{0, x}, MessageCount: Pair{0, x}, Clients: []string{}} }
	tp := func() TopicC {
		return TopicC{Depth: Pair{0, 1}, MessageCount: Pair{0, 2}, Channels: ChanMap{cn("c1"): one(1)}}
	}
	t1, t2, t3 := cn("t1"), cn("t2"), cn("t3")
	return &Cluster{Mode: "lookupd", L: []string{"L1", "L2"}, N: []string{"N1", "N2", "N3"},
		Nsqd: NsqdMap{
			"N1": {Ver: "1.3.0", Topics: TopicMap{t1: tp()}},
			"N2": {Ver: "1.3.0", Topics: TopicMap{t1: tp(), t2: tp()}},
			"N3": {Ver: "1.3.0", Topics: TopicMap{t3: tp()}}},
		Lookupd: LookupdMap{
			"L1": {Topics: []string{t1}, Nodes: LNodeMap{"N1": {Topics: []string{t1}}}},
			"L2": {Topics: []string{t1, t2}, Nodes: LNodeMap{"N1": {Topics: []string{t1}}, "N2": {Topics: []string{t1, t2}}}}},
		Fail: StrMap{}, BadPost: bad}
}

// checkSpecCluster: the stub cluster above must be the one Admin.tla talks about
func checkSpecCluster(raw []byte) error {
	var sc struct {
		Produces   map[string][]string            `json:"produces"`
		Registered map[string][]string            `json:"registered"`
		Known      map[string]map[string][]string `json:"known"`
	}
	if err := json.Unmarshal(raw, &sc); err != nil {
		return err
	}
	cl := c17Cluster("")
	for n, d := range cl.Nsqd {
		var ts []string
		for t := range d.Topics {
			ts = append(ts, t)
		}
		if strings.Join(sorted(ts), ",") != strings.Join(sorted(sc.Produces[n]), ",") {
			return fmt.Errorf("stub cluster differs from Admin.tla: Produces[%s]", n)
		}
	}
	for l, d := range cl.Lookupd {
		if strings.Join(sorted(d.Topics), ",") != strings.Join(sorted(sc.Registered[l]), ",") {
			return fmt.Errorf("stub cluster differs from Admin.tla: Registered[%s]", l)
		}
		for t, ns := range sc.Known[l] {
			var got []string
			for n, nd := range d.Nodes {
				if has(nd.Topics, t) {
					got = append(got, n)
				}
			}
			if strings.Join(sorted(got), ",") != strings.Join(sorted(ns), ",") {
				return fmt.Errorf("stub cluster differs from Admin.tla: KnownProd(%s,%s)", l, t)
			}
		}
	}
	return nil
}

func newGateEnv(cfg GateCfg) (*gateEnv, error) {
	cell, err := newCell()
	if err != nil {
		return nil, err
	}
	cell.set(c17Cluster(cfg.Bad))
	opts := nsqadmin.NewOptions()
	opts.Logger = nullLogger{}
	opts.HTTPAddress = ":0"
	opts.AdminUsers = nil
	for _, a := range cfg.Admins {
		opts.AdminUsers = append(opts.AdminUsers, idv(a))
	}
	opts.ACLHTTPHeader = cfg.Header
	opts.AllowConfigFromCIDR = cfg.Cidr
	opts.HTTPClientConnectTimeout = 20 * time.Second
	opts.HTTPClientRequestTimeout = 50 * time.Second
	if cfg.Mode == "lookupd" {
		for _, l := range sorted(cfg.Lk0) {
			opts.NSQLookupdHTTPAddresses = append(opts.NSQLookupdHTTPAddresses, cell.stubAddr(l))
		}
		if len(cfg.Lk0) == 0 {
			// cannot be started like this: started with L1, emptied through the real /config below
			opts.NSQLookupdHTTPAddresses = []string{cell.stubAddr("L1")}
		}
	} else {
		for _, n := range []string{"N1", "N2", "N3"} {
			opts.NSQDHTTPAddresses = append(opts.NSQDHTTPAddresses, cell.stubAddr(n))
		}
	}
	n, err := nsqadmin.New(opts)
	if err != nil {
		cell.Close()
		return nil, err
	}
	go n.Main()
	e := &gateEnv{cfg: cfg, cell: cell, admin: n, direct: nsqadmin.NewHTTPServer(n), port: n.RealHTTPAddr().Port,
		conns: map[string]*rawConn{}, curLk: sorted(cfg.Lk0)}
	if cfg.Mode == "lookupd" && len(cfg.Lk0) == 0 {
		if err := e.setLk(nil); err != nil {
			e.Close()
			return nil, err
		}
	}
	// somebody has looked at the pages before, when N2 did not produce t1 yet: whatever nsqadmin learnt then, an action
	// goes to the nsqd that produce the topic NOW
	early := c17Cluster(cfg.Bad)
	l2 := early.Lookupd["L2"]
	l2.Nodes = LNodeMap{"N1": {Topics: []string{cn("t1")}}, "N2": {Topics: []string{cn("t2")}}}
	early.Lookupd["L2"] = l2
	n2 := early.Nsqd["N2"]
	n2.Topics = TopicMap{cn("t2"): n2.Topics[cn("t2")]}
	early.Nsqd["N2"] = n2
	cell.set(early)
	hc := &http.Client{Timeout: 20 * time.Second}
	for _, p := range []string{"/api/topics/" + url.PathEscape(cn("t1")), "/api/topics/" + url.PathEscape(cn("t1")) + "/" + url.PathEscape(cn("c1")), "/api/nodes"} {
		if resp, err := hc.Get(fmt.Sprintf("http://127.0.0.1:%d%s", e.port, p)); err == nil {
			io.Copy(io.Discard, resp.Body)
			resp.Body.Close()
		}
	}
	cell.set(c17Cluster(cfg.Bad))
	cell.takeLog()
	return e, nil
}

func (e *gateEnv) Close() {
	for _, c := range e.conns {
		c.c.Close()
	}
	e.admin.Exit()
	e.cell.Close()
}

type rawConn struct {
	c  net.Conn
	rd *bufio.Reader
}

// canBind: source addresses that exist on this machine get a real socket; the others are delivered to
// the real handler with RemoteAddr set (net/http fills RemoteAddr from the socket peer address).
func dialFrom(src string, port int) (net.Conn, error) {
	ip := net.ParseIP(src)
	if ip == nil {
		return nil, fmt.Errorf("not an ip")
	}
	var dst string
	switch {
	case ip.To4() != nil && ip.IsLoopback():
		dst = fmt.Sprintf("127.0.0.1:%d", port)
	case ip.To4() != nil:
		dst = fmt.Sprintf("%s:%d", src, port)
	default:
		dst = fmt.Sprintf("[%s]:%d", src, port)
	}
	d := net.Dialer{LocalAddr: &net.TCPAddr{IP: ip}, Timeout: 20 * time.Second}
	return d.Dial("tcp", dst)
}

type wireReq struct {
	method, path, body string
	hname, hval        string
	hasHdr             bool
	fwd                string // non-empty: the request also carries forwarding headers naming this address as its origin
}

// forwarding headers a proxy (or anybody) can put on a request; the /config gate is about the peer address of the
// connection, whatever the request says about itself
func fwdHeaders(addr string) [][2]string {
	return [][2]string{{"X-Forwarded-For", addr + ", 203.0.113.7"}, {"X-Real-Ip", addr}, {"Forwarded", "for=\"" + addr + "\""},
		{"X-Client-Ip", addr}, {"True-Client-Ip", addr}}
}

// an address whose membership in the allowed CIDR is the opposite of src's
func otherSide(cidr, src string) string {
	_, n, err := net.ParseCIDR(cidr)
	ip := net.ParseIP(src)
	if err != nil || ip == nil {
		return ""
	}
	in := n.Contains(ip)
	for _, c := range []string{"127.0.0.1", "10.1.2.3", "192.0.2.2", "::1", "fd00::2", "127.200.1.9", "198.51.100.9"} {
		if o := net.ParseIP(c); o != nil && n.Contains(o) != in {
			return c
		}
	}
	return ""
}

func (e *gateEnv) viaSocket(src string, w wireReq) (int, []byte, error) {
	for attempt := 0; ; attempt++ {
		rc := e.conns[src]
		if rc == nil {
			c, err := dialFrom(src, e.port)
			if err != nil {
				return 0, nil, err
			}
			rc = &rawConn{c: c, rd: bufio.NewReader(c)}
			e.conns[src] = rc
		}
		var b bytes.Buffer
		fmt.Fprintf(&b, "%s %s HTTP/1.1\r\nHost: nsqadmin\r\n", w.method, w.path)
		if w.hasHdr {
			fmt.Fprintf(&b, "%s: %s\r\n", w.hname, w.hval)
		}
		if w.fwd != "" {
			for _, h := range fwdHeaders(w.fwd) {
				fmt.Fprintf(&b, "%s: %s\r\n", h[0], h[1])
			}
		}
		if w.body != "" || w.method == "POST" || w.method == "PUT" || w.method == "DELETE" {
			fmt.Fprintf(&b, "Content-Length: %d\r\n", len(w.body))
		}
		b.WriteString("\r\n")
		b.WriteString(w.body)
		rc.c.SetDeadline(time.Now().Add(120 * time.Second))
		_, err := rc.c.Write(b.Bytes())
		var resp *http.Response
		if err == nil {
			resp, err = http.ReadResponse(rc.rd, &http.Request{Method: w.method})
		}
		if err != nil {
			rc.c.Close()
			delete(e.conns, src)
			if attempt < 1 {
				continue // a kept-alive connection may have been closed by the server
			}
			return 0, nil, err
		}
		body, _ := io.ReadAll(resp.Body)
		resp.Body.Close()
		if resp.Close {
			rc.c.Close()
			delete(e.conns, src)
		}
		return resp.StatusCode, body, nil
	}
}

func (e *gateEnv) viaHandler(remoteAddr string, w wireReq) (int, []byte) {
	req := httptest.NewRequest(w.method, w.path, strings.NewReader(w.body))
	req.RemoteAddr = remoteAddr
	if w.hasHdr {
		// what net/http would hand to the handler: canonical key, value without surrounding whitespace
		req.Header[http.CanonicalHeaderKey(w.hname)] = []string{strings.Trim(w.hval, " \t")}
	}
	if w.fwd != "" {
		for _, h := range fwdHeaders(w.fwd) {
			req.Header[h[0]] = []string{h[1]}
		}
	}
	rec := httptest.NewRecorder()
	e.direct.ServeHTTP(rec, req)
	return rec.Code, rec.Body.Bytes()
}

func remoteFor(src string) string {
	if src == "noport" {
		return "noport"
	}
	if strings.Contains(src, ":") {
		return "[" + src + "]:4242"
	}
	return src + ":4242"
}

func (e *gateEnv) readLk() ([]string, error) {
	code, body := e.viaHandler(remoteFor(inCidrAddr[e.cfg.Cidr]), wireReq{method: "GET", path: "/config/nsqlookupd_http_addresses"})
	if code != 200 {
		return nil, fmt.Errorf("cannot read nsqlookupd_http_addresses: %d %s", code, body)
	}
	var addrs []string
	if err := json.Unmarshal(body, &addrs); err != nil {
		return nil, err
	}
	var names []string
	for _, a := range addrs {
		names = append(names, e.cell.nameOfAddr(a))
	}
	return sorted(names), nil
}

func (e *gateEnv) lkBody(names []string) string {
	addrs := []string{}
	for _, l := range sorted(names) {
		addrs = append(addrs, e.cell.stubAddr(l))
	}
	b, _ := json.Marshal(addrs)
	return string(b)
}

func (e *gateEnv) setLk(names []string) error {
	code, body := e.viaHandler(remoteFor(inCidrAddr[e.cfg.Cidr]),
		wireReq{method: "PUT", path: "/config/nsqlookupd_http_addresses", body: e.lkBody(names)})
	if code != 200 {
		return fmt.Errorf("cannot set nsqlookupd_http_addresses: %d %s", code, body)
	}
	got, err := e.readLk()
	if err != nil {
		return err
	}
	if strings.Join(got, ",") != strings.Join(sorted(names), ",") {
		return fmt.Errorf("nsqlookupd_http_addresses not applied: %v", got)
	}
	e.curLk = sorted(names)
	return nil
}

func (e *gateEnv) wire(r GateReq) wireReq {
	w := wireReq{method: r.Method}
	jb := func(v interface{}) string { b, _ := json.Marshal(v); return string(b) }
	switch r.Route {
	case "topics":
		w.path = "/api/topics"
		w.body = jb(map[string]string{"topic": cn(r.Topic), "channel": cn(r.Channel)})
	case "topic":
		w.path = "/api/topics/" + url.PathEscape(cn(r.Topic))
		w.body = jb(map[string]string{"action": r.Action})
	case "channel":
		w.path = "/api/topics/" + url.PathEscape(cn(r.Topic)) + "/" + url.PathEscape(cn(r.Channel))
		w.body = jb(map[string]string{"action": r.Action})
	case "nodes":
		w.path = "/api/nodes"
	case "node":
		addr := e.cell.deadAddr()
		if r.Node != "DEAD" {
			addr = e.cell.stubAddr(r.Node)
		}
		w.path = "/api/nodes/" + addr
		w.body = jb(map[string]string{"topic": cn(r.Topic)})
	case "counter":
		w.path = "/api/counter"
	case "ping":
		w.path = "/ping"
	case "index":
		w.path = "/"
	case "bogus":
		w.path = "/api/bogus"
		w.body = jb(map[string]string{"action": r.Action})
	case "config":
		w.path = "/config/" + r.Opt
		switch r.Put {
		case "L1":
			w.body = e.lkBody([]string{"L1"})
		case "L1L2":
			w.body = e.lkBody([]string{"L1", "L2"})
		case "none":
			w.body = "[]"
		case "badjson":
			w.body = "["
		case "empty":
			w.body = ""
		default:
			w.body = r.Put
		}
	}
	if r.Method == "GET" || r.Body == "" && r.Route != "config" {
		w.body = ""
	}
	if r.Body == "badjson" {
		w.body = `{"topic":`
	}
	if r.Hname != "none" {
		w.hasHdr, w.hname, w.hval = true, r.Hname, idv(r.Hval)
	}
	return w
}

func (e *gateEnv) exec(row *GateRow) (*GateObs, error) {
	if row.Cfg.Fam == "config" {
		if strings.Join(e.curLk, ",") != strings.Join(sorted(row.Lk), ",") {
			if err := e.setLk(row.Lk); err != nil {
				return nil, err
			}
		}
	}
	w := e.wire(row.Req)
	w.fwd = e.fwd
	e.cell.takeLog()
	obs := &GateObs{}
	src := row.Req.Src
	if src == "" {
		src = "127.0.0.1"
	}
	var code int
	var body []byte
	sent := false
	if src != "noport" {
		if ip := net.ParseIP(src); ip != nil && !strings.HasPrefix(src, "::ffff:") {
			c, b, err := e.viaSocket(src, w)
			if err == nil {
				code, body, sent = c, b, true
				obs.Via = "socket"
			} else if row.Req.Route != "config" {
				return nil, err
			}
		}
	}
	if !sent {
		code, body = e.viaHandler(remoteFor(src), w)
		obs.Via = "handler"
	}
	obs.Status = code
	obs.Ups = e.cell.takeLog()
	if len(body) < 400 {
		obs.Body = string(body)
	}
	var msg struct {
		Message string `json:"message"`
	}
	if code == 200 && json.Unmarshal(body, &msg) == nil {
		obs.Warn = msg.Message != ""
	}
	if row.Cfg.Fam == "config" {
		lk, err := e.readLk()
		if err != nil {
			return nil, err
		}
		obs.LkPost = lk
		e.curLk = lk
		e.cell.takeLog()
	}
	return obs, nil
}

func upKey(u UpReq) string {
	return u.To + " " + u.M + " " + u.Path + " t=" + u.Topic + " c=" + u.Channel + " n=" + u.Node
}

// expKey: the key of an upstream request the table expects, under this pass's names
func expKey(u UpReq) string {
	u.Topic, u.Channel = cn(u.Topic), cn(u.Channel)
	return upKey(u)
}

func upSet(us []UpReq, method string) (map[string]int, []string) {
	m := map[string]int{}
	for _, u := range us {
		if u.M == method && u.To != "DEAD" {
			m[upKey(u)]++
		}
	}
	var ks []string
	for k := range m {
		ks = append(ks, k)
	}
	sort.Strings(ks)
	return m, ks
}

var readRoutes = map[string]bool{"topics": true, "topic": true, "channel": true, "nodes": true, "node": true,
	"counter": true, "ping": true, "index": true}

// judge: property-level predicates of C17 -> violation; any other difference from the row -> drift
func judge(row *GateRow, obs *GateObs) *GateFinding {
	r := row.Req
	obsPosts, obsPostKeys := upSet(obs.Ups, "POST")
	mk := func(kind, key, what string) *GateFinding {
		return &GateFinding{Kind: kind, Key: key, What: what, Row: row, Obs: obs}
	}
	id := r.Route + ":" + r.Method
	if r.Action != "" && r.Route != "bogus" {
		id += ":" + r.Action
	}
	switch {
	case row.Mut && !row.Admin:
		if obs.Status != 403 {
			return mk("violation", "nonadmin-not-refused:"+id, fmt.Sprintf("state-changing %s without an admin identity answered %d, not 403", id, obs.Status))
		}
		if len(obs.Ups) != 0 {
			return mk("violation", "forbidden-not-silent:"+id, fmt.Sprintf("403 answer to %s still caused upstream requests %v", id, obs.Ups))
		}
	case row.Mut && row.Admin:
		if obs.Status == 403 {
			return mk("violation", "admin-refused:"+id, "request with an admin identity (or no admin list) answered 403")
		}
		if row.Status == 200 {
			var missing []string
			for _, u := range row.Relevant {
				if u.To != "DEAD" && obsPosts[expKey(u)] == 0 {
					missing = append(missing, expKey(u))
				}
			}
			if len(missing) > 0 {
				return mk("violation", "forward-missing:"+id, fmt.Sprintf("admin action %s did not reach %v (answer %d)", id, missing, obs.Status))
			}
		}
	default:
		if len(obsPostKeys) > 0 && !row.Admin {
			return mk("violation", "unauthorized-upstream-post:"+id, fmt.Sprintf("request without admin identity caused upstream POSTs %v", obsPostKeys))
		}
		if readRoutes[r.Route] && r.Method == "GET" && obs.Status == 403 {
			return mk("violation", "readonly-refused:"+id, "read-only view answered 403")
		}
		if r.Route == "config" && (r.Method == "GET" || r.Method == "PUT") && r.Src != "noport" {
			if (obs.Status == 403) != (row.Status == 403) {
				return mk("violation", "config-cidr:"+row.Cfg.Cidr+":"+r.Src,
					fmt.Sprintf("/config %s from %s with allowed CIDR %q answered %d, expected %d", r.Method, r.Src, row.Cfg.Cidr, obs.Status, row.Status))
			}
			if row.Status == 403 && strings.Join(obs.LkPost, ",") != strings.Join(sorted(row.Lk), ",") {
				return mk("violation", "config-changed-when-forbidden:"+row.Cfg.Cidr+":"+r.Src, "a refused /config PUT changed the configuration")
			}
		}
	}
	// conformance with the implementation-shaped table
	var diffs []string
	if obs.Status != row.Status {
		diffs = append(diffs, fmt.Sprintf("status %d, table says %d", obs.Status, row.Status))
	}
	for _, m := range []string{"POST", "GET"} {
		if readRoutes[r.Route] && r.Method == "GET" && m == "GET" {
			continue // what a read-only view fetches is C18's business
		}
		em, eks := upSet(row.Ups, m)
		om, oks := upSet(obs.Ups, m)
		if strings.Join(eks, ";") != strings.Join(oks, ";") {
			diffs = append(diffs, fmt.Sprintf("upstream %s set %v, table says %v", m, oks, eks))
		} else {
			for k, c := range om {
				if c != em[k] {
					diffs = append(diffs, fmt.Sprintf("upstream request %s made %d times", k, c))
				}
			}
		}
	}
	if obs.Status == 200 && row.Status == 200 && row.Mut && obs.Warn != row.Warn {
		diffs = append(diffs, fmt.Sprintf("warning %v, table says %v", obs.Warn, row.Warn))
	}
	if row.Cfg.Fam == "config" && strings.Join(obs.LkPost, ",") != strings.Join(sorted(row.LkPost), ",") {
		diffs = append(diffs, fmt.Sprintf("lookupd list afterwards %v, table says %v", obs.LkPost, row.LkPost))
	}
	if len(diffs) > 0 {
		return mk("drift", "drift:"+id, strings.Join(diffs, "; "))
	}
	return nil
}

type GateReport struct {
	Rows        int            `json:"rows"`
	Executed    int            `json:"executed"`
	Forwarded   int            `json:"forwarded_variants"` // /config rows repeated with forwarding headers naming the other side of the CIDR
	Nontrivial  int            `json:"nontrivial"`
	Configs     int            `json:"configs"`
	ViaSocket   int            `json:"via_socket"`
	ViaHandler  int            `json:"via_handler"`
	ByStatus    map[string]int `json:"by_status"`
	Violations  []*GateFinding `json:"violations"`
	Drift       []*GateFinding `json:"drift"`
	DriftCount  int            `json:"drift_count"`
	Samples     []interface{}  `json:"samples"`
	Error       string         `json:"error,omitempty"`
	UpstreamReq int            `json:"upstream_requests"`
}

func gateReplay(args []string) int {
	fs := flag.NewFlagSet("gate-replay", flag.ExitOnError)
	tlcOut := fs.String("tlc-out", "", "TLC log with ROW lines")
	report := fs.String("report", "", "report file")
	par := fs.Int("parallel", 8, "configurations run in parallel")
	only := fs.String("only", "", "replay file: run only the row stored there")
	sfx := fs.String("name-suffix", "", "appended to every topic and channel name (cluster, requests, expectations)")
	mutOnly := fs.Bool("mut-only", false, "only the rows of state-changing requests")
	dn := fs.Bool("dn-identities", false, "identities spelt as distinguished names (with commas)")
	fs.Parse(args)
	nameSfx = *sfx
	dnIdents = *dn
	rep := &GateReport{ByStatus: map[string]int{}}
	fail := func(err error) int {
		rep.Error = err.Error()
		hlib.WriteJSON(*report, rep)
		fmt.Fprintln(os.Stderr, err)
		return 2
	}
	groups := map[string][]*GateRow{}
	seen := map[string]bool{}
	if *only != "" {
		b, err := os.ReadFile(*only)
		if err != nil {
			return fail(err)
		}
		var f struct {
			Row *GateRow `json:"row"`
		}
		if err := json.Unmarshal(b, &f); err != nil || f.Row == nil {
			return fail(fmt.Errorf("no row in %s", *only))
		}
		k, _ := json.Marshal(f.Row.Cfg)
		groups[string(k)] = []*GateRow{f.Row}
		rep.Rows = 1
	} else {
		gotCluster := false
		if err := readTagged(*tlcOut, "CLUSTER", func(raw []byte) error {
			gotCluster = true
			if nameSfx != "" {
				return nil
			}
			return checkSpecCluster(raw)
		}); err != nil {
			return fail(err)
		}
		if !gotCluster {
			return fail(fmt.Errorf("no CLUSTER line in %s", *tlcOut))
		}
		err := readTagged(*tlcOut, "ROW", func(raw []byte) error {
			if seen[string(raw)] {
				return nil
			}
			seen[string(raw)] = true
			row := &GateRow{}
			if err := json.Unmarshal(raw, row); err != nil {
				return err
			}
			if *mutOnly && !row.Mut {
				return nil
			}
			k, _ := json.Marshal(row.Cfg)
			groups[string(k)] = append(groups[string(k)], row)
			rep.Rows++
			return nil
		})
		if err != nil {
			return fail(err)
		}
	}
	if rep.Rows == 0 {
		return fail(fmt.Errorf("no rows"))
	}
	rep.Configs = len(groups)
	var mu sync.Mutex
	var wg sync.WaitGroup
	sem := make(chan struct{}, *par)
	var firstErr error
	nsA, nsB, nsC := 0, 0, 0
	for _, rows := range groups {
		rows := rows
		// keep rows with the same pre-state together
		sort.SliceStable(rows, func(i, j int) bool {
			return strings.Join(sorted(rows[i].Lk), ",") < strings.Join(sorted(rows[j].Lk), ",")
		})
		wg.Add(1)
		sem <- struct{}{}
		go func() {
			defer wg.Done()
			defer func() { <-sem }()
			env, err := newGateEnv(rows[0].Cfg)
			if err != nil {
				mu.Lock()
				firstErr = err
				mu.Unlock()
				return
			}
			defer env.Close()
			for i, row := range rows {
				obs, err := env.exec(row)
				if err != nil {
					mu.Lock()
					firstErr = fmt.Errorf("row %+v: %v", row.Req, err)
					mu.Unlock()
					return
				}
				f := judge(row, obs)
				if f != nil {
					// reproduce before reporting
					time.Sleep(50 * time.Millisecond)
					obs2, err := env.exec(row)
					if err == nil {
						f = judge(row, obs2)
						obs = obs2
					}
				}
				// the same /config request once more, this time claiming (in every forwarding header there is) to come
				// from the other side of the allowed CIDR: the answer is the row's, the gate looks at the connection
				if f == nil && row.Req.Route == "config" && (row.Req.Method == "GET" || row.Req.Method == "PUT") && row.Cfg.Cidr != "" {
					if o := otherSide(row.Cfg.Cidr, row.Req.Src); o != "" {
						env.fwd = o
						obs3, err := env.exec(row)
						env.fwd = ""
						if err == nil {
							if f3 := judge(row, obs3); f3 != nil {
								f3.What = "with forwarding headers (X-Forwarded-For, X-Real-Ip, Forwarded, ...) naming " + o + " as origin: " + f3.What
								f3.Key = "forwarded:" + f3.Key
								f, obs = f3, obs3
							}
							mu.Lock()
							rep.Forwarded++
							mu.Unlock()
						}
					}
				}
				mu.Lock()
				rep.Executed++
				rep.UpstreamReq += len(obs.Ups)
				if row.Mut || row.Req.Route == "config" {
					rep.Nontrivial++
				}
				if obs.Via == "socket" {
					rep.ViaSocket++
				} else {
					rep.ViaHandler++
				}
				rep.ByStatus[fmt.Sprint(obs.Status)]++
				if f != nil {
					if f.Kind == "violation" {
						if len(rep.Violations) < 200 {
							rep.Violations = append(rep.Violations, f)
						}
					} else {
						rep.DriftCount++
						if len(rep.Drift) < 40 {
							rep.Drift = append(rep.Drift, f)
						}
					}
				}
				interesting := (row.Mut && row.Admin && len(obs.Ups) > 1 && nsA < 4) || (row.Mut && !row.Admin && row.Req.Hval != "" && nsB < 3) ||
					(row.Req.Route == "config" && row.Req.Method == "PUT" && obs.Status != 405 && nsC < 3)
				if interesting && i%7 == 3 && len(rep.Samples) < 12 {
					switch {
					case row.Req.Route == "config":
						nsC++
					case row.Admin:
						nsA++
					default:
						nsB++
					}
					rep.Samples = append(rep.Samples, map[string]interface{}{"cfg": row.Cfg, "lk": row.Lk, "req": row.Req,
						"table":    map[string]interface{}{"status": row.Status, "ups": row.Ups},
						"observed": obs})
				}
				mu.Unlock()
			}
		}()
	}
	wg.Wait()
	if firstErr != nil {
		return fail(firstErr)
	}
	if err := hlib.WriteJSON(*report, rep); err != nil {
		fmt.Fprintln(os.Stderr, err)
		return 2
	}
	if len(rep.Violations) > 0 {
		return 1
	}
	return 0
}

// ---------------------------------------------------------------------------------------------
// binding B: seeded random requests, every real request/response recorded as trace events

func gateTrace(args []string) int {
	fs := flag.NewFlagSet("gate-trace", flag.ExitOnError)
	seed := fs.Int64("seed", 1, "seed")
	n := fs.Int("n", 2000, "requests")
	out := fs.String("out", "", "ndjson trace")
	report := fs.String("report", "", "report")
	fs.Parse(args)
	rng := rand.New(rand.NewSource(*seed))
	w, err := hlib.NewNDJSON(*out)
	if err != nil {
		fmt.Fprintln(os.Stderr, err)
		return 2
	}
	defer w.Close()
	rep := map[string]interface{}{}
	names := []string{"alice", "bob", "Zoë", "root", "a", "admin-1", "x y"}
	headers := []string{"X-Forwarded-User", "X-Verif-Acl", "Remote-User", "x-lower-case-cfg"}
	cidrs := []string{"", "127.0.0.1/8", "127.0.0.1/32", "10.0.0.0/8", "192.0.2.0/30", "0.0.0.0/0", "::1/128", "fd00::/8"}
	srcs := []string{"127.0.0.1", "127.0.0.2", "127.200.1.9", "192.0.2.2", "10.1.2.3", "::ffff:127.0.0.1", "::1", "fd00::2", "noport"}
	mutate := func(s string) string {
		switch rng.Intn(9) {
		case 0:
			return strings.ToUpper(s)
		case 1:
			return s[:len(s)-1]
		case 2:
			return s + "x"
		case 3:
			return " " + s + "\t" // optional whitespace: the same field value
		case 4:
			return s + "," + names[rng.Intn(len(names))]
		case 5:
			return s + s
		case 6:
			return strings.Title(s)
		case 7:
			return "\"" + s + "\""
		}
		return s
	}
	flipCase := func(s string) string {
		b := []byte(s)
		for i := range b {
			if rng.Intn(2) == 0 {
				if b[i] >= 'a' && b[i] <= 'z' {
					b[i] -= 32
				} else if b[i] >= 'A' && b[i] <= 'Z' {
					b[i] += 32
				}
			}
		}
		return string(b)
	}
	total, traces, byStatus, admins, nonadmins := 0, 0, map[string]int{}, 0, 0
	var samples []interface{}
	perCfg := 100
	for total < *n {
		cfg := GateCfg{Fam: "gate", Mode: []string{"lookupd", "direct"}[rng.Intn(2)], Header: headers[rng.Intn(len(headers))],
			Cidr: cidrs[rng.Intn(len(cidrs))], Bad: "none"}
		for _, nm := range names {
			if rng.Intn(3) == 0 {
				cfg.Admins = append(cfg.Admins, nm)
			}
		}
		if cfg.Mode == "lookupd" {
			cfg.Lk0 = [][]string{{"L1", "L2"}, {"L1"}}[rng.Intn(2)]
		}
		env, err := newGateEnv(cfg)
		if err != nil {
			fmt.Fprintln(os.Stderr, err)
			return 2
		}
		w.Put(map[string]interface{}{"ev": "Cfg", "admins": append([]string{}, cfg.Admins...), "header": cfg.Header, "mode": cfg.Mode,
			"cidr": cfg.Cidr, "lk": append([]string{}, cfg.Lk0...)})
		traces++
		for i := 0; i < perCfg && total < *n; i++ {
			var r GateReq
			switch rng.Intn(10) {
			case 0:
				r = GateReq{Route: "topics", Method: "POST", Topic: []string{"t1", "t2", "t3", "t9"}[rng.Intn(4)], Channel: []string{"", "c1"}[rng.Intn(2)], Body: "ok"}
			case 1, 2:
				r = GateReq{Route: "topic", Method: "POST", Topic: []string{"t1", "t2", "t3"}[rng.Intn(3)], Action: []string{"pause", "unpause", "empty"}[rng.Intn(3)], Body: "ok"}
			case 3, 4:
				r = GateReq{Route: "channel", Method: "POST", Topic: []string{"t1", "t2", "t3"}[rng.Intn(3)], Channel: "c1", Action: []string{"pause", "unpause", "empty"}[rng.Intn(3)], Body: "ok"}
			case 5:
				r = GateReq{Route: "topic", Method: "DELETE", Topic: []string{"t1", "t2", "t3"}[rng.Intn(3)]}
			case 6:
				r = GateReq{Route: "channel", Method: "DELETE", Topic: []string{"t1", "t2", "t3"}[rng.Intn(3)], Channel: "c1"}
			case 7:
				r = GateReq{Route: "node", Method: "DELETE", Topic: []string{"t1", "t2"}[rng.Intn(2)], Node: []string{"N1", "N2", "DEAD"}[rng.Intn(3)], Body: "ok"}
			case 8:
				r = GateReq{Route: []string{"topics", "nodes", "counter", "ping", "index"}[rng.Intn(5)], Method: "GET"}
			case 9:
				r = GateReq{Route: "config", Method: []string{"GET", "PUT"}[rng.Intn(2)], Opt: "log_level", Put: "debug", Src: srcs[rng.Intn(len(srcs))]}
			}
			// identity
			r.Hname = "none"
			if rng.Intn(8) != 0 {
				switch rng.Intn(4) {
				case 0:
					r.Hname = headers[rng.Intn(len(headers))]
				case 1:
					r.Hname = flipCase(cfg.Header)
				default:
					r.Hname = cfg.Header
				}
				pool := names
				if len(cfg.Admins) > 0 && rng.Intn(3) != 0 {
					pool = cfg.Admins
				}
				r.Hval = pool[rng.Intn(len(pool))]
				if rng.Intn(2) == 0 {
					r.Hval = mutate(r.Hval)
				}
				if rng.Intn(15) == 0 {
					r.Hval = ""
				}
			}
			row := &GateRow{Cfg: cfg, Lk: cfg.Lk0, Req: r}
			obs, err := env.exec(row)
			if err != nil {
				env.Close()
				fmt.Fprintln(os.Stderr, err)
				return 2
			}
			// what the server sees: canonical header name, field value without optional whitespace
			hname, hval := r.Hname, strings.Trim(r.Hval, " \t")
			if strings.EqualFold(hname, cfg.Header) {
				hname = cfg.Header
			}
			w.Put(map[string]interface{}{"ev": "Req", "route": r.Route, "method": r.Method, "hname": hname, "hval": hval,
				"topic": r.Topic, "channel": r.Channel, "action": r.Action, "body": r.Body, "node": r.Node, "opt": r.Opt,
				"src": r.Src, "put": r.Put})
			for _, u := range obs.Ups {
				w.Put(map[string]interface{}{"ev": "Up", "to": u.To, "m": u.M, "path": u.Path, "topic": u.Topic, "channel": u.Channel, "node": u.Node})
			}
			w.Put(map[string]interface{}{"ev": "Resp", "status": obs.Status})
			total++
			byStatus[fmt.Sprint(obs.Status)]++
			if obs.Status == 403 {
				nonadmins++
			} else {
				admins++
			}
			if len(samples) < 6 && i%17 == 0 {
				samples = append(samples, map[string]interface{}{"cfg": cfg, "req": r, "observed": obs})
			}
		}
		env.Close()
	}
	rep["requests"] = total
	rep["traces"] = traces
	rep["by_status"] = byStatus
	rep["refused"] = nonadmins
	rep["samples"] = samples
	rep["events"] = w.N
	hlib.WriteJSON(*report, rep)
	return 0
}
