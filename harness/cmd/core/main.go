package main

import (
	"flag"
	"fmt"
	"os"
	"path/filepath"
	"strings"
	"sync/atomic"

	"github.com/nsqio/nsq/internal/verif"
	"github.com/nsqio/nsq/verifharness/hlib"
)

// usage: core drive --mode core --seed N --runs R --out trace.ndjson --report report.json --dir scratch
func main() {
	if len(os.Args) < 2 {
		fmt.Fprintln(os.Stderr, "usage: core <drive|...>")
		os.Exit(2)
	}
	switch os.Args[1] {
	case "drive":
		os.Exit(drive(os.Args[2:]))
	case "pairs":
		os.Exit(pairsMain(os.Args[2:]))
	case "tpairs":
		os.Exit(tpairsMain(os.Args[2:]))
	case "qscan":
		os.Exit(qscanMain(os.Args[2:]))
	case "delays":
		os.Exit(delaysMain(os.Args[2:]))
	case "meta":
		os.Exit(metaMain(os.Args[2:]))
	case "lookupsync":
		os.Exit(lookupsyncMain(os.Args[2:]))
	case "rawconv":
		os.Exit(rawconvMain(os.Args[2:]))
	case "pubsub":
		os.Exit(pubsubMain(os.Args[2:]))
	case "exitstorm":
		os.Exit(exitstormMain(os.Args[2:]))
	case "c08extra":
		os.Exit(c08Main(os.Args[2:]))
	}
	fmt.Fprintln(os.Stderr, "unknown subcommand")
	os.Exit(2)
}

type Report struct {
	Runs         []*RunResult   `json:"runs"`
	Traces       int            `json:"traces"`
	Events       int            `json:"events"`
	Fails        []string       `json:"fails"`
	Inconclusive []string       `json:"inconclusive"`
	Shapes       map[string]int `json:"shapes"`
	Samples      []interface{}  `json:"samples"`
}

var forcedVariant string

func drive(args []string) int {
	fs := flag.NewFlagSet("drive", flag.ExitOnError)
	mode := fs.String("mode", "core", "core|contend|flow|churn|bytes")
	seed := fs.Int64("seed", 1, "seed")
	runs := fs.Int("runs", 4, "number of scenarios")
	outdir := fs.String("outdir", ".", "directory for run-<i>.ndjson traces")
	first := fs.Int("first", 0, "index of the first scenario")
	rep := fs.String("report", "report.json", "report")
	dir := fs.String("dir", "", "scratch dir")
	variant := fs.String("variant", "", "restart mode: force one variant (genstall)")
	fs.Parse(args)
	forcedVariant = *variant
	if *dir == "" {
		d, _ := os.MkdirTemp("", "core-")
		*dir = d
		defer os.RemoveAll(d)
	}
	report := &Report{Shapes: map[string]int{}}
	for i := *first; i < *first+*runs; i++ {
		// progress + partial report: if the in-process daemon panics, the caller knows which scenario it was
		os.WriteFile(*rep+".progress", []byte(fmt.Sprint(i)), 0644)
		hlib.WriteJSON(*rep+".partial", report)
		sc := genScenario(*mode, *seed*1000+int64(i))
		d := filepath.Join(*dir, fmt.Sprintf("run%d", i))
		os.MkdirAll(d, 0755)
		var evs []verif.Event
		var res *RunResult
		if *mode == "restart" {
			sc = genScenario("core", *seed*1000+int64(i))
			sc.Mode = "restart"
			evs, res = restartScenario(sc, d)
		} else {
			evs, res = runScenarioCounted(sc, d)
		}
		os.RemoveAll(d)
		if kd := os.Getenv("VERIF_KEEP_RAW"); kd != "" && len(res.Fails) > 0 {
			if w, err := hlib.NewNDJSON(filepath.Join(kd, fmt.Sprintf("raw-%s-%d-%d.ndjson", *mode, *seed, i))); err == nil {
				for _, e := range evs {
					w.Put(e.Map())
				}
				w.Close()
			}
		}
		report.Runs = append(report.Runs, res)
		for _, f := range res.Fails {
			report.Fails = append(report.Fails, sc.String()+": "+f)
		}
		if res.Inconclusive != "" {
			report.Inconclusive = append(report.Inconclusive, sc.String()+": "+res.Inconclusive)
			continue // an incomplete run is not handed to TLC
		}
		if *mode == "restart" {
			// two lifetimes: the messages are judged by the ledger (NsqdAbs describes one lifetime); the shutdown of
			// the first lifetime is held against the close protocol (NsqdShutdownTrace)
			tf := filepath.Join(*outdir, fmt.Sprintf("run-%s-%d-%d.ndjson", *mode, *seed, i))
			if w, err := hlib.NewNDJSON(tf); err == nil {
				convertShutdown(evs, w)
				w.Close()
				res.Trace = tf
			}
			report.Traces++
			report.Events += len(evs)
			continue
		}
		tf := filepath.Join(*outdir, fmt.Sprintf("run-%s-%d-%d.ndjson", *mode, *seed, i))
		w, err := hlib.NewNDJSON(tf)
		if err != nil {
			fmt.Fprintln(os.Stderr, err)
			return 2
		}
		n := convertTrace(evs, w, report)
		w.Close()
		res.Trace = tf
		report.Events += n
		report.Traces++
	}
	hlib.WriteJSON(*rep, report)
	if len(report.Fails) > 0 {
		return 1
	}
	if report.Traces == 0 {
		return 2
	}
	return 0
}

// runScenarioCounted wraps runScenario with the activity counter (non-harness events).
func runScenarioCounted(sc Scenario, dir string) ([]verif.Event, *RunResult) {
	return runScenario(sc, dir)
}

func countingSink(store *[]verif.Event) func(verif.Event) {
	return func(e verif.Event) {
		if strings.HasPrefix(e.Ev, "QS") {
			// the queue-scan scheduler ticks whether or not anything moves: not activity, and only the end of each channel's
			// scan is part of these traces (NsqdAbs!AQSDone); the scheduler itself is validated in qscan.go
			if e.Ev == "QSDone" {
				*store = append(*store, e)
			}
			return
		}
		*store = append(*store, e)
		if !strings.HasPrefix(e.Ev, "H") {
			atomic.AddInt64(&evCount, 1)
		}
	}
}
