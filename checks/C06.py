"""C06 -- hard-kill consistency of persisted metadata (spec: NsqdMeta)."""
import json
import os

from vlib import Inconclusive

META = {
    "technique": "TLC model checking of NsqdMeta (persist protocol step by step, notify goroutines, HTTP handlers, Kill "
                 "enabled everywhere); a real nsqd binary as child process killed (SIGKILL) at every named point of the "
                 "write/delete protocol (k-th occurrence), at idle and at random instants during churn, with a concurrent "
                 "reader of nsqd.dat, then restarted (a failed start attempt in between, further kill / restart cycles after) and compared with the documents it had passed through; graceful exits with creations under way; NsqdPauseAck (simultaneous "
                 "identical pause requests) and NsqdDataLock (lock hand-over between daemons) model-checked with one refuted "
                 "shortcut each and bound by concurrent twin requests and a SIGTERM hand-over scenario on the real binary",
    "design_ref": "5/C06",
}

POINTS = ["persist.snapshot", "persist.tmpCreated", "persist.tmpWritten", "persist.tmpSynced", "persist.beforeRename",
          "persist.renamed", "notify.beforePersist", "chandelete.afterDelete", "topicdelete.afterDelete",
          "topicdelete.afterUnlink"]


def run(ctx):
    quick = ctx.quick
    ctx.model_check("NsqdMeta", "NsqdMeta_quick.cfg" if quick else "NsqdMeta_thorough.cfg", timeout=1800)
    # the as-found algorithm (deletion persisted only before the unlink) is kept as a config: TLC must still
    # find the stale-document behaviour there, otherwise the model has lost its teeth
    r = ctx.tlc("NsqdMeta", "NsqdMeta_asfound.cfg", timeout=600, label="as-found (expected: IdleFileEqualsLive violated)")
    if r.violated != "IdleFileEqualsLive":
        raise Inconclusive("NsqdMeta_asfound.cfg no longer exhibits the stale deletion (got %s)" % r.violated)
    # ... and a write protocol that moves the current file aside before renaming the new one in (two renames) must be
    # refuted: between them the data path has no metadata file
    r = ctx.tlc("NsqdMeta", "NsqdMeta_backupfirst.cfg", timeout=600, label="backup-first variant (expected: FileNeverVanishes violated)")
    if r.violated != "FileNeverVanishes":
        raise Inconclusive("NsqdMeta_backupfirst.cfg is not refuted (got %s)" % r.violated)
    # simultaneous identical pause requests (each answers only after its own write), and the data-path lock over the
    # lifetimes of several daemons (given back only once every goroutine has stopped); one refuted shortcut each
    # (both also proved with TLAPS for ANY number of handlers / daemons and any number of steps)
    ctx.tlaps("NsqdPauseAckProof", deps=["NsqdPauseAck"])
    ctx.tlaps("NsqdDataLockProof", deps=["NsqdDataLock"])
    ctx.model_check("NsqdPauseAck", "NsqdPauseAck_mc.cfg", timeout=300)
    r = ctx.tlc("NsqdPauseAck", "NsqdPauseAck_skip.cfg", timeout=300, label="skip-when-same variant (expected: AckedIsOnDisk violated)")
    if r.violated != "AckedIsOnDisk":
        raise Inconclusive("NsqdPauseAck_skip.cfg is not refuted (got %s)" % r.violated)
    ctx.model_check("NsqdDataLock", "NsqdDataLock_mc.cfg", timeout=300)
    r = ctx.tlc("NsqdDataLock", "NsqdDataLock_early.cfg", timeout=300, label="unlock-early variant (expected: OnlyTheOwnerWrites violated)")
    if r.violated not in ("OnlyTheOwnerWrites", "OneAlive"):
        raise Inconclusive("NsqdDataLock_early.cfg is not refuted (got %s)" % r.violated)
    nsqd = ctx.repo_bin("nsqd")
    cases = []
    seed = ctx.seed * 1000
    for p in POINTS:
        for n in ((1, 3, 6) if quick else (1, 2, 3, 4, 5, 6, 8, 11)):
            seed += 1
            cases.append({"kind": "crashpoint", "point": p, "nth": n, "seed": seed, "fails": []})
    for i in range(6 if quick else 60):
        seed += 1
        cases.append({"kind": "idle", "seed": seed, "fails": []})
    for i in range(4 if quick else 20):
        seed += 1
        cases.append({"kind": "idledelete", "seed": seed, "fails": []})
    # graceful exit (SIGTERM) with creations only just under way: the next daemon has everything the idle one had
    for i in range(10 if quick else 80):
        seed += 1
        cases.append({"kind": "idleterm", "seed": seed, "fails": []})
    for i in range(8 if quick else 150):
        seed += 1
        cases.append({"kind": "random", "seed": seed, "fails": []})
    for i in range(2 if quick else 6):
        cases.append({"kind": "gated-delete", "seed": i, "fails": []})
    # concurrent bursts (each goroutine on its own object): overlapping / coalesced / reordered persists
    for i in range(40 if quick else 300):
        seed += 1
        cases.append({"kind": "idleburst", "seed": seed, "fails": []})
    for i in range(60 if quick else 400):
        seed += 1
        cases.append({"kind": "ackburst", "seed": seed, "fails": []})
    for i in range(6 if quick else 30):
        seed += 1
        cases.append({"kind": "secondburst", "seed": seed, "fails": []})
    cases.append({"kind": "second", "seed": seed + 1, "fails": []})
    # ... and while the first one is on its way out (SIGTERM, its lookup loop held up by a mute nsqlookupd): a second nsqd
    # is admitted only after the first has stopped everything
    for i in range(3 if quick else 20):
        seed += 1
        cases.append({"kind": "handover", "seed": seed, "fails": []})
    cf = os.path.join(ctx.scratch, "meta-cases.json")
    json.dump(cases, open(cf, "w"))
    of = os.path.join(ctx.scratch, "meta-obs.json")
    d = os.path.join(ctx.scratch, "meta-data")
    os.makedirs(d, exist_ok=True)
    rc, out, err = ctx.run_harness(["meta", "--nsqd", nsqd, "--cases", cf, "--out", of, "--dir", d], name="core", timeout=3000)
    if rc != 0 or not os.path.exists(of):
        raise Inconclusive("meta harness failed: " + (out + err)[-2000:])
    obs = json.load(open(of))
    died = 0
    conclusive = 0
    kinds = set()
    for o in obs:
        if o.get("inconclusive"):
            ctx.notes.setdefault("inconclusive_cases", []).append("%s %s: %s" % (o["kind"], o.get("point", ""), o["inconclusive"][:200]))
            continue
        conclusive += 1
        died += 1 if o.get("died_at_point") else 0
        kinds.add((o["kind"], o.get("point", ""), bool(o.get("died_at_point"))))
        for f in o["fails"]:
            if f.startswith("[C10]"):
                print("OTHER-PROPERTY: " + f, flush=True)
                continue
            key = "idle-stale-deletion" if f.startswith("[idle]") else "meta:" + f[:30]
            ctx.violation("%s %s(seed %d): %s" % (o["kind"], (o.get("point", "") + ":" + str(o.get("nth", "")) + " ") if o.get("point") else "",
                                                 o["seed"], f), ctx.save_replay("meta-" + o["kind"], o), key=key)
    if conclusive == 0:
        raise Inconclusive("no meta case was conclusive: %s" % ctx.notes.get("inconclusive_cases", [])[:3])
    ctx.cov["evaluations"] += sum(o.get("ops", 0) for o in obs)
    ctx.cov["traces_validated_against_impl"] += conclusive
    ctx.cov["distinct_nontrivial"] = len(kinds)
    ctx.cov["rule"] = ("evaluations = admin requests issued to real nsqd child processes; each case ends in SIGKILL + restart; "
                       "distinct = (kind, crash point, died-at-point) combinations; traces = kill/restart cycles judged")
    ctx.notes["cases"] = len(obs)
    ctx.notes["killed_at_named_point"] = died
    ctx.notes["kill_restart_cycles"] = sum(o.get("restarts", 0) for o in obs)
    ctx.notes["failed_starts_in_between"] = sum(o.get("failed_starts", 0) for o in obs)
    ctx.notes["file_reads_by_concurrent_reader"] = sum(o.get("file_reads", 0) for o in obs)
    for o in obs[:3]:
        ctx.sample({"meta_case": {k: o[k] for k in ("kind", "point", "nth", "seed", "died_at_point", "ops", "loaded") if k in o}})
    ctx.assumptions += [
        "SIGKILL cannot show that fsync reached the platter; ordering write-fsync-rename is what is exercised",
        "'passed through' = a document the first lifetime took a snapshot of under the daemon lock (hook MetaSnapshot)",
        "idle = every notify goroutine finished (hook counters) and nsqd.dat unchanged for 150 ms",
    ]
