// Command lookupd: verification harness for nsqlookupd (properties C14, C15).
//
// Subcommands register themselves in init() (files c14_*.go, c15_*.go):
//
//	c14-replay   TLC behaviours of Lookupd.tla replayed against an in-process nsqlookupd (binding A)
//	c14-conc     concurrent producers/admins/pollers, hook trace for LookupdTrace.tla (binding B)
//	c15-*        hostile input against a child-process nsqlookupd
package main

import (
	"fmt"
	"os"
)

type subcmd func(args []string) int

var subcmds = map[string]subcmd{}

func main() {
	if len(os.Args) < 2 {
		fmt.Fprintln(os.Stderr, "usage: lookupd <subcommand> [flags]")
		os.Exit(2)
	}
	f, ok := subcmds[os.Args[1]]
	if !ok {
		fmt.Fprintf(os.Stderr, "unknown subcommand %q\n", os.Args[1])
		os.Exit(2)
	}
	os.Exit(f(os.Args[2:]))
}
