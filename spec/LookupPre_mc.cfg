SPECIFICATION Spec
CONSTANTS
  Peers = {l1, l2}
  Chans = {c1, c2}
  ForgetOnClose = FALSE
INVARIANT PreCreated
CHECK_DEADLOCK FALSE
