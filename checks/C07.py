"""C07 -- content and envelope integrity (spec: NsqdAbs)."""
import corelib

META = {
    "technique": "TLC model checking of NsqdAbs/NsqdAbsMC; traces of a real in-process nsqd (verif hooks + client-side "
                 "observations) from the seeded 'bytes' and 'core' drivers validated against NsqdAbs by TLC; black-box "
                 "ledger on client-visible frames and /stats",
    "design_ref": "5/C07",
}


def run(ctx):
    import nsqdmc
    nsqdmc.model_check(ctx)
    n = 16 if ctx.quick else 120
    corelib.run_modes(ctx, "C07", [("bytes", n + n // 2), ("core", n // 2)])
    # the restart path: what comes back after a graceful shutdown carries the body and the timestamp it was published with
    rruns = corelib.drive(ctx, "restart", 8 if ctx.quick else 80)
    corelib.ledger(ctx, "C07", rruns)
    ctx.cov["evaluations"] += sum(r.get("events", 0) for r in rruns)
    ctx.notes["restart_runs"] = len(rruns)
    if not ctx.quick:
        corelib.repo_tests(ctx, "C07")
    corelib.pub_while_consuming(ctx)
    ctx.cov["distinct_nontrivial"] = len(ctx.notes.get("event_kinds", {}))
    ctx.cov["rule"] = ("evaluations = hook/harness events of real executions checked step by step by TLC against "
                       "NsqdAbs; distinct = event kinds (spec actions) exercised")
    ctx.assumptions += [
        "hook events are emitted inside the critical section performing the change (DESIGN.md appendix A)",
        "a rejection is attributed to the property whose clause the failing guard stands for (lib/corelib.py)",
    ]
