package main

import (
	"bytes"
	"encoding/binary"
	"encoding/json"
	"flag"
	"fmt"
	"github.com/nsqio/nsq/internal/verif"
	"io"
	"net/http"
	"os"
	"path/filepath"
	"runtime"
	"strings"
	"sync"
	"sync/atomic"
	"time"

	"github.com/nsqio/nsq/nsqd"
	"github.com/nsqio/nsq/verifharness/hlib"
)

// C08, the clauses that are about what is left behind: a deleted channel/topic leaves no disk files and a
// re-creation starts empty; ephemeral objects vanish with their last consumer and never reach disk or nsqd.dat;
// concurrent deletions are all answered (no deadlock).

type c08Case struct {
	Kind  string   `json:"kind"` // recreate | deleterace | ephemeral
	Seed  int64    `json:"seed"`
	Fails []string `json:"fails"`
	Incon string   `json:"inconclusive,omitempty"`
	Ops   int      `json:"ops"`
	Notes []string `json:"notes"`
}

func (c *c08Case) failf(f string, a ...interface{}) { c.Fails = append(c.Fails, fmt.Sprintf(f, a...)) }

func c08Main(args []string) int {
	fs := flag.NewFlagSet("c08extra", flag.ExitOnError)
	in := fs.String("cases", "cases.json", "cases")
	out := fs.String("out", "c08-obs.json", "observations")
	dir := fs.String("dir", "", "scratch dir")
	fs.Parse(args)
	data, err := os.ReadFile(*in)
	if err != nil {
		return 2
	}
	var cases []*c08Case
	if err := json.Unmarshal(data, &cases); err != nil {
		return 2
	}
	for i, c := range cases {
		d := filepath.Join(*dir, fmt.Sprintf("c08-%d", i))
		os.MkdirAll(d, 0755)
		switch c.Kind {
		case "recreate":
			c08Recreate(c, d)
		case "deleterace":
			c08DeleteRace(c, d)
		case "ephemeral":
			c08Ephemeral(c, d)
		case "ephsub":
			c08EphemeralSub(c, d)
		case "emptybusy":
			c08EmptyBusy(c, d)
		case "emptydeferred":
			c08EmptyDeferred(c, d)
		case "mpubdelete":
			c08MpubDelete(c, d)
		}
		os.RemoveAll(d)
	}
	hlib.WriteJSON(*out, cases)
	return 0
}

func filesFor(dir, prefix string) []string {
	var out []string
	es, _ := os.ReadDir(dir)
	for _, e := range es {
		if strings.HasPrefix(e.Name(), prefix) {
			out = append(out, e.Name())
		}
	}
	return out
}

func chanStat(nd *Node, topic, channel string) (*ChannelStat, *TopicStat) {
	st, _, err := nd.stats("")
	if err != nil {
		return nil, nil
	}
	for i := range st.Topics {
		if st.Topics[i].Name == topic {
			for j := range st.Topics[i].Channels {
				if st.Topics[i].Channels[j].Name == channel {
					return &st.Topics[i].Channels[j], &st.Topics[i]
				}
			}
			return nil, &st.Topics[i]
		}
	}
	return nil, nil
}

// drainN: a consumer FINishes n messages of topic/channel
func drainN(nd *Node, topic, channel string, n int, name string) (int, error) {
	cn, err := dial(nd.TCP, name)
	if err != nil {
		return 0, err
	}
	defer cn.close()
	if _, err := cn.identify(nil); err != nil {
		return 0, err
	}
	if err := cn.sub(topic, channel); err != nil {
		return 0, err
	}
	cn.cmd("RDY", "", "5")
	got := 0
	idle := 0
	for got < n && idle < 200 {
		f, ok := cn.next(25 * time.Millisecond)
		if !ok {
			idle++
			continue
		}
		idle = 0
		if f.Type == 2 {
			cn.cmd("FIN", f.ID, "")
			got++
		}
	}
	cn.barrier(10 * time.Second)
	return got, nil
}

func c08Recreate(c *c08Case, dir string) {
	// disk-backed channel (mem-queue-size 0 or tiny), some or all of its backlog consumed, then deleted
	memq := int64(c.Seed % 3) // 0, 1, 2
	nd, err := startNode(dir, func(o *nsqd.Options) {
		o.MemQueueSize = memq
		o.SyncEvery = 2 + c.Seed%5
		o.SyncTimeout = time.Duration(20+c.Seed%80) * time.Millisecond
	})
	if err != nil {
		c.Incon = err.Error()
		return
	}
	defer nd.stop(20 * time.Second)
	what := []string{"channel", "topic"}[(c.Seed/3)%2]
	nd.post("/topic/create?topic=t", nil)
	nd.post("/channel/create?topic=t&channel=c", nil)
	nd.post("/channel/create?topic=t&channel=keep", nil)
	n := 4 + int(c.Seed%7)
	for i := 0; i < n; i++ {
		if st, _, err := nd.post("/pub?topic=t", []byte(fmt.Sprintf("m%d", i))); err != nil || st != 200 {
			c.Incon = "publish failed"
			return
		}
		c.Ops++
	}
	consume := n
	if c.Seed%4 == 3 {
		consume = n / 2 // leave a backlog behind
	}
	got, err := drainN(nd, "t", "c", consume, "d1")
	if err != nil || got != consume {
		c.Incon = fmt.Sprintf("drain: got %d of %d (%v)", got, consume, err)
		return
	}
	time.Sleep(time.Duration(c.Seed%3) * 60 * time.Millisecond)
	var prefix string
	if what == "channel" {
		st, _, err := nd.post("/channel/delete?topic=t&channel=c", nil)
		if err != nil || st != 200 {
			c.failf("/channel/delete answered %d %v", st, err)
			return
		}
		prefix = "t:c.diskqueue"
	} else {
		st, _, err := nd.post("/topic/delete?topic=t", nil)
		if err != nil || st != 200 {
			c.failf("/topic/delete answered %d %v", st, err)
			return
		}
		prefix = "t"
	}
	c.Ops++
	time.Sleep(30 * time.Millisecond)
	var left []string
	if what == "channel" {
		left = filesFor(dir, prefix)
	} else {
		left = append(filesFor(dir, "t.diskqueue"), filesFor(dir, "t:")...)
	}
	if len(left) > 0 {
		c.failf("deleting the %s (after %d of %d messages had been finished) left its disk files behind: %v", what, consume, n, left)
	}
	// re-creation starts empty
	nd.post("/topic/create?topic=t", nil)
	nd.post("/channel/create?topic=t&channel=c", nil)
	time.Sleep(30 * time.Millisecond)
	cs, _ := chanStat(nd, "t", "c")
	if cs == nil {
		c.Incon = "re-created channel not in /stats"
		return
	}
	if cs.Depth != 0 || cs.InFlightCount != 0 || cs.DeferredCount != 0 || cs.MessageCount != 0 {
		c.failf("the re-created %s does not start empty: depth=%d in_flight=%d deferred=%d message_count=%d", what, cs.Depth, cs.InFlightCount, cs.DeferredCount, cs.MessageCount)
	}
	if got, _ := drainN(nd, "t", "c", 1, "d2"); got != 0 {
		c.failf("a consumer of the re-created %s was sent %d message(s) of the deleted one", what, got)
	}
}

func c08DeleteRace(c *c08Case, dir string) {
	nd, err := startNode(dir, func(o *nsqd.Options) { o.MemQueueSize = 2 })
	if err != nil {
		c.Incon = err.Error()
		return
	}
	defer nd.stop(20 * time.Second)
	for round := 0; round < 4; round++ {
		topic := fmt.Sprintf("r%d", round)
		if (c.Seed+int64(round))%2 == 1 {
			topic += "%23ephemeral"
		}
		nch := 8 + int(c.Seed%8)
		nd.post("/topic/create?topic="+topic, nil)
		for i := 0; i < nch; i++ {
			nd.post(fmt.Sprintf("/channel/create?topic=%s&channel=c%d", topic, i), nil)
		}
		nd.post("/pub?topic="+topic, []byte("x"))
		// every channel has a backlog of its own, most of it on disk, and a few idle consumers: deleting it takes a moment
		for i := 0; i < 10; i++ {
			nd.post("/pub?topic="+topic, []byte(fmt.Sprintf("chan-backlog-%d", i)))
		}
		var idle []*Conn
		for i := 0; i < nch; i += 2 {
			for j := 0; j < 3; j++ {
				if cn, err := dial(nd.TCP, fmt.Sprintf("idle-%d-%d-%d", round, i, j)); err == nil {
					if _, err := cn.identify(nil); err == nil && cn.sub(strings.ReplaceAll(topic, "%23", "#"), fmt.Sprintf("c%d", i)) == nil {
						idle = append(idle, cn)
					} else {
						cn.close()
					}
				}
			}
		}
		time.Sleep(30 * time.Millisecond)
		// the topic itself holds a backlog (paused: nothing moves on to the channels), most of it on disk
		durable := !strings.Contains(topic, "ephemeral")
		if durable {
			nd.post("/topic/pause?topic="+topic, nil)
			for i := 0; i < 20; i++ {
				nd.post("/pub?topic="+topic, []byte(fmt.Sprintf("backlog-%d", i)))
			}
		}
		var wg sync.WaitGroup
		var mu sync.Mutex
		slow := 0
		fire := func(path string) {
			defer wg.Done()
			t0 := time.Now()
			_, _, err := nd.post(path, nil)
			c.Ops++
			if err != nil || time.Since(t0) > 15*time.Second {
				mu.Lock()
				slow++
				mu.Unlock()
			}
		}
		for i := 0; i < nch; i++ {
			wg.Add(1)
			go fire(fmt.Sprintf("/channel/delete?topic=%s&channel=c%d", topic, i))
			if i == nch/2 {
				wg.Add(1)
				go fire("/topic/delete?topic=" + topic)
			}
		}
		wg.Wait()
		for _, cn := range idle {
			cn.close()
		}
		if slow > 0 {
			c.failf("%d of %d concurrent /channel/delete + /topic/delete requests on %s were not answered within 15s (deadlock)", slow, nch+1, topic)
			return
		}
		if st, _, err := nd.get("/ping"); err != nil || st != 200 {
			c.failf("daemon stopped answering after concurrent deletions: %v %d", err, st)
			return
		}
		if durable {
			// the topic is gone with everything it held: no file of it is left, and a topic of that name starts empty
			time.Sleep(20 * time.Millisecond)
			if left := filesFor(dir, topic+".diskqueue"); len(left) > 0 {
				c.failf("topic %s was deleted while its channels were being deleted one by one; its queue files are still there: %v", topic, left)
			}
			nd.post("/topic/create?topic="+topic, nil)
			nd.post("/channel/create?topic="+topic+"&channel=again", nil)
			time.Sleep(50 * time.Millisecond)
			if st, _, err := nd.stats(""); err == nil {
				for _, ts := range st.Topics {
					if ts.Name != topic {
						continue
					}
					n := ts.Depth
					for _, cs := range ts.Channels {
						n += cs.Depth + cs.InFlightCount + cs.DeferredCount
					}
					if n != 0 {
						c.failf("topic %s was deleted (while its channels were being deleted one by one) and created again: it starts with %d messages of the deleted one", topic, n)
					}
				}
			}
			nd.post("/topic/delete?topic="+topic, nil)
		}
	}
}

func c08Ephemeral(c *c08Case, dir string) {
	nd, err := startNode(dir, func(o *nsqd.Options) { o.MemQueueSize = 3 })
	if err != nil {
		c.Incon = err.Error()
		return
	}
	defer nd.stop(20 * time.Second)
	topic, ch := "et#ephemeral", "ec#ephemeral"
	if c.Seed%2 == 1 {
		topic = "dt" // durable topic, ephemeral channel
	}
	cn, err := dial(nd.TCP, "e1")
	if err != nil {
		c.Incon = err.Error()
		return
	}
	cn.identify(nil)
	if err := cn.sub(topic, ch); err != nil {
		c.Incon = err.Error()
		cn.close()
		return
	}
	for i := 0; i < 10; i++ { // more than the memory queue holds: the overflow is dropped, nothing goes to disk
		nd.post("/pub?topic="+q(topic), []byte("x"))
		c.Ops++
	}
	time.Sleep(50 * time.Millisecond)
	cs, _ := chanStat(nd, topic, ch)
	if cs == nil {
		c.Incon = "ephemeral channel not in /stats while subscribed"
		cn.close()
		return
	}
	cn.close() // the last consumer leaves
	deadline := time.Now().Add(10 * time.Second)
	gone := false
	for time.Now().Before(deadline) {
		cs, ts := chanStat(nd, topic, ch)
		if cs == nil && (ts == nil || !strings.HasSuffix(topic, "#ephemeral")) {
			gone = true
			break
		}
		time.Sleep(20 * time.Millisecond)
	}
	if !gone {
		c.failf("ephemeral %s/%s still exists 10s after its last consumer left", topic, ch)
	}
	// several consumers leaving AT THE SAME MOMENT: whoever is last, somebody is -- the channel goes all the same
	rounds := 40
	for round := 0; round < rounds && len(c.Fails) == 0; round++ {
		rch := fmt.Sprintf("r%d#ephemeral", round)
		k := 2 + round%3
		var conns []*Conn
		for i := 0; i < k; i++ {
			cx, err := dial(nd.TCP, fmt.Sprintf("e%d_%d", round, i))
			if err != nil {
				c.Incon = err.Error()
				return
			}
			cx.identify(nil)
			if err := cx.sub(topic, rch); err != nil {
				c.Incon = err.Error()
				return
			}
			conns = append(conns, cx)
		}
		if cs, _ := chanStat(nd, topic, rch); cs == nil {
			c.Incon = "ephemeral channel not in /stats while subscribed"
			return
		}
		start := make(chan struct{})
		var wg sync.WaitGroup
		for _, cx := range conns {
			wg.Add(1)
			go func(cx *Conn) { defer wg.Done(); <-start; cx.close() }(cx)
		}
		close(start)
		wg.Wait()
		c.Ops += k
		gone := false
		deadline := time.Now().Add(10 * time.Second)
		for time.Now().Before(deadline) {
			if cs, _ := chanStat(nd, topic, rch); cs == nil {
				gone = true
				break
			}
			time.Sleep(5 * time.Millisecond)
		}
		if !gone {
			c.failf("ephemeral channel %s/%s still exists 10s after its %d consumers left at the same moment", topic, rch, k)
		}
		if strings.HasSuffix(topic, "#ephemeral") {
			break // the ephemeral topic went with its last channel: one round
		}
	}
	// a consumer arriving at the very moment the last one leaves: whichever way that goes -- it joins the old channel, or
	// gets a fresh one --, once it has left too the channel is gone
	if !strings.HasSuffix(topic, "#ephemeral") && len(c.Fails) == 0 {
		joinRounds := 250
		for round := 0; round < joinRounds && len(c.Fails) == 0; round++ {
			jch := fmt.Sprintf("j%d#ephemeral", round)
			a, err := dial(nd.TCP, fmt.Sprintf("ja%d", round))
			if err != nil {
				c.Incon = err.Error()
				return
			}
			a.identify(nil)
			if err := a.sub(topic, jch); err != nil {
				c.Incon = err.Error()
				return
			}
			b, err := dial(nd.TCP, fmt.Sprintf("jb%d", round))
			if err != nil {
				c.Incon = err.Error()
				return
			}
			b.identify(nil)
			start := make(chan struct{})
			var wg sync.WaitGroup
			var subErr error
			wg.Add(2)
			go func() { defer wg.Done(); <-start; a.close() }()
			go func() {
				defer wg.Done()
				<-start
				for i := 0; i < round%7; i++ { // a varying head start for the leaver
					runtime.Gosched()
				}
				subErr = b.sub(topic, jch)
			}()
			close(start)
			wg.Wait()
			c.Ops += 2
			b.close()
			if subErr != nil {
				continue // refused while the channel was on its way out: nothing more is promised
			}
			gone := false
			deadline := time.Now().Add(10 * time.Second)
			for time.Now().Before(deadline) {
				if cs, _ := chanStat(nd, topic, jch); cs == nil {
					gone = true
					break
				}
				time.Sleep(3 * time.Millisecond)
			}
			if !gone {
				c.failf("ephemeral channel %s/%s still exists 10s after its last consumer left (that consumer had subscribed at the moment the previous one left)", topic, jch)
			}
		}
	}
	time.Sleep(100 * time.Millisecond)
	var disk []string
	es, _ := os.ReadDir(dir)
	for _, e := range es {
		if strings.Contains(e.Name(), "#ephemeral") {
			disk = append(disk, e.Name())
		}
	}
	if len(disk) > 0 {
		c.failf("ephemeral objects reached disk: %v", disk)
	}
	if b, err := os.ReadFile(filepath.Join(dir, "nsqd.dat")); err == nil && strings.Contains(string(b), "#ephemeral") {
		c.failf("ephemeral objects are in the persisted metadata: %s", string(b))
	}
}

// c08EphemeralSub: a consumer subscribes while the auto-removal of the ephemeral topic (or channel) it asks for is held
// half-way through a yield point.  Whatever the daemon does with the request -- refuse it, or serve it from a fresh
// topic / channel --, a SUB that is answered OK gets what is published afterwards, and the consumer shows in /stats.
func c08EphemeralSub(c *c08Case, dir string) {
	points := []string{"topicdelete.afterDelete|et#ephemeral#", "topic.exit.flag|et#ephemeral#", "topic.exit.pumpStopped|et#ephemeral#",
		"chandelete.afterDelete|et#ephemeral/ec#ephemeral#", "chan.exit.flag|et#ephemeral/ec#ephemeral#", "empty.afterReset|et#ephemeral/ec#ephemeral#"}
	point := points[int(c.Seed)%len(points)]
	g := newTGates()
	verif.SetGate(g.fn)
	defer verif.SetGate(nil)
	defer g.releaseAll()
	nd, err := startNode(dir, func(o *nsqd.Options) { o.MemQueueSize = 3 })
	if err != nil {
		c.Incon = err.Error()
		return
	}
	defer nd.stop(20 * time.Second)
	topic, ch := "et#ephemeral", "ec#ephemeral"
	cn, err := dial(nd.TCP, "es1")
	if err != nil {
		c.Incon = err.Error()
		return
	}
	cn.identify(nil)
	if err := cn.sub(topic, ch); err != nil {
		c.Incon = err.Error()
		cn.close()
		return
	}
	g.arm(point, true)
	cn.close() // the last consumer leaves: channel, then topic are removed -- up to the armed yield point
	var parked *tArrival
	select {
	case parked = <-g.arrived:
	case <-time.After(5 * time.Second):
		c.Incon = "the removal did not reach " + point
		return
	}
	// the new consumer asks for the same topic; half of the cases for the same channel too
	ch2 := ch
	if (c.Seed/int64(len(points)))%2 == 1 {
		ch2 = "other#ephemeral"
	}
	c2, err := dial(nd.TCP, "es2")
	if err != nil {
		c.Incon = err.Error()
		return
	}
	defer c2.close()
	c2.identify(map[string]interface{}{"output_buffer_timeout": 25})
	subErr := make(chan error, 1)
	go func() { subErr <- c2.sub(topic, ch2) }()
	// the removal goes on a little later (nsqd retries such a SUB after 100 ms, twice)
	time.Sleep(time.Duration(30+(c.Seed%5)*40) * time.Millisecond)
	g.release(parked)
	var serr error
	select {
	case serr = <-subErr:
	case <-time.After(10 * time.Second):
		c.failf("a SUB to %s/%s sent while the ephemeral topic was being removed (held at %s) was never answered", topic, ch2, point)
		return
	}
	c.Ops++
	if serr != nil {
		return // refused: nothing more is promised
	}
	c2.cmd("RDY", "", "5")
	if _, err := c2.barrier(10 * time.Second); err != nil {
		c.Incon = "barrier: " + err.Error()
		return
	}
	if st, _, err := nd.post("/pub?topic="+q(topic), []byte("after")); err != nil || st != 200 {
		c.Incon = "publish failed"
		return
	}
	got := false
	deadline := time.Now().Add(5 * time.Second)
	for time.Now().Before(deadline) && !got {
		f, ok := c2.next(50 * time.Millisecond)
		if ok && f.Type == 2 && string(f.Body) == "after" {
			got = true
			c2.cmd("FIN", f.ID, "")
		}
	}
	if !got {
		c.failf("a consumer whose SUB to %s/%s was answered OK while the ephemeral topic was being removed (held at %s) never received a message published afterwards", topic, ch2, point)
		return
	}
	if cs, _ := chanStat(nd, topic, ch2); cs == nil || cs.ClientCount < 1 {
		c.failf("a consumer subscribed (OK) to %s/%s while the ephemeral topic was being removed (held at %s) receives messages but /stats does not show it", topic, ch2, point)
	}
}

// c08EmptyBusy: /channel/empty while the channel's consumers are being served from a large in-memory backlog and nobody
// publishes any more.  The request is answered (and so is /stats), what a consumer had not been sent is discarded, and a
// message published afterwards is delivered.
func c08EmptyBusy(c *c08Case, dir string) {
	nd, err := startNode(dir, func(o *nsqd.Options) { o.MemQueueSize = 50000 })
	if err != nil {
		c.Incon = err.Error()
		return
	}
	stopped := false
	defer func() {
		if !stopped {
			nd.stop(20 * time.Second)
		}
	}()
	nd.post("/topic/create?topic=t", nil)
	nd.post("/channel/create?topic=t&channel=c", nil)
	ncons := 2 + int(c.Seed%3)
	var stop, sawAfter int32
	var got int64
	var lastBody atomic.Value
	lastBody.Store("")
	var wg sync.WaitGroup
	for i := 0; i < ncons; i++ {
		cn, err := dial(nd.TCP, fmt.Sprintf("eb-%d", i))
		if err != nil {
			c.Incon = err.Error()
			return
		}
		if _, err := cn.identify(map[string]interface{}{"output_buffer_timeout": 25}); err != nil {
			cn.close()
			c.Incon = err.Error()
			return
		}
		if err := cn.sub("t", "c"); err != nil {
			cn.close()
			c.Incon = err.Error()
			return
		}
		cn.cmd("RDY", "", fmt.Sprint(20+10*i))
		wg.Add(1)
		go func() {
			defer wg.Done()
			defer cn.close()
			for atomic.LoadInt32(&stop) == 0 {
				f, ok := cn.next(20 * time.Millisecond)
				if !ok {
					if cn.isClosed() {
						return
					}
					continue
				}
				if f.Type != 2 {
					continue
				}
				atomic.AddInt64(&got, 1)
				lastBody.Store(string(f.Body))
				if string(f.Body) == "after-the-last-empty" {
					atomic.StoreInt32(&sawAfter, 1)
				}
				cn.cmd("FIN", f.ID, "")
			}
		}()
	}
	hc := &http.Client{Timeout: 8 * time.Second}
	timed := func(path string) (int, time.Duration, error) {
		t0 := time.Now()
		resp, err := hc.Post("http://"+nd.HTTP+path, "application/octet-stream", nil)
		if err != nil {
			return 0, time.Since(t0), err
		}
		io.Copy(io.Discard, resp.Body)
		resp.Body.Close()
		return resp.StatusCode, time.Since(t0), nil
	}
	for round := 0; round < 4; round++ {
		var buf bytes.Buffer
		n := 20000
		binary.Write(&buf, binary.BigEndian, int32(n))
		for j := 0; j < n; j++ {
			buf.Write(lenPrefixed([]byte(fmt.Sprintf("b%d-%05d", round, j))))
		}
		if st, _, err := nd.post("/mpub?topic=t&binary=true", buf.Bytes()); err != nil || st != 200 {
			c.Incon = fmt.Sprintf("mpub: %v %d", err, st)
			break
		}
		// once the topic has handed the whole burst on, only the consumers take from the channel's queue
		for i := 0; i < 400; i++ {
			if _, ts := chanStat(nd, "t", "c"); ts != nil && ts.Depth == 0 {
				break
			}
			time.Sleep(2 * time.Millisecond)
		}
		time.Sleep(time.Duration(c.Seed%7) * time.Millisecond)
		st, took, err := timed("/channel/empty?topic=t&channel=c")
		c.Ops++
		if err != nil || st != 200 {
			c.failf("/channel/empty on a channel whose consumers were being served from a %d-message memory backlog (no publisher active) was not answered within 8 s (%v, status %d, after %s)", n, err, st, took.Round(time.Millisecond))
			if _, _, err := nd.stats(""); err != nil {
				c.failf("... and /stats is not answered either: %v", err)
			}
			break
		}
	}
	if len(c.Fails) == 0 && c.Incon == "" {
		time.Sleep(100 * time.Millisecond)
		nd.post("/pub?topic=t", []byte("after-the-last-empty"))
		ok := false
		for i := 0; i < 250 && !ok; i++ {
			time.Sleep(20 * time.Millisecond)
			ok = atomic.LoadInt32(&sawAfter) == 1
		}
		if !ok {
			diag := ""
			if cs, ts := chanStat(nd, "t", "c"); cs != nil {
				diag = fmt.Sprintf("topic depth %d; channel depth %d, in flight %d, deferred %d;", ts.Depth, cs.Depth, cs.InFlightCount, cs.DeferredCount)
				for _, k := range cs.Clients {
					diag += fmt.Sprintf(" %s: ready_count %d in_flight_count %d;", k.ClientID, k.ReadyCount, k.InFlightCount)
				}
			}
			c.failf("a message published after the last /channel/empty was not delivered to any of the %d ready consumers within 5 s (%s last body received %q)", ncons, diag, lastBody.Load().(string))
		}
	}
	atomic.StoreInt32(&stop, 1)
	wg.Wait()
	if err := nd.stop(20 * time.Second); err != nil && len(c.Fails) == 0 {
		c.failf("[C05] %v", err)
	}
	stopped = true
}

// c08EmptyDeferred: /channel/empty lands while a requeue-with-delay (or the hand-over of a deferred publish) is between
// its two steps -- entered in the channel's table of deferred messages, not yet in its timer queue.  The Empty is answered;
// what it discarded is not delivered afterwards.
func c08EmptyDeferred(c *c08Case, dir string) {
	g := newGateCtl()
	verif.SetGate(g.fn)
	defer verif.SetGate(nil)
	defer g.releaseAll()
	nd, err := startNode(dir, nil)
	if err != nil {
		c.Incon = err.Error()
		return
	}
	defer nd.stop(20 * time.Second)
	nd.post("/topic/create?topic=t", nil)
	nd.post("/channel/create?topic=t&channel=c", nil)
	tp, err := nd.N.GetExistingTopic("t")
	if err != nil {
		c.Incon = err.Error()
		return
	}
	ch, err := tp.GetExistingChannel("c")
	if err != nil {
		c.Incon = err.Error()
		return
	}
	point := "sdt.afterMapPush|" + nsqd.VerifName(ch)
	cn, err := dial(nd.TCP, "ed-con")
	if err != nil {
		c.Incon = err.Error()
		return
	}
	defer cn.close()
	if _, err := cn.identify(map[string]interface{}{"output_buffer_timeout": 25}); err != nil {
		c.Incon = err.Error()
		return
	}
	if err := cn.sub("t", "c"); err != nil {
		c.Incon = err.Error()
		return
	}
	cn.cmd("RDY", "", "1")
	for round := 0; round < 3; round++ {
		viaDefer := (int(c.Seed)+round)%2 == 1
		body := []byte(fmt.Sprintf("ed-%d", round))
		if viaDefer {
			// a deferred publish: the topic's pump hands it to the channel's deferred queue
			g.arm(point)
			if st, _, err := nd.post("/pub?topic=t&defer=150", body); err != nil || st != 200 {
				c.Incon = "pub"
				return
			}
		} else {
			if st, _, err := nd.post("/pub?topic=t", body); err != nil || st != 200 {
				c.Incon = "pub"
				return
			}
			f, ok := cn.next(5 * time.Second)
			if !ok || f.Type != 2 {
				c.Incon = "the message did not arrive"
				return
			}
			g.arm(point)
			cn.cmd("REQ", f.ID, "150")
		}
		select {
		case <-g.arrived:
		case <-time.After(5 * time.Second):
			c.Incon = "the deferral did not reach its yield point"
			return
		}
		done := make(chan int, 1)
		go func() {
			st, _, _ := nd.post("/channel/empty?topic=t&channel=c", nil)
			done <- st
		}()
		select {
		case st := <-done:
			if st != 200 {
				c.failf("/channel/empty answered %d", st)
			}
		case <-time.After(5 * time.Second):
			// (it waits for the deferral: let that go on, then it must come back)
			g.release(point)
			select {
			case <-done:
			case <-time.After(10 * time.Second):
				c.failf("/channel/empty was not answered within 15 s while a deferral was between its two steps")
				return
			}
		}
		g.release(point)
		c.Ops++
		// the deferral's delay (150 ms) passes: nothing that the Empty discarded comes out of the channel
		if f, ok := cn.next(900 * time.Millisecond); ok && f.Type == 2 {
			c.failf("message %q (attempt %d) was in the channel's table of deferred messages when /channel/empty was answered (the %s was between its two steps); it was delivered afterwards", string(f.Body), f.Attempts, map[bool]string{true: "hand-over of a deferred publish", false: "requeue with a delay"}[viaDefer])
			cn.cmd("FIN", f.ID, "")
		}
		if cs, _ := chanStat(nd, "t", "c"); cs != nil && (cs.Depth != 0 || cs.InFlightCount != 0 || cs.DeferredCount != 0) {
			c.failf("after /channel/empty and a quiet second the channel reports depth=%d in_flight=%d deferred=%d", cs.Depth, cs.InFlightCount, cs.DeferredCount)
		}
	}
}

// c08MpubDelete: a topic is deleted while a large MPUB to it is still being written (most of it to the topic's disk queue).
// The publisher may be refused; the deletion is answered; no file of the topic is left and a topic of that name starts empty.
func c08MpubDelete(c *c08Case, dir string) {
	nd, err := startNode(dir, func(o *nsqd.Options) { o.MemQueueSize = 100; o.MaxMsgSize = 1 << 20; o.MaxBodySize = 64 << 20 })
	if err != nil {
		c.Incon = err.Error()
		return
	}
	defer nd.stop(20 * time.Second)
	for round := 0; round < 3; round++ {
		topic := fmt.Sprintf("md%d", round)
		nd.post("/topic/create?topic="+topic, nil)
		var buf bytes.Buffer
		n := 60000
		binary.Write(&buf, binary.BigEndian, int32(n))
		for j := 0; j < n; j++ {
			buf.Write(lenPrefixed([]byte(fmt.Sprintf("md-%d-%05d-................................", round, j))))
		}
		pubDone := make(chan struct{})
		go func() {
			nd.post("/mpub?topic="+topic+"&binary=true", buf.Bytes())
			close(pubDone)
		}()
		// once a good part of the batch sits in the topic's queue ...
		for i := 0; i < 2000; i++ {
			if st, _, err := nd.stats(""); err == nil {
				d := int64(0)
				for _, ts := range st.Topics {
					if ts.Name == topic {
						d = ts.Depth
					}
				}
				if d > 2000 {
					break
				}
			}
			select {
			case <-pubDone:
				i = 2000
			default:
			}
			time.Sleep(time.Millisecond)
		}
		st, _, err := nd.post("/topic/delete?topic="+topic, nil)
		c.Ops++
		if err != nil || (st != 200 && st != 404) {
			c.failf("/topic/delete during a large MPUB: %v %d", err, st)
			return
		}
		select {
		case <-pubDone:
		case <-time.After(30 * time.Second):
			c.failf("the MPUB was not answered within 30 s of the topic's deletion")
			return
		}
		time.Sleep(50 * time.Millisecond)
		if st == 200 {
			if left := filesFor(dir, topic+".diskqueue"); len(left) > 0 {
				c.failf("topic %s was deleted while a %d-message MPUB to it was being written; files of it are still there: %v", topic, n, left)
			}
			nd.post("/topic/create?topic="+topic, nil)
			time.Sleep(30 * time.Millisecond)
			if st2, _, err := nd.stats(""); err == nil {
				for _, ts := range st2.Topics {
					if ts.Name == topic && ts.Depth != 0 {
						c.failf("topic %s was deleted (during a large MPUB) and created again: it starts with %d messages", topic, ts.Depth)
					}
				}
			}
			nd.post("/topic/delete?topic="+topic, nil)
		}
	}
}
