---------------------------- MODULE NsqdPolicyMC ----------------------------
(* Constant domains for the bounded configurations of NsqdPolicy and the     *)
(* behaviour printer used by binding A (every maximal behaviour of a replay  *)
(* configuration is printed as one JSON line and replayed against a real     *)
(* nsqd by harness/cmd/api11).                                               *)
EXTENDS NsqdPolicy, Json

---------------------------------------------------------------------------
(* policies *)
AllPolicies == {p \in [tlsreq : {"no", "http", "yes"}, tlscfg : BOOLEAN, auth : BOOLEAN,
                       certpol : {"none", "require", "verify"}] : ValidPolicy(p)}         \* 20
NoAuthPolicies  == {p \in AllPolicies : ~p.auth}
AuthPolicies    == {p \in AllPolicies : p.auth}
AuthPlain       == {p \in AuthPolicies : ~p.tlscfg}                                       \* auth only, no TLS at all
AuthTlsPolicies == {p \in AuthPolicies : p.tlscfg}

---------------------------------------------------------------------------
(* commands *)
C(op, t, c, body, cert) == [op |-> op, t |-> t, c |-> c, body |-> body, cert |-> cert]
Plain(op) == C(op, "-", "-", "-", "-")
IdTls     == {C("IDENTIFY_TLS", "-", "-", "-", k) : k \in {"none", "unsigned", "signed"}}
Pubs(ts, bodies) == {C(op, t, "-", b, "-") : op \in {"PUB", "MPUB", "DPUB"}, t \in ts, b \in bodies}
Subs(ts, cs)     == {C("SUB", t, c, "-", "-") : t \in ts, c \in cs}
Others    == {Plain(op) : op \in {"IDENTIFY", "NOP", "AUTH", "RDY", "FIN", "REQ", "TOUCH", "CLS", "FOO"}}

AllCmds   == Others \cup IdTls \cup Pubs(Topics, {"ok", "bad"}) \cup Subs(Topics, Channels)   \* 28
\* TLS family: every command kind once
TlsCmds   == Others \cup IdTls \cup Pubs({"t1"}, {"ok"}) \cup Subs({"t1"}, {"c1"})            \* 16
\* auth family: every gated command, two topics / channels where grants can tell them apart
AuthCmds  == {Plain(op) : op \in {"IDENTIFY", "NOP", "AUTH", "CLS", "FOO"}}
             \cup Pubs({"t1"}, {"ok", "bad"}) \cup {C("PUB", "t2", "-", "ok", "-")}
             \cup Subs({"t1"}, Channels) \cup {C("SUB", "t2", "c1", "-", "-")}
GatedCmds == Pubs(Topics, {"ok"}) \cup {C("MPUB", "t1", "-", "bad", "-"), C("PUB", "t1", "-", "bad", "-")}
             \cup Subs(Topics, Channels)
AuthOnly  == {Plain("AUTH")}
GrantCmds == AuthOnly \cup GatedCmds
TlsAuthCmds4 == IdTls \cup {Plain("AUTH"), C("PUB", "t1", "-", "ok", "-"), C("SUB", "t1", "c1", "-", "-")}
TlsAuthCmds == IdTls \cup {Plain("AUTH"), Plain("IDENTIFY"), C("PUB", "t1", "-", "ok", "-"),
                           C("MPUB", "t2", "-", "ok", "-"), C("SUB", "t1", "c1", "-", "-")}

---------------------------------------------------------------------------
(* answers of the auth server *)
Z(tp, ch, perms) == [tp |-> tp, ch |-> ch, perms |-> perms]
AllAuthz  == [tp : {"t1", "t2", "any"}, ch : {"c1", "any", "none"}, perms : SUBSET Perms]     \* 36
Ok(auths, ttl) == [kind |-> "ok", auths |-> auths, ttl |-> ttl]
Single    == {Ok({z}, l) : z \in AllAuthz, l \in {1, 2}}                                    \* 72
Both      == {"publish", "subscribe"}
\* answers with two authorizations: the grant is the union
Doubles   == {Ok({Z("t1", "any", {"publish"}), Z("t2", "c1", {"subscribe"})}, 1),
              Ok({Z("t1", "c1", {"subscribe"}), Z("t1", "any", {"publish"})}, 2),
              Ok({Z("t2", "none", Both), Z("any", "c1", {"subscribe"})}, 1)}
NoAuths   == {Ok({}, 1)}
FullAnswers == Single \cup Doubles \cup NoAuths \cup {ErrAns}                                \* 77
\* a small covering set: allow-all, per-topic, per-channel, per-permission, empty, error; both TTLs
SmallAnswers == {Ok({Z("any", "any", Both)}, 1), Ok({Z("any", "any", Both)}, 2),
                 Ok({Z("t1", "any", {"publish"})}, 1), Ok({Z("t1", "c1", {"subscribe"})}, 2),
                 Ok({Z("t2", "any", Both)}, 1), ErrAns} \cup NoAuths                          \* 7
MidAnswers == SmallAnswers \cup Doubles
              \cup {Ok({Z("any", "c1", Both)}, 1), Ok({Z("any", "none", Both)}, 2), Ok({Z("t1", "any", {})}, 1),
                    Ok({Z("t2", "c1", {"subscribe"})}, 1), Ok({Z("any", "any", {"publish"})}, 2)} \* 15
AllowAll  == {Ok({Z("any", "any", Both)}, 1), Ok({Z("any", "any", Both)}, 2)}
Narrow1   == {Ok({Z("any", "any", Both)}, 1), Ok({Z("t1", "c1", Both)}, 2), Ok({Z("t1", "any", {"publish"})}, 1)}

---------------------------------------------------------------------------
(* HTTP *)
AllHttp == [port : {"http", "https"}, cert : {"none", "unsigned", "signed"}, route : {"ping", "pub", "pprof", "unknown", "badmethod"}]

---------------------------------------------------------------------------
NoHttp == {}
NoCmds == {}
(* behaviour printer: maximal behaviours only (a closed connection, the depth bound, or no command to send) *)
Terminal == hist # <<>> /\ (st = "closed" \/ Len(hist) = MaxDepth \/ Cmds = {})
StepJson(h) == [c |-> h.s.c, a |-> [kind |-> h.s.a.kind, auths |-> h.s.a.auths, ttl |-> h.s.a.ttl], w |-> h.s.w,
                kind |-> h.s.kind, o |-> h.s.o, status |-> h.s.status, n |-> h.s.pre.now, post |-> h.post]
EmitBehaviour ==
  Terminal => PrintT(<<"BEH", ToJson([policy |-> policy, steps |-> [i \in 1..Len(hist) |-> StepJson(hist[i])]])>>)
=============================================================================
