---------------------------- MODULE NsqdDataLock ----------------------------
(***************************************************************************)
(* The data-path lock over the lifetimes of the daemons pointed at one      *)
(* data path (C06: "a second nsqd pointed at a data path that is in use     *)
(* refuses to start").  A daemon: tries the lock (non-blocking) when it     *)
(* starts and gives up if it is taken; runs; on SIGTERM persists the        *)
(* metadata and closes its topics, then stops its goroutines -- among them  *)
(* notifications that may still rewrite nsqd.dat -- and only then gives the *)
(* lock back.  A SIGKILL drops the lock with the process.                   *)
(*                                                                         *)
(* UnlockEarly = TRUE gives the lock back right after the topics are        *)
(* closed ("hand the data path to a successor early"): refuted -- the       *)
(* successor runs while the predecessor's goroutines still write.           *)
(***************************************************************************)
EXTENDS Integers, FiniteSets, TLC
CONSTANTS Daemons, UnlockEarly
VARIABLES st,      \* daemon -> "off" | "running" | "closing" (topics closed, goroutines still alive) | "refused"
          holder,  \* who holds the flock ("" = nobody)
          writes   \* history: set of <<writer, owner at the time>> for every write to the data path
vars == <<st, holder, writes>>

Init == st = [d \in Daemons |-> "off"] /\ holder = "" /\ writes = {}

Start(d)   == /\ st[d] \in {"off", "refused"}
              /\ IF holder = "" THEN holder' = d /\ st' = [st EXCEPT ![d] = "running"]
                                ELSE holder' = holder /\ st' = [st EXCEPT ![d] = "refused"]
              /\ writes' = writes
Use(d)     == st[d] \in {"running", "closing"} /\ writes' = writes \cup {<<d, holder>>} /\ UNCHANGED <<st, holder>>
Term(d)    == /\ st[d] = "running" /\ st' = [st EXCEPT ![d] = "closing"]     \* persist, close topics
              /\ holder' = IF UnlockEarly /\ holder = d THEN "" ELSE holder
              /\ writes' = writes
Stopped(d) == /\ st[d] = "closing" /\ st' = [st EXCEPT ![d] = "off"]         \* waitGroup.Wait(); unlock; exit
              /\ holder' = IF holder = d THEN "" ELSE holder
              /\ writes' = writes
Kill(d)    == /\ st[d] \in {"running", "closing"} /\ st' = [st EXCEPT ![d] = "off"]
              /\ holder' = IF holder = d THEN "" ELSE holder
              /\ writes' = writes

Next == \E d \in Daemons : Start(d) \/ Use(d) \/ Term(d) \/ Stopped(d) \/ Kill(d)
Spec == Init /\ [][Next]_vars

\* whoever touches the data path owns it at that moment
OnlyTheOwnerWrites == \A w \in writes : w[1] = w[2]
\* never two daemons alive on the data path
OneAlive == Cardinality({d \in Daemons : st[d] \in {"running", "closing"}}) <= 1
=============================================================================
