------------------------- MODULE NsqdShutdownTrace -------------------------
(* Recorded shutdowns of the real nsqd (hook events of the restart driver's  *)
(* first lifetime) against the close protocol of NsqdShutdown.tla, for any   *)
(* number of topics and channels:                                            *)
(*   FlushNeverFails : CFlush / TFlush carry ok = TRUE, and happen only in    *)
(*                     the flushing stage of their object                     *)
(*   TopicClosesLast : TClosed(t) only after TPumpStopped(t), with every      *)
(*                     channel linked to t closed or in deletion              *)
(*   ExitClosesAll   : NExit(topicsClosed) only when every topic is closed    *)
(*                     or in deletion                                         *)
EXTENDS Integers, Sequences, FiniteSets, TLC, Json

Trace == ndJsonDeserialize("trace.ndjson")
VARIABLES l, ts, cs, link
vars == <<l, ts, cs, link>>

Has(f, x) == x \in DOMAIN f
Put(f, x, v) == IF x \in DOMAIN f THEN [f EXCEPT ![x] = v] ELSE f @@ (x :> v)
E == Trace[l]
IsEvent(e) == l <= Len(Trace) /\ Trace[l].ev = e /\ l' = l + 1

Known == {"Reset", "TMapAdd", "CMapAdd", "CMapDel", "CExit", "CDeleted", "CClosed", "CFlush", "TExit", "TPumpStopped",
          "TFlush", "TClosed", "TDeleted", "NExit"}

Init == l = 1 /\ ts = <<>> /\ cs = <<>> /\ link = <<>> /\ TLCSet(1, 1) /\ TLCSet(2, <<>>)

Skip == l <= Len(Trace) /\ Trace[l].ev \notin Known /\ l' = l + 1 /\ UNCHANGED <<ts, cs, link>>
Reset == IsEvent("Reset") /\ ts' = <<>> /\ cs' = <<>> /\ link' = <<>>

TSt(t) == IF Has(ts, t) THEN ts[t] ELSE "live"
CSt(c) == IF Has(cs, c) THEN cs[c] ELSE "live"

Next ==
  \/ Skip \/ Reset
  \/ IsEvent("TMapAdd") /\ ts' = Put(ts, E.t, "live") /\ UNCHANGED <<cs, link>>
  \/ IsEvent("CMapAdd") /\ cs' = Put(cs, E.c, "live") /\ link' = Put(link, E.c, E.t)
       /\ ts' = IF Has(ts, E.t) THEN ts ELSE Put(ts, E.t, "live")
  \/ IsEvent("CMapDel") /\ link' = [c \in (DOMAIN link) \ {E.c} |-> link[c]] /\ UNCHANGED <<ts, cs>>
  \/ IsEvent("CExit") /\ CSt(E.c) = "live"                                   \* the flag is won once
       /\ cs' = Put(cs, E.c, IF E.deleted THEN "deleting" ELSE "closing") /\ UNCHANGED <<ts, link>>
  \/ IsEvent("CDeleted") /\ CSt(E.c) = "deleting" /\ cs' = Put(cs, E.c, "deleted") /\ UNCHANGED <<ts, link>>
  \/ IsEvent("CFlush") /\ CSt(E.c) = "closing" /\ E.ok /\ UNCHANGED <<ts, cs, link>>            \* FlushNeverFails
  \/ IsEvent("CClosed") /\ CSt(E.c) = "closing" /\ cs' = Put(cs, E.c, "closed") /\ UNCHANGED <<ts, link>>
  \/ IsEvent("TExit") /\ TSt(E.t) = "live"
       /\ ts' = Put(ts, E.t, IF E.deleted THEN "deleting" ELSE "closing") /\ UNCHANGED <<cs, link>>
  \/ IsEvent("TPumpStopped") /\ TSt(E.t) \in {"closing", "deleting"}
       /\ ts' = Put(ts, E.t, IF TSt(E.t) = "closing" THEN "stopped" ELSE "deleting") /\ UNCHANGED <<cs, link>>
  \/ IsEvent("TFlush") /\ TSt(E.t) = "stopped" /\ E.ok /\ UNCHANGED <<ts, cs, link>>           \* FlushNeverFails
  \/ IsEvent("TClosed") /\ TSt(E.t) = "stopped"                                                 \* TopicClosesLast
       /\ (\A c \in DOMAIN link : link[c] = E.t => CSt(c) \in {"closed", "deleting", "deleted"})
       /\ ts' = Put(ts, E.t, "closed") /\ UNCHANGED <<cs, link>>
  \/ IsEvent("TDeleted") /\ TSt(E.t) = "deleting" /\ ts' = Put(ts, E.t, "deleted") /\ UNCHANGED <<cs, link>>
  \/ IsEvent("NExit") /\ (E.stage = "topicsClosed" =>                                          \* ExitClosesAll
                             \A t \in DOMAIN ts : ts[t] \in {"closed", "deleting", "deleted"})
       /\ UNCHANGED <<ts, cs, link>>

TraceSpec == Init /\ [][Next]_vars

HW == IF l > TLCGet(1)
      THEN TLCSet(1, l) /\ TLCSet(2, [ts |-> ts, cs |-> cs, link |-> link])
      ELSE TRUE
TraceAccepted ==
  LET hw == TLCGet(1) IN
  IF hw = Len(Trace) + 1 THEN PrintT(<<"TRACE_OK", Len(Trace)>>)
  ELSE PrintT(<<"TRACE_REJECTED", hw, Trace[hw], TLCGet(2)>>) /\ FALSE
=============================================================================
