SPECIFICATION HSpec
CONSTANTS
  Topics = {"t1", "t2"}
  Channels = {"c1", "c2"}
  MaxMsg = 5
  MaxBody = 24
  Deviations = {"plaintext_nil_500"}
  MaxCnt = 9
  TextL = 8
  Depth = 1
  Requests <- ReqSet
  Alphabet = "misc"
  Prefixes <- PrefixesNone
INVARIANTS TypeOK Pumped Never500OnCompleteRequest
CHECK_DEADLOCK FALSE
