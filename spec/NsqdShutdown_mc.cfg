SPECIFICATION Spec
CONSTANTS
  Chans = {"c1", "c2"}
  Msgs = {"m1", "m2"}
  AbortOnCloseError = FALSE
INVARIANTS NothingOnlyInMemory ExitClosesAll
CHECK_DEADLOCK FALSE
