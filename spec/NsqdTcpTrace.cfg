SPECIFICATION TraceSpec
CONSTANTS
  Setups <- SetupsQuick
  PrefixFine = FALSE
  Backlog = 0
CONSTRAINT HW
POSTCONDITION TraceAccepted
CHECK_DEADLOCK FALSE
