\* LEAD, expected to FAIL FinOnlyAfterAccept: go-nsq's max_attempts (default 5; here 1) makes the consumer FIN a
\* message it never handled once attempts exceed it.  The check runs the relays with max_attempts = 0 (stated
\* assumption) and reports what the default does as a probe note, not as a verdict.
SPECIFICATION Spec
CONSTANTS
  Msgs = {1, 2}
  Dests = {1, 2}
  Kind = "async"
  Mode = "hostpool"
  Handlers = 2
  Items = {"A", "R", "L", "D"}
  MaxSched = 1
  MaxBad = 2
  MaxTimeouts = 1
  MaxConnLost = 0
  MaxAttempts = 1
  Filter = FALSE
INVARIANTS TypeOK FinOnlyAfterAccept
CHECK_DEADLOCK FALSE
