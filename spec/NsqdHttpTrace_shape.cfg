SPECIFICATION ShapeSpec
CONSTANTS
  Topics = {"t1", "t2"}
  Channels = {"c1", "c2"}
  MaxMsg = 8
  MaxBody = 40
  Deviations = {}
  Requests = {}
CONSTRAINT HW
INVARIANTS Never500OnCompleteRequest
POSTCONDITION TraceAccepted
CHECK_DEADLOCK FALSE
