// Command admin: verification harness for nsqadmin (properties C17 and C18).
//
//	gate-replay   C17 binding A: replay every row of the Admin.tla gate table against the real
//	              nsqadmin (in-process) in front of recording stub upstreams
//	gate-trace    C17 binding B: seeded random requests, recorded as ndjson events for AdminTrace.tla
//	view-run      C18 binding A: serve every cluster enumerated by AdminView.tla from stub upstreams,
//	              fetch every /api view of a real nsqadmin child process and compare with the
//	              predicted views; a crash of the child is an observation
//	view-trace    C18 binding B: seeded random clusters, observed views recorded for AdminViewTrace.tla
package main

import (
	"fmt"
	"os"
)

type subcmd func(args []string) int

var subcmds = map[string]subcmd{}

func main() {
	if len(os.Args) < 2 {
		fmt.Fprintln(os.Stderr, "usage: admin <subcommand> [flags]")
		os.Exit(2)
	}
	f, ok := subcmds[os.Args[1]]
	if !ok {
		fmt.Fprintf(os.Stderr, "unknown subcommand %q\n", os.Args[1])
		os.Exit(2)
	}
	os.Exit(f(os.Args[2:]))
}
