package main

import (
	"bytes"
	"encoding/json"
	"fmt"
	"io"
	"log"
	"net"
	"net/http"
	"net/url"
	"os"
	"time"

	"github.com/nsqio/nsq/nsqd"
)

// Node is a real nsqd running in-process.
type Node struct {
	N    *nsqd.NSQD
	TCP  string
	HTTP string
	Dir  string
	done chan error
	hc   *http.Client
}

type nullLogger struct{}

func (nullLogger) Output(int, string) error { return nil }

func startNode(dir string, mod func(*nsqd.Options)) (*Node, error) {
	opts := nsqd.NewOptions()
	opts.Logger = nullLogger{}
	if os.Getenv("VERIF_NSQD_LOG") != "" {
		opts.Logger = log.New(os.Stderr, "[nsqd] ", log.Lmicroseconds)
	}
	opts.TCPAddress = "127.0.0.1:0"
	opts.HTTPAddress = "127.0.0.1:0"
	opts.HTTPSAddress = "127.0.0.1:0"
	opts.BroadcastAddress = "127.0.0.1"
	opts.DataPath = dir
	opts.QueueScanInterval = 10 * time.Millisecond
	opts.QueueScanRefreshInterval = 40 * time.Millisecond
	opts.SyncTimeout = 50 * time.Millisecond
	if mod != nil {
		mod(opts)
	}
	n, err := nsqd.New(opts)
	if err != nil {
		return nil, err
	}
	if err := n.LoadMetadata(); err != nil {
		return nil, err
	}
	if err := n.PersistMetadata(); err != nil {
		return nil, err
	}
	nd := &Node{N: n, Dir: dir, done: make(chan error, 1)}
	go func() { nd.done <- n.Main() }()
	nd.TCP = n.RealTCPAddr().String()
	nd.HTTP = n.RealHTTPAddr().String()
	nd.hc = &http.Client{Timeout: 20 * time.Second, Transport: &http.Transport{MaxIdleConnsPerHost: 8}}
	// wait until the HTTP server answers
	for i := 0; i < 400; i++ {
		if st, _, err := nd.get("/ping"); err == nil && st == 200 {
			return nd, nil
		}
		time.Sleep(5 * time.Millisecond)
	}
	return nil, fmt.Errorf("nsqd did not come up")
}

// stop performs the graceful shutdown (nsqd.Exit) with a watchdog.
func (nd *Node) stop(deadline time.Duration) error {
	ch := make(chan struct{})
	go func() { nd.N.Exit(); close(ch) }()
	select {
	case <-ch:
		return nil
	case <-time.After(deadline):
		return fmt.Errorf("nsqd.Exit did not return within %s", deadline)
	}
}

func (nd *Node) get(path string) (int, []byte, error) {
	resp, err := nd.hc.Get("http://" + nd.HTTP + path)
	if err != nil {
		return 0, nil, err
	}
	defer resp.Body.Close()
	b, err := io.ReadAll(resp.Body)
	return resp.StatusCode, b, err
}

func (nd *Node) post(path string, body []byte) (int, []byte, error) {
	resp, err := nd.hc.Post("http://"+nd.HTTP+path, "application/octet-stream", bytes.NewReader(body))
	if err != nil {
		return 0, nil, err
	}
	defer resp.Body.Close()
	b, err := io.ReadAll(resp.Body)
	return resp.StatusCode, b, err
}

func q(s string) string { return url.QueryEscape(s) }

// ---- /stats -------------------------------------------------------------

type ClientStat struct {
	ClientID      string `json:"client_id"`
	State         int    `json:"state"`
	ReadyCount    int64  `json:"ready_count"`
	InFlightCount int64  `json:"in_flight_count"`
	MessageCount  int64  `json:"message_count"`
	FinishCount   int64  `json:"finish_count"`
	RequeueCount  int64  `json:"requeue_count"`
}

type ChannelStat struct {
	Name          string       `json:"channel_name"`
	Depth         int64        `json:"depth"`
	BackendDepth  int64        `json:"backend_depth"`
	InFlightCount int64        `json:"in_flight_count"`
	DeferredCount int64        `json:"deferred_count"`
	MessageCount  int64        `json:"message_count"`
	RequeueCount  int64        `json:"requeue_count"`
	TimeoutCount  int64        `json:"timeout_count"`
	ClientCount   int          `json:"client_count"`
	Clients       []ClientStat `json:"clients"`
	Paused        bool         `json:"paused"`
}

type TopicStat struct {
	Name         string        `json:"topic_name"`
	Channels     []ChannelStat `json:"channels"`
	Depth        int64         `json:"depth"`
	BackendDepth int64         `json:"backend_depth"`
	MessageCount int64         `json:"message_count"`
	MessageBytes int64         `json:"message_bytes"`
	Paused       bool          `json:"paused"`
}

type Stats struct {
	Health string      `json:"health"`
	Topics []TopicStat `json:"topics"`
}

func (nd *Node) stats(query string) (*Stats, []byte, error) {
	st, b, err := nd.get("/stats?format=json" + query)
	if err != nil {
		return nil, nil, err
	}
	if st != 200 {
		return nil, b, fmt.Errorf("/stats status %d", st)
	}
	var s Stats
	if err := json.Unmarshal(b, &s); err != nil {
		return nil, b, err
	}
	return &s, b, nil
}

func freeDial(addr string) (net.Conn, error) {
	return net.DialTimeout("tcp", addr, 5*time.Second)
}
