package main

import (
	"bytes"
	"context"
	"crypto/tls"
	"encoding/json"
	"fmt"
	"io"
	"net"
	"net/http"
	"os"
	"path/filepath"
	"sort"
	"strings"
	"sync"
	"sync/atomic"
	"time"

	"github.com/nsqio/nsq/internal/lg"
	"github.com/nsqio/nsq/nsqd"
)

// Daemon is one real nsqd (in-process, package github.com/nsqio/nsq/nsqd) configured with a policy,
// plus the stub auth server it is pointed at.
type Daemon struct {
	Pol       Policy
	Method    string
	n         *nsqd.NSQD
	done      chan error
	Stub      *Stub
	TCP       string
	HTTP      string
	HTTPSPort int
	dir       string
	certs     *Certs
	stats     *http.Client
	statsBase string
	bmu       sync.Mutex
	Log       *authLog
	plainN    int64
	sockDir   string // set when the plaintext HTTP listener is a unix socket (every third daemon)
}

// authLog keeps nsqd's own explanation of failed auth queries (it hides them from the client)
type authLog struct {
	mu    sync.Mutex
	lines []string
}

func (l *authLog) Output(depth int, s string) error {
	if strings.Contains(s, "AUTH failed") {
		l.mu.Lock()
		if len(l.lines) < 50 {
			l.lines = append(l.lines, s)
		}
		l.mu.Unlock()
	}
	return nil
}

func (l *authLog) Find(sub string) string {
	l.mu.Lock()
	defer l.mu.Unlock()
	for _, s := range l.lines {
		if strings.Contains(s, sub) {
			return s
		}
	}
	return ""
}

func StartDaemon(pol Policy, certDir string, certs *Certs, scratch string, idx int) (*Daemon, error) {
	d := &Daemon{Pol: pol, certs: certs, Method: []string{"get", "post"}[idx%2]}
	var err error
	d.dir, err = os.MkdirTemp(scratch, "nsqd-")
	if err != nil {
		return nil, err
	}
	opts := nsqd.NewOptions()
	d.Log = &authLog{}
	opts.Logger = d.Log
	opts.LogLevel = lg.WARN
	opts.TCPAddress = "127.0.0.1:0"
	opts.HTTPAddress = "127.0.0.1:0"
	opts.HTTPSAddress = "127.0.0.1:0"
	if idx%3 == 2 {
		// --http-address may name a unix socket: the same policies apply to what arrives there
		if sd, err := os.MkdirTemp("", "c11s"); err == nil {
			d.sockDir = sd
			opts.HTTPAddress = filepath.Join(sd, "h.sock")
		}
	}
	opts.BroadcastAddress = "127.0.0.1"
	opts.DataPath = d.dir
	// the stub auth server shares a (possibly very busy) machine with everything else: nsqd's defaults of 2 s to
	// connect and 5 s per request would turn scheduling delays into E_AUTH_FAILED
	opts.HTTPClientConnectTimeout = 60 * time.Second
	opts.HTTPClientRequestTimeout = 60 * time.Second
	if pol.TLSCfg {
		opts.TLSCert = certDir + "/server.pem"
		opts.TLSKey = certDir + "/server.key"
	}
	switch pol.TLSReq {
	case "http":
		opts.TLSRequired = nsqd.TLSRequiredExceptHTTP
	case "yes":
		opts.TLSRequired = nsqd.TLSRequired
	}
	switch pol.CertPol {
	case "require":
		opts.TLSClientAuthPolicy = "require"
	case "verify":
		opts.TLSClientAuthPolicy = "require-verify"
		opts.TLSRootCAFile = certDir + "/ca.pem"
	}
	if pol.Auth {
		d.Stub, err = NewStub()
		if err != nil {
			os.RemoveAll(d.dir)
			return nil, err
		}
		opts.AuthHTTPAddresses = []string{d.Stub.Addr()}
		opts.AuthHTTPRequestMethod = d.Method
	}
	d.n, err = nsqd.New(opts)
	if err != nil {
		if d.Stub != nil {
			d.Stub.Close()
		}
		os.RemoveAll(d.dir)
		return nil, err
	}
	d.done = make(chan error, 1)
	go func() { d.done <- d.n.Main() }()
	d.TCP = d.n.RealTCPAddr().String()
	d.HTTP = d.n.RealHTTPAddr().String()
	if d.sockDir != "" {
		d.HTTP = "nsqd.sock"
	}
	d.HTTPSPort = d.n.RealHTTPSAddr().Port
	// the observer's own access to GET /stats: plaintext unless the policy refuses plaintext HTTP
	tr := &http.Transport{MaxIdleConnsPerHost: 64, IdleConnTimeout: 30 * time.Second,
		TLSClientConfig: certs.Config("signed")}
	d.unixDial(tr)
	d.stats = &http.Client{Transport: tr, Timeout: 90 * time.Second}
	if pol.EffTLS() == "yes" {
		d.statsBase = fmt.Sprintf("https://127.0.0.1:%d", d.HTTPSPort)
	} else {
		d.statsBase = "http://" + d.HTTP
	}
	return d, nil
}

func (d *Daemon) Stop() {
	d.n.Exit()
	select {
	case <-d.done:
	case <-time.After(30 * time.Second):
	}
	if d.Stub != nil {
		d.Stub.Close()
	}
	d.stats.CloseIdleConnections()
	os.RemoveAll(d.dir)
	if d.sockDir != "" {
		os.RemoveAll(d.sockDir)
	}
}

// unixDial: plaintext requests to host "nsqd.sock" go to the daemon's unix socket (TLS requests keep their TCP address)
func (d *Daemon) unixDial(tr *http.Transport) {
	if d.sockDir == "" {
		return
	}
	sock := filepath.Join(d.sockDir, "h.sock")
	tr.DialContext = func(ctx context.Context, network, addr string) (net.Conn, error) {
		var nd net.Dialer
		if strings.HasPrefix(addr, "nsqd.sock") {
			return nd.DialContext(ctx, "unix", sock)
		}
		return nd.DialContext(ctx, network, addr)
	}
}

func (d *Daemon) base() string {
	d.bmu.Lock()
	defer d.bmu.Unlock()
	return d.statsBase
}

func (d *Daemon) setBase(b string) {
	d.bmu.Lock()
	d.statsBase = b
	d.bmu.Unlock()
}

type statsDoc struct {
	Topics []struct {
		Name     string `json:"topic_name"`
		Count    int    `json:"message_count"`
		Channels []struct {
			Name string `json:"channel_name"`
		} `json:"channels"`
	} `json:"topics"`
}

// Effects reads GET /stats for the behaviour's two topics.
func (d *Daemon) Effects(prefix string) (Effects, error) {
	e := emptyEffects()
	for _, t := range []string{"t1", "t2"} {
		name := prefix + "_" + t
		q := "/stats?format=json&include_clients=false&include_mem=false&topic=" + name
		resp, err := d.stats.Get(d.base() + q)
		if err != nil {
			return e, err
		}
		body, err := io.ReadAll(resp.Body)
		resp.Body.Close()
		if err != nil {
			return e, err
		}
		if resp.StatusCode == 403 && d.HTTPSPort != 0 && strings.HasPrefix(d.base(), "http://") {
			// the observer was refused on the plaintext port (the check of that refusal is the HTTP family's job):
			// observe over TLS from now on
			d.setBase(fmt.Sprintf("https://127.0.0.1:%d", d.HTTPSPort))
			resp, err = d.stats.Get(d.base() + q)
			if err != nil {
				return e, err
			}
			body, err = io.ReadAll(resp.Body)
			resp.Body.Close()
			if err != nil {
				return e, err
			}
		}
		if resp.StatusCode != 200 {
			return e, fmt.Errorf("GET /stats: %d %s", resp.StatusCode, body)
		}
		var doc statsDoc
		if err := json.Unmarshal(body, &doc); err != nil {
			return e, err
		}
		for _, ts := range doc.Topics {
			if ts.Name != name {
				continue
			}
			e.Topics = append(e.Topics, t)
			e.Enq[t] = ts.Count
			for _, c := range ts.Channels {
				e.Chans = append(e.Chans, []string{t, strings.TrimPrefix(c.Name, prefix+"_")})
			}
		}
	}
	sort.Strings(e.Topics)
	sort.Slice(e.Chans, func(i, j int) bool {
		if e.Chans[i][0] != e.Chans[j][0] {
			return e.Chans[i][0] < e.Chans[j][0]
		}
		return e.Chans[i][1] < e.Chans[j][1]
	})
	return e, nil
}

// HTTPRequest performs one request of the HTTP family against the plaintext or the TLS listener.
// status: the HTTP status, -1 no listener, -2 the TLS handshake / request was refused.
func (d *Daemon) HTTPRequest(port, cert, route, prefix string) (int, string) {
	var base string
	tr := &http.Transport{DisableKeepAlives: true}
	d.unixDial(tr)
	if port == "http" {
		base = "http://" + d.HTTP
	} else {
		if d.HTTPSPort == 0 {
			return -1, "no TLS listener"
		}
		base = fmt.Sprintf("https://127.0.0.1:%d", d.HTTPSPort)
		tr.TLSClientConfig = d.certs.Config(cert)
	}
	cl := &http.Client{Transport: tr, Timeout: 90 * time.Second,
		CheckRedirect: func(*http.Request, []*http.Request) error { return http.ErrUseLastResponse }}
	var resp *http.Response
	var err error
	method, url, payload := "GET", base+"/ping", []byte(nil)
	switch route {
	case "pub":
		method, url, payload = "POST", base+"/pub?topic="+prefix+"_t1", []byte("h-"+prefix)
	case "pprof": // a route registered as a plain net/http handler
		url = base + "/debug/pprof/cmdline"
	case "unknown": // no route matches: the router's NotFound handler
		url = base + "/no/such/" + prefix
	case "badmethod": // the router's MethodNotAllowed handler
		url = base + "/pub?topic=" + prefix + "_t1"
	}
	req, rerr := http.NewRequest(method, url, bytes.NewReader(payload))
	if rerr != nil {
		return -2, rerr.Error()
	}
	if payload != nil {
		req.Header.Set("Content-Type", "application/octet-stream")
	}
	if port == "http" && atomic.AddInt64(&d.plainN, 1)%2 == 0 {
		// every other plaintext request says of itself that it travelled over TLS (what a proxy in front would add): what
		// counts is the connection it arrived on
		req.Header.Set("X-Forwarded-Proto", "https")
		req.Header.Set("X-Forwarded-Ssl", "on")
		req.Header.Set("X-Forwarded-Scheme", "https")
		req.Header.Set("Front-End-Https", "on")
		req.Header.Set("Forwarded", "for=192.0.2.1;proto=https")
	}
	resp, err = cl.Do(req)
	if err != nil {
		var ne net.Error
		if ok := asNetTimeout(err, &ne); ok {
			return -3, err.Error()
		}
		return -2, err.Error()
	}
	body, _ := io.ReadAll(resp.Body)
	resp.Body.Close()
	return resp.StatusCode, string(body)
}

func asNetTimeout(err error, ne *net.Error) bool {
	type timeout interface{ Timeout() bool }
	if t, ok := err.(timeout); ok && t.Timeout() {
		return true
	}
	return false
}

var _ = tls.VersionTLS12
