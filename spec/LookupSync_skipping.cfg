SPECIFICATION Spec
CONSTANTS
  Lookupds = {"l1", "l2"}
  MaxOps = 5
  MaxFaults = 2
  K = 2
  ByName = TRUE
  SkipPingWhenBusy = TRUE
  KeyByIdentity = FALSE
INVARIANT Converges
INVARIANT Refreshed
CHECK_DEADLOCK FALSE
