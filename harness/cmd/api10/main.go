// Command api10: harness for property C10 (nsqd HTTP API: validation, status codes, equivalence with TCP publish).
package main

import (
	"fmt"
	"os"
)

type subcmd func(args []string) int

var subcmds = map[string]subcmd{}

func main() {
	if len(os.Args) < 2 {
		fmt.Fprintln(os.Stderr, "usage: api10 <subcommand> [flags]")
		os.Exit(2)
	}
	f, ok := subcmds[os.Args[1]]
	if !ok {
		fmt.Fprintf(os.Stderr, "unknown subcommand %q\n", os.Args[1])
		os.Exit(2)
	}
	os.Exit(f(os.Args[2:]))
}
