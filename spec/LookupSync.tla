----------------------------- MODULE LookupSync -----------------------------
(***************************************************************************)
(* nsqd/lookup.go + lookup_peer.go: keeping nsqlookupd in sync (C16).      *)
(*                                                                         *)
(* nsqd side : topic/channel OBJECTS (a name can be deleted and created    *)
(*             again: a new object), each creation and each deletion       *)
(*             spawns a notify goroutine; the goroutines deliver in ANY    *)
(*             order (Go gives none); lookupLoop turns a delivered object  *)
(*             into REGISTER / UNREGISTER for every peer; a peer connects  *)
(*             lazily and re-registers everything current on (re)connect;  *)
(*             a heartbeat tick PINGs every peer.                          *)
(* lookupd   : per instance the set of names registered through this       *)
(*             nsqd's current connection (gone when the connection goes).  *)
(* faults    : a lookupd restarts empty / drops the connection / answers   *)
(*             garbage (the command fails and the peer closes).            *)
(*                                                                         *)
(* half-open : a connection dies without nsqlookupd noticing (NAT, black  *)
(*             hole): nsqd times out, reconnects and re-registers over a    *)
(*             NEW connection while the lookupd still holds what the OLD    *)
(*             one registered; later the lookupd reaps the old connection   *)
(*             and drops what THAT connection registered.  KeyByIdentity =  *)
(*             TRUE is a lookupd that files producers under the identity    *)
(*             they advertise instead of under the connection: reaping the  *)
(*             old connection then also drops the new one's registrations   *)
(*             (refuted by TLC, LookupSync_keybyidentity.cfg).              *)
(*                                                                         *)
(* ByName = FALSE is the code as first found: lookupLoop decides REGISTER  *)
(* or UNREGISTER from the delivered OBJECT's exiting flag.  TRUE = it      *)
(* decides from whether the name currently exists (the repair).            *)
(***************************************************************************)
EXTENDS Integers, FiniteSets, TLC

CONSTANTS Lookupds, MaxOps, MaxFaults, K, ByName, KeyByIdentity,
          SkipPingWhenBusy   \* FALSE: the code (PING every peer at every heartbeat).  TRUE: a variant that skips the PING
                             \* for a peer that answered a REGISTER/UNREGISTER since the last heartbeat: refuted by TLC
                             \* (nsqlookupd refreshes a producer's last-update time on PING only, and hides producers
                             \* that have not been refreshed for inactive-producer-timeout)

Topic == "t"
Chan == "t/c"
Names == {Topic, Chan}

VARIABLES objs,     \* object id -> [name, exiting]
          cur,      \* name -> object id of the current (linked) object; domain = names that exist
          pending,  \* set of [obj, n]: notify goroutines not yet delivered
          conn,     \* lookupd -> "down" | "up" | "broken" (nsqd thinks up, the socket is dead)
          reg,      \* lookupd -> names registered there by this nsqd
          stale,    \* lookupd -> names it still holds from a dead connection it has not noticed yet
          half,     \* lookupd -> such a connection exists
          age,      \* lookupd -> heartbeats since it last refreshed this producer (IDENTIFY or PING), capped
          busy,     \* lookupd -> answered a REGISTER / UNREGISTER since the last heartbeat
          quiet,    \* heartbeat ticks since the last change / fault / delivery
          ops, faults, nextId

vars == <<objs, cur, pending, conn, reg, stale, half, age, busy, quiet, ops, faults, nextId>>

Init == /\ objs = <<>> /\ cur = <<>> /\ pending = {} /\ nextId = 1
        /\ conn = [l \in Lookupds |-> "down"] /\ reg = [l \in Lookupds |-> {}]
        /\ stale = [l \in Lookupds |-> {}] /\ half = [l \in Lookupds |-> FALSE]
        /\ age = [l \in Lookupds |-> 0] /\ busy = [l \in Lookupds |-> FALSE]
        /\ quiet = 0 /\ ops = 0 /\ faults = 0

\* what a lookupd should list for this nsqd: its current topics and channels
Current == DOMAIN cur

Create(nm) ==
  /\ ops < MaxOps /\ nm \notin DOMAIN cur
  /\ nm = Chan => Topic \in DOMAIN cur
  /\ objs' = objs @@ (nextId :> [name |-> nm, exiting |-> FALSE])
  /\ cur' = cur @@ (nm :> nextId)
  /\ pending' = pending \cup {[obj |-> nextId, n |-> 1]}
  /\ nextId' = nextId + 1 /\ ops' = ops + 1 /\ quiet' = 0
  /\ UNCHANGED <<conn, reg, stale, half, age, busy, faults>>

\* deleting a topic deletes its channel first (Topic.exit deletes the channels)
Delete(nm) ==
  /\ ops < MaxOps /\ nm \in DOMAIN cur
  /\ nm = Topic => Chan \notin DOMAIN cur
  /\ objs' = [objs EXCEPT ![cur[nm]].exiting = TRUE]
  /\ pending' = pending \cup {[obj |-> cur[nm], n |-> 2]}
  /\ cur' = [x \in (DOMAIN cur) \ {nm} |-> cur[x]]
  /\ ops' = ops + 1 /\ quiet' = 0
  /\ UNCHANGED <<conn, reg, stale, half, age, busy, faults, nextId>>

\* lookupd-side effect of one command
Apply(set, register, nm) ==
  IF register THEN set \cup {nm} \cup (IF nm = Chan THEN {Topic} ELSE {})
  ELSE IF nm = Topic THEN {} ELSE set \ {nm}

\* lookupPeer.Command for peer l carrying (register, nm)
PeerCmd(l, register, nm, c, r) ==
  CASE c = "up"     -> [conn |-> "up", reg |-> Apply(r, register, nm)]
    [] c = "broken" -> [conn |-> "down", reg |-> r]                       \* write/read fails, peer closes, command lost
    [] c = "down"   -> [conn |-> "up", reg |-> Apply(Current, register, nm)]  \* connect: IDENTIFY + REGISTER everything current, then the command

Deliver(p) ==
  /\ p \in pending
  /\ LET o == objs[p.obj]
         register == IF ByName THEN (~o.exiting \/ o.name \in DOMAIN cur) ELSE ~o.exiting
         res == [l \in Lookupds |-> PeerCmd(l, register, o.name, conn[l], reg[l])] IN
       /\ conn' = [l \in Lookupds |-> res[l].conn]
       /\ reg' = [l \in Lookupds |-> res[l].reg]
  /\ pending' = pending \ {p}
  /\ age' = [l \in Lookupds |-> IF conn[l] = "down" THEN 0 ELSE age[l]]      \* a (re)connect IDENTIFYs
  /\ busy' = [l \in Lookupds |-> busy[l] \/ conn[l] = "up"]
  /\ quiet' = 0
  /\ UNCHANGED <<objs, cur, stale, half, ops, faults, nextId>>

\* heartbeat: PING every peer (a dead socket is noticed, a closed peer reconnects and re-registers)
Tick ==
  /\ quiet < K + 1
  /\ conn' = [l \in Lookupds |-> IF conn[l] = "broken" THEN "down" ELSE "up"]
  /\ reg' = [l \in Lookupds |-> IF conn[l] = "down" THEN Current ELSE reg[l]]
  /\ age' = [l \in Lookupds |-> IF conn[l] = "down" THEN 0
                                 ELSE IF conn[l] = "up" /\ ~(SkipPingWhenBusy /\ busy[l]) THEN 0
                                 ELSE IF age[l] < 3 THEN age[l] + 1 ELSE 3]
  /\ busy' = [l \in Lookupds |-> FALSE]
  /\ quiet' = IF pending = {} /\ \A l \in Lookupds : ~half[l] THEN quiet + 1 ELSE 0
  /\ UNCHANGED <<objs, cur, pending, stale, half, ops, faults, nextId>>

\* a lookupd restarts with empty state, or the connection drops: lookupd forgets this producer
Fault(l) ==
  /\ faults < MaxFaults
  /\ reg' = [reg EXCEPT ![l] = {}]
  /\ conn' = [conn EXCEPT ![l] = IF @ = "up" THEN "broken" ELSE @]
  /\ faults' = faults + 1 /\ quiet' = 0
  /\ stale' = [stale EXCEPT ![l] = {}] /\ half' = [half EXCEPT ![l] = FALSE]
  /\ UNCHANGED <<objs, cur, pending, age, busy, ops, nextId>>

\* the connection to l goes dead without l noticing: l keeps what it registered; nsqd finds out at its next command
HalfOpen(l) ==
  /\ faults < MaxFaults /\ conn[l] = "up" /\ ~half[l]
  /\ stale' = [stale EXCEPT ![l] = reg[l]] /\ half' = [half EXCEPT ![l] = TRUE]
  /\ reg' = [reg EXCEPT ![l] = {}]
  /\ conn' = [conn EXCEPT ![l] = "broken"]
  /\ faults' = faults + 1 /\ quiet' = 0
  /\ UNCHANGED <<objs, cur, pending, age, busy, ops, nextId>>

\* l notices at last and removes what the dead connection registered
Reap(l) ==
  /\ half[l]
  /\ stale' = [stale EXCEPT ![l] = {}] /\ half' = [half EXCEPT ![l] = FALSE]
  /\ reg' = IF KeyByIdentity THEN [reg EXCEPT ![l] = {}] ELSE reg
  /\ quiet' = 0
  /\ UNCHANGED <<objs, cur, pending, conn, age, busy, ops, faults, nextId>>

Next == \/ \E nm \in Names : Create(nm) \/ Delete(nm)
        \/ \E p \in pending : Deliver(p)
        \/ \E l \in Lookupds : Fault(l) \/ HalfOpen(l) \/ Reap(l)
        \/ Tick
Spec == Init /\ [][Next]_vars /\ WF_vars(Tick) /\ \A p \in [obj : 1..(2 * MaxOps), n : {1, 2}] : WF_vars(Deliver(p))

---------------------------------------------------------------------------
\* C16: once churn, faults and notifications have stopped, within K heartbeats every lookupd lists exactly the
\* current topics and channels of this nsqd
Listed(l) == reg[l] \cup stale[l]
Converges == (quiet >= K /\ pending = {}) => \A l \in Lookupds : Listed(l) = Current
\* ... and a connected nsqd is refreshed at the lookupd at every heartbeat, however busy it is with registrations:
\* otherwise /lookup and /nodes stop listing it after inactive-producer-timeout
Refreshed == \A l \in Lookupds : conn[l] = "up" => age[l] <= 1
\* liveness form: it eventually does, and stays
EventuallyInSync == <>[](\A l \in Lookupds : Listed(l) = Current)
=============================================================================
