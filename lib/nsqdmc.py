"""Exhaustive TLC runs of the bounded nsqd message-path model (NsqdAbsMC over NsqdAbs)."""


def model_check(ctx):
    if ctx.quick:
        # 1 channel, 1 message, 1 connection, clock 0..2, attempts <= 2: ~1.1e5 distinct states
        ctx.model_check("NsqdAbsMC", "NsqdAbsMC_quick.cfg", timeout=600)
    else:
        # 1 channel, 1 message, 2 connections (answers from the wrong connection, redelivery to another
        # consumer): ~1.7e6 distinct states
        ctx.model_check("NsqdAbsMC", "NsqdAbsMC_thorough.cfg", timeout=3000)
    ctx.assumptions.append("NsqdAbsMC constants: see spec/NsqdAbsMC_%s.cfg; VIEW hides counters; attempts bounded by MaxAtt"
                           % ("quick" if ctx.quick else "thorough"))
