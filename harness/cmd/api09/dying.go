package main

// Name class "dying": a valid name of a topic whose deletion has begun and is not finished.
//
// NSQD.DeleteExistingTopic (nsqd/nsqd.go) first runs topic.Delete() (exit flag set, pump stopped, files
// removed) and only afterwards unlinks the topic from topicMap.  The verif build has a yield point
// verif.Yield("topicdelete.afterDelete", vt(topic)) between the two steps; vt(topic) is "name#n".  A gate
// function installed ONCE for the process (several in-process daemons share it) parks exactly the calls
// whose point is "topicdelete.afterDelete" and whose key names a registered dying topic (distinctive name
// prefix, names unique in the process); every other yield returns at once.  While a deletion is parked
// GetTopic(name) returns the exiting topic and a PUB / MPUB / DPUB to it must be answered with the fatal
// E_PUB_FAILED / E_MPUB_FAILED / E_DPUB_FAILED, enqueue nothing and leave everything else alone.
//
// A deletion that cannot be parked (or does not finish after its release) is reported as "infra": the
// sequence is inconclusive, never a violation.  Violations only come from what the daemon answered and
// from what /stats and /ping say afterwards.

import (
	"encoding/json"
	"fmt"
	"os"
	"path/filepath"
	"strings"
	"sync"
	"sync/atomic"
	"time"

	"github.com/nsqio/nsq/internal/verif"
)

const dyingPrefix = "dYiNg." // no other topic of this harness starts like this
const dyingPoint = "topicdelete.afterDelete"

type DyingTopic struct {
	Name    string
	env     *Env
	parked  chan struct{} // closed by the gate when DeleteExistingTopic reached the yield point
	release chan struct{} // closed by Release: the gate lets the deletion go on
	done    chan struct{} // closed when DeleteExistingTopic returned
	hit     int32
	relOnce sync.Once
	err     error // what DeleteExistingTopic returned
	crumb   string
}

var (
	dyingMu       sync.Mutex
	dyingByName   = map[string]*DyingTopic{}
	dyingSeq      int64
	dyingGateOnce sync.Once
)

// the process-wide gate: called at EVERY yield point of every in-process daemon
func dyingGate(point string, key interface{}) {
	if point != dyingPoint {
		return
	}
	s, ok := key.(string)
	if !ok || !strings.HasPrefix(s, dyingPrefix) {
		return
	}
	i := strings.LastIndexByte(s, '#') // "name#n": n numbers the topic instance
	if i < 0 {
		return
	}
	dyingMu.Lock()
	d := dyingByName[s[:i]]
	dyingMu.Unlock()
	if d == nil || !atomic.CompareAndSwapInt32(&d.hit, 0, 1) {
		return // not (or no longer) one of ours, or this deletion was parked before
	}
	close(d.parked)
	<-d.release
}

func installDyingGate() { dyingGateOnce.Do(func() { verif.SetGate(dyingGate) }) }

// StartDying creates a fresh topic in this daemon, starts its deletion and returns once the deletion is
// parked between topic.Delete() and the unlink.  An error means the situation could not be set up.
func (e *Env) StartDying(worker int, wait time.Duration) (*DyingTopic, error) {
	installDyingGate()
	d := &DyingTopic{
		Name:    fmt.Sprintf("%s%s.w%d.%d", dyingPrefix, e.Kind, worker, atomic.AddInt64(&dyingSeq, 1)),
		env:     e,
		parked:  make(chan struct{}),
		release: make(chan struct{}),
		done:    make(chan struct{}),
	}
	dyingMu.Lock()
	dyingByName[d.Name] = d
	dyingMu.Unlock()
	e.D.GetTopic(d.Name) // creates (and starts) the topic
	go func() {
		d.err = e.D.DeleteExistingTopic(d.Name)
		close(d.done)
	}()
	select {
	case <-d.parked:
		return d, nil
	case <-d.done:
		d.Release(wait)
		return nil, fmt.Errorf("DeleteExistingTopic(%q) returned (%v) without passing the yield point %s", d.Name, d.err, dyingPoint)
	case <-time.After(wait):
		d.Release(wait)
		return nil, fmt.Errorf("DeleteExistingTopic(%q) did not reach the yield point %s within %v", d.Name, dyingPoint, wait)
	}
}

// Parked: the deletion is (still) held between its two steps.
func (d *DyingTopic) Parked() bool {
	select {
	case <-d.parked:
	default:
		return false
	}
	select {
	case <-d.done:
		return false
	default:
		return true
	}
}

// Release lets the parked deletion finish (idempotent) and waits for it.
func (d *DyingTopic) Release(wait time.Duration) error {
	d.relOnce.Do(func() {
		dyingMu.Lock()
		delete(dyingByName, d.Name) // a deletion that has not reached the gate yet will pass it
		dyingMu.Unlock()
		close(d.release)
	})
	if d.crumb != "" {
		os.Remove(d.crumb)
	}
	select {
	case <-d.done:
		if d.err != nil {
			return fmt.Errorf("DeleteExistingTopic(%q): %v", d.Name, d.err)
		}
		return nil
	case <-time.After(wait):
		return fmt.Errorf("the released deletion of %q did not finish within %v", d.Name, wait)
	}
}

// releaseDyingOf: nothing stays parked when a daemon is torn down.
func releaseDyingOf(e *Env) {
	dyingMu.Lock()
	var l []*DyingTopic
	for _, d := range dyingByName {
		if d.env == e {
			l = append(l, d)
		}
	}
	dyingMu.Unlock()
	for _, d := range l {
		d.Release(10 * time.Second)
	}
}

// Breadcrumb: an uncaught panic in a connection goroutine of the in-process daemon kills this process
// before any report is written.  What was being replayed against a parked deletion at that moment is
// kept in <scratch>/dying-inflight-*.json (removed when the sequence ends); checks/C09.py attaches what
// is left of these files to the "daemon panic" violation.
func (d *DyingTopic) Breadcrumb(scratch string, idx int, steps []StepLog) {
	if scratch == "" {
		return
	}
	p := filepath.Join(scratch, fmt.Sprintf("dying-inflight-%s.json", strings.TrimPrefix(d.Name, dyingPrefix)))
	b, _ := json.Marshal(map[string]interface{}{"sequence": idx, "env": d.env.Kind, "limits": d.env.L, "topic": d.Name, "steps": steps})
	if os.WriteFile(p, b, 0644) == nil {
		d.crumb = p
	}
}
