package main

import (
	"fmt"
	"os"
	"sync"

	"github.com/nsqio/nsq/internal/verif"
)

// C19_DEBUG=1: keep nsqd's hook events per message id, to explain oddities of the owed/not-owed accounting.
var (
	dbgMu  sync.Mutex
	dbgEvs = map[string][]string{}
)

func init() {
	if os.Getenv("C19_DEBUG") == "" {
		return
	}
	verif.SetSink(func(e verif.Event) {
		m := e.Map()
		id, _ := m["id"].(string)
		if id == "" {
			return
		}
		c, _ := m["c"].(string)
		if t, ok := m["t"].(string); ok {
			c = t
		}
		dbgMu.Lock()
		dbgEvs[id] = append(dbgEvs[id], fmt.Sprintf("%d:%s:%v:%s", e.Seq, e.Ev, m["k"], c))
		dbgMu.Unlock()
	})
}

func dbgSeq() int64 {
	if os.Getenv("C19_DEBUG") == "" {
		return 0
	}
	var s int64
	done := make(chan struct{})
	go func() {
		defer close(done)
		verif.Ev("HarnessMark", "id", "mark")
	}()
	<-done
	dbgMu.Lock()
	defer dbgMu.Unlock()
	if h := dbgEvs["mark"]; len(h) > 0 {
		fmt.Sscanf(h[len(h)-1], "%d:", &s)
	}
	return s
}

func dbgHistory(id string) []string {
	dbgMu.Lock()
	defer dbgMu.Unlock()
	return dbgEvs[id]
}
