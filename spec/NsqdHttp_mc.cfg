SPECIFICATION Spec
CONSTANTS
  Topics = {"t1", "t2"}
  Channels = {"c1"}
  MaxMsg = 2
  MaxBody = 14
  Deviations = {}
  MaxCnt = 2
  TextL = 8
  Requests <- ReqSet
  Alphabet = "seq"
CONSTRAINT Bounded
VIEW RegView
INVARIANTS TypeOK Pumped
PROPERTIES Documented StepDocStatus StepTableConsistent StepHttpPubEqTcpPub RejectedPublishEnqueuesNothing ExactEffect
CHECK_DEADLOCK FALSE
