package main

import (
	"bufio"
	"fmt"
	"os"
	"regexp"
	"strconv"
	"strings"
)

// One system call of the traced nsq_to_file process, reassembled from strace -f output
// (<unfinished ...> / <... resumed> pairs merged).
type sysRec struct {
	pid      int
	name     string
	args     []string // top-level arguments, still in strace's spelling (strings hex-escaped by -xx)
	ret      string   // "0", "6<path>", "-1", "?" (never returned: process died inside the call)
	errno    string   // "EEXIST" ...
	entrySeq int      // log line on which the call was entered
	exitSeq  int      // log line on which it returned (== entrySeq when printed on one line; 1<<30 when never)
}

const neverReturned = 1 << 30

var (
	reLine    = regexp.MustCompile(`^(\d+)\s+(.*)$`)
	reCall    = regexp.MustCompile(`^([a-z0-9_]+)\((.*)$`)
	reResumed = regexp.MustCompile(`^<\.\.\. ([a-z0-9_]+) resumed>(.*)$`)
	reResult  = regexp.MustCompile(`\)\s+= `)
	reHex     = regexp.MustCompile(`(?:\\x[0-9a-f]{2})+`)
)

// unhex turns strace's \xNN runs back into bytes (everything else is kept as is).
func unhex(s string) string {
	return reHex.ReplaceAllStringFunc(s, func(h string) string {
		b := make([]byte, 0, len(h)/4)
		for i := 0; i+3 < len(h); i += 4 {
			v, _ := strconv.ParseUint(h[i+2:i+4], 16, 8)
			b = append(b, byte(v))
		}
		return string(b)
	})
}

// splitArgs splits "a, b, c" at top level (no nesting inside "...", <...>, [...], {...}).
func splitArgs(s string) []string {
	var out []string
	depth := 0
	inStr := false
	start := 0
	for i := 0; i < len(s); i++ {
		c := s[i]
		switch {
		case inStr:
			if c == '\\' {
				i++
			} else if c == '"' {
				inStr = false
			}
		case c == '"':
			inStr = true
		case c == '<' || c == '[' || c == '{':
			depth++
		case c == '>' || c == ']' || c == '}':
			if depth > 0 {
				depth--
			}
		case c == ',' && depth == 0:
			out = append(out, strings.TrimSpace(s[start:i]))
			start = i + 1
		}
	}
	if strings.TrimSpace(s[start:]) != "" {
		out = append(out, strings.TrimSpace(s[start:]))
	}
	return out
}

// parseFull parses `name(args) = ret [ERRNO (text)]`.
func parseFull(pid int, text string, entry, exit int) (*sysRec, error) {
	m := reCall.FindStringSubmatch(text)
	if m == nil {
		return nil, fmt.Errorf("not a call: %.80s", text)
	}
	rest := m[2]
	// the result is after the LAST ") = "
	locs := reResult.FindAllStringIndex(rest, -1)
	if locs == nil {
		return nil, fmt.Errorf("no result: %.80s", text)
	}
	idx, end := locs[len(locs)-1][0], locs[len(locs)-1][1]
	r := &sysRec{pid: pid, name: m[1], entrySeq: entry, exitSeq: exit}
	r.args = splitArgs(rest[:idx])
	res := strings.TrimSpace(rest[end:])
	f := strings.Fields(res)
	if len(f) > 0 {
		r.ret = f[0]
	}
	if len(f) > 1 && strings.HasPrefix(f[1], "E") {
		r.errno = f[1]
	}
	if r.ret == "?" {
		r.exitSeq = neverReturned
	}
	return r, nil
}

// parseStrace reads a `strace -f -y -xx -o` log.
func parseStrace(path string) ([]*sysRec, bool, error) {
	f, err := os.Open(path)
	if err != nil {
		return nil, false, err
	}
	defer f.Close()
	sc := bufio.NewScanner(f)
	sc.Buffer(make([]byte, 1<<20), 64<<20)
	var recs []*sysRec
	type pend struct {
		text string
		seq  int
	}
	pending := map[int]pend{}
	torn := map[int]pend{}
	killed := false
	seq := 0
	for sc.Scan() {
		seq++
		m := reLine.FindStringSubmatch(sc.Text())
		if m == nil {
			continue
		}
		pid, _ := strconv.Atoi(m[1])
		text := m[2]
		switch {
		case strings.HasPrefix(text, "+++"):
			if strings.Contains(text, "killed by") {
				killed = true
			}
		case strings.HasPrefix(text, "---"):
		case strings.HasSuffix(text, "<unfinished ...>) = ?"):
			// the process was killed inside the call
			pending[pid] = pend{strings.TrimSuffix(text, " <unfinished ...>) = ?"), seq}
		case strings.HasSuffix(text, "<unfinished ...>"):
			pending[pid] = pend{strings.TrimSuffix(text, " <unfinished ...>"), seq}
		case strings.HasPrefix(text, "<... "):
			mm := reResumed.FindStringSubmatch(text)
			p, ok := pending[pid]
			if mm == nil || !ok {
				continue
			}
			delete(pending, pid)
			r, err := parseFull(pid, p.text+mm[2], p.seq, seq)
			if err != nil {
				return nil, killed, fmt.Errorf("line %d: %v", seq, err)
			}
			recs = append(recs, r)
		default:
			if !reCall.MatchString(text) {
				continue
			}
			r, err := parseFull(pid, text, seq, seq)
			if err != nil {
				// a line without a result: strace was cut off while printing it (it dies with its tracee).
				// Acceptable only as the very last thing that thread did: then it is a call that never returned.
				if old, ok := torn[pid]; ok {
					return nil, killed, fmt.Errorf("line %d: no result: %.60s ... %s", old.seq, old.text, tailOf(old.text))
				}
				torn[pid] = pend{text, seq}
				continue
			}
			if old, ok := torn[pid]; ok {
				return nil, killed, fmt.Errorf("line %d: no result: %.60s ... %s", old.seq, old.text, tailOf(old.text))
			}
			recs = append(recs, r)
		}
	}
	for pid, p := range torn {
		if _, ok := pending[pid]; !ok {
			pending[pid] = p
		}
	}
	// calls that were entered and never came back (the process was killed inside them)
	for pid, p := range pending {
		m := reCall.FindStringSubmatch(p.text)
		if m == nil {
			continue
		}
		recs = append(recs, &sysRec{pid: pid, name: m[1], args: splitArgs(m[2]), ret: "?", entrySeq: p.seq, exitSeq: neverReturned})
	}
	return recs, killed, sc.Err()
}

// fdOf parses `6<\x2f...>` -> (6, "/...").
func fdOf(a string) (int, string) {
	i := strings.IndexByte(a, '<')
	if i < 0 {
		n, err := strconv.Atoi(a)
		if err != nil {
			return -1, ""
		}
		return n, ""
	}
	n, err := strconv.Atoi(a[:i])
	if err != nil {
		if strings.HasPrefix(a, "AT_FDCWD") {
			return -100, unhex(strings.TrimSuffix(a[i+1:], ">"))
		}
		return -1, ""
	}
	return n, unhex(strings.TrimSuffix(a[i+1:], ">"))
}

// strOf parses a quoted strace string argument into bytes; complete=false when strace abbreviated it.
func strOf(a string) (string, bool) {
	complete := !strings.HasSuffix(a, "...")
	a = strings.TrimSuffix(a, "...")
	a = strings.TrimPrefix(a, "\"")
	a = strings.TrimSuffix(a, "\"")
	return unhex(a), complete
}

func tailOf(s string) string {
	if len(s) > 120 {
		return s[len(s)-120:]
	}
	return s
}
