package main

// C15 binding A, HTTP half: route x method x argument class -> status (and message), replayed against the real daemon.

import (
	"encoding/json"
	"fmt"
	"math/rand"
	"strings"
)

var c15GoodName = map[string]bool{"valid": true, "validEph": true, "len64": true, "bystander": true}

// a name of the class that certainly does not exist in the registry yet
func (w *c15World) freshName(class string, rng *rand.Rand) string {
	w.seq++
	base := fmt.Sprintf("c15u_%d_%d_", w.id, w.seq)
	switch class {
	case "validEph":
		return base + c15RandName(rng, rng.Intn(20)) + "#ephemeral"
	case "len64":
		return base + c15RandName(rng, 64-len(base))
	}
	return base + c15RandName(rng, rng.Intn(20))
}

func c15UnparsableQuery(q string, i int) string {
	bad := []string{"x=%zz", "%", "a=%G1", "a=1;b=2", "%zz=1", "topic=%"}[i%6]
	if q == "" {
		return bad
	}
	if i%2 == 0 {
		return q + "&" + bad
	}
	return bad + "&" + q
}

func c15RunHttpRow(w *c15World, rep *c15Report, row c15HttpRow, rng *rand.Rand, spell int) error {
	// rows that cannot be set up from outside: the bystander's keys always exist (they are restored after every
	// admin exception), so "bystander name, key absent" is never the daemon's state here
	if !row.Ex && ((row.Route == "/lookup" && row.T == "bystander") ||
		(row.Route == "/channel/delete" && row.T == "bystander" && row.C == "bystander")) {
		rep.mu.Lock()
		rep.RowsSkipped++
		rep.mu.Unlock()
		return nil
	}
	rep.mu.Lock()
	rep.RowsRun++
	rep.mu.Unlock()
	n := spell
	off := rng.Intn(1000)
	tn := c15Names(row.T, "topic", rng, true)
	cn := c15Names(row.C, "chan", rng, true)
	for i := 0; i < n; i++ {
		if err := w.ensure(); err != nil {
			return fmt.Errorf("daemon could not be started: %v", err)
		}
		base := "http://" + w.d.http
		var t, c string
		var args []string
		if row.T != "-" && row.T != "missing" {
			t = c15Pick(tn, i, n, off)
			if c15GoodName[row.T] && row.T != "bystander" && (row.Route == "/lookup" || row.Route == "/channel/delete") {
				t = w.freshName(row.T, rng)
			}
			args = append(args, "topic="+c15Esc(t))
		}
		if row.C != "-" && row.C != "missing" {
			c = c15Pick(cn, i, n, off/7)
			if c15GoodName[row.C] && row.C != "bystander" && row.Route == "/channel/delete" {
				c = w.freshName(row.C, rng)
			}
			args = append(args, "channel="+c15Esc(c))
		}
		switch row.N {
		case "other":
			args = append(args, "node="+c15Esc([]string{"1.2.3.4:4151", c15ByAddr + ":4150", "", c15RandName(rng, 1+rng.Intn(30))}[(off+i)%4]))
		case "bystander":
			args = append(args, fmt.Sprintf("node=%s:%d", c15ByAddr, c15ByHTTPPort))
		}
		if len(args) > 1 && i%2 == 1 {
			args[0], args[len(args)-1] = args[len(args)-1], args[0]
		}
		// ---- set-up of "the named key exists"
		if row.Ex {
			var st int
			var err error
			if row.Route == "/lookup" && row.T != "bystander" {
				st, _, err = c15Do("POST", base+"/topic/create?topic="+c15Esc(t), nil)
			} else if row.Route == "/channel/delete" && !(row.T == "bystander" && row.C == "bystander") {
				st, _, err = c15Do("POST", base+"/channel/create?topic="+c15Esc(t)+"&channel="+c15Esc(c), nil)
			} else {
				st = 200
			}
			if err != nil || st != 200 {
				rep.add(c15Finding{Level: "inconclusive", Kind: "setup", Key: "setup:" + row.class(), Row: row.class(),
					What: fmt.Sprintf("could not create the key the row needs: %d %v", st, err)})
				continue
			}
		}
		q := strings.Join(args, "&")
		if row.Q == "unparsable" {
			q = c15UnparsableQuery(q, off+i)
		} else if q == "" && i%3 == 2 {
			q = "x=" + c15RandName(rng, 1+rng.Intn(10))
		}
		u := base + row.Route
		if q != "" {
			u += "?" + q
		}
		var body []byte
		if (row.Method == "POST" || row.Method == "PUT") && i%2 == 1 {
			body = make([]byte, rng.Intn(200))
			rng.Read(body)
		}
		input := row.Method + " " + row.Route + "?" + q
		if len(input) > 400 {
			input = input[:400] + "..."
		}
		st, rb, err := c15Do(row.Method, u, body)
		obs := fmt.Sprintf("%d %s", st, c15Quote(rb, 120))
		if err != nil {
			obs = "error: " + err.Error()
		}
		rep.triple("http", row.class(), fmt.Sprintf("%d", st))
		mk := func(level, kind, key, what string) {
			rep.add(c15Finding{Level: level, Kind: kind, Key: key, What: what, Row: row.class(), Input: input, Observed: obs, Stderr: w.d.tail(8)})
		}
		if err == nil {
			okMsg := true
			if row.Method != "HEAD" {
				switch {
				case st != 200:
					var m struct {
						Message string `json:"message"`
					}
					okMsg = json.Unmarshal(rb, &m) == nil && m.Message == row.Msg
				case row.Msg == "json":
					okMsg = json.Valid(rb)
				default:
					okMsg = string(rb) == row.Msg
				}
			}
			invalidName := (c15IsBadName(row.T) && (row.Route == "/topic/create" || strings.HasPrefix(row.Route, "/channel/"))) ||
				(c15IsBadName(row.C) && strings.HasPrefix(row.Route, "/channel/"))
			switch {
			case st == row.Status && okMsg:
			case !row.Wf && st >= 200 && st < 300 && invalidName && row.Method == "POST" && row.Q == "ok":
				mk("violation", "http-invalid-name-accepted", "http-invalid-name-accepted:"+row.class(), "a request with an invalid name was not refused")
			case st >= 500:
				mk("drift", "http-5xx", "http-5xx:"+row.class(), fmt.Sprintf("handler failed (recovered); the table says %d %s", row.Status, row.Msg))
			default:
				mk("drift", "table-mismatch", "table:"+row.class(), fmt.Sprintf("real nsqlookupd differs from the table row: expected %d %q", row.Status, row.Msg))
			}
			// a refused create must leave no trace; an accepted one must exist
			if row.Method == "POST" && row.Q == "ok" && (row.Route == "/topic/create" || row.Route == "/channel/create") && row.T != "missing" && row.T != "-" {
				s2, _, e2 := w.d.get("/lookup?topic=" + c15Esc(t))
				chans := map[string]bool{}
				if _, cb, e3 := w.d.get("/channels?topic=" + c15Esc(t)); e3 == nil {
					var m struct {
						Channels []string `json:"channels"`
					}
					json.Unmarshal(cb, &m)
					for _, x := range m.Channels {
						chans[x] = true
					}
				}
				switch {
				case e2 != nil:
				case !row.Wf && c15IsBadName(row.T) && row.T != "wildcard" && s2 == 200:
					mk("violation", "malformed-had-effect", "malformed-had-effect:"+row.class(), "a refused create request created the topic")
				case !row.Wf && c15GoodName[row.T] && row.C != "missing" && row.C != "-" && row.C != "wildcard" && chans[c]:
					mk("violation", "malformed-had-effect", "malformed-had-effect:"+row.class(), "a refused create request created the channel")
				case row.Wf && (s2 != 200 || (row.Route == "/channel/create" && !chans[c])):
					mk("drift", "create-no-effect", "create-no-effect:"+row.class(), fmt.Sprintf("created key is not there: /lookup -> %d, channel listed: %v", s2, chans[c]))
				}
			}
		} else if w.d.alive() {
			mk("inconclusive", "http-error", "http-error:"+row.class(), "request failed: "+err.Error())
		}
		if i == 0 && (off%7 == 0) {
			rep.sample(map[string]interface{}{"state": "http", "class": row.class(), "input": input, "expected": fmt.Sprintf("%d %s", row.Status, row.Msg), "observed": obs})
		}
		// ---- the statement's oracles; the three admin calls that are defined to touch the bystander have their effect modelled
		want := c15ByIntact
		if row.Exc && err == nil && st == 200 {
			switch row.Route {
			case "/topic/delete":
				want = c15ByView{false, false, false, false, false, true}
			case "/channel/delete":
				want = c15ByView{true, true, false, true, true, true}
			case "/topic/tombstone":
				want = c15ByView{true, false, true, true, true, true}
			}
		}
		byKey := ""
		if row.T == "wildcard" && (row.Route == "/topic/delete" || row.Route == "/topic/tombstone") {
			byKey = "http-" + strings.TrimPrefix(row.Route, "/topic/") + "-topic-wildcard"
		}
		gaveUp := w.postStep(rep, row.class(), row.class(), input, obs, want, "", byKey)
		if !gaveUp && want != c15ByIntact {
			if err := w.restoreBystander(); err != nil {
				w.d.stop()
				continue
			}
			if v, detail, err := w.bystanderView(); err == nil && v != c15ByIntact {
				mk("drift", "restore", "restore:"+row.class(), fmt.Sprintf("bystander re-registered but is shown as %+v; %s", v, detail))
				w.d.stop()
			}
		}
	}
	return nil
}

func c15IsBadName(class string) bool {
	switch class {
	case "wildcard", "empty", "long65", "badChar", "ephAlone", "badSuffix":
		return true
	}
	return false
}
