------------------------------ MODULE NsqdAbs ------------------------------
(***************************************************************************)
(* nsqd message path at the level a user relies on (C01 C02 C03 C04 C07    *)
(* C08 C13): where every copy of every message is ("custody"), who may     *)
(* move it, and what the daemon reports about it.                          *)
(*                                                                         *)
(* One action per linearization point a client (or the hooks) can tell     *)
(* apart.  Every action takes its arguments explicitly, so the same        *)
(* definitions serve the bounded model (NsqdAbsMC: arguments quantified    *)
(* over small sets) and trace validation (NsqdAbsTrace: arguments bound to *)
(* the fields of a recorded event of the real daemon).  A guard that       *)
(* fails on a recorded event IS a property violation; each guard names the *)
(* clause of the property it stands for.                                   *)
(*                                                                         *)
(* Custody of message id on channel instance c  (cust[<<c,id>>].loc):      *)
(*   "Q"   queued (memory or disk)         "QM" queued while an Empty ran  *)
(*   "P"   taken by connection k's pump, not yet registered                *)
(*   "F"   in flight to k                  "L"  popped from in-flight,     *)
(*   "D"   deferred                             not yet put back/finished  *)
(*   "DL"  popped from deferred, not yet queued                            *)
(*   "Fin" finished                        "Gone" deliberately discarded   *)
(* Queues are bags: no listed property is about order.                     *)
(***************************************************************************)
EXTENDS Integers, Sequences, FiniteSets, TLC

VARIABLES
  minfo,    \* [<<t,id>> -> [key, crc, len, ts, def, acked]]   every message a topic accepted
  tq,       \* set of <<t,id>>: in the topic's queue
  owed,     \* [<<t,id>> -> channel instances that existed when it was published]
  copying,  \* [t -> [id, rem]]: the message the topic pump holds and the channels still to get a copy
  chan,     \* [c -> [t, st, paused, ppend, emptying, recv, nreq, nto]]
  top,      \* [t -> [paused, gone]]   paused: "no" | "pending" | "yes"; gone: its close / deletion has begun
  cust,     \* [<<c,id>> -> [loc, k, att, pri, dts, mark, via, t0, d0]]
  cl,       \* [k -> [c, tmo, sample, rdy, pend, ready, sends, nfin, nreq, nmsg]]
  done,     \* [k -> set of <<id, kind>>]: what k's commands achieved since its last command completed
  stash     \* [<<c,id>> -> time]: clock reading taken before a deferred publish was scheduled

vars == <<minfo, tq, owed, copying, chan, top, cust, cl, done, stash>>

Has(f, x)    == x \in DOMAIN f
Put(f, x, v) == IF x \in DOMAIN f THEN [f EXCEPT ![x] = v] ELSE f @@ (x :> v)
Drop(f, x)   == [y \in (DOMAIN f) \ {x} |-> f[y]]
Min(a, b)    == IF a <= b THEN a ELSE b
Near(a, b)   == a - b <= 2 /\ b - a <= 2          \* microsecond rounding of nanosecond clocks

NoCust == [loc |-> "none", k |-> 0, att |-> 0, pri |-> 0, dts |-> 0, mark |-> FALSE, via |-> "", t0 |-> 0, d0 |-> 0, qnow |-> 0,
           pass |-> 0]     \* pass: scans of its channel that ended while it sat there past its deadline (AQSDone)
NewChan(t) == [t |-> t, st |-> "new", paused |-> FALSE, ppend |-> {}, emptying |-> FALSE, recv |-> 0, nreq |-> 0, nto |-> 0]
NewClient == [c |-> "", tmo |-> 0, sample |-> 0, rdy |-> 0, pend |-> {}, ready |-> FALSE, sends |-> <<>>,
              nfin |-> 0, nreq |-> 0, nmsg |-> 0, sigAt |-> 0, sigNow |-> 0, evalAt |-> 0, closing |-> FALSE,
              was |-> {}, clsFresh |-> FALSE]
StaleSlack == 1000000   \* microseconds: see AKRecv

Init == /\ minfo = <<>> /\ tq = {} /\ owed = <<>> /\ copying = <<>>
        /\ chan = <<>> /\ top = <<>> /\ cust = <<>> /\ cl = <<>> /\ done = <<>> /\ stash = <<>>

Cu(c, id)     == IF Has(cust, <<c, id>>) THEN cust[<<c, id>>] ELSE NoCust
ChanOf(c)     == chan[c]
Tracked(c)    == Has(chan, c) /\ chan[c].st # "gone"
TopicOf(c)    == chan[c].t
InLoc(c, l)   == {x \in DOMAIN cust : x[1] = c /\ cust[x].loc = l}
HeldBy(k)     == {x \in DOMAIN cust : cust[x].loc = "F" /\ cust[x].k = k}
Transient(c)  == \E x \in DOMAIN cust : x[1] = c /\ cust[x].loc \in {"P", "L", "DL"}
Credit(k, id, kind) == IF Has(done, k) THEN [done EXCEPT ![k] = @ \cup {<<id, kind>>}] ELSE done @@ (k :> {<<id, kind>>})

---------------------------------------------------------------------------
(* Topic: publish, pump *)

\* C12: an id is handed out once per topic.  C01: the channels owed a copy are those whose creation was
\* acknowledged (CCreated) and whose deletion had not begun.
APutBegin(t, id, info) ==
  /\ ~Has(minfo, <<t, id>>)
  /\ minfo' = minfo @@ (<<t, id>> :> info)
  /\ tq' = tq \cup {<<t, id>>}
  /\ owed' = owed @@ (<<t, id>> :> {c \in DOMAIN chan : chan[c].t = t /\ chan[c].st = "live"})
  /\ top' = IF Has(top, t) THEN top ELSE top @@ (t :> [paused |-> "no", gone |-> FALSE])
  /\ UNCHANGED <<copying, chan, cust, cl, done, stash>>

APutEnd(t, id, ok) ==
  /\ Has(minfo, <<t, id>>)
  /\ tq' = IF ok THEN tq ELSE tq \ {<<t, id>>}
  /\ UNCHANGED <<minfo, owed, copying, chan, top, cust, cl, done, stash>>

APutAck(t, ids) ==
  /\ \A i \in ids : Has(minfo, <<t, i>>)
  /\ minfo' = [x \in DOMAIN minfo |-> IF x[1] = t /\ x[2] \in ids THEN [minfo[x] EXCEPT !.acked = TRUE] ELSE minfo[x]]
  /\ UNCHANGED <<tq, owed, copying, chan, top, cust, cl, done, stash>>

\* C03: a paused topic hands nothing more to its channels.  C01: every owed, still-existing channel is in the
\* pump's channel list; the previous message has been copied to all of them.
\* def: the deferral the pump's copy of the message carries (0 once it has been through the topic's disk queue)
ATake(t, id, chans, def) ==
  /\ <<t, id>> \in tq
  /\ ~Has(copying, t)
  /\ Has(top, t) => top[t].paused # "yes"
  /\ \A c \in owed[<<t, id>>] : (chan[c].st = "live") => c \in chans
  /\ tq' = tq \ {<<t, id>>}
  /\ copying' = copying @@ (t :> [id |-> id, rem |-> chans, def |-> def])
  /\ UNCHANGED <<minfo, owed, chan, top, cust, cl, done, stash>>

ACopyFail(c, id) ==
  /\ Has(chan, c)
  /\ chan[c].st \in {"dying", "gone"}          \* a copy may be dropped only for a channel that is going away
  /\ LET t == chan[c].t IN
       copying' = IF Has(copying, t) /\ copying[t].id = id
                  THEN [copying EXCEPT ![t].rem = @ \ {c}] ELSE copying
  /\ UNCHANGED <<minfo, tq, owed, chan, top, cust, cl, done, stash>>

ACopied(t, id) ==
  /\ Has(copying, t) /\ copying[t].id = id
  /\ \A c \in copying[t].rem : ~Has(chan, c) \/ chan[c].st \in {"dying", "gone"}   \* C01: nobody was skipped
  /\ copying' = Drop(copying, t)
  /\ UNCHANGED <<minfo, tq, owed, chan, top, cust, cl, done, stash>>

ATPauseBegin(t, p) ==
  /\ top' = Put(top, t, [paused |-> IF p THEN "pending" ELSE "no", gone |-> Has(top, t) /\ top[t].gone])
  /\ UNCHANGED <<minfo, tq, owed, copying, chan, cust, cl, done, stash>>
ATPauseEnd(t, p) ==
  /\ top' = IF p /\ Has(top, t) /\ top[t].paused = "pending" THEN [top EXCEPT ![t].paused = "yes"] ELSE top
  /\ UNCHANGED <<minfo, tq, owed, copying, chan, cust, cl, done, stash>>

---------------------------------------------------------------------------
(* Channel lifecycle *)

ACMapAdd(c, t) ==
  /\ ~Has(chan, c)
  /\ chan' = chan @@ (c :> NewChan(t))
  /\ UNCHANGED <<minfo, tq, owed, copying, top, cust, cl, done, stash>>

ACCreated(c) ==
  /\ Has(chan, c)
  /\ chan' = IF chan[c].st = "new" THEN [chan EXCEPT ![c].st = "live"] ELSE chan
  /\ UNCHANGED <<minfo, tq, owed, copying, top, cust, cl, done, stash>>

ACDying(c) ==      \* deletion begun, or exit flag set
  /\ Has(chan, c)
  /\ chan' = IF chan[c].st \in {"new", "live"} THEN [chan EXCEPT ![c].st = "dying"] ELSE chan
  /\ UNCHANGED <<minfo, tq, owed, copying, top, cust, cl, done, stash>>

ACDeleted(c) ==    \* C08: delete discards everything the channel held
  /\ Has(chan, c)
  /\ chan' = [chan EXCEPT ![c].st = "gone"]
  /\ cust' = [x \in DOMAIN cust |-> IF x[1] = c /\ cust[x].loc # "Fin"
                                     THEN [cust[x] EXCEPT !.loc = "Gone", !.via = "deleted"] ELSE cust[x]]
  /\ UNCHANGED <<minfo, tq, owed, copying, top, cl, done, stash>>

AEmptyBegin(c) ==
  /\ Has(chan, c)
  /\ chan' = [chan EXCEPT ![c].emptying = TRUE]
  /\ cust' = [x \in DOMAIN cust |-> IF x[1] = c /\ cust[x].loc \in {"Q", "QM"}
                                     THEN [cust[x] EXCEPT !.mark = TRUE] ELSE cust[x]]
  /\ UNCHANGED <<minfo, tq, owed, copying, top, cl, done, stash>>

AReset(c, l) ==    \* C08: empty discards what is in flight ("F") / deferred ("D") at that moment
  /\ cust' = IF Has(chan, c)
             THEN [x \in DOMAIN cust |-> IF x[1] = c /\ cust[x].loc = l
                                         THEN [cust[x] EXCEPT !.loc = "Gone", !.via = "emptied"] ELSE cust[x]]
             ELSE cust
  /\ UNCHANGED <<minfo, tq, owed, copying, chan, top, cl, done, stash>>

AEmptyEnd(c) ==    \* ... and what was queued when it started; what arrived meanwhile may or may not survive
  /\ Has(chan, c)
  /\ chan' = [chan EXCEPT ![c].emptying = FALSE]
  /\ cust' = [x \in DOMAIN cust |->
                IF x[1] = c /\ cust[x].loc \in {"Q", "QM"}
                THEN IF cust[x].mark THEN [cust[x] EXCEPT !.loc = "Gone", !.via = "emptied"]
                                     ELSE [cust[x] EXCEPT !.loc = "QM"]
                ELSE cust[x]]
  /\ UNCHANGED <<minfo, tq, owed, copying, top, cl, done, stash>>

ACPauseBegin(c, p) ==
  /\ chan' = IF Has(chan, c) THEN [chan EXCEPT ![c].ppend = @ \cup {p}] ELSE chan
  /\ UNCHANGED <<minfo, tq, owed, copying, top, cust, cl, done, stash>>
ACPauseEnd(c, p, at, now) ==      \* every subscribed connection's pump has been signalled
  /\ chan' = IF Has(chan, c) THEN [chan EXCEPT ![c].paused = p, ![c].ppend = @ \ {p}] ELSE chan
  /\ cl' = [k \in DOMAIN cl |-> IF cl[k].c = c THEN [cl[k] EXCEPT !.sigAt = at, !.sigNow = now] ELSE cl[k]]
  /\ UNCHANGED <<minfo, tq, owed, copying, top, cust, done, stash>>

---------------------------------------------------------------------------
(* Channel queue *)

\* A message enters a channel's queue (a) as the topic pump's copy, (b) from limbo after REQ 0 or a timeout,
\* (c) when its deferral is due.  C02/C01: never while another copy of it is queued, held or in flight.
ACPutBegin(c, id, att, now) ==
  /\ Tracked(c)
  /\ LET t == chan[c].t  cu == Cu(c, id) IN
     \/ /\ cu.loc = "none"                                  \* (a)
        /\ Has(copying, t) /\ copying[t].id = id /\ c \in copying[t].rem
        \* C04: a deferred publish is queued for immediate delivery only once its delay has run out (on EVERY channel)
        /\ copying[t].def = 0 \/ (Has(minfo, <<t, id>>) /\ now >= minfo[<<t, id>>].pnow + minfo[<<t, id>>].def - 2)
        /\ att = 0
        /\ copying' = [copying EXCEPT ![t].rem = @ \ {c}]
        /\ cust' = cust @@ (<<c, id>> :> [NoCust EXCEPT !.loc = "Q", !.mark = FALSE, !.qnow = now])
        /\ chan' = [chan EXCEPT ![c].recv = @ + 1]
        /\ done' = done
     \/ /\ cu.loc = "L" /\ cu.via \in {"req", "timeout"}    \* (b)
        /\ att = cu.att                                     \* C02/C05: attempts travel with the message
        /\ cu.via = "req" => cu.d0 = 0
        /\ cust' = [cust EXCEPT ![<<c, id>>].loc = "Q", ![<<c, id>>].mark = FALSE, ![<<c, id>>].qnow = now]
        /\ done' = IF cu.via = "req" THEN Credit(cu.k, id, "q") ELSE done
        /\ UNCHANGED <<copying, chan>>
     \/ /\ cu.loc = "DL"                                    \* (c)
        /\ att = cu.att
        /\ cust' = [cust EXCEPT ![<<c, id>>].loc = "Q", ![<<c, id>>].mark = FALSE, ![<<c, id>>].qnow = now]
        /\ UNCHANGED <<copying, chan, done>>
  /\ UNCHANGED <<minfo, tq, owed, top, cl, stash>>

ACRecvDeferred(c, id, now) ==
  /\ stash' = Put(stash, <<c, id>>, now)
  /\ UNCHANGED <<minfo, tq, owed, copying, chan, top, cust, cl, done>>

---------------------------------------------------------------------------
(* Delivery pump of connection k *)

\* C03: ready only if not paused, RDY > 0 and fewer unanswered, unexpired messages than RDY.
\* The counter the code compares may lag behind custody (it is decremented after the pop), never lead it.
AKEval(k, ready, rdy, inflight, paused, at) ==
  /\ Has(cl, k)
  /\ LET c == cl[k].c IN
       \* (the pump reads the count and the state first and reports afterwards: what it reports may be as old as its own
       \*  previous report -- `was`: the counts there have been since then; `clsFresh`: CLS came after it)
       ready => /\ ~paused /\ rdy > 0 /\ inflight < rdy
                /\ (cl[k].closing => cl[k].clsFresh)
                /\ rdy \in {cl[k].rdy} \cup cl[k].pend \cup cl[k].was
                /\ Has(chan, c) => ((FALSE \in {chan[c].paused} \cup chan[c].ppend) \/ cl[k].sigAt > cl[k].evalAt)
                                    \* (... or the pause came after the pump's previous report: this one may predate it)
                /\ Cardinality(HeldBy(k)) < rdy
  /\ cl' = [cl EXCEPT ![k].ready = ready, ![k].evalAt = at, ![k].was = {}, ![k].clsFresh = FALSE]
  /\ UNCHANGED <<minfo, tq, owed, copying, chan, top, cust, done, stash>>

\* C02: only a queued message is handed out.  C03: one message per positive readiness evaluation.
\* C08: never one that was discarded.
AKRecv(k, c, id, att) ==
  /\ Has(cl, k) /\ cl[k].ready /\ cl[k].c = c
  /\ Tracked(c)
  /\ Cu(c, id).loc \in {"Q", "QM"}
  /\ att = Cu(c, id).att
  \* C03: "nothing newer is sent": after a RDY change / CLS / pause has signalled this connection's pump, a message
  \* that entered the queue only later (by more than StaleSlack on the daemon's clock, far beyond any scheduling
  \* hiccup between the pump's evaluation and its select) cannot go out on an evaluation older than the signal
  /\ ~(cl[k].evalAt < cl[k].sigAt /\ Cu(c, id).qnow - cl[k].sigNow > StaleSlack)
  /\ cust' = [cust EXCEPT ![<<c, id>>].loc = "P", ![<<c, id>>].k = k]
  /\ cl' = [cl EXCEPT ![k].ready = FALSE]
  /\ UNCHANGED <<minfo, tq, owed, copying, chan, top, done, stash>>

AKSample(k, c, id) ==      \* C01: the only deliberate drop besides ephemeral overflow
  /\ Has(cl, k) /\ cl[k].sample > 0
  /\ Cu(c, id).loc = "P" /\ Cu(c, id).k = k
  /\ cust' = [cust EXCEPT ![<<c, id>>].loc = "Gone", ![<<c, id>>].via = "sampled"]
  /\ UNCHANGED <<minfo, tq, owed, copying, chan, top, cl, done, stash>>

\* C04: the deadline is delivery time + the connection's msg_timeout
AIFStart(c, id, k, pri, dts, tmo) ==
  /\ Has(cl, k) /\ tmo = cl[k].tmo
  /\ Near(pri, dts + tmo)
  /\ cust' = IF Tracked(c) /\ Cu(c, id).loc = "P" THEN [cust EXCEPT ![<<c, id>>].dts = dts] ELSE cust
  /\ UNCHANGED <<minfo, tq, owed, copying, chan, top, cl, done, stash>>

\* C02: registration in flight: by the pump that took it, attempts + 1; or by its holder's TOUCH, attempts unchanged
AIFPush(c, id, k, att, pri) ==
  /\ Tracked(c)
  /\ LET cu == Cu(c, id) IN
     \/ /\ cu.loc = "P" /\ cu.k = k /\ att = cu.att + 1
        /\ cust' = [cust EXCEPT ![<<c, id>>].loc = "F", ![<<c, id>>].att = att, ![<<c, id>>].pri = pri, ![<<c, id>>].pass = 0]
        /\ done' = done
     \/ /\ cu.loc = "L" /\ cu.via = "touch" /\ cu.k = k /\ att = cu.att
        /\ cust' = [cust EXCEPT ![<<c, id>>].loc = "F", ![<<c, id>>].pri = pri, ![<<c, id>>].pass = 0]
        /\ done' = Credit(k, id, "touch")
  /\ UNCHANGED <<minfo, tq, owed, copying, chan, top, cl, stash>>

\* C07: what is written to the wire is the message the topic accepted: same id, timestamp, body
ASend(k, c, id, att, crc, len, ts) ==
  /\ Has(cl, k)
  /\ Tracked(c) =>
       /\ Cu(c, id).loc = "F" => (Cu(c, id).k = k /\ Cu(c, id).att = att)
       /\ Has(minfo, <<chan[c].t, id>>)
       /\ LET mi == minfo[<<chan[c].t, id>>] IN mi.crc = crc /\ mi.len = len /\ mi.ts = ts
  /\ cl' = [cl EXCEPT ![k].sends = Append(@, [id |-> id, att |-> att, crc |-> crc, len |-> len, ts |-> ts]),
                      ![k].nmsg = @ + 1]
  /\ UNCHANGED <<minfo, tq, owed, copying, chan, top, cust, done, stash>>

\* what the client read off its connection: exactly the frames written, in order
AHRecv(k, id, att, crc, len, ts) ==
  /\ Has(cl, k) /\ cl[k].sends # <<>>
  /\ Head(cl[k].sends) = [id |-> id, att |-> att, crc |-> crc, len |-> len, ts |-> ts]
  /\ cl' = [cl EXCEPT ![k].sends = Tail(@)]
  /\ UNCHANGED <<minfo, tq, owed, copying, chan, top, cust, done, stash>>

---------------------------------------------------------------------------
(* Answers and the timeout scan *)

\* C02: only the connection that holds a message can take it out of flight (its FIN/REQ/TOUCH, or the scan
\* acting in its name once the deadline has passed); anything else fails and changes nothing.
AIFPop(c, id, by, owner, res, now) ==
  /\ IF ~Tracked(c) THEN cust' = cust
     ELSE LET cu == Cu(c, id) IN
       CASE res = "ok"          -> /\ cu.loc = "F" /\ cu.k = owner /\ by = owner
                                   /\ cust' = [cust EXCEPT ![<<c, id>>].loc = "L", ![<<c, id>>].via = "popped",
                                                           ![<<c, id>>].t0 = now]
         [] res = "notinflight" -> cu.loc # "F" /\ cust' = cust
         [] res = "notowner"    -> cu.loc = "F" /\ cu.k # by /\ cust' = cust
  /\ UNCHANGED <<minfo, tq, owed, copying, chan, top, cl, done, stash>>

AFinDone(c, id, k) ==      \* C02: FIN is final
  /\ IF ~Tracked(c) THEN UNCHANGED <<cust, cl, done>>
     ELSE /\ Cu(c, id).loc = "L" /\ Cu(c, id).k = k /\ Cu(c, id).via = "popped"
          /\ cust' = [cust EXCEPT ![<<c, id>>].loc = "Fin"]
          /\ cl' = IF Has(cl, k) THEN [cl EXCEPT ![k].nfin = @ + 1] ELSE cl
          /\ done' = Credit(k, id, "fin")
  /\ UNCHANGED <<minfo, tq, owed, copying, chan, top, stash>>

AReqStart(c, id, k, delay, now) ==
  /\ IF ~Tracked(c) THEN UNCHANGED <<cust, cl, chan>>
     ELSE /\ Cu(c, id).loc = "L" /\ Cu(c, id).k = k /\ Cu(c, id).via = "popped"
          /\ cust' = [cust EXCEPT ![<<c, id>>].via = "req", ![<<c, id>>].d0 = delay, ![<<c, id>>].t0 = now]
          /\ cl' = IF Has(cl, k) THEN [cl EXCEPT ![k].nreq = @ + 1] ELSE cl
          /\ chan' = [chan EXCEPT ![c].nreq = @ + 1]
  /\ UNCHANGED <<minfo, tq, owed, copying, top, done, stash>>

\* C04: requeue delays above max-req-timeout are clamped to it
AReqClamp(reqms, delay, max) == delay = Min(reqms * 1000, max) /\ UNCHANGED vars

AReqExiting(c, id, k) ==   \* a requeue may be dropped only because its channel is being deleted
  /\ IF ~Tracked(c) THEN cust' = cust
     ELSE /\ chan[c].st = "dying"
          /\ Cu(c, id).loc = "L"
          /\ cust' = [cust EXCEPT ![<<c, id>>].loc = "Gone", ![<<c, id>>].via = "exiting"]
  /\ UNCHANGED <<minfo, tq, owed, copying, chan, top, cl, done, stash>>

ATouchCalc(c, id, k, pri, dts, now, tmo, max) ==   \* C04: TOUCH restarts the timeout, capped at delivery + max
  /\ IF ~Tracked(c) THEN cust' = cust
     ELSE LET cu == Cu(c, id) IN
          /\ cu.loc = "L" /\ cu.k = k /\ cu.via = "popped"
          /\ Has(cl, k) => tmo = cl[k].tmo
          /\ Near(dts, cu.dts)
          /\ pri <= Min(now + tmo, dts + max) + 2
          /\ pri >= Min(cu.t0 + tmo, dts + max) - 2
          /\ cust' = [cust EXCEPT ![<<c, id>>].via = "touch"]
  /\ UNCHANGED <<minfo, tq, owed, copying, chan, top, cl, done, stash>>

\* C04: a deferral is never shorter than asked: deadline >= a clock reading taken before + the delay
ADefStart(c, id, pri, now, delay) ==
  /\ pri <= now + delay + 2
  /\ Tracked(c) =>
       LET cu == Cu(c, id) IN
       IF cu.loc = "L" THEN cu.via = "req" /\ delay = cu.d0 /\ pri >= cu.t0 + delay - 2
       ELSE \* a deferred publish: never due before publication + the delay that was asked for (however the channel
            \* arrives at that deadline: a full delay from its own copy, or what is left of it)
            /\ Has(minfo, <<chan[c].t, id>>)
            /\ pri >= minfo[<<chan[c].t, id>>].pnow + minfo[<<chan[c].t, id>>].def - 2
  /\ UNCHANGED vars

ADefPush(c, id, pri) ==
  /\ Tracked(c)
  /\ LET t == chan[c].t  cu == Cu(c, id) IN
     \/ /\ cu.loc = "none"                                   \* deferred publish: the pump's copy
        /\ Has(copying, t) /\ copying[t].id = id /\ c \in copying[t].rem
        /\ copying' = [copying EXCEPT ![t].rem = @ \ {c}]
        /\ cust' = cust @@ (<<c, id>> :> [NoCust EXCEPT !.loc = "D", !.pri = pri])
        /\ chan' = [chan EXCEPT ![c].recv = @ + 1]
        /\ done' = done
     \/ /\ cu.loc = "L" /\ cu.via = "req" /\ cu.d0 > 0        \* REQ with a delay
        /\ cust' = [cust EXCEPT ![<<c, id>>].loc = "D", ![<<c, id>>].pri = pri, ![<<c, id>>].pass = 0]
        /\ done' = Credit(cu.k, id, "d")
        /\ UNCHANGED <<copying, chan>>
  /\ UNCHANGED <<minfo, tq, owed, top, cl, stash>>

ADefPop(c, id, ok) ==
  /\ IF ~Tracked(c) THEN cust' = cust
     ELSE IF ok THEN Cu(c, id).loc = "D" /\ cust' = [cust EXCEPT ![<<c, id>>].loc = "DL"]
          ELSE Cu(c, id).loc # "D" /\ cust' = cust
  /\ UNCHANGED <<minfo, tq, owed, copying, chan, top, cl, done, stash>>

\* C04: never early -- the scan takes a message only when its deadline is not after the scan's clock reading,
\* which is not after the real clock
AScan(c, id, t, pri, now, l) ==
  /\ pri <= t /\ t <= now
  /\ (Tracked(c) /\ Cu(c, id).loc = l) => pri = Cu(c, id).pri
  /\ UNCHANGED vars

\* C04 "soon after" (and C01: it does come back): a scan of a channel takes everything that is due.  A message that sits
\* in flight or deferred past its deadline is not passed over by three scans of its channel in a row (one may be lost to
\* a deadline entered while the scan ran, or to a scan that met a stale heap entry and left the rest for the next tick).
AQSDone(c, t) ==
  /\ IF ~Tracked(c) \/ chan[c].st # "live" THEN cust' = cust
     ELSE LET due == {x \in DOMAIN cust : x[1] = c /\ cust[x].loc \in {"D", "F"} /\ cust[x].pri + 2 < t} IN
          /\ \A x \in due : cust[x].pass < 2
          /\ cust' = [x \in DOMAIN cust |-> IF x \in due THEN [cust[x] EXCEPT !.pass = @ + 1] ELSE cust[x]]
  /\ UNCHANGED <<minfo, tq, owed, copying, chan, top, cl, done, stash>>

AScanTimedOut(c, id, k) ==
  /\ IF ~Tracked(c) THEN UNCHANGED <<cust, chan>>
     ELSE /\ Cu(c, id).loc = "L" /\ Cu(c, id).via = "popped"
          /\ cust' = [cust EXCEPT ![<<c, id>>].via = "timeout"]
          /\ chan' = [chan EXCEPT ![c].nto = @ + 1]
  /\ UNCHANGED <<minfo, tq, owed, copying, top, cl, done, stash>>

---------------------------------------------------------------------------
(* Connections *)

AKIdent(k, tmo, sample) ==
  /\ cl' = IF Has(cl, k) THEN [cl EXCEPT ![k].tmo = tmo, ![k].sample = sample]
           ELSE cl @@ (k :> [NewClient EXCEPT !.tmo = tmo, !.sample = sample])
  /\ UNCHANGED <<minfo, tq, owed, copying, chan, top, cust, done, stash>>

AKSub(k, c) ==
  /\ cl' = IF Has(cl, k) THEN [cl EXCEPT ![k].c = c] ELSE cl
  /\ UNCHANGED <<minfo, tq, owed, copying, chan, top, cust, done, stash>>

\* C03: once CLS has been processed the consumer is never again found ready for a message, whatever it sends (AKEval)
AKCls(k) ==
  /\ cl' = IF Has(cl, k) THEN [cl EXCEPT ![k].closing = TRUE, ![k].clsFresh = TRUE] ELSE cl
  /\ UNCHANGED <<minfo, tq, owed, copying, chan, top, cust, done, stash>>
AKRdyBegin(k, n) ==
  /\ cl' = IF Has(cl, k) THEN [cl EXCEPT ![k].pend = @ \cup {n}] ELSE cl
  /\ UNCHANGED <<minfo, tq, owed, copying, chan, top, cust, done, stash>>
AKRdyEnd(k, n) ==
  /\ cl' = IF Has(cl, k) THEN [cl EXCEPT ![k].rdy = n, ![k].pend = @ \ {n}, ![k].was = @ \cup {cl[k].rdy}] ELSE cl
  /\ UNCHANGED <<minfo, tq, owed, copying, chan, top, cust, done, stash>>

\* the pump of k has been signalled (ReadyStateChan) after a RDY change / CLS
AKRdyDone(k, at, now, sig) ==      \* sig: the count changed, so the pump was signalled (an unchanged RDY wakes nobody)
  /\ cl' = IF Has(cl, k) /\ sig THEN [cl EXCEPT ![k].sigAt = at, ![k].sigNow = now] ELSE cl
  /\ UNCHANGED <<minfo, tq, owed, copying, chan, top, cust, done, stash>>

\* C02: an accepted FIN/REQ/TOUCH did what it says to that message; a refused one did nothing
\* ... and nothing else: no message of k's is finished, requeued or touched in k's name by a command that does not say so
\* (C02: a message is sent again only after its holder requeued it or its timeout expired)
Allowed(cmd, arg) == CASE cmd = "FIN"   -> {<<arg, "fin">>}
                       [] cmd = "REQ"   -> {<<arg, "q">>, <<arg, "d">>}
                       [] cmd = "TOUCH" -> {<<arg, "touch">>}
                       [] OTHER         -> {}
\* wf: the command is well formed (a 16-character id, a numeric REQ delay)
AKCmd(k, cmd, arg, err, wf) ==
  /\ (Has(done, k) /\ Has(cl, k) /\ Tracked(cl[k].c)) => done[k] \subseteq Allowed(cmd, arg)
  \* C02: an answer for a message this connection does not hold (any more) is refused with the non-fatal E_<cmd>_FAILED
  /\ (cmd \in {"FIN", "REQ", "TOUCH"} /\ wf /\ err # "" /\ Has(cl, k) /\ Tracked(cl[k].c)) => err = "E_" \o cmd \o "_FAILED"
  /\ (cmd \in {"FIN", "REQ", "TOUCH"} /\ err = "" /\ Has(cl, k) /\ Tracked(cl[k].c)) =>
        /\ Has(done, k)
        /\ CASE cmd = "FIN"   -> <<arg, "fin">> \in done[k]
             [] cmd = "REQ"   -> <<arg, "q">> \in done[k] \/ <<arg, "d">> \in done[k]
             [] cmd = "TOUCH" -> <<arg, "touch">> \in done[k]
  /\ done' = IF Has(done, k) THEN [done EXCEPT ![k] = {}] ELSE done
  /\ UNCHANGED <<minfo, tq, owed, copying, chan, top, cust, cl, stash>>

---------------------------------------------------------------------------
(* What the daemon reports (C13, C03) -- compared at quiescent points *)

AHStatsC(c, depth, inflight, deferred, count, requeue, timeout) ==
  /\ (Tracked(c) /\ ~Transient(c) /\ ~Has(copying, chan[c].t)) =>
        /\ Cardinality(InLoc(c, "Q")) <= depth
        /\ depth <= Cardinality(InLoc(c, "Q")) + Cardinality(InLoc(c, "QM"))
        /\ inflight = Cardinality(InLoc(c, "F"))
        /\ deferred = Cardinality(InLoc(c, "D"))
        /\ count = chan[c].recv
        /\ requeue = chan[c].nreq
        /\ timeout = chan[c].nto
  /\ UNCHANGED vars

AHStatsK(k, rdy, inflight, fin, req, msgs) ==
  /\ (Has(cl, k) /\ Tracked(cl[k].c) /\ ~Transient(cl[k].c)) =>
        /\ cl[k].pend = {} => rdy = cl[k].rdy
        /\ inflight = Cardinality(HeldBy(k))
        /\ fin = cl[k].nfin /\ req = cl[k].nreq /\ msgs = cl[k].nmsg
        /\ inflight >= 0 /\ rdy >= 0
  /\ UNCHANGED vars

RECURSIVE SumLen(_)
SumLen(S) == IF S = {} THEN 0 ELSE LET x == CHOOSE y \in S : TRUE IN minfo[x].len + SumLen(S \ {x})

AHStatsT(t, count, bytes, depth) ==
  /\ LET ack == {x \in DOMAIN minfo : x[1] = t /\ minfo[x].acked} IN
       /\ count = Cardinality(ack)
       /\ bytes = SumLen(ack)
       /\ depth = Cardinality({x \in tq : x[1] = t})
  /\ UNCHANGED vars

\* Topic.exit: from here on the topic may be missing from what the daemon reports
ATExit(t) ==
  /\ top' = Put(top, t, [paused |-> IF Has(top, t) THEN top[t].paused ELSE "no", gone |-> TRUE])
  /\ UNCHANGED <<minfo, tq, owed, copying, chan, cust, cl, done, stash>>

\* C13: /stats lists every topic that has accepted messages and is not going away -- with or without channels
AHStatsTopics(ts) ==
  /\ \A t \in DOMAIN top :
        (~top[t].gone /\ \E x \in DOMAIN minfo : x[1] = t /\ minfo[x].acked) => t \in ts
  /\ UNCHANGED vars

\* C01/C09: an OK to the publisher means the topic really accepted the message
AHPubAck(keys) ==
  /\ \A key \in keys : \E x \in DOMAIN minfo : minfo[x].key = key /\ minfo[x].acked
  /\ UNCHANGED vars

\* C01: after the drain (every channel unpaused and served by ready consumers that FIN everything, the daemon
\* reporting nothing queued, in flight or deferred) every acknowledged message is finished or deliberately
\* discarded on every channel that was owed it -- nothing is in a queue the daemon no longer has, in limbo, or
\* was never copied.
AHEnd ==
  /\ tq = {} /\ DOMAIN copying = {}
  \* (written as empty sets: TLC treats a bounded \A among an action's conjuncts as a conjunction and explores both sides of
  \*  every disjunction under it -- 2^n times the same successor for n messages of a deleted channel)
  /\ {x \in DOMAIN cust : ~(chan[x[1]].st = "gone" \/ cust[x].loc \in {"Fin", "Gone", "QM"})} = {}
  /\ {m \in DOMAIN minfo : minfo[m].acked /\
        {c \in owed[m] : ~(chan[c].st = "gone" \/ (Has(cust, <<c, m[2]>>) /\ cust[<<c, m[2]>>].loc \in {"Fin", "Gone", "QM"}))} # {}} = {}
  /\ UNCHANGED vars
=============================================================================
