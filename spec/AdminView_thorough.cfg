SPECIFICATION Spec
CONSTANTS
  MaxL = 2
  MaxN = 3
  Profiles = {"empty", "one", "two", "cross", "t2only"}
  LPatterns = {"full", "lagN", "lagT", "tomb", "extra"}
  PlainFail = {"reset", "e500", "garbage", "wrongtype", "slow"}
  ShapeFail = {"tomblen", "nullprod", "nulltopic", "nullchan", "nullclient", "noe2e", "nulle2e"}
  Machine = TRUE
INVARIANTS TypeOK Laws MachineMatchesViews
CONSTRAINT CaseOut
CHECK_DEADLOCK FALSE
