package main

import (
	"bufio"
	"encoding/binary"
	"fmt"
	"io"
	"net"
	"os"
	"time"

	"github.com/nsqio/nsq/nsqd"
)

type nullLogger struct{}

func (nullLogger) Output(int, string) error { return nil }

// startNSQD runs a real nsqd in this process: it is the message source and the judge of what is still owed,
// not the code under test.
func startNSQD(dir string, msgTimeout time.Duration) (*nsqd.NSQD, error) {
	opts := nsqd.NewOptions()
	opts.Logger = nullLogger{}
	opts.TCPAddress = "127.0.0.1:0"
	opts.HTTPAddress = "127.0.0.1:0"
	opts.HTTPSAddress = ""
	opts.BroadcastAddress = "127.0.0.1"
	opts.DataPath = dir
	opts.MsgTimeout = msgTimeout
	opts.QueueScanInterval = 50 * time.Millisecond
	opts.QueueScanRefreshInterval = time.Second
	if err := os.MkdirAll(dir, 0755); err != nil {
		return nil, err
	}
	n, err := nsqd.New(opts)
	if err != nil {
		return nil, err
	}
	go func() { _ = n.Main() }()
	deadline := time.Now().Add(30 * time.Second)
	for time.Now().Before(deadline) {
		c, err := net.DialTimeout("tcp", n.RealTCPAddr().String(), time.Second)
		if err == nil {
			c.Close()
			return n, nil
		}
		time.Sleep(5 * time.Millisecond)
	}
	return nil, fmt.Errorf("nsqd did not start listening")
}

type chanCounts struct {
	Depth, InFlight, Deferred int64
	Messages                  uint64
	Timeouts, Requeues        uint64
	TopicDepth                int64
}

func channelCounts(n *nsqd.NSQD, topic, channel string) (chanCounts, bool) {
	st := n.GetStats(topic, channel, false)
	for _, t := range st.Topics {
		for _, c := range t.Channels {
			if c.ChannelName == channel {
				return chanCounts{c.Depth, int64(c.InFlightCount), int64(c.DeferredCount), c.MessageCount,
					c.TimeoutCount, c.RequeueCount, t.Depth}, true
			}
		}
	}
	return chanCounts{}, false
}

// drainChannel consumes (and finishes) everything the channel still owes; returns the ids in delivery order.
// Speaks the wire protocol directly so that nothing of the client library under nsq_to_file is shared.
func drainChannel(n *nsqd.NSQD, topic, channel string, deadline time.Time) ([]string, error) {
	c, err := net.DialTimeout("tcp", n.RealTCPAddr().String(), 10*time.Second)
	if err != nil {
		return nil, err
	}
	defer c.Close()
	if _, err := fmt.Fprintf(c, "  V2SUB %s %s\nRDY 100\n", topic, channel); err != nil {
		return nil, err
	}
	rd := bufio.NewReader(c)
	var ids []string
	quiet := 0
	for {
		// nsqd moves a timed-out message from "in flight" back to the queue in two steps; between them it is in
		// neither count.  Only a channel that reads empty on many consecutive looks (>= 0.5 s) is empty.
		cc, _ := channelCounts(n, topic, channel)
		if cc.Depth == 0 && cc.InFlight == 0 && cc.Deferred == 0 {
			quiet++
			if quiet >= 10 {
				return ids, nil
			}
			time.Sleep(50 * time.Millisecond)
		} else {
			quiet = 0
		}
		if time.Now().After(deadline) {
			return ids, fmt.Errorf("channel not drained: %+v", cc)
		}
		// Peek does not consume: a frame that arrives in pieces is simply looked at again
		c.SetReadDeadline(time.Now().Add(20 * time.Millisecond))
		hdr, err := rd.Peek(8)
		if err != nil {
			if ne, ok := err.(net.Error); ok && ne.Timeout() {
				continue
			}
			return ids, err
		}
		size := int(binary.BigEndian.Uint32(hdr[0:4]))
		ft := int(binary.BigEndian.Uint32(hdr[4:8]))
		if size < 4 || size > 16<<20 {
			return ids, fmt.Errorf("bad frame size %d", size)
		}
		c.SetReadDeadline(time.Now().Add(60 * time.Second))
		rd.Discard(8)
		data := make([]byte, size-4)
		if _, err := io.ReadFull(rd, data); err != nil {
			return ids, err
		}
		switch ft {
		case 0: // response
			if string(data) == "_heartbeat_" {
				fmt.Fprintf(c, "NOP\n")
			}
		case 1:
			return ids, fmt.Errorf("nsqd error while draining: %s", data)
		case 2:
			if len(data) < 26 {
				return ids, fmt.Errorf("short message frame")
			}
			id := string(data[10:26])
			ids = append(ids, id)
			fmt.Fprintf(c, "FIN %s\n", id)
		}
	}
}
