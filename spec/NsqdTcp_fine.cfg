SPECIFICATION Spec
CONSTANTS
  Setups <- SetupsFine
  PrefixFine = TRUE
  Backlog = 2
INVARIANTS TypeOK TableTotal
PROPERTIES StateMonotone FatalClosesOnlySelf RejectedPublishEnqueuesNothing LimitsHold
CHECK_DEADLOCK FALSE
