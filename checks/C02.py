"""C02 -- exclusive in-flight ownership, attempts, FIN is final (spec: NsqdAbs)."""
import corelib

META = {
    "technique": "TLC model checking of NsqdAbs/NsqdAbsMC and NsqdCore; every TLC-enumerated interleaving of operation pairs "
                 "forced on the real daemon through yield points (gated replay) and compared with the model's prediction; traces of a real in-process nsqd (verif hooks + client-side "
                 "observations) from the seeded 'contend' and 'core' drivers validated against NsqdAbs by TLC; black-box "
                 "ledger on client-visible frames and /stats",
    "design_ref": "5/C02",
}


def run(ctx):
    import nsqdmc
    nsqdmc.model_check(ctx)
    import pairs
    # binding A': every interleaving (TLC, NsqdCore) of two operations' critical sections forced on the real daemon
    pairs.run_pairs(ctx, "C02", pairs=[p for p in pairs.all_pairs() if "EMPTY" not in p], sample=None if not ctx.quick else 160)
    n = 16 if ctx.quick else 120
    corelib.run_modes(ctx, "C02", [("contend", n), ("core", n // 2), ("timing", n // 2)])
    # nsqd's own tests, run with the hooks on, as a trace corpus
    corelib.repo_tests(ctx, "C02")
    ctx.cov["distinct_nontrivial"] = len(ctx.notes.get("event_kinds", {}))
    ctx.cov["rule"] = ("evaluations = hook/harness events of real executions checked step by step by TLC against "
                       "NsqdAbs; distinct = event kinds (spec actions) exercised")
    ctx.assumptions += [
        "hook events are emitted inside the critical section performing the change (DESIGN.md appendix A)",
        "a rejection is attributed to the property whose clause the failing guard stands for (lib/corelib.py)",
    ]
