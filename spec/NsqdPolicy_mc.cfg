\* quick exhaustive check: all 20 valid policies, all 28 commands, 15 answers (MidAnswers) to AUTH and to re-fetches, waits 0/2/3 ticks, 3 commands per connection, HTTP requests (212,438 distinct states, ~6 s idle); the full 77-answer domain is covered by NsqdPolicy_r_grants/_r_refetch and by NsqdPolicy_thorough
SPECIFICATION Spec
CONSTANTS
  Policies <- AllPolicies
  Cmds <- AllCmds
  AnswersA <- MidAnswers
  AnswersR <- MidAnswers
  Waits = {0, 2, 3}
  MaxDepth = 3
  MaxNow = 18
  HttpReqs <- AllHttp
VIEW View
INVARIANTS TypeOK PropertyLevel PlainHttpServed RefetchIffExpired CodeStricter NeverOnExpiry
PROPERTIES PolicyFixed
CHECK_DEADLOCK FALSE
