// Command filelogger: harness for C19 (nsq_to_file never acknowledges what it has not safely written).
//
//	filelogger run --bin <nsq_to_file> --scratch <dir> --seed N --tier quick|thorough
//	               [--killpts killpts.json] --out trace.ndjson --report report.json
//
// Every scenario runs the REAL nsq_to_file binary under strace against a real in-process nsqd, stops it
// (SIGTERM, SIGHUP rotations, SIGKILL at a random instant or injected by strace at the n-th write / fsync /
// close / linkat / unlinkat / openat -- the kill points TLC enumerated from FileLogger.tla), then
//   - inspects the directories: everything nsqd no longer owes must be readable, pre-existing files intact;
//   - turns the syscall log into the operations of FileLoggerAbs.tla for TLC (FileLoggerTrace.tla).
package main

import (
	"encoding/json"
	"flag"
	"fmt"
	"math/rand"
	"os"
	"path/filepath"
	"sort"
	"sync"

	"github.com/nsqio/nsq/verifharness/hlib"
)

type killPt struct {
	Gzip      bool   `json:"gzip"`
	WorkDir   bool   `json:"workdir"`
	SkipEmpty bool   `json:"skip_empty"`
	RotSize   int    `json:"rot_size"`
	RotInt    int    `json:"rot_int"`
	Pc        string `json:"pc"`
}

type report struct {
	Scenarios     int                      `json:"scenarios"`
	Traces        int                      `json:"traces"`
	TraceEvents   int                      `json:"trace_events"`
	Published     int                      `json:"published"`
	NotOwed       int                      `json:"not_owed_checked"`
	Fins          int                      `json:"fins"`
	Fsyncs        int                      `json:"fsyncs"`
	Files         int                      `json:"files_inspected"`
	GzTruncated   int                      `json:"gzip_files_with_torn_tail"`
	TornMembers   int                      `json:"gzip_members_left_torn_by_a_dead_process"`
	Stops         map[string]int           `json:"stops"`
	ExitCodes     map[string]int           `json:"exit_codes"`
	KillPoints    int                      `json:"kill_point_runs"`
	InjectFired   int                      `json:"kill_point_fired"`
	KillPcs       map[string]int           `json:"kill_point_pcs_fired"`
	Fatals        map[string]int           `json:"tool_fatal_exits"`
	Restarts      int                      `json:"runs_with_restart"`
	Rotations     int                      `json:"runs_with_rotation"`
	LinkCollision int                      `json:"runs_with_link_eexist"`
	OpenCollision int                      `json:"runs_with_open_eexist"`
	AppendedOld   int                      `json:"runs_appending_to_existing_file"`
	Stuck         int                      `json:"stuck_after_stop"`
	Distinct      int                      `json:"distinct_nontrivial"`
	Violations    []violation              `json:"violations"`
	Inconclusive  []string                 `json:"inconclusive"`
	Notes         []string                 `json:"notes"`
	Samples       []map[string]interface{} `json:"samples"`
}

// injectFor maps a program counter of FileLogger.tla at which TLC killed the process to the system call after
// whose return the real process is killed: the router is then exactly between that call and its next step.
func injectFor(pc string, rng *rand.Rand, n int, workdir bool) string {
	switch pc {
	case "w_body": // file just opened by updateFile, nothing of the message written yet
		return fmt.Sprintf("open:%d", 1+rng.Intn(3))
	case "w_nl", "sy_gz", "sy_fsync", "cl_gz", "cl_fsync": // between the writes of a record / before the fsync covering it
		return fmt.Sprintf("write:%d", 1+rng.Intn(2*n))
	case "finish", "cl_closefd": // fsync has returned, FIN not yet issued / file not yet closed
		return fmt.Sprintf("fsync:%d", 1+rng.Intn(1+n/2))
	case "cl_link": // file closed, not yet linked into the output directory
		return fmt.Sprintf("close:%d", 1+rng.Intn(3))
	case "cl_unlink": // linked, work-dir name not yet removed
		return fmt.Sprintf("link:%d", 1+rng.Intn(3))
	case "uf_name", "uf_probe": // old file closed (and handed off), next file not yet opened
		if !workdir {
			return fmt.Sprintf("close:%d", 1+rng.Intn(3))
		}
		return fmt.Sprintf("unlink:%d", 1+rng.Intn(3))
	default: // select, sync, closechk, exitchk, cl_start: some of the batch's FINs are out, the router is back in its loop
		return fmt.Sprintf("fin:%d", 1+rng.Intn(n))
	}
}

func main() {
	if len(os.Args) < 2 || os.Args[1] != "run" {
		fmt.Fprintln(os.Stderr, "usage: filelogger run [flags]")
		os.Exit(2)
	}
	fs := flag.NewFlagSet("run", flag.ExitOnError)
	bin := fs.String("bin", "", "nsq_to_file binary")
	scratch := fs.String("scratch", "", "scratch directory")
	seed := fs.Int64("seed", 1, "seed")
	tier := fs.String("tier", "quick", "quick|thorough")
	killpts := fs.String("killpts", "", "JSON list of TLC kill points")
	out := fs.String("out", "trace.ndjson", "trace output")
	rep := fs.String("report", "report.json", "report output")
	par := fs.Int("parallel", 8, "scenarios in parallel")
	maxEvents := fs.Int("max-events", 120000, "cap of trace events handed to TLC")
	keep := fs.Bool("keep", false, "keep the directories of inconclusive scenarios")
	only := fs.Int("only", 0, "run only the scenario with this id (debugging)")
	fs.Parse(os.Args[2:])
	if *bin == "" || *scratch == "" {
		fmt.Fprintln(os.Stderr, "--bin and --scratch are required")
		os.Exit(2)
	}
	if _, err := os.Stat("/usr/bin/strace"); err != nil {
		fmt.Fprintln(os.Stderr, "strace not available")
		os.Exit(2)
	}
	rng := rand.New(rand.NewSource(*seed))
	quick := *tier != "thorough"

	var scs []scenario
	mk := func(o scenOpts, stop string) scenario {
		sc := scenario{ID: len(scs) + 1, Opts: o, Stop: stop, Seed: rng.Int63()}
		sc.NMsgs = 8 + rng.Intn(25)
		sc.Backlog = rng.Intn(sc.NMsgs/2 + 1)
		sc.SpanMs = 600 + rng.Intn(900)
		if o.DateFmt != "%Y-%m-%d_%H" || o.RotIntMs > 0 {
			sc.SpanMs += 1200 // give the name / the interval time to roll over
		}
		sc.StopMs = 100 + rng.Intn(sc.SpanMs+300)
		for h := rng.Intn(3); h > 0; h-- {
			sc.Hups = append(sc.Hups, 50+rng.Intn(sc.SpanMs))
		}
		sc.Pre = rng.Intn(4)
		if o.WorkDir && rng.Intn(2) == 0 {
			sc.Foreign = 100 + rng.Intn(sc.SpanMs)
		}
		sc.Probe = o.WorkDir && stop != "inject"
		if stop != "drainterm" && rng.Intn(5) < 2 {
			sc.Restart = []string{"term", "kill"}[rng.Intn(2)]
			sc.Post = 1 + sc.NMsgs/3
		}
		return sc
	}
	// an fsync that fails (EIO, or ENOSPC reported at fsync time): nothing the failed call was for is acknowledged
	faultScs := func(n int) {
		for i := 0; i < n; i++ {
			o := scenOpts{Gzip: i%2 == 0, WorkDir: i%3 == 0, SyncMs: []int{20, 150}[i%2], MaxInFlight: []int{1, 3, 200}[i%3],
				DateFmt: "%Y-%m-%d_%H"}
			sc := mk(o, "drainterm")
			sc.Hups, sc.Foreign, sc.Probe, sc.Restart, sc.Post = nil, 0, false, "", 0
			sc.Fault = fmt.Sprintf("fsync,fdatasync:%s:%d", []string{"EIO", "ENOSPC"}[i%2], 1+rng.Intn(4))
			scs = append(scs, sc)
		}
	}
	// messages that time out at nsqd and come again while their first copy is still waiting for the next sync (sync interval
	// far longer than the message timeout, few messages): killed then, nothing nsqd no longer owes is missing
	redeliverScs := func(n int) {
		for i := 0; i < n; i++ {
			o := scenOpts{Gzip: i%3 != 2, WorkDir: i%2 == 1, SyncMs: 60000, MaxInFlight: []int{200, 5}[i%2], DateFmt: "%Y-%m-%d_%H"}
			sc := mk(o, "kill")
			sc.Hups, sc.Foreign, sc.Probe, sc.Restart, sc.Post, sc.Pre = nil, 0, false, "", 0, 0
			sc.NMsgs, sc.Backlog, sc.SpanMs = 3+rng.Intn(3), 1, 300
			sc.StopMs = 4600 + rng.Intn(1500) // nsqd's message timeout here is 2 s: two rounds of redelivery have happened
			scs = append(scs, sc)
		}
	}
	// the output dir is a small file system that fills up: write(2) fails with ENOSPC from some message on, for good.  The tool
	// may stop or go on trying; what nsqd no longer owes is in the files
	fullScs := func(n int) {
		for i := 0; i < n; i++ {
			o := scenOpts{Gzip: false, WorkDir: false, SyncMs: []int{20, 150}[i%2], MaxInFlight: []int{1, 3}[i%2], DateFmt: "%Y-%m-%d_%H"}
			sc := mk(o, "kill")
			sc.Hups, sc.Foreign, sc.Probe, sc.Restart, sc.Post, sc.Pre = nil, 0, false, "", 0, 0
			sc.NMsgs, sc.Backlog, sc.SpanMs = 16, 2, 400
			sc.TinyKB = 64
			sc.StopMs = 3500 + rng.Intn(1000)
			scs = append(scs, sc)
		}
	}
	dims := func(o *scenOpts) {
		o.DateFmt = []string{"%Y-%m-%d_%H", "%Y%m%d_%H%M%S"}[rng.Intn(2)]
		o.SyncMs = []int{20, 150, 1000}[rng.Intn(3)]
		o.MaxInFlight = []int{1, 3, 200}[rng.Intn(3)]
	}
	// kill points enumerated by TLC
	var kps []killPt
	if *killpts != "" {
		b, err := os.ReadFile(*killpts)
		if err != nil {
			fmt.Fprintln(os.Stderr, err)
			os.Exit(2)
		}
		if err := json.Unmarshal(b, &kps); err != nil {
			fmt.Fprintln(os.Stderr, err)
			os.Exit(2)
		}
	}
	// the options lattice: the option combinations TLC explored (the `opt` values of FileLogger.tla's initial
	// states, read off the kill points); without a kill point file, all 32 combinations of the five switches
	type combo struct {
		g, w, s bool
		rs, ri  int
	}
	var combos []combo
	seenCombo := map[combo]bool{}
	for _, k := range kps {
		c := combo{k.Gzip, k.WorkDir, k.SkipEmpty, k.RotSize, k.RotInt}
		if !seenCombo[c] {
			seenCombo[c] = true
			combos = append(combos, c)
		}
	}
	if len(combos) == 0 {
		for c := 0; c < 32; c++ {
			combos = append(combos, combo{c&1 != 0, c&2 != 0, c&4 != 0, (c >> 3) & 1, (c >> 4) & 1})
		}
	}
	sort.Slice(combos, func(a, b int) bool { return fmt.Sprint(combos[a]) < fmt.Sprint(combos[b]) })
	rounds := 1
	if !quick {
		rounds = 4
	}
	for r := 0; r < rounds; r++ {
		for c, cb := range combos {
			o := scenOpts{Gzip: cb.g, WorkDir: cb.w, SkipEmpty: cb.s}
			if cb.rs != 0 {
				o.RotSize = int64(150 + rng.Intn(400))
			}
			if cb.ri != 0 {
				o.RotIntMs = 300 + rng.Intn(500)
			}
			dims(&o)
			stop := []string{"term", "kill", "drainterm"}[(c+r+int(*seed))%3]
			scs = append(scs, mk(o, stop))
		}
	}
	// killed with a written-but-unsynced batch, restarted inside the same file-name window, more traffic: the
	// Kill-at-w_nl / Restart / open-existing-file behaviours of FileLogger.tla (FileLogger_restart*.cfg), for every
	// option combination without rotate-interval (an interval always forces a fresh file)
	for r := 0; r < rounds; r++ {
		for _, cb := range combos {
			if cb.ri != 0 {
				continue
			}
			o := scenOpts{Gzip: cb.g, WorkDir: cb.w, SkipEmpty: cb.s, DateFmt: "%Y-%m-%d_%H", SyncMs: 1000, MaxInFlight: 200}
			if cb.rs != 0 {
				o.RotSize = int64(600 + rng.Intn(600))
			}
			sc := mk(o, "inject")
			sc.Hups, sc.Foreign = nil, 0
			sc.Pc = "w_nl"
			if o.Gzip {
				sc.Inject = fmt.Sprintf("gzhdr:%d", 1+rng.Intn(2))
			} else {
				sc.Inject = fmt.Sprintf("write:%d", 1+2*rng.Intn(4)) // odd: body written, newline not yet
			}
			sc.Restart = "term"
			sc.Post = 3 + rng.Intn(8)
			sc.Backlog = sc.NMsgs - sc.Post // everything of the first phase is there at once: one big pending batch
			scs = append(scs, sc)
		}
	}
	if quick {
		faultScs(8)
		redeliverScs(4)
		fullScs(2)
	} else {
		faultScs(48)
		redeliverScs(24)
		fullScs(8)
	}
	if len(kps) > 0 {
		sort.Slice(kps, func(a, b int) bool { return fmt.Sprint(kps[a]) < fmt.Sprint(kps[b]) })
		rng.Shuffle(len(kps), func(a, b int) { kps[a], kps[b] = kps[b], kps[a] })
		limit := len(kps)
		if quick && limit > 48 {
			limit = 48
		}
		// quick: make sure every program counter is represented before sampling the rest
		seen := map[string]bool{}
		var chosen []killPt
		for _, k := range kps {
			if !seen[k.Pc] {
				seen[k.Pc] = true
				chosen = append(chosen, k)
			}
		}
		for _, k := range kps {
			if len(chosen) >= limit {
				break
			}
			chosen = append(chosen, k)
		}
		for _, k := range chosen {
			o := scenOpts{Gzip: k.Gzip, WorkDir: k.WorkDir, SkipEmpty: k.SkipEmpty}
			if k.RotSize > 0 {
				o.RotSize = int64(150 + rng.Intn(400))
			}
			if k.RotInt > 0 {
				o.RotIntMs = 300 + rng.Intn(500)
			}
			dims(&o)
			if k.Pc == "cl_link" || k.Pc == "cl_unlink" || k.Pc == "uf_name" || k.Pc == "uf_probe" || k.Pc == "w_body" {
				o.DateFmt = "%Y%m%d_%H%M%S" // rotations make these calls happen while messages flow
			}
			sc := mk(o, "inject")
			sc.Pc = k.Pc
			sc.Inject = injectFor(k.Pc, rng, sc.NMsgs, k.WorkDir)
			scs = append(scs, sc)
		}
	}

	results := make([]scenResult, len(scs))
	var wg sync.WaitGroup
	sem := make(chan struct{}, *par)
	for i := range scs {
		wg.Add(1)
		sem <- struct{}{}
		go func(i int) {
			defer wg.Done()
			defer func() { <-sem }()
			if *only != 0 && scs[i].ID != *only {
				results[i].Inconclusive = "skipped"
				return
			}
			dir := filepath.Join(*scratch, fmt.Sprintf("sc%d", scs[i].ID))
			os.RemoveAll(dir) // never run over what an earlier invocation left in the same scratch directory
			os.MkdirAll(dir, 0755)
			results[i] = runScenario(dir, scs[i], *bin)
			if len(results[i].Violations) == 0 && !(*keep && results[i].Inconclusive != "") {
				os.RemoveAll(dir)
			}
		}(i)
	}
	wg.Wait()

	w, err := hlib.NewNDJSON(*out)
	if err != nil {
		fmt.Fprintln(os.Stderr, err)
		os.Exit(2)
	}
	R := report{Stops: map[string]int{}, ExitCodes: map[string]int{}, KillPcs: map[string]int{}, Fatals: map[string]int{}}
	distinct := map[string]bool{}
	for _, r := range results {
		R.Scenarios++
		if r.Inconclusive != "" {
			R.Inconclusive = append(R.Inconclusive, fmt.Sprintf("scenario %d (%+v): %s", r.Sc.ID, r.Sc, r.Inconclusive))
			continue
		}
		R.Stops[r.Sc.Stop]++
		R.ExitCodes[fmt.Sprint(r.ExitCode)]++
		R.Published += r.Published
		R.NotOwed += r.NotOwed
		R.Fins += r.Fins
		R.Fsyncs += r.Fsyncs
		R.Files += r.Files
		R.GzTruncated += r.GzTruncated
		R.TornMembers += r.TornMembers
		if r.Sc.Stop == "inject" {
			R.KillPoints++
			if r.InjectFired {
				R.InjectFired++
				R.KillPcs[r.Sc.Pc]++
			}
		}
		if r.Sc.Restart != "" {
			R.Restarts++
		}
		if r.Fatal != "" {
			R.Fatals[r.Fatal]++
		}
		if r.Creates > 1 {
			R.Rotations++
		}
		if r.LinkEEXIST > 0 {
			R.LinkCollision++
		}
		if r.OpenEEXIST > 0 {
			R.OpenCollision++
		}
		if r.OpenOld > 0 {
			R.AppendedOld++
		}
		if r.Stuck {
			R.Stuck++
		}
		for _, n := range r.Notes {
			R.Notes = append(R.Notes, fmt.Sprintf("scenario %d: %s", r.Sc.ID, n))
		}
		R.Violations = append(R.Violations, r.Violations...)
		if r.Fins > 0 && r.Creates+r.OpenOld > 0 {
			o := r.Sc.Opts
			distinct[fmt.Sprint(o.Gzip, o.WorkDir, o.SkipEmpty, o.RotSize > 0, o.RotIntMs > 0, o.DateFmt, o.SyncMs, o.MaxInFlight,
				r.Sc.Stop, r.Sc.Restart, r.Sc.Pc, r.ExitCode, r.Creates > 1, r.LinkEEXIST > 0, r.OpenEEXIST > 0, r.OpenOld > 0, len(r.Sc.Hups))] = true
		}
		if w.N+len(r.Events)+1 <= *maxEvents && len(r.Events) > 0 {
			w.Put(map[string]interface{}{"ev": "Reset"})
			for _, e := range r.Events {
				w.Put(e)
			}
			R.Traces++
		}
		if r.Sample != nil && len(R.Samples) < 6 && (len(R.Samples) < 3 || r.Sc.Stop == "inject") {
			R.Samples = append(R.Samples, r.Sample)
		}
	}
	w.Close()
	R.TraceEvents = w.N
	R.Distinct = len(distinct)
	if err := hlib.WriteJSON(*rep, R); err != nil {
		fmt.Fprintln(os.Stderr, err)
		os.Exit(2)
	}
	fmt.Printf("scenarios=%d traces=%d events=%d published=%d not_owed=%d fins=%d violations=%d inconclusive=%d\n",
		R.Scenarios, R.Traces, R.TraceEvents, R.Published, R.NotOwed, R.Fins, len(R.Violations), len(R.Inconclusive))
}
