SPECIFICATION Spec
CONSTANTS
  Daemons = {a, b, c}
  UnlockEarly = TRUE
INVARIANTS OnlyTheOwnerWrites OneAlive
CHECK_DEADLOCK FALSE
