SPECIFICATION Spec
CONSTANTS
  Lookupds = {"l1"}
  MaxOps = 4
  MaxFaults = 1
  K = 2
  ByName = FALSE
INVARIANT Converges
CHECK_DEADLOCK FALSE
