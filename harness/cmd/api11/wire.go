package main

import (
	"bufio"
	"bytes"
	"crypto/tls"
	"encoding/binary"
	"encoding/json"
	"errors"
	"fmt"
	"io"
	"net"
	"os"
	"strings"
	"time"
)

// Conn is a raw V2 protocol client: it sends exactly the bytes of one command and reports exactly
// the frames that came back.
type Conn struct {
	raw net.Conn
	rw  net.Conn // raw or the TLS session on top of it
	r   *bufio.Reader
	tls bool
}

type Frame struct {
	Kind string // "response" | "error" | "message" | "eof" | "timeout" | "reset"
	Data string
}

func Dial(addr string) (*Conn, error) {
	c, err := net.DialTimeout("tcp", addr, 20*time.Second)
	if err != nil {
		return nil, err
	}
	if _, err := c.Write([]byte("  V2")); err != nil {
		c.Close()
		return nil, err
	}
	return &Conn{raw: c, rw: c, r: bufio.NewReader(c)}, nil
}

func (c *Conn) Close() { c.raw.Close() }

// ReadFrame waits up to d for the next frame (heartbeats are answered with NOP and skipped).
func (c *Conn) ReadFrame(d time.Duration) Frame {
	for {
		c.rw.SetReadDeadline(time.Now().Add(d))
		var hdr [8]byte
		if _, err := io.ReadFull(c.r, hdr[:]); err != nil {
			return errFrame(err)
		}
		size := int32(binary.BigEndian.Uint32(hdr[:4]))
		ft := int32(binary.BigEndian.Uint32(hdr[4:]))
		if size < 4 || size > 1<<20 {
			return Frame{Kind: "garbage", Data: fmt.Sprintf("size %d type %d", size, ft)}
		}
		data := make([]byte, size-4)
		if _, err := io.ReadFull(c.r, data); err != nil {
			return errFrame(err)
		}
		switch ft {
		case 0:
			if string(data) == "_heartbeat_" {
				c.rw.Write([]byte("NOP\n"))
				continue
			}
			return Frame{Kind: "response", Data: string(data)}
		case 1:
			return Frame{Kind: "error", Data: string(data)}
		case 2:
			return Frame{Kind: "message", Data: fmt.Sprintf("%d bytes", len(data))}
		}
		return Frame{Kind: "garbage", Data: fmt.Sprintf("frame type %d", ft)}
	}
}

func errFrame(err error) Frame {
	var ne net.Error
	if errors.As(err, &ne) && ne.Timeout() {
		return Frame{Kind: "timeout"}
	}
	if errors.Is(err, os.ErrDeadlineExceeded) {
		return Frame{Kind: "timeout"}
	}
	if err == io.EOF || err == io.ErrUnexpectedEOF {
		return Frame{Kind: "eof"}
	}
	return Frame{Kind: "reset", Data: err.Error()}
}

func lenPrefixed(b []byte) []byte {
	out := make([]byte, 4+len(b))
	binary.BigEndian.PutUint32(out, uint32(len(b)))
	copy(out[4:], b)
	return out
}

var unknownID = []byte("0123456789abcdef")

// Encode returns the bytes of one command (one Write, so the server's buffered reader takes command and
// body together and a refusal is followed by an orderly close).
func Encode(c Cmd, topic, channel, secret string) []byte {
	var b bytes.Buffer
	switch c.Op {
	case "IDENTIFY", "IDENTIFY_TLS":
		m := map[string]interface{}{"client_id": "api11", "hostname": "verif", "feature_negotiation": true,
			"user_agent": "verif-api11"}
		if c.Op == "IDENTIFY_TLS" {
			m["tls_v1"] = true
		}
		js, _ := json.Marshal(m)
		b.WriteString("IDENTIFY\n")
		b.Write(lenPrefixed(js))
	case "AUTH":
		b.WriteString("AUTH\n")
		b.Write(lenPrefixed([]byte(secret)))
	case "PUB":
		b.WriteString("PUB " + topic + "\n")
		if c.Body == "bad" {
			b.Write([]byte{0, 0, 0, 0})
		} else {
			b.Write(lenPrefixed([]byte("m-" + topic)))
		}
	case "DPUB":
		b.WriteString("DPUB " + topic + " 60000\n")
		if c.Body == "bad" {
			b.Write([]byte{0, 0, 0, 0})
		} else {
			b.Write(lenPrefixed([]byte("d-" + topic)))
		}
	case "MPUB":
		b.WriteString("MPUB " + topic + "\n")
		var body bytes.Buffer
		if c.Body == "bad" {
			body.Write([]byte{0, 0, 0, 0}) // zero messages
		} else {
			body.Write([]byte{0, 0, 0, 2})
			body.Write(lenPrefixed([]byte("m1-" + topic)))
			body.Write(lenPrefixed([]byte("m2-" + topic)))
		}
		b.Write(lenPrefixed(body.Bytes()))
	case "SUB":
		b.WriteString("SUB " + topic + " " + channel + "\n")
	case "RDY":
		b.WriteString("RDY 0\n")
	case "FIN":
		b.WriteString("FIN ")
		b.Write(unknownID)
		b.WriteString("\n")
	case "REQ":
		b.WriteString("REQ ")
		b.Write(unknownID)
		b.WriteString(" 0\n")
	case "TOUCH":
		b.WriteString("TOUCH ")
		b.Write(unknownID)
		b.WriteString("\n")
	case "CLS":
		b.WriteString("CLS\n")
	case "NOP":
		b.WriteString("NOP\n")
	default:
		b.WriteString(c.Op + "\n")
	}
	return b.Bytes()
}

// silentOnSuccess: commands nsqd does not answer when it executes them
func silentOnSuccess(op string) bool { return op == "NOP" || op == "RDY" }

type Certs struct {
	Unsigned, Signed tls.Certificate
}

func LoadCerts(dir string) (*Certs, error) {
	u, err := tls.LoadX509KeyPair(dir+"/cert.pem", dir+"/key.pem")
	if err != nil {
		return nil, err
	}
	s, err := tls.LoadX509KeyPair(dir+"/client.pem", dir+"/client.key")
	if err != nil {
		return nil, err
	}
	return &Certs{Unsigned: u, Signed: s}, nil
}

func (cs *Certs) Config(kind string) *tls.Config {
	cfg := &tls.Config{InsecureSkipVerify: true}
	switch kind {
	case "unsigned":
		cfg.Certificates = []tls.Certificate{cs.Unsigned}
	case "signed":
		cfg.Certificates = []tls.Certificate{cs.Signed}
	}
	return cfg
}

// UpgradeTLS performs the client side of the handshake after an IDENTIFY answer with tls_v1=true and
// reads the OK that nsqd sends over the new session.  ok=false: the upgrade did not complete.
func (c *Conn) UpgradeTLS(cfg *tls.Config, d time.Duration) (ok bool, detail string) {
	tc := tls.Client(c.raw, cfg)
	c.raw.SetDeadline(time.Now().Add(d))
	if err := tc.Handshake(); err != nil {
		return false, "handshake: " + err.Error()
	}
	c.raw.SetDeadline(time.Time{})
	c.rw = tc
	c.r = bufio.NewReader(tc)
	f := c.ReadFrame(d)
	if f.Kind == "response" && f.Data == "OK" {
		c.tls = true
		return true, ""
	}
	return false, "after handshake: " + f.Kind + " " + f.Data
}

func errCode(data string) string {
	if i := strings.IndexByte(data, ' '); i > 0 {
		return data[:i]
	}
	return data
}
