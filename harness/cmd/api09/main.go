// Command api09: harness of check C09 (nsqd TCP protocol: every input gets its defined answer).
//
//	api09 replay --rows table.txt --seed N --report out.json   binding A (spec -> code)
//	api09 fuzz   --rows table.txt --seed N --out trace.ndjson  binding B (code -> spec)
package main

import (
	"bufio"
	"encoding/json"
	"flag"
	"fmt"
	"os"
)

func newFlags(name string) *flag.FlagSet { return flag.NewFlagSet(name, flag.ExitOnError) }

func die(err error) int {
	fmt.Fprintln(os.Stderr, "api09:", err)
	return 2
}

func writeJSON(path string, v interface{}) error {
	b, err := json.MarshalIndent(v, "", " ")
	if err != nil {
		return err
	}
	return os.WriteFile(path, b, 0644)
}

type ndjson struct {
	f *os.File
	w *bufio.Writer
}

func newNDJSON(path string) (*ndjson, error) {
	f, err := os.Create(path)
	if err != nil {
		return nil, err
	}
	return &ndjson{f: f, w: bufio.NewWriterSize(f, 1<<20)}, nil
}

func (n *ndjson) Put(m map[string]interface{}) {
	b, _ := json.Marshal(m)
	n.w.Write(b)
	n.w.WriteByte('\n')
}

func (n *ndjson) Close() {
	n.w.Flush()
	n.f.Close()
}

func main() {
	if len(os.Args) < 2 {
		fmt.Fprintln(os.Stderr, "usage: api09 replay|fuzz [flags]")
		os.Exit(2)
	}
	switch os.Args[1] {
	case "replay":
		os.Exit(cmdReplay(os.Args[2:]))
	case "fuzz":
		os.Exit(cmdFuzz(os.Args[2:]))
	}
	fmt.Fprintf(os.Stderr, "unknown subcommand %q\n", os.Args[1])
	os.Exit(2)
}
