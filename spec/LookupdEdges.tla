--------------------------- MODULE LookupdEdges ---------------------------
(* Binding A for C14: prints the whole reachable graph of a bounded Lookupd  *)
(* config for replay against the real nsqlookupd.                            *)
(*   S <c1> <c2> <json>   once per distinct state (evaluated as an invariant,*)
(*                        which TLC checks on unseen states only): the       *)
(*                        values of the query operators in that state        *)
(*   E <c1> <c2> <name> <p> <t> <c> <resp> <c1'> <c2'>                       *)
(*                        once per generated transition (action constraint)  *)
(* <c1> <c2> is an injective integer code of the state (view).               *)
EXTENDS Lookupd, Json, Sequences, SequencesExt

KeySeq  == SetToSeq(AllKeys)
ProdSeq == SetToSeq(Producers)
TopSeq  == SetToSeq(Topics)
NK == Len(KeySeq)
NP == Len(ProdSeq)
NT == Len(TopSeq)

RECURSIVE Sum(_, _)
Sum(f, n) == IF n = 0 THEN 0 ELSE f[n] + Sum(f, n - 1)

\* regs: one bit per key; prods: NP bits per key
Code1 ==
  Sum([i \in 1..NK |-> (IF KeySeq[i] \in regs THEN 1 ELSE 0) * 2^((i - 1) * (NP + 1))
                       + Sum([j \in 1..NP |-> (IF ProdSeq[j] \in prods[KeySeq[i]] THEN 1 ELSE 0)
                                                 * 2^((i - 1) * (NP + 1) + j)], NP)], NK)
ConnCode(p) == CASE conn[p] = "none" -> 0 [] conn[p] = "connected" -> 1 [] OTHER -> 2
B == MaxNow + 2
\* conn (base 3), lu (base B), tomb+1 (base B) per topic and producer, now
Code2 ==
  LET pc == Sum([j \in 1..NP |-> (ConnCode(ProdSeq[j]) + 3 * lu[ProdSeq[j]]) * (3 * B)^(j - 1)], NP)
      tc == Sum([i \in 1..NT |-> Sum([j \in 1..NP |->
                    (tomb[TopSeq[i]][ProdSeq[j]] + 1) * B^((i - 1) * NP + (j - 1))], NP)], NT)
  IN  now + B * (pc + (3 * B)^NP * tc)
ASSUME 2^(NK * (NP + 1)) < 2147483647
ASSUME B * (3 * B)^NP * B^(NT * NP) < 2147483647

Obs == [lookup   |-> [t \in Topics |-> Lookup(t)],
        topics   |-> TopicsQ,
        channels |-> [t \in Topics |-> ChannelsQ(t)],
        nodes    |-> NodesQ,
        debug    |-> DebugQ,
        clients  |-> ClientsQ,
        now      |-> now]

Str(x) == IF x = "" THEN "-" ELSE x
StateOut == PrintT("S " \o ToString(Code1) \o " " \o ToString(Code2) \o " " \o ToJson(Obs))
EdgeOut  == PrintT("E " \o ToString(Code1) \o " " \o ToString(Code2) \o " " \o act'.name \o " " \o Str(act'.p)
                   \o " " \o Str(act'.t) \o " " \o Str(act'.c) \o " " \o Str(act'.resp)
                   \o " " \o ToString(Code1') \o " " \o ToString(Code2'))
=============================================================================
