\* quick 3: stop (kill, power loss, exit) and restart over what the first run left behind
SPECIFICATION Spec
CONSTANTS
  Msgs = {1}
  MaxInFlight = 1
  MaxNow = 1
  DatePeriod = 1
  MaxRev = 3
  MaxHups = 0
  MaxRestarts = 1
  MaxPower = 1
  PreNames = {}
  PreSize = 2
  ForeignNames <- ForeignQ
  MaxForeign = 1
  GzipAppendOnRestart = FALSE
  OptSet <- AllOpts
CONSTRAINT RevBound
INVARIANTS TypeOK DurSane FinOnlyAfterDurable NothingOwedIsMissing FinqIsDurable Custody SyncOnOpenFile
PROPERTIES NeverOverwrite
CHECK_DEADLOCK FALSE
