SPECIFICATION Spec
CONSTANTS
  Addrs = {l1, l2, l3}
  PruneBoth = TRUE
  MaxChanges = 4
INVARIANT PeersAreTheConfigured
CHECK_DEADLOCK FALSE
