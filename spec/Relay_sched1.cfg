\* binding B: prints (SCHED ...) every schedule of the model for 1 destination(s) -- <= 3 items per destination
\* over {A,R,L,D}, not ending in A, <= 3 non-accepts -- to be played by the fake destinations against the real
\* binaries.  Only initial states are kept (CONSTRAINT IsInitial), nothing is explored.
SPECIFICATION Spec
CONSTANTS
  Msgs = {1}
  Dests = {1}
  Kind = "async"
  Mode = "rr"
  Handlers = 1
  Items = {"A", "R", "L", "D"}
  MaxSched = 3
  MaxBad = 3
  MaxTimeouts = 0
  MaxConnLost = 0
  MaxAttempts = 0
  Filter = FALSE
CONSTRAINT SchedOut
CONSTRAINT IsInitial
CHECK_DEADLOCK FALSE
