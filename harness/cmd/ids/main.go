// Command ids: C12 end to end.  Concurrent publishers (TCP PUB/DPUB/MPUB, HTTP /pub, /mpub binary and text)
// against one topic of a real in-process nsqd; a consumer records the id every message was given; Begin/End of
// every publish command are recorded into one sequence.  Output: an ndjson trace for TopicIdsTrace.tla and a
// JSON report with counts and the harness's own ledger verdicts.
//
// Exit codes: 0 nothing found, 1 ledger violations, 2 could not run / inconclusive (a report is still written
// when possible: ledger violations found on what WAS observed stand).
package main

import (
	"bytes"
	"encoding/json"
	"flag"
	"fmt"
	"io"
	"math/rand"
	"net/http"
	"os"
	"path/filepath"
	"sort"
	"strconv"
	"strings"
	"sync"
	"sync/atomic"
	"time"

	"github.com/nsqio/nsq/nsqd"
)

const (
	seqMax  = 4095
	twepoch = int64(1288834974288) // nsqd/guid.go
)

func unpack(id uint64) (ts, nodeF, sq int64) {
	v := int64(id)
	return v >> 22, (v >> 12) & 1023, v & 4095
}

var largeSizes = []int{4000, 4095, 4096, 4097, 4500, 5000}

// ---- commands and the Begin/End sequence -------------------------------------------------

type command struct {
	idx    int // index in the run (1-based: the command id of the trace)
	pub    int
	n      int // command number of the publisher
	kind   string
	topic  int
	size   int
	defer_ int
	acked  bool
	ids    []uint64 // filled after consumption; nil if some message was not seen
}

func (c *command) String() string {
	return fmt.Sprintf("cmd#%d(pub %d #%d %s x%d)", c.idx, c.pub, c.n, c.kind, c.size)
}

type event struct {
	end bool
	cmd *command
}

type recorder struct {
	mu   sync.Mutex
	evs  []event
	cmds []*command
}

func (r *recorder) begin(c *command) {
	r.mu.Lock()
	c.idx = len(r.cmds) + 1
	r.cmds = append(r.cmds, c)
	r.evs = append(r.evs, event{false, c})
	r.mu.Unlock()
}

func (r *recorder) end(c *command) {
	r.mu.Lock()
	c.acked = true
	r.evs = append(r.evs, event{true, c})
	r.mu.Unlock()
}

func bodyOf(topic, pub, n, pos int) []byte {
	return []byte(fmt.Sprintf("t%d.p%d.c%d.m%d", topic, pub, n, pos))
}

// ---- report -------------------------------------------------------------------------------

type violation struct {
	Key  string `json:"key"`
	Run  int    `json:"run"`
	Node int64  `json:"node"`
	What string `json:"what"`
}

type report struct {
	Runs               int                      `json:"runs"`
	Nodes              []int64                  `json:"nodes"`
	Commands           map[string]int           `json:"commands"`
	LargeMpubs         int                      `json:"large_mpubs"`
	LargeSizes         map[string]int           `json:"large_sizes"`
	Ids                int                      `json:"ids"`
	ExhaustedTicks     int                      `json:"exhausted_ticks"`
	MaxIdsPerTick      int                      `json:"max_ids_per_tick"`
	Nudges             map[string]int           `json:"nudges"`
	NudgedRuns         int                      `json:"nudged_runs"`
	TaintedRuns        int                      `json:"tainted_runs"`
	Unacked            int                      `json:"unacked"`
	TwoTopicRuns       int                      `json:"two_topic_runs"`
	CrossTopicEqual    int                      `json:"cross_topic_equal_ids"`
	ConsumerErrors     map[string]int           `json:"consumer_error_frames"`
	Traces             int                      `json:"traces"`
	TraceEvents        int                      `json:"trace_events"`
	TraceIds           int                      `json:"trace_ids"`
	TraceWindowed      int                      `json:"traces_windowed"`
	DistinctShapes     int                      `json:"distinct_shapes"`
	Violations         []violation              `json:"violations"`
	ViolationCounts    map[string]int           `json:"violation_counts"`
	Samples            []map[string]interface{} `json:"samples"`
	Inconclusive       string                   `json:"inconclusive,omitempty"`
	WallMs             int64                    `json:"wall_ms"`
	FirstPublishTopics int                      `json:"first_publish_topics"`
	FirstUseRounds     int                      `json:"first_use_rounds"`
}

func (r *report) violate(key string, run int, nodeID int64, what string) {
	r.ViolationCounts[key]++
	if r.ViolationCounts[key] <= 8 {
		r.Violations = append(r.Violations, violation{key, run, nodeID, what})
	}
}

func writeJSON(path string, v interface{}) {
	b, _ := json.MarshalIndent(v, "", " ")
	os.WriteFile(path, b, 0o644)
}

// ---- one publisher ------------------------------------------------------------------------

type op struct {
	kind   string // pub dpub mpub hpub hdpub hmpub_bin hmpub_txt
	size   int
	defer_ int
	snap   bool // wait for the next slot boundary first (large MPUBs of several publishers start together)
}

type publisher struct {
	idx   int
	topic int
	name  string // topic name
	tcp   *tcpConn
	hc    *http.Client
	base  string
	rec   *recorder
	n     int
	fail  error
	t0    time.Time // slot origin
}

const slot = 12 * time.Millisecond

// doRun's answer when a generator state injection came too late (the clock had reached the injected tick):
// nothing of that daemon lifetime is judged, the run is repeated with a fresh daemon
const taintedRun = "tainted"

func (p *publisher) do(o op) bool {
	p.n++
	c := &command{pub: p.idx, n: p.n, kind: o.kind, topic: p.topic, size: o.size, defer_: o.defer_}
	bodies := make([][]byte, o.size)
	for i := range bodies {
		bodies[i] = bodyOf(p.topic, p.idx, p.n, i)
	}
	if o.snap {
		el := time.Since(p.t0)
		time.Sleep((el/slot+1)*slot - el)
	}
	switch o.kind {
	case "pub", "dpub", "mpub":
		var line string
		var payload []byte
		switch o.kind {
		case "pub":
			line, payload = "PUB "+p.name+"\n", lenPrefixed(bodies[0])
		case "dpub":
			line, payload = fmt.Sprintf("DPUB %s %d\n", p.name, o.defer_), lenPrefixed(bodies[0])
		default:
			line, payload = "MPUB "+p.name+"\n", lenPrefixed(mpubBinary(bodies))
		}
		p.tcp.c.SetDeadline(time.Now().Add(60 * time.Second))
		p.rec.begin(c)
		ft, data, err := p.tcp.roundTrip(line, payload)
		if err != nil {
			p.fail = fmt.Errorf("%s: %v", c, err)
			return false
		}
		if ft != 0 || string(data) != "OK" {
			p.fail = fmt.Errorf("%s answered frame %d %q", c, ft, data)
			return false
		}
		p.rec.end(c)
	default:
		var url string
		var payload []byte
		switch o.kind {
		case "hpub":
			url, payload = p.base+"/pub?topic="+p.name, bodies[0]
		case "hdpub":
			url, payload = fmt.Sprintf("%s/pub?topic=%s&defer=%d", p.base, p.name, o.defer_), bodies[0]
		case "hmpub_bin":
			url, payload = p.base+"/mpub?topic="+p.name+"&binary=true", mpubBinary(bodies)
		default:
			url, payload = p.base+"/mpub?topic="+p.name, bytes.Join(bodies, []byte("\n"))
		}
		req, err := http.NewRequest("POST", url, bytes.NewReader(payload))
		if err != nil {
			p.fail = err
			return false
		}
		req.Header.Set("Content-Type", "application/octet-stream")
		p.rec.begin(c)
		resp, err := p.hc.Do(req)
		if err != nil {
			p.fail = fmt.Errorf("%s: %v", c, err)
			return false
		}
		b, err := io.ReadAll(resp.Body)
		resp.Body.Close()
		if err != nil || resp.StatusCode != 200 {
			p.fail = fmt.Errorf("%s answered %d %q err %v", c, resp.StatusCode, b, err)
			return false
		}
		p.rec.end(c)
	}
	return true
}

var smallKinds = []string{"pub", "dpub", "mpub", "hpub", "hdpub", "hmpub_bin", "hmpub_txt", "pub", "mpub"}

func smallOp(rng *rand.Rand) op {
	k := smallKinds[rng.Intn(len(smallKinds))]
	o := op{kind: k, size: 1}
	switch k {
	case "mpub", "hmpub_bin", "hmpub_txt":
		o.size = 1 + rng.Intn(8)
	case "dpub", "hdpub":
		o.defer_ = 1 + rng.Intn(20)
	}
	return o
}

// ---- one run ------------------------------------------------------------------------------

type runCfg struct {
	run      int
	seed     int64
	nodeID   int64
	pubs     int
	large    int
	small    int
	tightCap int
	two      bool
	nudge    bool
	attempt  int
	tlcIds   int
	workdir  string
}

type topicLedger struct {
	topic    int
	cmds     []*command // acknowledged and completely consumed
	evs      []event
	badFirst int // index into evs of the first event of a command involved in a ledger violation (-1: none)
}

func doRun(cfg runCfg, rep *report, w *ndjson, shapes map[string]bool) (inconclusive string) {
	rng := rand.New(rand.NewSource(cfg.seed*1000003 + int64(cfg.run)*7919))
	dir := filepath.Join(cfg.workdir, fmt.Sprintf("ids-run%d", cfg.run))
	os.RemoveAll(dir)
	if err := os.MkdirAll(dir, 0o755); err != nil {
		return err.Error()
	}
	defer os.RemoveAll(dir)
	nd, err := startNode(dir, cfg.nodeID)
	if err != nil {
		return "start nsqd: " + err.Error()
	}
	stopped := false
	defer func() {
		if !stopped {
			nd.stop(10 * time.Second)
		}
	}()
	topics := []string{fmt.Sprintf("c12a_%d", cfg.run)}
	if cfg.two {
		topics = append(topics, fmt.Sprintf("c12b_%d", cfg.run))
	}
	cons := make([]*consumer, len(topics))
	for i, t := range topics {
		c, err := startConsumer(nd.tcp, t, "ch")
		if err != nil {
			return "consumer: " + err.Error()
		}
		cons[i] = c
		defer c.close()
	}

	rec := &recorder{}
	// ---- plans
	// publisher 1 runs a tight PUB loop for as long as the others publish; all others ("bulk") mix small commands
	// with large MPUBs.  A large MPUB marked snap waits for the next slot boundary, so that the large MPUBs of
	// different publishers start together (several connections draw ids in the same ticks: that is what exhausts
	// the per-tick sequence); one not marked snap goes back to back with the previous command of its publisher.
	npub := cfg.pubs
	if cfg.two {
		npub++ // the extra publisher works on the second topic
	}
	plans := make([][]op, npub)
	var bulk []int
	for p := 0; p < cfg.pubs; p++ {
		if p != 1 {
			bulk = append(bulk, p)
		}
	}
	perm := rng.Perm(len(largeSizes))
	nextLarge := 0
	largeOp := func(p int, snap bool) op {
		sz := largeSizes[perm[nextLarge%len(perm)]]
		nextLarge++
		k := "mpub"
		switch {
		case p == 2:
			k = []string{"hmpub_bin", "hmpub_txt"}[nextLarge%2]
		case p >= 3:
			k = []string{"mpub", "hmpub_bin", "hmpub_txt"}[rng.Intn(3)]
		}
		return op{kind: k, size: sz, snap: snap}
	}
	rounds := (cfg.large + len(bulk) - 1) / len(bulk)
	smallPer := cfg.small / (rounds + 1)
	for j := 0; j < cfg.large; j++ {
		p := bulk[j%len(bulk)]
		for i := 0; i < smallPer; i++ {
			plans[p] = append(plans[p], smallOp(rng))
		}
		plans[p] = append(plans[p], largeOp(p, true))
		if j < 2 || rng.Intn(4) == 0 { // back to back: two (sometimes three) large MPUBs in a row from one publisher
			plans[p] = append(plans[p], largeOp(p, false))
			if rng.Intn(3) == 0 {
				plans[p] = append(plans[p], largeOp(p, false))
			}
		}
	}
	for _, p := range bulk {
		for i := 0; i < smallPer; i++ {
			plans[p] = append(plans[p], smallOp(rng))
		}
	}
	if cfg.two {
		p := npub - 1
		for j := 0; j < cfg.small/2+10; j++ {
			plans[p] = append(plans[p], smallOp(rng))
		}
		at := len(plans[p]) / 2
		plans[p] = append(plans[p][:at:at], append([]op{{kind: "mpub", size: largeSizes[rng.Intn(len(largeSizes))], snap: true}}, plans[p][at:]...)...)
	}

	pubsL := make([]*publisher, npub)
	for i := range pubsL {
		topic := 0
		if cfg.two && i == npub-1 {
			topic = 1
		}
		t, err := dialV2(nd.tcp, map[string]interface{}{"client_id": fmt.Sprintf("pub%d", i), "hostname": "verif",
			"feature_negotiation": false, "heartbeat_interval": -1})
		if err != nil {
			return "publisher connect: " + err.Error()
		}
		defer t.c.Close()
		pubsL[i] = &publisher{idx: i, topic: topic, name: topics[topic], tcp: t, rec: rec, base: "http://" + nd.http,
			hc: &http.Client{Timeout: 60 * time.Second, Transport: &http.Transport{MaxIdleConnsPerHost: 2}}}
	}

	// ---- go
	var wg sync.WaitGroup
	start := make(chan struct{})
	var bulkLeft int32
	for i := range pubsL {
		if i != 1 && len(plans[i]) > 0 {
			bulkLeft++
		}
	}
	for i := range pubsL {
		wg.Add(1)
		go func(i int) {
			defer wg.Done()
			p := pubsL[i]
			<-start
			if i == 1 && cfg.pubs >= 2 {
				// tight PUB loop for as long as the others publish (bounded)
				for k := 0; k < cfg.tightCap && atomic.LoadInt32(&bulkLeft) > 0; k++ {
					if !p.do(op{kind: "pub", size: 1}) {
						return
					}
				}
				return
			}
			defer atomic.AddInt32(&bulkLeft, -1)
			for _, o := range plans[i] {
				if !p.do(o) {
					return
				}
			}
		}(i)
	}
	t0 := time.Now()
	for _, p := range pubsL {
		p.t0 = t0
	}
	// ---- nudges (some runs): the live topic's generator is put into a state from which the publish paths meet
	// the two "cannot produce a fresh id" situations on their own:
	//   brink: the sequence of an imminent tick is nearly used up (4095-r) -> the publishes crossing it exhaust it
	//   back : lastTimestamp is a few ticks ahead of the clock          -> the clock "stepped back" for the generator
	// Only states of the FUTURE are injected (lastTimestamp L > clock, lastID = <<L, node, seq>>): every id handed
	// out before the injection has a tick <= clock < L, so the injected state is above all of them, exactly as if
	// the generator had produced <<L, node, seq>> (which no message ever gets).  The clock is read again after the
	// injection: if it reached L meanwhile the run is discarded (tainted), nothing in it is judged.
	var nudgeStop int32
	var nudgeWG sync.WaitGroup
	tainted := false
	if cfg.nudge {
		var facts []*nsqd.VerifGUIDFactory
		for _, t := range topics {
			facts = append(facts, nsqd.VerifTopicGUID(nd.n.GetTopic(t)))
		}
		rng2 := rand.New(rand.NewSource(cfg.seed*7907 + int64(cfg.run) + int64(cfg.attempt)*104729))
		nudgeWG.Add(1)
		go func() {
			defer nudgeWG.Done()
			rs := []int64{0, 1, 2, 3, 7, 40, 500, 2000}
			// how far ahead of the clock the injected tick lies: generous (a late injection discards the run), and
			// doubled with every repetition of a discarded run; the topic stalls that long, so nudges are rationed
			ahead := int64(8) << uint(cfg.attempt)
			for k := 0; atomic.LoadInt32(&nudgeStop) == 0 && k < 24; k++ {
				el := time.Since(t0)
				time.Sleep((el/slot+1)*slot + time.Duration(rng2.Intn(2500))*time.Microsecond - el)
				if atomic.LoadInt32(&nudgeStop) != 0 {
					return
				}
				if k%3 == 2 {
					continue
				}
				f := facts[0]
				if len(facts) > 1 && rng2.Intn(4) == 0 {
					f = facts[1]
				}
				var d, sq int64
				if k%3 == 0 {
					d, sq = ahead, seqMax-rs[rng2.Intn(len(rs))]
					rep.Nudges["brink"]++
				} else {
					d, sq = ahead+int64(rng2.Intn(5)), int64(rng2.Intn(4096))
					rep.Nudges["back"]++
				}
				L := time.Now().UnixNano()>>20 + d
				f.Inject(L, sq, ((L-twepoch)<<22)|(cfg.nodeID<<12)|sq)
				if time.Now().UnixNano()>>20 >= L {
					tainted = true
				}
			}
		}()
	}
	close(start)
	wg.Wait()
	pubWall := time.Since(t0)
	atomic.StoreInt32(&nudgeStop, 1)
	nudgeWG.Wait()
	if tainted {
		rep.TaintedRuns++
		return taintedRun
	}

	var fails []string
	for _, p := range pubsL {
		if p.fail != nil {
			fails = append(fails, p.fail.Error())
		}
	}

	// ---- wait until every acknowledged body was seen (bounded)
	want := make([]int, len(topics))
	for _, c := range rec.cmds {
		if c.acked {
			want[c.topic] += c.size
		} else {
			rep.Unacked++
		}
	}
	complete := func() bool {
		for ti, c := range cons {
			c.mu.Lock()
			n := 0
			for _, cm := range rec.cmds {
				if !cm.acked || cm.topic != ti {
					continue
				}
				for pos := 0; pos < cm.size; pos++ {
					if _, ok := c.first[string(bodyOf(ti, cm.pub, cm.n, pos))]; ok {
						n++
					}
				}
			}
			c.mu.Unlock()
			if n < want[ti] {
				return false
			}
		}
		return true
	}
	lastProgress, lastAt := int64(-1), time.Now()
	deadline := time.Now().Add(60 * time.Second)
	allSeen := false
	for time.Now().Before(deadline) {
		enough := true
		var prog int64
		for ti, c := range cons {
			if c.count() < want[ti] {
				enough = false
			}
			prog += atomic.LoadInt64(&c.progress)
		}
		if enough && complete() {
			allSeen = true
			break
		}
		if prog != lastProgress {
			lastProgress, lastAt = prog, time.Now()
		} else if time.Since(lastAt) > 8*time.Second {
			break
		}
		time.Sleep(3 * time.Millisecond)
	}
	consWall := time.Since(t0)
	for _, c := range cons {
		c.t.c.Close()
		<-c.done
	}
	if os.Getenv("VERIF_IDS_DEBUG") != "" {
		defer func() {
			fmt.Fprintf(os.Stderr, "run %d node %d pubs %d: published in %s, consumed after %s, all done after %s\n", cfg.run, cfg.nodeID, npub, pubWall, consWall, time.Since(t0))
		}()
	}
	if err := nd.stop(15 * time.Second); err != nil {
		inconclusive = err.Error()
	}
	stopped = true

	// ---- ledger over what was observed
	type slot struct {
		cmd *command
		pos int
	}
	idsByTopic := make([]map[uint64]string, len(topics))
	var ledgers []*topicLedger
	for ti, c := range cons {
		for k, v := range c.errFrames {
			rep.ConsumerErrors[k] += v
		}
		// (1) no id twice among ALL first deliveries of the topic (also of commands that were not acknowledged)
		seen := make(map[uint64]string, len(c.all))
		perTick := map[int64]int{}
		exhausted := map[int64]bool{}
		badCmd := map[string]bool{}
		for _, d := range c.all {
			ts, nf, sq := unpack(d.id)
			if prev, dup := seen[d.id]; dup {
				rep.violate("dup-id", cfg.run, cfg.nodeID, fmt.Sprintf("run %d node-id %d topic %s: id %016x (tick %d, node field %d, seq %d) was given to message %s and to message %s",
					cfg.run, cfg.nodeID, topics[ti], d.id, ts, nf, sq, prev, d.body))
				badCmd[cmdKey(prev)], badCmd[cmdKey(d.body)] = true, true
			} else {
				seen[d.id] = d.body
			}
			if nf != cfg.nodeID {
				rep.violate("node-field", cfg.run, cfg.nodeID, fmt.Sprintf("run %d node-id %d topic %s: id %016x of message %s carries node field %d (seq %d)",
					cfg.run, cfg.nodeID, topics[ti], d.id, d.body, nf, sq))
				badCmd[cmdKey(d.body)] = true
			}
			perTick[ts]++
			if sq == seqMax {
				exhausted[ts] = true
			}
		}
		idsByTopic[ti] = seen
		rep.Ids += len(c.all)
		rep.ExhaustedTicks += len(exhausted)
		for ts, n := range perTick {
			if n > rep.MaxIdsPerTick {
				rep.MaxIdsPerTick = n
			}
			if n > 3500 && os.Getenv("VERIF_IDS_DEBUG") != "" {
				mx, cnt0 := int64(0), 0
				for _, d := range c.all {
					if t, _, sq := unpack(d.id); t == ts {
						if sq > mx {
							mx = sq
						}
						if sq == 0 {
							cnt0++
						}
					}
				}
				fmt.Fprintf(os.Stderr, "  tick %d: %d ids, max seq %d, seq0 x%d\n", ts, n, mx, cnt0)
			}
		}
		if c.againDiff > 0 && inconclusive == "" {
			inconclusive = fmt.Sprintf("run %d: %d message bodies were delivered twice as a first attempt under different ids (not C12's subject; the ledger cannot attribute ids)", cfg.run, c.againDiff)
		}
		// attach ids to the acknowledged commands
		L := &topicLedger{topic: ti, badFirst: -1}
		for _, cm := range rec.cmds {
			if !cm.acked || cm.topic != ti {
				continue
			}
			ids := make([]uint64, cm.size)
			ok := true
			for pos := 0; pos < cm.size; pos++ {
				id, have := c.first[string(bodyOf(ti, cm.pub, cm.n, pos))]
				if !have {
					ok = false
					break
				}
				ids[pos] = id
			}
			if ok {
				cm.ids = ids
				L.cmds = append(L.cmds, cm)
			}
		}
		// (2) within a command ids increase in message order; (3) real-time order via done/floor
		floor := map[*command]uint64{}
		floorBy := map[*command]*command{}
		var done uint64
		var doneCmd *command
		for _, e := range rec.evs {
			cm := e.cmd
			if cm.topic != ti || cm.ids == nil {
				continue
			}
			L.evs = append(L.evs, e)
			if !e.end {
				floor[cm] = done
				if doneCmd != nil {
					floorBy[cm] = doneCmd
				}
				continue
			}
			for pos := 1; pos < len(cm.ids); pos++ {
				if cm.ids[pos] <= cm.ids[pos-1] {
					rep.violate("batch-order", cfg.run, cfg.nodeID, fmt.Sprintf("run %d node-id %d topic %s: %s: message %d has id %016x, message %d has id %016x (not increasing in message order)",
						cfg.run, cfg.nodeID, topics[ti], cm, pos-1, cm.ids[pos-1], pos, cm.ids[pos]))
					badCmd[cmdKeyOf(cm)] = true
					break
				}
			}
			mn, mx := cm.ids[0], cm.ids[0]
			for _, id := range cm.ids {
				if id < mn {
					mn = id
				}
				if id > mx {
					mx = id
				}
			}
			if fl := floor[cm]; mn <= fl {
				by := floorBy[cm]
				rep.violate("realtime-order", cfg.run, cfg.nodeID, fmt.Sprintf("run %d node-id %d topic %s: %s had been acknowledged (greatest id %016x) before %s was sent, which got id %016x",
					cfg.run, cfg.nodeID, topics[ti], by, fl, cm, mn))
				badCmd[cmdKeyOf(cm)] = true
				if by != nil {
					badCmd[cmdKeyOf(by)] = true
				}
			}
			if mx > done {
				done, doneCmd = mx, cm
			}
			delete(floor, cm)
			delete(floorBy, cm)
			// shapes, counts
			rep.Commands[cm.kind]++
			szc := "1"
			switch {
			case cm.size > 4096:
				szc = ">4096"
			case cm.size == 4096:
				szc = "4096"
			case cm.size >= 4000:
				szc = "4000..4095"
			case cm.size > 1:
				szc = "2..8"
			}
			_, _, sq0 := unpack(cm.ids[0])
			_, _, sqN := unpack(cm.ids[len(cm.ids)-1])
			ts0, _, _ := unpack(cm.ids[0])
			tsN, _, _ := unpack(cm.ids[len(cm.ids)-1])
			shapes[fmt.Sprintf("%s/%s/node%s/ticks%d/wrap%v/first0%v", cm.kind, szc, nodeClass(cfg.nodeID), min64(tsN-ts0, 3), exhausted[ts0] || exhausted[tsN], sq0 == 0 && sqN != 0)] = true
			if cm.size >= 4000 {
				rep.LargeMpubs++
				rep.LargeSizes[strconv.Itoa(cm.size)]++
			}
		}
		if len(badCmd) > 0 {
			for i, e := range L.evs {
				if badCmd[cmdKeyOf(e.cmd)] {
					L.badFirst = i
					break
				}
			}
		}
		ledgers = append(ledgers, L)
	}
	if len(topics) == 2 {
		rep.TwoTopicRuns++
		for id := range idsByTopic[1] {
			if _, ok := idsByTopic[0][id]; ok {
				rep.CrossTopicEqual++ // allowed: ids compare only within one topic
			}
		}
	}

	// ---- trace for TLC: per topic one trace; at most cfg.tlcIds ids of the first topic (a window of whole commands)
	for _, L := range ledgers {
		writeTrace(cfg, rng, L, rep, w)
	}
	if len(rep.Samples) < 8 && len(ledgers[0].cmds) > 0 {
		cm := ledgers[0].cmds[rng.Intn(len(ledgers[0].cmds))]
		n := len(cm.ids)
		if n > 3 {
			n = 3
		}
		var tr [][3]int64
		for _, id := range cm.ids[:n] {
			a, b, c := unpack(id)
			tr = append(tr, [3]int64{a, b, c})
		}
		rep.Samples = append(rep.Samples, map[string]interface{}{"run": cfg.run, "node_id": cfg.nodeID, "publisher": cm.pub, "kind": cm.kind,
			"messages": cm.size, "first_ids_tick_node_seq": tr, "publish_wall_ms": pubWall.Milliseconds()})
	}

	if inconclusive == "" && len(fails) > 0 {
		inconclusive = fmt.Sprintf("run %d node-id %d: publisher stopped: %s", cfg.run, cfg.nodeID, strings.Join(fails, "; "))
	}
	if inconclusive == "" && !allSeen {
		missing := 0
		for ti, c := range cons {
			missing += want[ti] - min(c.count(), want[ti])
		}
		inconclusive = fmt.Sprintf("run %d node-id %d: not every acknowledged message was consumed (about %d missing; consumer errors %v %v)",
			cfg.run, cfg.nodeID, missing, cons[0].err, cons[0].errFrames)
	}
	return inconclusive
}

func min(a, b int) int {
	if a < b {
		return a
	}
	return b
}

func min64(a, b int64) int64 {
	if a < b {
		return a
	}
	return b
}

func nodeClass(n int64) string {
	switch {
	case n == 0, n == 1, n == 1023:
		return strconv.FormatInt(n, 10)
	case n%2 == 1:
		return "odd"
	}
	return "even"
}

// cmdKey: "t0.p1.c22.m3" -> "t0.p1.c22"
func cmdKey(body string) string {
	if i := strings.LastIndex(body, ".m"); i > 0 {
		return body[:i]
	}
	return body
}

func cmdKeyOf(c *command) string {
	if c == nil {
		return ""
	}
	return fmt.Sprintf("t%d.p%d.c%d", c.topic, c.pub, c.n)
}

// writeTrace emits Reset, then Begin/End of whole commands.  TLC gets at most tlcIds ids per trace: a window of
// the event sequence (commands that begin and end inside it); the window is put on the first command the ledger
// complained about, otherwise on a large MPUB chosen by the seed.  Dropping whole commands cannot turn an
// accepted execution into a rejected one (all three clauses quantify over commands / pairs of commands).
func writeTrace(cfg runCfg, rng *rand.Rand, L *topicLedger, rep *report, w *ndjson) {
	total := 0
	for _, c := range L.cmds {
		total += len(c.ids)
	}
	from, to := 0, len(L.evs)
	beginAt := make(map[*command]int, len(L.cmds))
	for i, e := range L.evs {
		if !e.end {
			beginAt[e.cmd] = i
		}
	}
	if total > cfg.tlcIds {
		anchor := -1
		if L.badFirst >= 0 {
			anchor = L.badFirst
		} else {
			var larges []int
			for i, e := range L.evs {
				if !e.end && e.cmd.size >= 4000 {
					larges = append(larges, i)
				}
			}
			if len(larges) > 0 {
				anchor = larges[rng.Intn(len(larges))]
			} else {
				anchor = rng.Intn(len(L.evs))
			}
		}
		from = anchor - 40
		if from < 0 {
			from = 0
		}
		n := 0
		to = from
		for to < len(L.evs) {
			e := L.evs[to]
			if e.end && beginAt[e.cmd] >= from {
				if n+len(e.cmd.ids) > cfg.tlcIds && n > 0 {
					break
				}
				n += len(e.cmd.ids)
			}
			to++
		}
		rep.TraceWindowed++
	}
	ended := map[*command]bool{}
	for i := from; i < to; i++ {
		if L.evs[i].end && beginAt[L.evs[i].cmd] >= from {
			ended[L.evs[i].cmd] = true
		}
	}
	var base int64 = -1
	for c := range ended {
		for _, id := range c.ids {
			ts, _, _ := unpack(id)
			if base < 0 || ts < base {
				base = ts
			}
		}
	}
	base-- // relative ticks start at 1: <<0,0,0>> is below every id
	w.put(map[string]interface{}{"ev": "Reset", "run": cfg.run, "node": cfg.nodeID, "topic": L.topic})
	for i := from; i < to; i++ {
		e := L.evs[i]
		if !ended[e.cmd] {
			continue
		}
		if !e.end {
			w.put(map[string]interface{}{"ev": "Begin", "c": e.cmd.idx, "k": e.cmd.kind})
			continue
		}
		ids := make([][3]int64, len(e.cmd.ids))
		for j, id := range e.cmd.ids {
			ts, nf, sq := unpack(id)
			ids[j] = [3]int64{ts - base, nf, sq}
		}
		w.put(map[string]interface{}{"ev": "End", "c": e.cmd.idx, "ids": ids})
		rep.TraceIds += len(ids)
	}
	rep.Traces++
}

// ---- ndjson --------------------------------------------------------------------------------

type ndjson struct {
	f *os.File
	n int
}

func (w *ndjson) put(m map[string]interface{}) {
	b, _ := json.Marshal(m)
	w.f.Write(b)
	w.f.Write([]byte("\n"))
	w.n++
}

// firstPublishers: topics that exist (created over HTTP, with a channel) but have never been published to get their very
// first messages from several connections at the same moment -- over and over, a fresh topic each time.  Whatever the topic
// sets up on its first publish, no two of those messages may share an id.
func firstPublishers(seed int64, rep *report, workdir string, ntopics, npub int) string {
	dir := filepath.Join(workdir, "ids-first")
	os.RemoveAll(dir)
	if err := os.MkdirAll(dir, 0o755); err != nil {
		return err.Error()
	}
	defer os.RemoveAll(dir)
	nd, err := startNode(dir, 7)
	if err != nil {
		return "start nsqd: " + err.Error()
	}
	defer nd.stop(10 * time.Second)
	hc := &http.Client{Timeout: 10 * time.Second}
	post := func(path string) bool {
		resp, err := hc.Post("http://"+nd.http+path, "application/octet-stream", nil)
		if err != nil {
			return false
		}
		io.Copy(io.Discard, resp.Body)
		resp.Body.Close()
		return resp.StatusCode == 200
	}
	conns := make([]*tcpConn, npub)
	for i := range conns {
		c, err := dialV2(nd.tcp, map[string]interface{}{"client_id": fmt.Sprintf("first-%d", i), "hostname": "verif",
			"feature_negotiation": false, "heartbeat_interval": -1})
		if err != nil {
			return "publisher: " + err.Error()
		}
		c.c.SetDeadline(time.Time{})
		conns[i] = c
		defer c.c.Close()
	}
	for t := 0; t < ntopics; t++ {
		topic := fmt.Sprintf("c12f_%d", t)
		if !post("/topic/create?topic="+topic) || !post("/channel/create?topic="+topic+"&channel=ch") {
			return "could not create " + topic
		}
	}
	type sent struct {
		body  string
		acked bool
	}
	var mu sync.Mutex
	published := map[string][]sent{}
	for t := 0; t < ntopics; t++ {
		topic := fmt.Sprintf("c12f_%d", t)
		var start, ready int32
		var wg sync.WaitGroup
		for i, c := range conns {
			wg.Add(1)
			go func(i int, c *tcpConn) {
				defer wg.Done()
				body := fmt.Sprintf("f.%d.%d", t, i)
				kind := (t + i) % 3
				// (the request is written the moment the flag flips: everybody spins on it)
				atomic.AddInt32(&ready, 1)
				for atomic.LoadInt32(&start) == 0 {
				}
				var ok bool
				switch kind {
				case 0:
					ft, data, err := c.roundTrip("PUB "+topic+"\n", lenPrefixed([]byte(body)))
					ok = err == nil && ft == 0 && string(data) == "OK"
				case 1:
					ft, data, err := c.roundTrip("MPUB "+topic+"\n", lenPrefixed(mpubBinary([][]byte{[]byte(body), []byte(body + "b")})))
					ok = err == nil && ft == 0 && string(data) == "OK"
					mu.Lock()
					published[topic] = append(published[topic], sent{body + "b", ok})
					mu.Unlock()
				default:
					resp, err := hc.Post("http://"+nd.http+"/pub?topic="+topic, "application/octet-stream", strings.NewReader(body))
					if err == nil {
						io.Copy(io.Discard, resp.Body)
						resp.Body.Close()
						ok = resp.StatusCode == 200
					}
				}
				mu.Lock()
				published[topic] = append(published[topic], sent{body, ok})
				mu.Unlock()
			}(i, c)
		}
		for atomic.LoadInt32(&ready) < int32(len(conns)) {
			time.Sleep(50 * time.Microsecond)
		}
		atomic.StoreInt32(&start, 1)
		wg.Wait()
	}
	// consume every topic and compare the ids
	for t := 0; t < ntopics; t++ {
		topic := fmt.Sprintf("c12f_%d", t)
		want := 0
		for _, s := range published[topic] {
			if s.acked {
				want++
			}
		}
		c, err := startConsumer(nd.tcp, topic, "ch")
		if err != nil {
			return "consumer: " + err.Error()
		}
		deadline := time.Now().Add(10 * time.Second)
		for c.count() < want && time.Now().Before(deadline) {
			time.Sleep(2 * time.Millisecond)
		}
		c.mu.Lock()
		seen := map[uint64]string{}
		for _, d := range c.all {
			rep.Ids++
			if other, dup := seen[d.id]; dup {
				rep.violate("dup-id", -1, 7, fmt.Sprintf("topic %s (created beforehand, these were its very first publishes, from %d connections at once): id %016x was given to message %s and to message %s", topic, npub, d.id, other, d.body))
			}
			seen[d.id] = d.body
		}
		got := len(c.all)
		c.mu.Unlock()
		c.close()
		if got < want {
			return fmt.Sprintf("first-publishers: %s delivered %d of %d acknowledged messages within 10 s", topic, got, want)
		}
	}
	rep.FirstPublishTopics = ntopics
	// run-time configuration changes (PUT /config/log_level) in the middle of a publisher's stream: the ids of the topic
	// go on increasing, none comes twice
	{
		topic := "c12cfg"
		if !post("/topic/create?topic="+topic) || !post("/channel/create?topic="+topic+"&channel=ch") {
			return "could not create " + topic
		}
		put := func(level string) {
			req, _ := http.NewRequest("PUT", "http://"+nd.http+"/config/log_level", strings.NewReader(level))
			if resp, err := hc.Do(req); err == nil {
				io.Copy(io.Discard, resp.Body)
				resp.Body.Close()
			}
		}
		want := 0
		for round := 0; round < 150; round++ {
			for k := 0; k < 2; k++ {
				var bodies [][]byte
				for j := 0; j < 10; j++ {
					bodies = append(bodies, []byte(fmt.Sprintf("cfg.%d.%d.%d", round, k, j)))
				}
				if ft, data, err := conns[0].roundTrip("MPUB "+topic+"\n", lenPrefixed(mpubBinary(bodies))); err == nil && ft == 0 && string(data) == "OK" {
					want += len(bodies)
				}
				if k == 0 {
					put([]string{"debug", "info", "warn"}[round%3])
				}
			}
		}
		put("info")
		c, err := startConsumer(nd.tcp, topic, "ch")
		if err != nil {
			return "consumer: " + err.Error()
		}
		deadline := time.Now().Add(15 * time.Second)
		for c.count() < want && time.Now().Before(deadline) {
			time.Sleep(5 * time.Millisecond)
		}
		c.mu.Lock()
		seen := map[uint64]string{}
		for _, d := range c.all {
			rep.Ids++
			if other, dup := seen[d.id]; dup {
				rep.violate("dup-id", -1, 7, fmt.Sprintf("topic %s, one publisher, PUT /config/log_level between its MPUBs: id %016x was given to message %s and to message %s", topic, d.id, other, d.body))
			}
			seen[d.id] = d.body
		}
		got := len(c.all)
		c.mu.Unlock()
		c.close()
		if got < want {
			return fmt.Sprintf("config-change scenario: %d of %d acknowledged messages delivered within 15 s", got, want)
		}
	}
	return ""
}

// firstUse: a topic nobody has used before is used for the first time by a subscriber and several publishers at the same
// moment -- over and over, a fresh name each time.  Once the SUB and the PUBs have been answered OK, one more message is
// published: the subscriber gets it (C01: the channel existed when it was published).
func firstUse(rep *report, workdir string, rounds, npub int) string {
	dir := filepath.Join(workdir, "ids-firstuse")
	os.RemoveAll(dir)
	if err := os.MkdirAll(dir, 0o755); err != nil {
		return err.Error()
	}
	defer os.RemoveAll(dir)
	nd, err := startNode(dir, 9)
	if err != nil {
		return "start nsqd: " + err.Error()
	}
	defer nd.stop(10 * time.Second)
	pubs := make([]*tcpConn, npub)
	for i := range pubs {
		c, err := dialV2(nd.tcp, map[string]interface{}{"client_id": fmt.Sprintf("fu-pub-%d", i), "hostname": "verif",
			"feature_negotiation": false, "heartbeat_interval": -1})
		if err != nil {
			return "publisher: " + err.Error()
		}
		c.c.SetDeadline(time.Time{})
		pubs[i] = c
		defer c.c.Close()
	}
	for r := 0; r < rounds; r++ {
		topic := fmt.Sprintf("c01u_%d", r)
		sub, err := dialV2(nd.tcp, map[string]interface{}{"client_id": fmt.Sprintf("fu-sub-%d", r), "hostname": "verif",
			"feature_negotiation": false, "heartbeat_interval": 30000, "output_buffer_timeout": 25})
		if err != nil {
			return "subscriber: " + err.Error()
		}
		sub.c.SetDeadline(time.Time{})
		var start, ready int32
		oks := make([]bool, npub+1)
		var wg sync.WaitGroup
		spin := func() {
			atomic.AddInt32(&ready, 1)
			for atomic.LoadInt32(&start) == 0 {
			}
		}
		wg.Add(1)
		go func() {
			defer wg.Done()
			spin()
			ft, data, err := sub.roundTrip(fmt.Sprintf("SUB %s ch\n", topic), nil)
			oks[npub] = err == nil && ft == 0 && string(data) == "OK"
		}()
		for i, c := range pubs {
			wg.Add(1)
			go func(i int, c *tcpConn) {
				defer wg.Done()
				spin()
				ft, data, err := c.roundTrip("PUB "+topic+"\n", lenPrefixed([]byte(fmt.Sprintf("fu.%d.%d", r, i))))
				oks[i] = err == nil && ft == 0 && string(data) == "OK"
			}(i, c)
		}
		for atomic.LoadInt32(&ready) < int32(npub+1) {
			time.Sleep(50 * time.Microsecond)
		}
		atomic.StoreInt32(&start, 1)
		wg.Wait()
		for i, ok := range oks {
			if !ok {
				sub.c.Close()
				return fmt.Sprintf("first use of %s: request %d was not answered OK", topic, i)
			}
		}
		last := fmt.Sprintf("fu.%d.last", r)
		if ft, data, err := pubs[0].roundTrip("PUB "+topic+"\n", lenPrefixed([]byte(last))); err != nil || ft != 0 || string(data) != "OK" {
			sub.c.Close()
			return "first use: the last publish was not answered OK"
		}
		sub.w.WriteString("RDY 20\n")
		sub.w.Flush()
		sub.c.SetReadDeadline(time.Now().Add(5 * time.Second))
		got := false
		for !got {
			ft, data, err := readFrame(sub.r)
			if err != nil {
				break
			}
			if ft == 2 && len(data) > 26 {
				if string(data[26:]) == last {
					got = true
				}
				sub.w.WriteString("FIN ")
				sub.w.Write(data[10:26])
				sub.w.WriteByte('\n')
				sub.w.Flush()
			}
		}
		sub.c.Close()
		rep.FirstUseRounds++
		if !got {
			rep.violate("first-use-lost", -1, 9, fmt.Sprintf("topic %s was used for the first time by one SUB and %d PUBs at the same moment; all were answered OK; a message published after that (%q, answered OK) did not reach the subscriber within 5 s", topic, npub, last))
			if rep.ViolationCounts["first-use-lost"] >= 3 {
				break
			}
		}
	}
	return ""
}

func main() {
	seed := flag.Int64("seed", 1, "seed")
	runs := flag.Int("runs", 6, "daemon lifetimes")
	pubs := flag.Int("pubs", 0, "publishers on the first topic (0: 3..max-pubs by seed)")
	maxPubs := flag.Int("max-pubs", 6, "upper bound when --pubs is 0")
	large := flag.Int("large", 6, "large MPUBs per run (sizes around the per-tick sequence size)")
	small := flag.Int("small", 250, "small commands per mixed publisher")
	tightCap := flag.Int("tight-cap", 4000, "upper bound for the tight PUB loop")
	tlcIds := flag.Int("tlc-ids", 12000, "ids per trace handed to TLC (whole ledger is checked here)")
	nudge := flag.Bool("nudge", true, "in two of three runs inject future generator states (sequence nearly exhausted, clock behind)")
	out := flag.String("out", "ids.ndjson", "trace for TopicIdsTrace.tla")
	repPath := flag.String("report", "ids.json", "report")
	workdir := flag.String("workdir", "", "scratch directory")
	firstTopics := flag.Int("first-topics", 200, "pre-created topics whose first publishes come from several connections at once")
	firstUseRounds := flag.Int("first-use", 0, "only: fresh topics used for the first time by a subscriber and publishers at once (rounds)")
	flag.Parse()
	if *workdir == "" {
		d, err := os.MkdirTemp("", "ids-")
		if err != nil {
			fmt.Fprintln(os.Stderr, err)
			os.Exit(2)
		}
		defer os.RemoveAll(d)
		*workdir = d
	}
	f, err := os.Create(*out)
	if err != nil {
		fmt.Fprintln(os.Stderr, err)
		os.Exit(2)
	}
	w := &ndjson{f: f}
	rep := &report{Commands: map[string]int{}, LargeSizes: map[string]int{}, ConsumerErrors: map[string]int{}, Nudges: map[string]int{}, ViolationCounts: map[string]int{}}
	shapes := map[string]bool{}
	rng := rand.New(rand.NewSource(*seed))
	t0 := time.Now()
	var inconclusive []string
	if *firstUseRounds > 0 {
		// only this scenario (C01)
		if inc := firstUse(rep, *workdir, *firstUseRounds, 5); inc != "" {
			inconclusive = append(inconclusive, inc)
		}
		*runs = 0
	} else if inc := firstPublishers(*seed, rep, *workdir, *firstTopics, 6); inc != "" {
		inconclusive = append(inconclusive, inc)
	}
	for run := 0; run < *runs; run++ {
		var nodeID int64
		switch run % 5 {
		case 0:
			nodeID = 1
		case 1:
			nodeID = 0
		case 2:
			nodeID = int64(3 + 2*rng.Intn(509)) // odd, 3..1019
		case 3:
			nodeID = 1023
		case 4:
			nodeID = int64(2 + 2*rng.Intn(510)) // even, 2..1020
		}
		np := *pubs
		if np == 0 {
			np = 3 + rng.Intn(*maxPubs-2)
		}
		cfg := runCfg{run: run, seed: *seed, nodeID: nodeID, pubs: np, large: *large, small: *small, tightCap: *tightCap,
			two: run%2 == 1, nudge: *nudge && run%3 != 2, tlcIds: *tlcIds, workdir: *workdir}
		rep.Nodes = append(rep.Nodes, nodeID)
		if cfg.nudge {
			rep.NudgedRuns++
		}
		inc := doRun(cfg, rep, w, shapes)
		for try := 1; inc == taintedRun && try <= 3; try++ {
			cfg.attempt = try
			inc = doRun(cfg, rep, w, shapes)
		}
		if inc == taintedRun {
			inc = fmt.Sprintf("run %d: generator state injections came too late in 4 attempts (clock reached the injected tick); nothing judged", run)
		}
		if inc != "" {
			inconclusive = append(inconclusive, inc)
		}
		rep.Runs++
	}
	f.Close()
	rep.TraceEvents = w.n
	rep.DistinctShapes = len(shapes)
	rep.WallMs = time.Since(t0).Milliseconds()
	sort.SliceStable(rep.Violations, func(i, j int) bool { return rep.Violations[i].Key < rep.Violations[j].Key })
	if len(inconclusive) > 0 {
		rep.Inconclusive = strings.Join(inconclusive, " | ")
	}
	writeJSON(*repPath, rep)
	switch {
	case len(inconclusive) > 0:
		fmt.Fprintln(os.Stderr, rep.Inconclusive)
		os.Exit(2)
	case len(rep.Violations) > 0:
		os.Exit(1)
	}
}
