SPECIFICATION HSpec
CONSTANTS
  Topics = {"t1", "t2"}
  Channels = {"c1", "c2"}
  MaxMsg = 5
  MaxBody = 24
  Deviations = {}
  MaxCnt = 9
  TextL = 8
  Depth = 1
  Requests <- ReqSet
  Alphabet = "args"
  Prefixes <- PrefixesQuick
CONSTRAINT Emit
INVARIANTS TypeOK Pumped Never500OnCompleteRequest
PROPERTIES Documented StepDocStatus StepTableConsistent StepHttpPubEqTcpPub RejectedPublishEnqueuesNothing ExactEffect
CHECK_DEADLOCK FALSE
