SPECIFICATION Spec
CONSTANTS
  AdminLists = {{}, {"alice"}, {"alice", "bob"}, {"bob"}, {"Alice"}}
  Headers = {"X-Forwarded-User", "X-Verif-Acl"}
  Vals = {"", "alice", "bob", "mallory", "ALICE", "Alice", "alic", "alicex", " alice ", "alice,bob", "alice bob", "*", "alice;", "root", "bob,alice", "%61lice"}
  Cidrs = {"", "127.0.0.1/8", "127.0.0.1/32", "10.0.0.0/8", "192.0.2.0/30", "0.0.0.0/0", "::1/128", "fd00::/8"}
  Srcs = {"127.0.0.1", "127.0.0.2", "127.200.1.9", "192.0.2.2", "10.1.2.3", "::ffff:127.0.0.1", "::1", "fd00::2", "noport"}
  Deep = TRUE
INVARIANTS TypeOK ForbiddenMeansSilent NonAdminRefused OnlyAdminsMutate ForwardReachesAllRelevant AdminNeverForbidden ReadOnlyAlwaysServed ConfigGate
PROPERTIES ConfigChangesOnlyWhenAllowed GateTotal
CONSTRAINT RowOut
