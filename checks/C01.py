"""C01 -- at-least-once delivery: no acknowledged message is lost on any channel (spec: NsqdAbs)."""
import corelib

META = {
    "technique": "TLC (NsqdCore) interleavings of the timeout scan with FIN / REQ / TOUCH / delivery forced on the real daemon; "
                 "TLC model checking of NsqdAbs (custody of every message copy); traces of a real in-process nsqd "
                 "(verif hooks + client-side observations, randomized concurrent publishers/consumers, queue "
                 "configuration lattice) validated against NsqdAbs by TLC, with a drain-to-empty end condition; TLC (NsqdTopic: channelMap vs the pump's cached channel list, handshakes, PutMessage's read lock) with every interleaving of publish / channel creation / deletion and the pump's copy steps forced on the real daemon (gated replay)",
    "design_ref": "5/C01",
}


def run(ctx):
    import nsqdmc
    nsqdmc.model_check(ctx)
    import pairs
    # binding A' at the channel level: whatever the timeout scan interleaves with, a message that is in flight keeps a
    # deadline (it will come back) -- incl. two messages due in one scan while an answer for the first arrives
    pairs.run_pairs(ctx, "C01", pairs=[p for p in pairs.all_pairs() if "SCAN" in p and "EMPTY" not in p], sample=None if not ctx.quick else 120)
    import tpairs
    # binding A' at the topic level: NsqdTopic's interleavings of publish / channel creation / channel deletion with the
    # message pump's copy steps, forced on the real daemon: every acknowledged message reaches every channel known then
    tpairs.run_tpairs(ctx, "C01", only=lambda t: not ({"TEXIT", "TDELETE", "PAUSE", "UNPAUSE"} & set(t)) and t[3] != "paused")
    n = 16 if ctx.quick else 120
    corelib.run_modes(ctx, "C01", [("core", n), ("flow", n // 2), ("churn", n // 4), ("timing", n // 2)])
    # a topic nobody has used before, used for the first time by a subscriber and several publishers at the same moment
    # (fresh names, over and over): what is published once the SUB has been answered reaches the subscriber
    import json, os
    fu_rep = os.path.join(ctx.scratch, "first-use.json")
    rc, out, err = ctx.run_harness(["--first-use", 60 if ctx.quick else 600, "--report", fu_rep,
                                    "--out", os.path.join(ctx.scratch, "first-use.ndjson"), "--workdir", ctx.scratch],
                                   timeout=1800, name="ids")
    if not os.path.exists(fu_rep):
        raise Inconclusive("first-use scenario (rc %s): %s%s" % (rc, out[-1000:], err[-1000:]))
    FU = json.load(open(fu_rep))
    ctx.cov["evaluations"] += FU.get("first_use_rounds", 0)
    ctx.notes["first_use_rounds"] = FU.get("first_use_rounds", 0)
    for v in FU.get("violations") or []:
        ctx.violation("first use of a topic: " + v["what"], ctx.save_replay("first-use", v), key="first-use-lost")
    if FU.get("inconclusive") and not FU.get("violations"):
        ctx.notes.setdefault("inconclusive_runs", []).append("first-use: " + FU["inconclusive"])
    # what a consumer leaves unanswered is redelivered on whatever channels there are now: more channels than one scan round
    # takes, channels swapped (one deleted, one created, back to back) between two refreshes of the scanner's list
    corelib.queue_scan(ctx, "C01", 6 if ctx.quick else 40, model=False)
    if not ctx.quick:
        corelib.repo_tests(ctx, "C01")
    ctx.cov["distinct_nontrivial"] = len(ctx.notes.get("event_kinds", {}))
    ctx.cov["rule"] = ("evaluations = hook/harness events of real executions checked step by step by TLC; distinct = "
                       "event kinds (spec actions) exercised; each run = one seeded scenario (queue sizes, file "
                       "rolling, topics/channels/consumers, personalities)")
    ctx.assumptions += [
        "a channel is owed a message only if its creation was acknowledged before the publish reached the topic",
        "hook events are emitted inside the critical section performing the change (see DESIGN.md appendix A)",
        "drain: every channel unpaused and served by ready consumers that FIN everything; 'stuck' = no hook event "
        "for 15 s while messages are owed",
    ]
