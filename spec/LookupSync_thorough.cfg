SPECIFICATION Spec
CONSTANTS
  Lookupds = {"l1", "l2"}
  MaxOps = 7
  MaxFaults = 3
  K = 2
  ByName = TRUE
INVARIANT Converges
CHECK_DEADLOCK FALSE
