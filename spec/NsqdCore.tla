------------------------------ MODULE NsqdCore ------------------------------
(***************************************************************************)
(* nsqd/channel.go + protocol_v2.go at the grain of their critical         *)
(* sections: the in-flight MAP and the deadline HEAP are separate          *)
(* variables updated in separate steps (as in the code), the heap has a    *)
(* generation that Channel.Empty's initPQ bumps, each message carries the  *)
(* heap index the code stores in it, and each connection has its own       *)
(* in-flight COUNTER updated after the channel-side work.                  *)
(*                                                                         *)
(* Two or three operations OpA, OpB, OpC ("NONE": absent) run concurrently *)
(* from a prepared situation: "std" = m1 in flight to k1, m2 queued, k2     *)
(* subscribed with RDY 0; "k2waiting" = m1 in flight to k1, queue empty, k2 *)
(* subscribed with RDY 1 and parked in its pump's receive.  A step is      *)
(* one segment between two verif yield points, so every behaviour TLC      *)
(* finds is a schedule the gated replayer can force on the real daemon     *)
(* (binding A').  The history variable `sched` is that schedule.           *)
(***************************************************************************)
EXTENDS Integers, Sequences, FiniteSets, TLC

CONSTANTS OpA, OpB, OpC, \* operation names, see Segs ("NONE": no such actor)
          Situation,    \* "std" | "k2waiting", see above; "twoflight": m1 in flight to k1 AND m2 in flight to k2, both due;
                        \* "k1deferred": m1 was requeued with a delay by k1 (it waits in the deferred map: outside this model,
                        \* Empty discards it and owes no consumer anything for it), m2 queued
          Guarded,      \* removeFromInFlightPQ checks that its slot still holds the message (fix 1); FALSE = as first found
          ExitGuard,    \* REQ/TOUCH hold exitMutex.R from before the pop to the end and refuse when exiting (fix 3)
          PerMessage    \* Empty takes the discarded messages off their owners' counters (fix 2); FALSE = zeroes all counters
VARIABLES ifm,     \* in-flight map: id -> owner connection
          heap,    \* deadline heap as a sequence of ids (position = index)
          hgen,    \* generation of the heap object (initPQ replaces it)
          midx,    \* id -> [g, i]: the index stored in the message and the generation it was valid for (i = -1: none)
          q,       \* ids in the channel queue
          cnt,     \* connection -> in-flight counter
          fin,     \* finished ids
          gone,    \* ids discarded by Empty
          lock,    \* holder of the channel's write lock ("" = free)
          crashed, \* index out of range in inFlightPqueue.Remove / PeekAndShift
          pc,      \* actor -> next segment (1..), 0 = done
          hold,    \* actor -> the message its operation popped / took ("" = none)
          sched,   \* history: sequence of actors, one entry per executed segment
          dropped, \* what Empty's reset discarded (id -> owner), for its counter adjustment
          exiting, \* the channel's exit flag (graceful shutdown: Channel.Close)
          disk,    \* ids written to the channel's backend by flush (what a restart will find)
          lost,    \* ids a goroutine gave up on because the channel was exiting
          mcid     \* id -> msg.clientID: the field of the message struct StartInFlightTimeout writes and the scan reads

vars == <<ifm, heap, hgen, midx, q, cnt, fin, gone, lock, crashed, pc, hold, sched, dropped, exiting, disk, lost, mcid>>
Actors == {"A", "B", "C"}
Op(a) == CASE a = "A" -> OpA [] a = "B" -> OpB [] a = "C" -> OpC
Msgs == CASE Situation = "k2waiting" -> {"m1"} [] Situation = "k1deferred" -> {"m2"} [] OTHER -> {"m1", "m2"}
K1 == 1
K2 == 2

\* number of segments of each operation (= yield points + 1)
Segs(op) == CASE op = "FIN" -> 3 [] op = "REQ0" -> 4 [] op = "TOUCH" -> 4 [] op = "SCAN" -> 3
              [] op = "DELIVER" -> 4 [] op = "EMPTY" -> 3 [] op = "FIN2" -> 3 [] op = "EXIT" -> 4 [] op = "DELIVERQ" -> 4 [] OTHER -> 0

Init == /\ ifm = CASE Situation = "twoflight" -> ("m1" :> K1) @@ ("m2" :> K2)
                     [] Situation = "k1deferred" -> <<>>
                     [] OTHER -> ("m1" :> K1)
        /\ heap = CASE Situation = "twoflight" -> <<"m1", "m2">> [] Situation = "k1deferred" -> <<>> [] OTHER -> <<"m1">>
        /\ hgen = 0
        /\ midx = ("m1" :> [g |-> 0, i |-> IF Situation = "k1deferred" THEN -1 ELSE 0])
                   @@ ("m2" :> [g |-> 0, i |-> IF Situation = "twoflight" THEN 1 ELSE -1])
        /\ q = IF Situation = "twoflight" THEN {} ELSE Msgs \ {"m1"}
        /\ mcid = ("m1" :> K1) @@ ("m2" :> K2)
        /\ cnt = (K1 :> IF Situation = "k1deferred" THEN 0 ELSE 1) @@ (K2 :> IF Situation = "twoflight" THEN 1 ELSE 0)
        /\ fin = {} /\ gone = {} /\ lock = "" /\ crashed = FALSE
        /\ pc = [a \in Actors |-> IF Segs(Op(a)) = 0 THEN 0 ELSE 1] /\ hold = [a \in Actors |-> ""]
        /\ sched = <<>> /\ dropped = <<>>
        /\ exiting = FALSE /\ disk = {} /\ lost = {}

\* ---- heap primitives (internal/pqueue + in_flight_pqueue.go) ----------
RemoveAt(s, i) == [j \in 1..(Len(s) - 1) |-> IF j < i THEN s[j] ELSE s[j + 1]]

\* inFlightPqueue.Remove(msg.index) for message id, as removeFromInFlightPQ calls it
HeapRemove(id) ==
  LET ix == midx[id] IN
  IF ix.i = -1 THEN UNCHANGED <<heap, midx, crashed>>                      \* "already popped off the pqueue"
  ELSE IF Guarded /\ (ix.i >= Len(heap) \/ heap[ix.i + 1] # id \/ ix.g # hgen)
       THEN UNCHANGED <<heap, midx, crashed>>                               \* the pqueue was replaced (Empty) meanwhile
  ELSE IF ix.i >= Len(heap)
       THEN crashed' = TRUE /\ UNCHANGED <<heap, midx>>                     \* stale index beyond the (new) heap: panic
       ELSE LET victim == heap[ix.i + 1] IN                                 \* same generation: victim = id
            /\ heap' = RemoveAt(heap, ix.i + 1)
            /\ midx' = [m \in DOMAIN midx |->
                          IF m = victim THEN [midx[m] EXCEPT !.i = -1]       \* Remove() resets the index of what it removed
                          ELSE IF midx[m].g = hgen /\ midx[m].i > ix.i THEN [midx[m] EXCEPT !.i = @ - 1] ELSE midx[m]]
            /\ crashed' = crashed

HeapPush(id) == /\ heap' = Append(heap, id)
                /\ midx' = [midx EXCEPT ![id] = [g |-> hgen, i |-> Len(heap)]]

MapPop(id, by) == id \in DOMAIN ifm /\ ifm[id] = by
Without(f, x) == [y \in (DOMAIN f) \ {x} |-> f[y]]

Done(a)   == pc' = [pc EXCEPT ![a] = 0]
Adv(a)    == pc' = [pc EXCEPT ![a] = @ + 1]
Log(a)    == sched' = Append(sched, a)

\* ---- operations, one disjunct per segment ------------------------------
\* Channel.exit holds exitMutex (write) from its first statement to its return
ExitInside == \E b \in Actors : Op(b) = "EXIT" /\ pc[b] \in {2, 3, 4}

\* FIN m1 by k1  (FIN2: the same FIN arriving from k2 -- wrong connection)
Fin(a, k) ==
  \/ /\ pc[a] = 1
     /\ IF MapPop("m1", k) THEN ifm' = Without(ifm, "m1") /\ hold' = [hold EXCEPT ![a] = "m1"] /\ Adv(a)
                           ELSE UNCHANGED <<ifm, hold>> /\ Done(a)          \* E_FIN_FAILED
     /\ UNCHANGED <<heap, hgen, midx, q, cnt, fin, gone, lock, crashed>>
  \/ /\ pc[a] = 2 /\ HeapRemove("m1") /\ fin' = fin \cup {"m1"} /\ Adv(a)
     /\ UNCHANGED <<ifm, hgen, q, cnt, gone, lock, hold>>
  \/ /\ pc[a] = 3 /\ cnt' = [cnt EXCEPT ![k] = @ - 1] /\ Done(a)
     /\ UNCHANGED <<ifm, heap, hgen, midx, q, fin, gone, lock, crashed, hold>>

\* exitMutex.R held by a REQ/TOUCH in progress (fix 3) -- Channel.exit cannot set its flag meanwhile
AnswerInside == ExitGuard /\ \E b \in Actors : Op(b) \in {"REQ0", "TOUCH"} /\ pc[b] \in {2, 3, 4}

Req0(a) ==
  \/ /\ pc[a] = 1 /\ (ExitGuard => ~ExitInside)
     /\ IF (ExitGuard /\ exiting) \/ ~MapPop("m1", K1) THEN UNCHANGED <<ifm, hold>> /\ Done(a)      \* E_REQ_FAILED
        ELSE ifm' = Without(ifm, "m1") /\ hold' = [hold EXCEPT ![a] = "m1"] /\ Adv(a)
     /\ UNCHANGED <<heap, hgen, midx, q, cnt, fin, gone, lock, crashed>>
  \/ /\ pc[a] = 2 /\ HeapRemove("m1") /\ Adv(a) /\ UNCHANGED <<ifm, hgen, q, cnt, fin, gone, lock, hold>>
  \/ /\ pc[a] = 3 /\ (~ExitGuard => ~ExitInside)       \* as first found: exitMutex.R only here, "if c.Exiting() return error"
     /\ IF ~ExitGuard /\ exiting THEN lost' = lost \cup {"m1"} /\ q' = q /\ Done(a)     \* the popped message is dropped
                                 ELSE q' = q \cup {"m1"} /\ lost' = lost /\ Adv(a)
     /\ hold' = [hold EXCEPT ![a] = ""]
     /\ UNCHANGED <<ifm, heap, hgen, midx, cnt, fin, gone, lock, crashed>>
  \/ /\ pc[a] = 4 /\ cnt' = [cnt EXCEPT ![K1] = @ - 1] /\ Done(a)
     /\ UNCHANGED <<ifm, heap, hgen, midx, q, fin, gone, lock, crashed, hold>>

Touch(a) ==
  \/ /\ pc[a] = 1 /\ (ExitGuard => ~ExitInside)
     /\ IF (ExitGuard /\ exiting) \/ ~MapPop("m1", K1) THEN UNCHANGED <<ifm, hold>> /\ Done(a)
        ELSE ifm' = Without(ifm, "m1") /\ hold' = [hold EXCEPT ![a] = "m1"] /\ Adv(a)
     /\ UNCHANGED <<heap, hgen, midx, q, cnt, fin, gone, lock, crashed>>
  \/ /\ pc[a] = 2 /\ HeapRemove("m1") /\ Adv(a) /\ UNCHANGED <<ifm, hgen, q, cnt, fin, gone, lock, hold>>
  \/ /\ pc[a] = 3
     /\ IF "m1" \in DOMAIN ifm THEN UNCHANGED ifm /\ Done(a)               \* "ID already in flight"
                               ELSE ifm' = ifm @@ ("m1" :> K1) /\ Adv(a)
     /\ hold' = [hold EXCEPT ![a] = ""]
     /\ UNCHANGED <<heap, hgen, midx, q, cnt, fin, gone, lock, crashed>>
  \/ /\ pc[a] = 4 /\ HeapPush("m1") /\ Done(a)
     /\ UNCHANGED <<ifm, hgen, q, cnt, fin, gone, lock, crashed, hold>>

Owner(m) == mcid[m]      \* msg.clientID of the message the scan popped, read when the client is looked up
\* processInFlightQueue(t) with everything due
Scan(a) ==
  \/ /\ pc[a] = 1 /\ ~ExitInside                          \* exitMutex.RLock for the whole function
     /\ IF heap = <<>> \/ exiting THEN UNCHANGED <<heap, midx, hold>> /\ Done(a)
        ELSE /\ hold' = [hold EXCEPT ![a] = heap[1]]
             /\ heap' = Tail(heap)
             /\ midx' = [m \in DOMAIN midx |-> IF m = heap[1] THEN [midx[m] EXCEPT !.i = -1]
                                                ELSE IF midx[m].g = hgen /\ midx[m].i > 0 THEN [midx[m] EXCEPT !.i = @ - 1] ELSE midx[m]]
             /\ Adv(a)
     /\ UNCHANGED <<ifm, hgen, q, cnt, fin, gone, lock, crashed>>
  \/ /\ pc[a] = 2
     /\ IF hold[a] \in DOMAIN ifm THEN ifm' = Without(ifm, hold[a]) /\ Adv(a) /\ UNCHANGED hold
                                  ELSE UNCHANGED ifm /\ Done(a) /\ hold' = [hold EXCEPT ![a] = ""]
     /\ UNCHANGED <<heap, hgen, midx, q, cnt, fin, gone, lock, crashed>>
  \/ /\ pc[a] = 3 /\ lock = ""                        \* c.RLock() to look the client up
     \* ... then the loop goes on, un-gated, through whatever else is on the heap (everything is due)
     /\ LET rest == {heap[i] : i \in DOMAIN heap} \cap DOMAIN ifm
            dec(k) == (IF Owner(hold[a]) = k THEN 1 ELSE 0) + Cardinality({m \in rest : ifm[m] = k}) IN
        /\ cnt' = [k \in DOMAIN cnt |-> cnt[k] - dec(k)]
        /\ q' = q \cup {hold[a]} \cup rest
        /\ ifm' = [m \in (DOMAIN ifm) \ rest |-> ifm[m]]
        /\ heap' = <<>>
        /\ midx' = [m \in DOMAIN midx |-> IF midx[m].g = hgen THEN [midx[m] EXCEPT !.i = -1] ELSE midx[m]]
     /\ hold' = [hold EXCEPT ![a] = ""] /\ Done(a)
     /\ UNCHANGED <<hgen, fin, gone, lock, crashed>>

\* k2's pump delivers m2
Deliver(a) ==
  \/ /\ pc[a] = 1
     /\ IF "m2" \in q THEN q' = q \ {"m2"} /\ hold' = [hold EXCEPT ![a] = "m2"] /\ Adv(a)
                      ELSE UNCHANGED <<q, hold>> /\ Done(a)
     /\ UNCHANGED <<ifm, heap, hgen, midx, cnt, fin, gone, lock, crashed>>
  \/ /\ pc[a] = 2 /\ ifm' = (IF "m2" \in DOMAIN ifm THEN ifm ELSE ifm @@ ("m2" :> K2)) /\ Adv(a)
     /\ mcid' = [mcid EXCEPT !["m2"] = K2]
     /\ hold' = [hold EXCEPT ![a] = ""]
     /\ UNCHANGED <<heap, hgen, midx, q, cnt, fin, gone, lock, crashed>>
  \/ /\ pc[a] = 3 /\ HeapPush("m2") /\ Adv(a) /\ UNCHANGED <<ifm, hgen, q, cnt, fin, gone, lock, crashed, hold>>
  \/ /\ pc[a] = 4 /\ cnt' = [cnt EXCEPT ![K2] = @ + 1] /\ Done(a)
     /\ UNCHANGED <<ifm, heap, hgen, midx, q, fin, gone, lock, crashed, hold>>

\* k2's pump, parked in its receive with RDY 1, takes whatever message reaches the queue (situation "k2waiting")
DeliverQ(a) ==
  \/ /\ pc[a] = 1 /\ q # {}                                   \* blocking receive
     /\ \E m \in q : q' = q \ {m} /\ hold' = [hold EXCEPT ![a] = m]
     /\ Adv(a)
     /\ UNCHANGED <<ifm, heap, hgen, midx, cnt, fin, gone, lock, crashed>>
  \/ /\ pc[a] = 2                                             \* msg.clientID = k2; pushInFlightMessage
     /\ mcid' = [mcid EXCEPT ![hold[a]] = K2]
     /\ ifm' = (IF hold[a] \in DOMAIN ifm THEN ifm ELSE ifm @@ (hold[a] :> K2)) /\ Adv(a)
     /\ UNCHANGED <<heap, hgen, midx, q, cnt, fin, gone, lock, crashed, hold>>
  \/ /\ pc[a] = 3 /\ HeapPush(hold[a]) /\ Adv(a)               \* addToInFlightPQ
     /\ hold' = [hold EXCEPT ![a] = ""]
     /\ UNCHANGED <<ifm, hgen, q, cnt, fin, gone, lock, crashed>>
  \/ /\ pc[a] = 4 /\ cnt' = [cnt EXCEPT ![K2] = @ + 1] /\ Done(a)   \* client.SendingMessage
     /\ UNCHANGED <<ifm, heap, hgen, midx, q, fin, gone, lock, crashed, hold>>

\* Channel.Empty
Empty(a) ==
  \/ /\ pc[a] = 1 /\ lock = "" /\ lock' = a
     /\ gone' = gone \cup DOMAIN ifm
     /\ dropped' = ifm
     /\ ifm' = <<>> /\ heap' = <<>> /\ hgen' = hgen + 1 /\ Adv(a)
     /\ UNCHANGED <<midx, q, cnt, fin, crashed, hold>>
  \/ /\ pc[a] = 2
     /\ cnt' = IF PerMessage THEN [k \in DOMAIN cnt |-> cnt[k] - Cardinality({m \in DOMAIN dropped : dropped[m] = k})]
                             ELSE [k \in DOMAIN cnt |-> 0]
     /\ Adv(a)
     /\ UNCHANGED <<ifm, heap, hgen, midx, q, fin, gone, lock, crashed, hold, dropped>>
  \/ /\ pc[a] = 3 /\ gone' = gone \cup q /\ q' = {} /\ lock' = "" /\ Done(a)
     /\ UNCHANGED <<ifm, heap, hgen, midx, cnt, fin, crashed, hold, dropped>>

\* Channel.Close during nsqd.Exit: flag, close clients, flush memory queue, flush in-flight (+deferred), close backend
ScanInside == \E b \in Actors : Op(b) = "SCAN" /\ pc[b] \in {2, 3}       \* holds exitMutex.R
Exit(a) ==
  \* nsqd.Exit closes the connections first; their IOLoops call RemoveClient, which holds exitMutex.R while it
  \* waits for the channel lock -- so the flag cannot be set while an Empty holds that lock
  \/ /\ pc[a] = 1 /\ ~ScanInside /\ ~AnswerInside /\ lock = "" /\ exiting' = TRUE /\ Adv(a) /\ UNCHANGED <<q, disk>>
  \/ /\ pc[a] = 2 /\ lock = "" /\ Adv(a) /\ UNCHANGED <<q, disk, exiting>>    \* c.RLock(): client connections closed
  \/ /\ pc[a] = 3 /\ disk' = disk \cup q /\ q' = {} /\ Adv(a) /\ UNCHANGED exiting
  \/ /\ pc[a] = 4 /\ disk' = disk \cup DOMAIN ifm /\ Done(a) /\ UNCHANGED <<q, exiting>>

Step(a) == /\ pc[a] # 0 /\ ~crashed /\ Log(a)
           /\ Op(a) # "EMPTY" => dropped' = dropped
           /\ Op(a) # "EXIT" => exiting' = exiting /\ disk' = disk
           /\ (Op(a) # "REQ0" \/ pc[a] # 3) => lost' = lost
           /\ (Op(a) \notin {"DELIVER", "DELIVERQ"} \/ pc[a] # 2) => mcid' = mcid
           /\ Op(a) = "EXIT" => UNCHANGED <<ifm, heap, hgen, midx, cnt, fin, gone, lock, crashed, hold>>
           /\ CASE Op(a) = "FIN" -> Fin(a, K1) [] Op(a) = "FIN2" -> Fin(a, K2) [] Op(a) = "REQ0" -> Req0(a)
                [] Op(a) = "TOUCH" -> Touch(a) [] Op(a) = "SCAN" -> Scan(a) [] Op(a) = "DELIVER" -> Deliver(a)
                [] Op(a) = "EMPTY" -> Empty(a) [] Op(a) = "EXIT" -> Exit(a) [] Op(a) = "DELIVERQ" -> DeliverQ(a)

Next == \E a \in Actors : Step(a)
Spec == Init /\ [][Next]_vars

---------------------------------------------------------------------------
\* a parked receiver with nothing to receive is not going to move (nobody else is left to queue anything)
Waiting(a) == Op(a) = "DELIVERQ" /\ pc[a] = 1 /\ q = {}
Terminal == crashed \/ \A a \in Actors : pc[a] = 0 \/ Waiting(a)
InFlightOf(k) == {id \in DOMAIN ifm : ifm[id] = k}
HeapSet == {heap[i] : i \in DOMAIN heap}
Held == {hold[a] : a \in Actors} \ {""}

\* C08: no interleaving crashes the daemon
NoCrash == ~crashed
\* C03/C13: once both operations are over, each connection's counter is the number of messages in flight to it
CountersMatch == Terminal /\ ~crashed => \A k \in DOMAIN cnt : cnt[k] = Cardinality(InFlightOf(k))
NoNegative == \A k \in DOMAIN cnt : cnt[k] >= 0
\* C01/C04: whatever is in flight has a deadline entry, so it will time out if unanswered
EveryInFlightHasDeadline == Terminal /\ ~crashed => DOMAIN ifm = HeapSet
\* C01/C02: every message is in exactly one place
Places(m) == (IF m \in DOMAIN ifm THEN 1 ELSE 0) + (IF m \in q THEN 1 ELSE 0) + (IF m \in Held THEN 1 ELSE 0)
OnePlace == Terminal /\ ~crashed =>
               \A m \in Msgs :
                  \/ Places(m) = 1 /\ m \notin fin
                  \/ Places(m) = 0 /\ (m \in fin \/ m \in gone)

\* printed for the replayer: the schedule and the predicted observable outcome of every maximal behaviour
Outcome == <<"SCHED", OpA, OpB, OpC, Situation, sched, crashed, Cardinality(DOMAIN ifm), Cardinality(q), cnt[K1], cnt[K2],
             Cardinality(HeapSet), "m1" \in fin, "m1" \in disk, "m2" \in disk,
             Cardinality(InFlightOf(K1)), Cardinality(InFlightOf(K2))>>

\* C05: whatever was acknowledged and not finished when the channel closed is on disk for the restart
Exited == \E a \in Actors : Op(a) = "EXIT"
RestartKeepsUnfinished == (Terminal /\ ~crashed /\ Exited) => \A m \in Msgs : m \in fin \/ m \in disk
FinishedStayGone == (Terminal /\ ~crashed /\ Exited) => TRUE
Emit == Terminal => PrintT(Outcome)
=============================================================================
