package main

import (
	"encoding/json"
	"flag"
	"fmt"
	"io"
	"net/http"
	"os"
	"path/filepath"
	"strings"
	"time"
)

// metafault: the metadata file cannot be written for a while (something is in the way of nsqd.dat: a non-empty directory of
// that name, so that the rename of the freshly written generation fails).  Whatever the daemon answers to the requests that
// change the metadata meanwhile, it answers every one of them, and goes on answering everybody afterwards (C10: every
// request gets a well-formed response; no request can take the daemon down).
func init() { subcmds["metafault"] = metafaultCmd }

func metafaultCmd(args []string) int {
	fs := flag.NewFlagSet("metafault", flag.ExitOnError)
	rep := fs.String("report", "report.json", "report")
	scratch := fs.String("scratch", "", "scratch dir")
	fs.Parse(args)
	out := map[string]interface{}{"requests": 0, "violations": []map[string]string{}, "inconclusive": []string{}}
	write := func() int {
		b, _ := json.Marshal(out)
		os.WriteFile(*rep, b, 0644)
		if len(out["violations"].([]map[string]string)) > 0 {
			return 1
		}
		return 0
	}
	viol := func(key, what string) {
		out["violations"] = append(out["violations"].([]map[string]string), map[string]string{"key": key, "what": what})
	}
	d, err := startDaemon(*scratch, 1024, 4096, time.Second)
	if err != nil {
		out["inconclusive"] = []string{err.Error()}
		return write()
	}
	stopped := make(chan struct{})
	defer func() {
		go func() { d.Stop(); close(stopped) }()
		select {
		case <-stopped:
		case <-time.After(20 * time.Second):
		}
	}()
	hc := &http.Client{Timeout: 6 * time.Second}
	n := 0
	do := func(method, path, body string) (int, error) {
		rq, _ := http.NewRequest(method, "http://"+d.HTTPAddr+path, strings.NewReader(body))
		resp, err := hc.Do(rq)
		n++
		out["requests"] = n
		if err != nil {
			return 0, err
		}
		io.Copy(io.Discard, resp.Body)
		resp.Body.Close()
		return resp.StatusCode, nil
	}
	for _, p := range []string{"/topic/create?topic=a", "/channel/create?topic=a&channel=x", "/channel/create?topic=a&channel=y",
		"/topic/create?topic=b", "/channel/create?topic=b&channel=x"} {
		if st, err := do("POST", p, ""); err != nil || st != 200 {
			out["inconclusive"] = []string{fmt.Sprintf("set-up %s: %v %d", p, err, st)}
			return write()
		}
	}
	time.Sleep(100 * time.Millisecond)
	// something is in the way
	dat := filepath.Join(d.dir, "nsqd.dat")
	os.Rename(dat, dat+".aside")
	os.MkdirAll(filepath.Join(dat, "in-the-way"), 0755)
	during := []string{"/channel/pause?topic=a&channel=x", "/channel/delete?topic=a&channel=y", "/topic/pause?topic=b", "/channel/create?topic=a&channel=z",
		"/topic/delete?topic=b", "/topic/create?topic=c", "/channel/unpause?topic=a&channel=x", "/topic/empty?topic=a", "/channel/empty?topic=a&channel=x"}
	for _, p := range during {
		st, err := do("POST", p, "")
		if err != nil {
			viol("metafault:unanswered", fmt.Sprintf("with nsqd.dat impossible to replace (a non-empty directory of that name), POST %s was not answered within 6 s: %v", p, err))
			break
		}
		_ = st // 200 or 500: the daemon's call
		// ... and everybody else is still served
		for _, q := range []string{"/ping", "/stats?format=json", "/info"} {
			if st, err := do("GET", q, ""); err != nil || (st != 200 && !(q == "/ping" && st == 500)) {
				viol("metafault:not-serving", fmt.Sprintf("with nsqd.dat impossible to replace, after POST %s had been answered %d, GET %s is no longer answered (%v, status %d)", p, st, q, err, st))
				return write()
			}
		}
		if st, err := do("POST", "/pub?topic=a", "m"); err != nil || st != 200 {
			viol("metafault:not-serving", fmt.Sprintf("with nsqd.dat impossible to replace, after POST %s, a publish to an existing topic is no longer served (%v, status %d)", p, err, st))
			return write()
		}
	}
	// the obstacle goes away: everything works again
	os.RemoveAll(dat)
	os.Rename(dat+".aside", dat)
	for _, p := range []string{"/topic/create?topic=after", "/channel/create?topic=after&channel=x", "/channel/pause?topic=after&channel=x"} {
		if st, err := do("POST", p, ""); err != nil || st != 200 {
			viol("metafault:after", fmt.Sprintf("once nsqd.dat could be written again, POST %s was answered %d (%v)", p, st, err))
		}
	}
	return write()
}
