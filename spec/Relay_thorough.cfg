\* thorough: all properties, <= 3 non-accepts.  checks/C20.py runs this file once per (Kind, Mode) in
\* {async, sync} x {rr, hostpool, eps} by rewriting the two lines "Kind = ..." / "Mode = ..." in its scratch copy.
SPECIFICATION Spec
CONSTANTS
  Msgs = {1, 2}
  Dests = {1, 2}
  Kind = "async"
  Mode = "hostpool"
  Handlers = 2
  Items = {"A", "R", "L", "D"}
  MaxSched = 2
  MaxBad = 3
  MaxTimeouts = 1
  MaxConnLost = 0
  MaxAttempts = 0
  Filter = FALSE
INVARIANTS TypeOK FinOnlyAfterAccept ReqOtherwise Unmodified AtLeastOnce NeverLost
PROPERTIES Refines FailedIsRequeued EventuallyArrives Settles
CHECK_DEADLOCK FALSE
