package main

// c14-hammer: black-box search (no hooks needed) for the UNREGISTER check-then-act window: pairs of connections,
// one unregistering an ephemeral topic it alone is registered for, the other registering it at the same moment.
// When both commands have been acknowledged and nothing else touches the key, the registrant must be listed.

import (
	"flag"
	"fmt"
	"os"
	"sync"
	"time"

	"github.com/nsqio/nsq/verifharness/hlib"
)

func init() { subcmds["c14-hammer"] = c14Hammer }

func c14Hammer(args []string) int {
	fs := flag.NewFlagSet("c14-hammer", flag.ExitOnError)
	pairs := fs.Int("pairs", 8, "concurrent pairs (each on its own ephemeral topic)")
	iters := fs.Int("iters", 20000, "iterations per pair")
	wall := fs.Duration("wall", 20*time.Second, "stop after this wall time")
	rep := fs.String("report", "hammer.json", "report output")
	fs.Parse(args)
	d, err := c14StartDaemon(24*time.Hour, 24*time.Hour)
	if err != nil {
		fmt.Fprintln(os.Stderr, err)
		return 2
	}
	defer d.Stop()
	type result struct {
		Iterations int      `json:"iterations"`
		Lost       int      `json:"lost"`
		First      []string `json:"first_lost,omitempty"`
		Errors     []string `json:"errors,omitempty"`
	}
	var mu sync.Mutex
	res := result{}
	deadline := time.Now().Add(*wall)
	var wg sync.WaitGroup
	for k := 0; k < *pairs; k++ {
		wg.Add(1)
		go func(k int) {
			defer wg.Done()
			topic := fmt.Sprintf("h%d#ephemeral", k)
			idn := &c14Identity{byHost: map[string]*c14Peer{}, byID: map[string]string{}}
			mk := func(name string, i int) *c14Peer {
				b, tp, hp := c14PeerIdentity(name, i, false)
				p := &c14Peer{name: name, broadcast: b, tcpPort: tp, httpPort: hp}
				idn.byHost[name] = p
				return p
			}
			a, b := mk(fmt.Sprintf("a%d", k), 2*k), mk(fmt.Sprintf("b%d", k), 2*k+1)
			fail := func(f string, x ...interface{}) {
				mu.Lock()
				res.Errors = append(res.Errors, fmt.Sprintf(f, x...))
				mu.Unlock()
			}
			for _, p := range []*c14Peer{a, b} {
				if err := p.Connect(d.tcp); err != nil {
					fail("connect: %v", err)
					return
				}
				defer p.conn.Close()
				idn.setID(p.id, p.name)
				if _, err := p.Identify(); err != nil {
					fail("identify: %v", err)
					return
				}
			}
			h := c14NewHTTP(d.http)
			defer h.Close()
			must := func(p *c14Peer, line string) bool {
				r, err := p.Cmd(line, nil)
				if err != nil || r != "OK" {
					fail("%s %s: %q %v", p.name, line, r, err)
					return false
				}
				return true
			}
			n := 0
			for i := 0; i < *iters && time.Now().Before(deadline); i++ {
				// a alone is registered; then a UNREGISTER || b REGISTER
				if !must(a, "REGISTER "+topic) {
					return
				}
				start := make(chan struct{})
				var ok1, ok2 bool
				var w2 sync.WaitGroup
				w2.Add(2)
				go func() { defer w2.Done(); <-start; ok1 = must(a, "UNREGISTER "+topic) }()
				go func() { defer w2.Done(); <-start; ok2 = must(b, "REGISTER "+topic) }()
				close(start)
				w2.Wait()
				if !ok1 || !ok2 {
					return
				}
				n++
				// quiescent for this key: b registered it (acknowledged) and never unregistered it
				l, err := c14QueryLookup(h, topic, idn)
				if err != nil {
					fail("lookup: %v", err)
					return
				}
				present := false
				for _, p := range l.Producers {
					if p == b.name {
						present = true
					}
				}
				if !present {
					mu.Lock()
					res.Lost++
					if len(res.First) < 3 {
						res.First = append(res.First, fmt.Sprintf("pair %d iteration %d: %s REGISTER %s -> OK concurrently with %s UNREGISTER %s -> OK; afterwards "+
							"/lookup?topic=%s: found=%v producers=%v", k, i, b.name, topic, a.name, topic, topic, l.Found, l.Producers))
					}
					mu.Unlock()
				}
				if !must(b, "UNREGISTER "+topic) {
					return
				}
			}
			mu.Lock()
			res.Iterations += n
			mu.Unlock()
		}(k)
	}
	wg.Wait()
	hlib.WriteJSON(*rep, res)
	if len(res.Errors) > 0 {
		return 2
	}
	return 0
}
