----------------------------- MODULE NsqdHttpMC -----------------------------
(***************************************************************************)
(* Bounded configurations of NsqdHttp: request alphabets and prefixes.  The   *)
(* history-carrying variant that prints behaviours for replay (binding A)    *)
(* is NsqdHttpBeh.                                                           *)
(*                                                                           *)
(*  AlphaSeq      : the requests used for evolving-registry sequences           *)
(*  AlphaArgs     : every route x method x argument presence/validity/dup class *)
(*  AlphaText     : text /mpub with EVERY newline layout up to MaxBody+2 bytes  *)
(*  AlphaBin      : binary /mpub count / length / truncation classes            *)
(* Prefixes (sequences of requests run before the enumerated request) put    *)
(* the registry into the states the outcome depends on.                      *)
(***************************************************************************)
EXTENDS NsqdHttp

CONSTANT TextL         \* AlphaText: every newline layout of bodies up to this many bytes
CONSTANT MaxCnt        \* state constraint for the sequence model: messages ever published to a topic

Rq(route, method) == [NoReq EXCEPT !.route = route, !.method = method]
Post(route) == Rq(route, "POST")
T1 == "t1"
C1 == "c1"
ASSUME T1 \in Topics /\ C1 \in Channels

-----------------------------------------------------------------------------
\* ---- sequences over an evolving registry ----
SeqTopicOps(u) == {[Post(r) EXCEPT !.topic = <<t>>] : r \in TopicAdmin, t \in Topics}
SeqChanOps(u)  == {[Post(r) EXCEPT !.topic = <<t>>, !.channel = <<c>>] : r \in ChannelAdmin, t \in Topics, c \in Channels}
SeqPubs(u) ==
  {[Post("pub") EXCEPT !.topic = <<t>>, !.body = Text(<<1>>)] : t \in Topics}
  \cup {[Post("pub") EXCEPT !.topic = <<T1>>, !.defer = <<"max">>, !.body = Text(<<2>>), !.chunked = TRUE]}
  \cup {[Post("mpub") EXCEPT !.topic = <<T1>>, !.body = Text(<<1, 0, 2>>)]}
  \cup {[Post("mpub") EXCEPT !.topic = <<T1>>, !.binary = <<"true">>,
                             !.body = Bin(4, 2, <<[decl |-> 1, have |-> 1], [decl |-> 1, have |-> 1]>>, 0)]}
  \cup {[Rq("tcp_pub", "TCP") EXCEPT !.topic = <<T1>>, !.body = Text(<<1>>)]}
SeqBad(u) ==
  {[Post("pub") EXCEPT !.body = Text(<<1>>)],                                              \* no topic
   [Post("pub") EXCEPT !.topic = <<T1>>, !.defer = <<"mulovf">>, !.body = Text(<<1>>)],   \* creates the topic, 400
   [Post("mpub") EXCEPT !.topic = <<T1>>, !.body = Text(<<MaxMsg + 1>>)],                  \* creates the topic, 413
   [Rq("topic_delete", "GET") EXCEPT !.topic = <<T1>>],
   [Rq("stats", "GET") EXCEPT !.arg = "json"]}
AlphaSeq(u) == SeqTopicOps(u) \cup SeqChanOps(u) \cup SeqPubs(u) \cup SeqBad(u)

\* ---- argument table ----
TA == {<<>>, <<T1>>, <<"t2">>, <<"~bad">>, <<T1, "~bad">>, <<"~bad", T1>>, <<T1, "t2">>}
CA == {<<>>, <<C1>>, <<"c2">>, <<"~bad">>, <<C1, "~bad">>, <<"~bad", C1>>}
DA == {<<>>} \cup {<<c>> : c \in DeferClasses} \cup {<<"small", "nonnum">>, <<"nonnum", "small">>}
BA == {<<>>, <<"true">>, <<"1">>, <<"false">>, <<"0">>, <<"other">>, <<"empty">>, <<"false", "true">>, <<"true", "false">>}
PubBodies == {Text(<<n>>) : n \in {0, 1, MaxMsg, MaxMsg + 1, MaxBody + 1}} \cup {Text(<<1, 1>>), Text(<<0, 0>>)}
It(d, h) == [decl |-> d, have |-> h]
TextBodies == {Text(<<0>>), Text(<<1>>), Text(<<1, 1>>), Text(<<0, 1, 0>>), Text(<<MaxMsg + 1>>), Text(<<1, MaxMsg + 1>>),
               Text(<<MaxMsg, MaxBody - MaxMsg - 1>>), Text(<<MaxMsg, MaxBody - MaxMsg>>)}
BinBodies == {Bin(4, 1, <<It(1, 1)>>, 0), Bin(4, 2, <<It(MaxMsg, MaxMsg), It(1, 1)>>, 0), Bin(4, 0, <<>>, 0),
              Bin(4, 1, <<It(0, 0)>>, 0), Bin(4, 1, <<It(MaxMsg, MaxMsg - 1)>>, 0), Bin(4, 1, <<It(1, 1)>>, 3),
              Bin(2, 0, <<>>, 0), Bin(4, 2, <<It(1, 1)>>, 2)}

ArgsPub(u)  == {[Post("pub") EXCEPT !.topic = t, !.defer = d, !.body = b, !.chunked = ch, !.badq = bq] :
               t \in TA, d \in DA, b \in PubBodies, ch \in BOOLEAN, bq \in BOOLEAN}
ArgsMpub(u) == {[Post("mpub") EXCEPT !.topic = t, !.binary = bi, !.body = b, !.chunked = ch, !.badq = bq] :
               t \in TA, bi \in BA, b \in TextBodies \cup BinBodies, ch \in BOOLEAN, bq \in BOOLEAN}
ArgsMpubOK(u) == {r \in ArgsMpub(u) : BinaryMode(r) \/ r.body.kind = "text"}
AdminBodies == {NoBody, Text(<<MaxMsg + 1>>)}
ArgsTopic(u) == {[Post(r) EXCEPT !.topic = t, !.badq = bq, !.body = b, !.chunked = ch] :
               r \in TopicAdmin, t \in TA, bq \in BOOLEAN, b \in AdminBodies, ch \in BOOLEAN}
ArgsChan(u)  == {[Post(r) EXCEPT !.topic = t, !.channel = c, !.badq = bq] :
               r \in ChannelAdmin, t \in TA, c \in CA, bq \in BOOLEAN}
ArgsMisc(u) ==
  {Rq("ping", "GET"), Rq("info", "GET"), Rq("pprof", "GET"), Post("freememory"),
   [Rq("ping", "GET") EXCEPT !.badq = TRUE], [Rq("info", "GET") EXCEPT !.badq = TRUE]}
  \cup {[Rq("stats", "GET") EXCEPT !.arg = a, !.badq = bq, !.topic = t] : a \in {"json", "text"}, bq \in BOOLEAN, t \in {<<>>, <<T1>>, <<"~bad">>}}
  \cup {[Rq("setblockrate", "PUT") EXCEPT !.arg = a] : a \in {"valid", "invalid", "missing"}}
  \cup {[Rq("config", "GET") EXCEPT !.arg = a] : a \in OptClasses}
  \cup {[Rq("config", "PUT") EXCEPT !.arg = a, !.binary = <<v>>, !.body = Text(<<n>>), !.chunked = ch] :
          a \in OptClasses, v \in {"valid", "invalid"}, n \in {0, 4, MaxMsg, MaxMsg + 1}, ch \in BOOLEAN}
\* every route with every method that it does NOT serve (and the unknown path with every method)
FullArgs(r) == [r EXCEPT !.topic = <<T1>>, !.channel = <<C1>>, !.body = Text(<<1>>)]
ArgsWrongMethod(u) ==
  LET bare == {Rq(r, m) : r \in HttpRoutes, m \in Methods} IN
  {r \in bare \cup {FullArgs(x) : x \in bare} : r.route = "unknown" \/ r.method \notin AllowedMethods(r.route)}
AlphaArgs(u) == ArgsPub(u) \cup ArgsMpubOK(u) \cup ArgsTopic(u) \cup ArgsChan(u) \cup ArgsMisc(u) \cup ArgsWrongMethod(u)

\* ---- text /mpub: every layout ----
RECURSIVE Layouts(_)
Layouts(L) == {<<n>> : n \in 0..L} \cup
              UNION {{<<n>> \o s : s \in Layouts(L - n - 1)} : n \in 0..(L - 1)}
AlphaText(u) == {[Post("mpub") EXCEPT !.topic = <<T1>>, !.body = Text(s), !.chunked = ch, !.binary = bi] :
                s \in Layouts(TextL), ch \in BOOLEAN, bi \in {<<>>, <<"false">>}}

\* ---- binary /mpub: counts, lengths, truncations ----
Decls == {-1, 0, 1, MaxMsg, MaxMsg + 1, 2147483647}
Items1(u) == {It(d, h) : d \in Decls, h \in 0..MaxMsg}
ItemSeqs(u) == {<<>>} \cup {<<a>> : a \in Items1(u)} \cup {<<a, b>> : a \in Items1(u), b \in Items1(u)}
            \cup {<<a, b, c>> : a \in {It(1, 1), It(MaxMsg, MaxMsg)}, b \in {It(1, 1), It(MaxMsg, MaxMsg)}, c \in Items1(u)}
Counts == {-2147483647, -1, 0, 1, 2, 3, MaxMessages, MaxMessages + 1, 2147483647}
GoodCounts == {n \in Counts : n >= 1 /\ n <= MaxMessages}
AllBins(u) == {Bin(4, n, its, e) : n \in GoodCounts, its \in ItemSeqs(u), e \in {0, 1, 3, 5}}
              \cup {Bin(4, n, its, e) : n \in Counts \ GoodCounts, its \in {<<>>, <<It(1, 1)>>, <<It(MaxMsg, MaxMsg), It(1, 1), It(1, 1)>>}, e \in {0, 3, 5}}
              \cup {Bin(h, 0, <<>>, 0) : h \in 0..3}
AlphaBin(u) == {[Post("mpub") EXCEPT !.topic = <<T1>>, !.body = b, !.chunked = ch, !.binary = <<bi>>] :
               b \in {x \in AllBins(u) : BodyWF(x)}, ch \in BOOLEAN, bi \in {"true", "other"}}

-----------------------------------------------------------------------------
\* ---- prefixes: requests that build the registry states outcomes depend on ----
PCreateT == [Post("topic_create") EXCEPT !.topic = <<T1>>]
PCreateC == [Post("channel_create") EXCEPT !.topic = <<T1>>, !.channel = <<C1>>]
PPauseT  == [Post("topic_pause") EXCEPT !.topic = <<T1>>]
PPauseC  == [Post("channel_pause") EXCEPT !.topic = <<T1>>, !.channel = <<C1>>]
PPub     == [Post("pub") EXCEPT !.topic = <<T1>>, !.body = Text(<<1>>)]
PrefixesArgs == {<<>>, <<PCreateT>>, <<PCreateT, PCreateC, PPub>>, <<PCreateT, PPauseT, PCreateC, PPub>>,
                 <<PCreateT, PCreateC, PPauseC, PPub>>, <<PCreateT, PPub>>}
PrefixesQuick == {<<>>, <<PCreateT, PCreateC, PPub>>, <<PCreateT, PPauseT, PCreateC, PPub>>}
PrefixesNone == {<<>>}
PrefixesOne  == {<<PCreateT, PCreateC>>}


\* zero-arity constant definitions are all evaluated by TLC at start-up, whichever the configuration uses:
\* the alphabets take a dummy parameter and the configuration selects one by name
CONSTANT Alphabet
ReqSet == CASE Alphabet = "seq"  -> AlphaSeq(0)
            [] Alphabet = "args" -> AlphaArgs(0)
            [] Alphabet = "text" -> AlphaText(0)
            [] Alphabet = "bin"  -> AlphaBin(0)
            [] Alphabet = "misc" -> ArgsMisc(0) \cup ArgsWrongMethod(0)

\* bound for the sequence model
Bounded == \A t \in Topics : reg[t].cnt <= MaxCnt
=============================================================================
