----------------------------- MODULE LookupPeers -----------------------------
(***************************************************************************)
(* nsqd/lookup.go lookupLoop: the list of nsqlookupd peers under run-time   *)
(* reconfiguration (PUT /config/nsqlookupd_tcp_addresses).  The loop keeps   *)
(* two parallel lists, the peers and their addresses; on a configuration     *)
(* change it drops the peers that are no longer configured from BOTH, then   *)
(* creates a peer for every configured address that has none.                *)
(*                                                                         *)
(* PruneBoth = FALSE prunes the peer list only: refuted -- an address that   *)
(* was removed and is configured again is taken for connected for ever.      *)
(***************************************************************************)
EXTENDS Integers, Sequences, FiniteSets, TLC
CONSTANTS Addrs, PruneBoth, MaxChanges
VARIABLES opts,      \* the configured addresses
          peers,     \* addresses of the peer objects, in list order
          addrs,     \* the parallel address list the connect step consults
          dirty,     \* a configuration change has not been applied yet
          changes
vars == <<opts, peers, addrs, dirty, changes>>
Range(s) == {s[i] : i \in DOMAIN s}
Filter(s, S) == SelectSeq(s, LAMBDA x : x \in S)

Init == opts = {} /\ peers = <<>> /\ addrs = <<>> /\ dirty = FALSE /\ changes = 0
Configure(S) == /\ changes < MaxChanges /\ S # opts /\ opts' = S /\ dirty' = TRUE /\ changes' = changes + 1
                /\ UNCHANGED <<peers, addrs>>
\* case <-n.optsNotificationChan, followed by the connect block at the top of the loop
Apply == /\ dirty
         /\ LET p1 == Filter(peers, opts)
                a1 == IF PruneBoth THEN Filter(addrs, opts) ELSE addrs
                new == {h \in opts : h \notin Range(a1)}
                RECURSIVE Add(_, _)
                Add(s, S) == IF S = {} THEN s ELSE LET x == CHOOSE y \in S : TRUE IN Add(Append(s, x), S \ {x})
            IN peers' = Add(p1, new) /\ addrs' = Add(a1, new)
         /\ dirty' = FALSE /\ UNCHANGED <<opts, changes>>
Next == (\E S \in SUBSET Addrs : Configure(S)) \/ Apply
Spec == Init /\ [][Next]_vars

\* once a change has been applied there is exactly one peer per configured address
PeersAreTheConfigured == ~dirty => (Range(peers) = opts /\ Len(peers) = Cardinality(opts))
=============================================================================
