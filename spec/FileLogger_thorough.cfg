\* thorough: two messages, every option combination, pre-existing and foreign names, SIGHUP, rollover
SPECIFICATION Spec
CONSTANTS
  Msgs = {1, 2}
  MaxInFlight = 2
  MaxNow = 2
  DatePeriod = 2
  MaxRev = 3
  MaxHups = 1
  MaxRestarts = 0
  MaxPower = 1
  PreNames <- PreNamesMC
  PreSize = 2
  ForeignNames <- ForeignQ
  MaxForeign = 0
  GzipAppendOnRestart = FALSE
  OptSet <- AllOpts
CONSTRAINT RevBound
INVARIANTS TypeOK DurSane FinOnlyAfterDurable NothingOwedIsMissing FinqIsDurable Custody SyncOnOpenFile
PROPERTIES NeverOverwrite
CHECK_DEADLOCK FALSE
