package main

import (
	"encoding/json"
	"fmt"
	"net"
	"net/http"
	"net/url"
	"regexp"
	"strings"
	"sync"
	"time"
)

// Query is one request received by the stub auth server.
type Query struct {
	At     time.Time
	Step   int // step index armed by the behaviour when the query arrived
	Method string
	IP     string
	TLS    string
	Secret string
	CN     string
	Ans    Answer // what was answered
	Armed  bool   // false: nsqd asked although the behaviour had no answer armed (still answered: error)
}

type script struct {
	mu      sync.Mutex
	step    int
	ans     Answer
	armed   bool
	prefix  string // concretisation of topic/channel names
	variant int
	queries []Query
}

// Stub is the adversarial auth server: per connection (identified by the AUTH secret it sent) it gives
// exactly the answer armed for the current step and records every query.
type Stub struct {
	mu            sync.Mutex
	scripts       map[string]*script
	srv           *http.Server
	ln            net.Listener
	Unknown       int // queries with a secret nobody registered
	UnknownOurs   int
	UnknownSample []string
}

var reOurs = regexp.MustCompile(`^b\d{6}a\d+$`)

func NewStub() (*Stub, error) {
	ln, err := net.Listen("tcp", "127.0.0.1:0")
	if err != nil {
		return nil, err
	}
	s := &Stub{scripts: map[string]*script{}, ln: ln}
	s.srv = &http.Server{Handler: http.HandlerFunc(s.handle)}
	go s.srv.Serve(ln)
	return s, nil
}

func (s *Stub) Addr() string { return s.ln.Addr().String() }
func (s *Stub) Close()       { s.srv.Close() }

func (s *Stub) Register(secret, prefix string, variant int) *script {
	sc := &script{prefix: prefix, variant: variant}
	s.mu.Lock()
	s.scripts[secret] = sc
	s.mu.Unlock()
	return sc
}

func (s *Stub) Unregister(secret string) {
	s.mu.Lock()
	delete(s.scripts, secret)
	s.mu.Unlock()
}

func (sc *script) Arm(step int, a Answer) {
	sc.mu.Lock()
	sc.step, sc.ans, sc.armed = step, a, a.Kind != "none"
	sc.mu.Unlock()
}

func (sc *script) Queries() []Query {
	sc.mu.Lock()
	defer sc.mu.Unlock()
	return append([]Query(nil), sc.queries...)
}

// pattern concretises an abstract topic/channel pattern as a regular expression over the behaviour's
// real names.  internal/auth matches with regexp.MatchString (search, not full match); the variants are
// all equivalent on the names a behaviour uses (fixed-width prefix: no name is a substring of another).
func pattern(prefix, p string, variant int) string {
	if p == "any" {
		return []string{".*", "^.*$", ".+|^$", ""}[variant%4]
	}
	name := prefix + "_" + p
	switch variant % 5 {
	case 1:
		return name
	case 2:
		return "^" + name
	case 3:
		return name + "$"
	case 4:
		return "^(" + name + ")$"
	}
	return "^" + name + "$"
}

func concretise(a Answer, prefix string, variant int) map[string]interface{} {
	auths := []map[string]interface{}{}
	for _, z := range a.Auths {
		chans := []string{}
		if z.Ch != "none" {
			chans = append(chans, pattern(prefix, z.Ch, variant))
		}
		perms := z.Perms
		if perms == nil {
			perms = []string{}
		}
		// "nothing" has three spellings in JSON: an empty list, null, and no key at all (what a server written in Go with
		// omitempty sends); each answer stands alone, so all three say the same
		au := map[string]interface{}{"topic": pattern(prefix, z.Tp, variant)}
		empty := func(key string, n int, v interface{}) {
			switch {
			case n > 0 || (variant/2)%3 == 0:
				au[key] = v
			case (variant/2)%3 == 1:
				au[key] = nil
			}
		}
		empty("channels", len(chans), chans)
		empty("permissions", len(perms), perms)
		auths = append(auths, au)
	}
	ans := map[string]interface{}{"ttl": a.TTL, "identity": "id-" + prefix, "identity_url": "http://example.invalid/" + prefix}
	switch {
	case len(auths) > 0 || (variant/3)%3 == 0:
		ans["authorizations"] = auths
	case (variant/3)%3 == 1:
		ans["authorizations"] = nil
	}
	return ans
}

func (s *Stub) handle(w http.ResponseWriter, r *http.Request) {
	at := time.Now()
	var v url.Values
	if r.Method == "POST" {
		v = url.Values{}
		json.NewDecoder(r.Body).Decode(&v)
	} else {
		r.ParseForm()
		v = r.Form
	}
	secret := v.Get("secret")
	s.mu.Lock()
	sc := s.scripts[secret]
	if sc == nil {
		s.Unknown++
		if reOurs.MatchString(secret) {
			s.UnknownOurs++
		}
		if len(s.UnknownSample) < 3 {
			s.UnknownSample = append(s.UnknownSample, fmt.Sprintf("%s %s secret=%q", r.Method, r.RequestURI, secret))
		}
	}
	s.mu.Unlock()
	w.Header().Set("Connection", "close")
	if sc == nil {
		http.Error(w, "unknown secret", 500)
		return
	}
	sc.mu.Lock()
	q := Query{At: at, Step: sc.step, Method: strings.ToLower(r.Method), IP: v.Get("remote_ip"), TLS: v.Get("tls"),
		Secret: secret, CN: v.Get("common_name"), Ans: sc.ans, Armed: sc.armed}
	if !sc.armed {
		q.Ans = Answer{Kind: "err", Auths: []Authz{}}
	}
	sc.armed = false // one answer per step; a second query in the same step is unexpected
	nth := len(sc.queries)
	sc.queries = append(sc.queries, q)
	prefix, variant := sc.prefix, sc.variant
	sc.mu.Unlock()

	if q.Ans.Kind != "ok" {
		// the error classes of internal/auth QueryAuthd: transport error, HTTP status, undecodable body,
		// unknown permission, uncompilable pattern, non-positive TTL
		switch (variant + nth) % 8 {
		case 0:
			http.Error(w, "boom", 500)
		case 1:
			http.Error(w, "nope", 404)
		case 2:
			fmt.Fprint(w, `{"ttl": 60, "authorizations": [`)
		case 3:
			fmt.Fprintf(w, `{"ttl":60,"authorizations":[{"topic":".*","channels":[".*"],"permissions":["publish","admin"]}]}`)
		case 4:
			fmt.Fprintf(w, `{"ttl":60,"authorizations":[{"topic":"(","channels":[".*"],"permissions":["publish","subscribe"]}]}`)
		case 5:
			fmt.Fprintf(w, `{"ttl":0,"authorizations":[{"topic":".*","channels":[".*"],"permissions":["publish","subscribe"]}]}`)
		case 6:
			fmt.Fprintf(w, `{"ttl":-5,"authorizations":[{"topic":".*","channels":[".*"],"permissions":["publish","subscribe"]}]}`)
		case 7:
			if hj, ok := w.(http.Hijacker); ok {
				if c, _, err := hj.Hijack(); err == nil {
					c.Close()
					return
				}
			}
			http.Error(w, "boom", 502)
		}
		return
	}
	json.NewEncoder(w).Encode(concretise(q.Ans, prefix, variant))
}
