\* replay family tls (thorough): depth 4
SPECIFICATION Spec
CONSTANTS
  Policies <- NoAuthPolicies
  Cmds <- TlsCmds
  AnswersA <- SmallAnswers
  AnswersR <- SmallAnswers
  Waits = {0}
  MaxDepth = 4
  MaxNow = 0
  HttpReqs <- NoHttp
INVARIANTS TypeOK PropertyLevel PlainHttpServed RefetchIffExpired QueryCountLaw CodeStricter NeverOnExpiry EmitBehaviour
CHECK_DEADLOCK FALSE
