"""Binding A': NsqdCore (implementation-shaped: map / heap / counter in separate steps) enumerates every
interleaving of the critical sections of two operations; the gated replayer forces each schedule on the real
daemon (child processes: a panic is an observation) and the outcome is judged by the property predicates."""
import itertools
import json
import os
import subprocess

from vlib import Inconclusive, log

OPS = ["FIN", "FIN2", "REQ0", "TOUCH", "SCAN", "DELIVER", "EMPTY"]
EXIT_PARTNERS = ["FIN", "REQ0", "TOUCH", "SCAN", "DELIVER", "EMPTY"]   # pairs (X, EXIT): graceful shutdown at every point of X
SAME_GOROUTINE = {"FIN", "REQ0", "TOUCH"}          # all issued by connection k1: its IOLoop serialises them

# which property a bad outcome of a pair speaks for
def classes(opA, opB, kind):
    admin = "EMPTY" in (opA, opB)
    if kind == "crash":
        return {"C08"} if admin else {"C02", "C08"}
    if kind == "counter":
        return {"C03", "C13", "C08"} if admin else {"C03", "C13"}
    if kind == "nodeadline":
        return {"C01", "C08"} if admin else {"C01", "C02"}
    if kind == "lost":
        return {"C05"}
    if kind == "resurrected":
        return {"C05"}
    if kind == "blocked":
        return {"C08", "C05"} if "EXIT" in (opA, opB) else {"C08"}
    return {"C02"}


def all_pairs():
    ps = []
    for a, b in itertools.combinations(OPS, 2):
        if a in SAME_GOROUTINE and b in SAME_GOROUTINE:
            continue
        ps.append((a, b))
    ps.append(("SCAN", "SCAN"))
    return ps


def enumerate_schedules(ctx, pairs):
    cases = []
    for a, b in pairs:
        cfg = "NsqdCore_%s_%s.cfg" % (a, b)
        with open(os.path.join(ctx.specdir, cfg), "w") as f:
            f.write('SPECIFICATION Spec\nCONSTANTS\n  OpA = "%s"\n  OpB = "%s"\n  Guarded = TRUE\n  PerMessage = TRUE\n  ExitGuard = TRUE\nCONSTRAINT Emit\nCHECK_DEADLOCK FALSE\n' % (a, b))
        r = ctx.tlc("NsqdCore", cfg, workers=1, timeout=300, label="pairs %s|%s" % (a, b))
        if r.crashed:
            raise Inconclusive("NsqdCore failed for %s|%s:\n%s" % (a, b, r.out[-2000:]))
        ctx.cov["states"] += r.distinct
        ctx.cov["transitions"] += r.generated
        n = 0
        for t in r.prints("SCHED"):
            v = [x.strip('"') for x in t]
            # opA opB sched... crashed nifm nq cnt1 cnt2 nheap fin disk1 disk2
            tail = v[-9:]
            sched = v[2:-9]
            n += 1
            if b == "EXIT" and (sched[0] != "A" or a in ("FIN", "REQ0", "TOUCH") and False):
                continue      # the shutdown closes the client connections first: X must have started before it
            cases.append({"opA": v[0], "opB": v[1], "sched": sched, "crashed": tail[0] == "TRUE", "nifm": int(tail[1]),
                          "nq": int(tail[2]), "cnt1": int(tail[3]), "cnt2": int(tail[4]), "nheap": int(tail[5]),
                          "fin_m1": tail[6] == "TRUE", "disk_m1": tail[7] == "TRUE", "disk_m2": tail[8] == "TRUE"})
        if n == 0:
            raise Inconclusive("no schedule printed for %s|%s" % (a, b))
    return cases


def replay(ctx, cases, procs=8):
    """Replays the cases in child processes; returns list of observations (dict) incl. crashes."""
    h = ctx.harness("core")
    chunks = [cases[i::procs] for i in range(procs)]
    jobs = []
    for i, ch in enumerate(chunks):
        if not ch:
            continue
        d = os.path.join(ctx.scratch, "pairs-%d" % i)
        os.makedirs(d, exist_ok=True)
        cf = os.path.join(d, "cases.json")
        json.dump(ch, open(cf, "w"))
        jobs.append({"dir": d, "cases": ch, "cf": cf, "from": 0, "obs": os.path.join(d, "obs.ndjson"),
                     "prog": os.path.join(d, "progress.txt"), "crashes": {}})
    obs = []
    active = list(jobs)
    while active:
        procs_ = []
        for j in active:
            p = subprocess.Popen([h, "pairs", "--cases", j["cf"], "--out", j["obs"], "--progress", j["prog"],
                                  "--from", str(j["from"]), "--dir", j["dir"]], cwd=ctx.scratch, env=ctx.goenv(),
                                 stdout=subprocess.PIPE, stderr=subprocess.PIPE, text=True)
            procs_.append((j, p))
        nxt = []
        for j, p in procs_:
            try:
                out, err = p.communicate(timeout=1200)
            except subprocess.TimeoutExpired:
                p.kill()
                raise Inconclusive("pair replayer timed out")
            if p.returncode != 0:
                # the daemon (in-process) died: attribute to the case in progress, continue after it
                try:
                    idx = int(open(j["prog"]).read().strip())
                except Exception:
                    raise Inconclusive("pair replayer died without progress file:\n" + err[-2000:])
                if idx >= len(j["cases"]):
                    continue
                panic = "panic" in err or "fatal error" in err
                j["crashes"][idx] = err[-1800:] if panic else "exit %d: %s" % (p.returncode, err[-800:])
                if not panic:
                    raise Inconclusive("pair replayer failed (not a panic):\n" + err[-2000:])
                j["from"] = idx + 1
                if j["from"] < len(j["cases"]):
                    nxt.append(j)
        active = nxt
    for j in jobs:
        seen = []
        if os.path.exists(j["obs"]):
            for line in open(j["obs"]):
                seen.append(json.loads(line))
        for o in seen:
            o["real_crashed"] = False
            obs.append(o)
        for idx, tb in j["crashes"].items():
            obs.append({"case": j["cases"][idx], "real_crashed": True, "traceback": tb, "done": False})
    return obs


def judge(ctx, prop, obs):
    """Property verdicts from the REAL outcomes; disagreement with TLC's prediction that breaks no predicate is drift."""
    n_viol = 0
    kinds = {}
    ndrift0 = len(ctx.notes.get("shape_drift", []))
    for o in obs:
        c = o["case"]
        pair = "%s|%s" % (c["opA"], c["opB"])
        sched = "".join(c["sched"])
        bad = []
        if o.get("inconclusive"):
            ctx.notes.setdefault("pair_inconclusive", []).append(pair + ":" + o["inconclusive"])
            continue
        if o["real_crashed"]:
            bad.append(("crash", "the daemon panicked: " + o["traceback"].strip().splitlines()[0][:200] + " ... " +
                        " | ".join(l.strip() for l in o["traceback"].splitlines() if "nsqd/" in l)[:400]))
        elif "EXIT" in (c["opA"], c["opB"]):
            if o.get("blocked"):
                bad.append(("blocked", o["blocked"]))
            elif o.get("restarted"):
                # C05: acknowledged and not finished when shutdown was requested => delivered again after restart
                if "EMPTY" in (c["opA"], c["opB"]):
                    pass          # an Empty in progress may legitimately discard either message
                elif not o["fin_m1"] and not o["back_m1"]:
                    bad.append(("lost", "m1 (in flight to k1, not finished) did not come back after graceful shutdown + restart"))
                if not o["back_m2"] and "EMPTY" not in (c["opA"], c["opB"]):
                    bad.append(("lost", "m2 (queued, never finished) did not come back after graceful shutdown + restart"))
        else:
            if o.get("blocked"):
                bad.append(("blocked", o["blocked"]))
            # in-flight map size == sum of the connections' counters (C03/C13), none negative
            if o["cnt1"] < 0 or o["cnt2"] < 0 or o["cnt1"] + o["cnt2"] != o["nifm"]:
                bad.append(("counter", "connection in-flight counters k1=%d k2=%d but %d message(s) in flight"
                            % (o["cnt1"], o["cnt2"], o["nifm"])))
            # (a heap entry without map entry is harmless: the scan drops it when it comes due)
            if o["nifm"] > o["nheap"] or o["inflight_after_forced_timeouts"] != 0:
                bad.append(("nodeadline", "in-flight map has %d entries, deadline heap %d; %d still in flight after "
                            "every deadline was forced to expire" % (o["nifm"], o["nheap"], o["inflight_after_forced_timeouts"])))
        for kind, text in bad:
            cls = classes(c["opA"], c["opB"], kind)
            kinds[(pair, kind)] = kinds.get((pair, kind), 0) + 1
            if prop in cls:
                n_viol += 1
                ctx.violation("operations %s under schedule %s (forced through the yield points): %s" % (pair, sched, text),
                              ctx.save_replay("pair-%s-%s-%s" % (c["opA"], c["opB"], kind), o), key="pair:%s:%s" % (pair, kind))
        # conformance with the implementation-shaped model
        if not bad or True:
            pred_bad = c["crashed"]
            if o["real_crashed"] != pred_bad:
                ctx.drift("pair %s schedule %s: NsqdCore predicts crashed=%s, real daemon crashed=%s" % (pair, sched, pred_bad, o["real_crashed"]))
            elif not o["real_crashed"] and not o.get("blocked") and "EXIT" in (c["opA"], c["opB"]):
                if o.get("restarted"):
                    real = (o["fin_m1"], o["back_m1"], o["back_m2"])
                    pred = (c["fin_m1"], c["disk_m1"], c["disk_m2"])
                    if real != pred:
                        ctx.drift("pair %s schedule %s: NsqdCore predicts (fin m1, m1 back, m2 back)=%s, real daemon %s" % (pair, sched, pred, real))
            elif not o["real_crashed"] and not o.get("blocked"):
                real = (o["nifm"], o["nq"], o["cnt1"], o["cnt2"], o["nheap"], o["fin_m1"])
                pred = (c["nifm"], c["nq"], c["cnt1"], c["cnt2"], c["nheap"], c["fin_m1"])
                if "DELIVER" in (c["opA"], c["opB"]):
                    # k2 keeps RDY 1 after the modelled delivery and may take one more message from the queue
                    # before the outcome is read: compare what that cannot change
                    real = (o["nifm"] + o["nq"], o["cnt1"], o["fin_m1"])
                    pred = (c["nifm"] + c["nq"], c["cnt1"], c["fin_m1"])
                if real != pred:
                    ctx.drift("pair %s schedule %s: NsqdCore predicts (ifm,q,cnt1,cnt2,heap,fin)=%s, real daemon %s" % (pair, sched, pred, real))
    # a forced schedule whose real outcome equals NsqdCore's prediction is a TLC behaviour validated on the code
    matched = len([o for o in obs if not o.get("inconclusive")]) - (len(ctx.notes.get("shape_drift", [])) - ndrift0)
    ctx.cov["traces_validated_against_impl"] += max(0, matched)
    ctx.notes["pair_outcomes"] = {"%s:%s" % k: v for k, v in kinds.items()}
    return n_viol


def run_pairs(ctx, prop, pairs=None, sample=None):
    pairs = pairs or all_pairs()
    cases = enumerate_schedules(ctx, pairs)
    if sample and len(cases) > sample:
        import random
        rng = random.Random(ctx.seed)
        # always keep the schedules TLC marks as breaking an invariant of NsqdCore, sample the rest
        keep = [c for c in cases if c["crashed"] or c["cnt1"] < 0 or c["cnt2"] < 0 or c["cnt1"] + c["cnt2"] != c["nifm"] or c["nifm"] != c["nheap"]]
        rest = [c for c in cases if c not in keep]
        rng.shuffle(rest)
        cases = keep + rest[:max(0, sample - len(keep))]
    obs = replay(ctx, cases)
    judge(ctx, prop, obs)
    ctx.cov["evaluations"] += len(obs)
    ctx.notes["pair_schedules_replayed"] = len(obs)
    ctx.notes["pairs"] = ["%s|%s" % p for p in pairs]
    for o in obs[:2]:
        ctx.sample({"pair_replay": o})
    log("pairs: %d schedules of %d operation pairs replayed on the real daemon" % (len(obs), len(pairs)))
    return obs
