\* thorough exhaustive check: as _mc with the full 77-answer domain for re-fetches too and waits of 0..3 ticks (5,291,564 distinct states, ~2 min idle)
SPECIFICATION Spec
CONSTANTS
  Policies <- AllPolicies
  Cmds <- AllCmds
  AnswersA <- FullAnswers
  AnswersR <- FullAnswers
  Waits = {0, 1, 2, 3}
  MaxDepth = 3
  MaxNow = 18
  HttpReqs <- AllHttp
VIEW View
INVARIANTS TypeOK PropertyLevel PlainHttpServed RefetchIffExpired CodeStricter NeverOnExpiry
PROPERTIES PolicyFixed
CHECK_DEADLOCK FALSE
