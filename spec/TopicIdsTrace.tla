---------------------------- MODULE TopicIdsTrace ----------------------------
(***************************************************************************)
(* Property-level trace validation for C12 on the publish paths: Begin/End  *)
(* events recorded by concurrent publishers of a REAL nsqd (Begin just      *)
(* before the request is written, End after the OK/200 was read, both into  *)
(* one sequence under one mutex) with the ids the consumer saw for the      *)
(* command's messages, in message order.  Ids are <<ts, node, seq>> triples *)
(* (ts relative to the run's first tick), ordered lexicographically, which  *)
(* is the order of the 64-bit ids.  Every End must pass TopicIds!EndOK      *)
(* (BatchIncreasing, RealTimeOrder via floor/done, Unique); TLC checks on   *)
(* the bounded TopicIds model that every End of the model does.  One trace  *)
(* (between Reset events) = one topic of one daemon lifetime.               *)
(***************************************************************************)
EXTENDS Integers, Sequences, Json, TLC

Trace == ndJsonDeserialize("trace.ndjson")

TZero == <<0, 0, 0>>
TLess(a, b) == \/ a[1] < b[1]
               \/ a[1] = b[1] /\ a[2] < b[2]
               \/ a[1] = b[1] /\ a[2] = b[2] /\ a[3] < b[3]

VARIABLES floor,   \* open command -> value of done when it began
          done,    \* greatest id of any completed command
          seen,    \* ids of completed commands that can still matter (TopicIds!live: pruned, see TopicIds!Prune)
          l
tvars == <<floor, done, seen, l>>

\* only the state-independent operators of TopicIds are used (EndOK, NextDoneInc, Least, Prune)
T == INSTANCE TopicIds WITH Pubs <- {}, Ids <- {}, Zero <- TZero, Less <- TLess, MaxBatch <- 0, MaxCmds <- 0,
                            Reuse <- FALSE, live <- {}, used <- {}, pc <- <<>>, cmd <- <<>>, want <- <<>>, got <- <<>>,
                            ncmd <- 0, slots <- {}, ended <- {}, before <- {}

NoFloor == [c \in {} |-> TZero]

TraceInit == floor = NoFloor /\ done = TZero /\ seen = {} /\ l = 1 /\ TLCSet(1, 1) /\ TLCSet(2, <<NoFloor, TZero, {}>>)
IsEvent(e) == l <= Len(Trace) /\ Trace[l].ev = e /\ l' = l + 1

TReset == IsEvent("Reset") /\ floor' = NoFloor /\ done' = TZero /\ seen' = {}
TBegin == /\ IsEvent("Begin")
          /\ LET c == Trace[l].c IN
               /\ c \notin DOMAIN floor
               /\ floor' = [x \in DOMAIN floor \cup {c} |-> IF x = c THEN done ELSE floor[x]]
          /\ UNCHANGED <<done, seen>>
TEnd == /\ IsEvent("End")
        /\ LET c == Trace[l].c
               ids == Trace[l].ids IN
             /\ c \in DOMAIN floor
             /\ Len(ids) > 0
             /\ T!EndOK(floor[c], seen, ids)
             /\ done' = T!NextDoneInc(done, ids)
             /\ floor' = [x \in DOMAIN floor \ {c} |-> floor[x]]
             /\ LET open == DOMAIN floor \ {c}
                    m == IF open = {} THEN T!NextDoneInc(done, ids) ELSE T!Least({floor[x] : x \in open})
                IN seen' = T!Prune(seen, ids, m)

TraceNext == TReset \/ TBegin \/ TEnd
TraceSpec == TraceInit /\ [][TraceNext]_tvars

HW == IF l > TLCGet(1) THEN TLCSet(1, l) /\ TLCSet(2, <<floor, done, seen>>) ELSE TRUE

\* diagnosis of the first event that could not be taken (state at that point is in register 2)
Why(e, st) ==
  IF e.ev # "End" THEN <<e.ev, e.c, "event not enabled">>
  ELSE LET fl == IF e.c \in DOMAIN st[1] THEN st[1][e.c] ELSE TZero
           ids == e.ids
           notInc == {i \in 1..(Len(ids) - 1) : ~TLess(ids[i], ids[i + 1])}
           below == {i \in 1..Len(ids) : ~TLess(fl, ids[i])}
           dup == {i \in 1..Len(ids) : ids[i] \in st[3]}
           First(S) == CHOOSE i \in S : \A j \in S : i <= j
       IN <<"End", e.c, "ids", Len(ids), "floor", fl, "done", st[2],
            "BatchIncreasing", IF notInc = {} THEN "ok" ELSE <<"position", First(notInc), ids[First(notInc)], ids[First(notInc) + 1]>>,
            "RealTimeOrder", IF below = {} THEN "ok" ELSE <<"position", First(below), ids[First(below)]>>,
            "Unique", IF dup = {} THEN "ok" ELSE <<"position", First(dup), ids[First(dup)]>>>>
TraceAccepted ==
  LET hw == TLCGet(1) IN
  IF hw = Len(Trace) + 1 THEN PrintT(<<"TRACE_OK", Len(Trace)>>)
  ELSE PrintT(<<"TRACE_REJECTED", hw, Why(Trace[hw], TLCGet(2))>>) /\ FALSE
=============================================================================
