----------------------------- MODULE NsqdHttpBeh -----------------------------
(***************************************************************************)
(* Binding A for C10: the NsqdHttp state machine with a history variable.   *)
(* Every maximal behaviour (a prefix that builds a registry state, then      *)
(* Depth requests of the alphabet) is printed as one JSON line "BEH {...}"   *)
(* with, per step, the request, the exact expected status / message /        *)
(* enqueued slices, the set of statuses the property allows, the expected    *)
(* /stats projection afterwards, and whether a TCP twin exists.  The Go      *)
(* harness replays each behaviour against a real nsqd.                       *)
(***************************************************************************)
EXTENDS NsqdHttpMC, Json

CONSTANTS Depth,        \* number of alphabet requests per printed behaviour
          Prefixes      \* set of request sequences run first

-----------------------------------------------------------------------------
\* ---- history-carrying machine ----
VARIABLES hist, k
hvars == <<reg, last, hist, k>>

StepRec(req, h) == [req |-> req, status |-> h.status, msg |-> h.msg, enq |-> h.enq, post |-> Obs(h.reg),
                    twin |-> req.route \in {"pub", "mpub"} /\ HasTwin(req),
                    allowed |-> AllowedStatus(req, reg)]

RECURSIVE RunPrefix(_, _, _, _)
RunPrefix(p, i, r, acc) ==
  IF i > Len(p) THEN [reg |-> r, hist |-> acc]
  ELSE LET h == Handle(p[i], r) IN
       RunPrefix(p, i + 1, h.reg, Append(acc, [req |-> p[i], status |-> h.status, msg |-> h.msg, enq |-> h.enq,
                                               post |-> Obs(h.reg), twin |-> FALSE, allowed |-> AllowedStatus(p[i], r)]))

HInit == \E p \in Prefixes : LET z == RunPrefix(p, 1, EmptyReg, <<>>) IN
           /\ reg = z.reg /\ hist = z.hist /\ k = 0
           /\ last = [req |-> NoReq, status |-> 0, msg |-> "", enq |-> <<>>]
HNext == /\ k < Depth
         /\ \E req \in Requests :
              /\ Do(req)
              /\ hist' = Append(hist, StepRec(req, Handle(req, reg)))
              /\ k' = k + 1
HSpec == HInit /\ [][HNext]_hvars

\* printed once per maximal behaviour (every request is always enabled, so every behaviour reaches Depth)
Emit == (k = Depth) => PrintT("BEH " \o ToJson([pre |-> [i \in 1..(Len(hist) - Depth) |-> hist[i].req],
                                                  prepost |-> IF Len(hist) > Depth THEN hist[Len(hist) - Depth].post ELSE Obs(EmptyReg),
                                                  steps |-> SubSeq(hist, Len(hist) - Depth + 1, Len(hist))]))
=============================================================================
