\* replay family http: every policy x {plaintext, TLS} port x certificate kind x {GET /ping, POST /pub}
SPECIFICATION Spec
CONSTANTS
  Policies <- AllPolicies
  Cmds <- NoCmds
  AnswersA <- SmallAnswers
  AnswersR <- SmallAnswers
  Waits = {0}
  MaxDepth = 1
  MaxNow = 0
  HttpReqs <- AllHttp
INVARIANTS TypeOK PropertyLevel PlainHttpServed RefetchIffExpired QueryCountLaw CodeStricter NeverOnExpiry EmitBehaviour
CHECK_DEADLOCK FALSE
