SPECIFICATION HSpec
CONSTANTS
  Topics = {"t1"}
  Channels = {"c1"}
  MaxMsg = 2
  MaxBody = 14
  Deviations = {"binary_unbounded"}
  MaxCnt = 9
  TextL = 8
  Depth = 1
  Requests <- ReqSet
  Alphabet = "bin"
  Prefixes <- PrefixesOne
INVARIANTS TypeOK Pumped Never500OnCompleteRequest
PROPERTIES StepHttpPubEqTcpPub
CHECK_DEADLOCK FALSE
