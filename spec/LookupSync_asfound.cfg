SPECIFICATION Spec
CONSTANTS
  Lookupds = {"l1"}
  MaxOps = 4
  MaxFaults = 1
  K = 2
  ByName = FALSE
  SkipPingWhenBusy = FALSE
  KeyByIdentity = FALSE
INVARIANT Converges
INVARIANT Refreshed
CHECK_DEADLOCK FALSE
