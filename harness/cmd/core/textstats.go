package main

import (
	"regexp"
	"strings"
)

var reTopic = regexp.MustCompile(`^(\*P|  ) \[(\S+)\s*\] depth: (\d+)\s+be-depth: (\d+)\s+msgs: (\d+)`)
var reChan = regexp.MustCompile(`^   (\*P|  ) \[(\S+)\s*\] depth: (\d+)\s+be-depth: (\d+)\s+inflt: (-?\d+)\s+def: (-?\d+)\s+re-q: (\d+)\s+timeout: (\d+)\s+msgs: (\d+)`)
var reClient = regexp.MustCompile(`^        \[V2 \S+ \S*\s*\] state: (\d+) inflt: (-?\d+)\s+rdy: (-?\d+)\s+fin: (\d+)\s+re-q: (\d+)\s+msgs: (\d+)`)

// checkTextStats compares the text rendering of /stats with the JSON one, number by number.
func checkTextStats(r *Run, s *Stats, text string) {
	topics := map[string]TopicStat{}
	for _, t := range s.Topics {
		topics[t.Name] = t
	}
	seenT, seenC := 0, 0
	var curT *TopicStat
	for _, line := range strings.Split(text, "\n") {
		if m := reChan.FindStringSubmatch(line); m != nil && curT != nil {
			var cs *ChannelStat
			for i := range curT.Channels {
				if curT.Channels[i].Name == m[2] {
					cs = &curT.Channels[i]
				}
			}
			if cs == nil {
				r.failf("[C13] text /stats lists channel %s/%s that the JSON form does not", curT.Name, m[2])
				continue
			}
			seenC++
			if atoi(m[3]) != cs.Depth || atoi(m[5]) != cs.InFlightCount || atoi(m[6]) != cs.DeferredCount ||
				atoi(m[7]) != cs.RequeueCount || atoi(m[8]) != cs.TimeoutCount || atoi(m[9]) != cs.MessageCount || (m[1] == "*P") != cs.Paused {
				r.failf("[C13] text /stats for %s/%s disagrees with JSON: %q vs %s", curT.Name, cs.Name, strings.TrimSpace(line), summarizeC(*cs))
			}
			continue
		}
		if m := reTopic.FindStringSubmatch(line); m != nil {
			t, ok := topics[m[2]]
			if !ok {
				r.failf("[C13] text /stats lists topic %s that the JSON form does not", m[2])
				curT = nil
				continue
			}
			seenT++
			curT = &t
			if atoi(m[3]) != t.Depth || atoi(m[5]) != t.MessageCount || (m[1] == "*P") != t.Paused {
				r.failf("[C13] text /stats for topic %s disagrees with JSON: %q vs %s", t.Name, strings.TrimSpace(line), summarize(t))
			}
		}
	}
	nC := 0
	for _, t := range s.Topics {
		nC += len(t.Channels)
	}
	if seenT != len(s.Topics) || seenC != nC {
		r.failf("[C13] text /stats shows %d topics / %d channels, JSON %d / %d", seenT, seenC, len(s.Topics), nC)
	}
}
