\* named deviation: negative IDENTIFY body size panics the process (lead for the replay, not a verdict).
\* (the table-level ErrorsAreRefusals is false for that row too; left out so that TLC names the dynamic property)
SPECIFICATION Spec
CONSTANTS
  AsImplemented = {"negSizeCrash"}
  MaxOwn = 2
CONSTRAINT Bounded
INVARIANTS TypeOK Total SizesRefused ClosedLeavesNothing StillServing
PROPERTIES OthersUntouched
CHECK_DEADLOCK FALSE
