package main

// C15 binding B: seeded mutated byte streams (TCP) and generated requests (HTTP) against the real nsqlookupd.
// Oracle: daemon alive, still answering, bystander intact, nothing of the hostile connection left after its close,
// and the observed answer sequence equals the one the TABLE (printed by TLC) predicts for the class sequence that a
// trusted reference classifier assigns to the byte stream.  The class sequences + observations are written as ndjson
// and validated by TLC against LookupdInputTrace.tla.

import (
	"bytes"
	"encoding/binary"
	"encoding/json"
	"flag"
	"fmt"
	"math/rand"
	"net"
	"os"
	"regexp"
	"strings"
	"time"

	"github.com/nsqio/nsq/verifharness/hlib"
)

func init() {
	subcmds["c15-mutate"] = c15Mutate
}

type c15Step struct {
	St  string
	K   c15TcpRow // class fields only
	Row c15TcpRow // table row
	Big int64     // IDENTIFY size field when large
}

var c15NameRe = regexp.MustCompile(`^[.a-zA-Z0-9_-]+(#ephemeral)?$`)

func c15NameClass(s, role string) string {
	if (role == "topic" && (s == c15ByTopic || s == c15ByEphTopic)) || (role == "chan" && (s == c15ByChan || s == c15ByEphChan)) {
		return "bystander"
	}
	if len(s) >= 1 && len(s) <= 64 && c15NameRe.MatchString(s) {
		switch {
		case len(s) == 64:
			return "len64"
		case strings.HasSuffix(s, "#ephemeral"):
			return "validEph"
		}
		return "valid"
	}
	switch {
	case s == "":
		return "empty"
	case s == "*":
		return "wildcard"
	case s == "#ephemeral":
		return "ephAlone"
	case strings.Contains(s, "#"):
		return "badSuffix"
	case len(s) > 64 && c15NameRe.MatchString(s):
		return "long65"
	}
	return "badChar"
}

func c15BodyClass(b []byte) string {
	var p struct {
		RemoteAddress    string `json:"remote_address"`
		Hostname         string `json:"hostname"`
		BroadcastAddress string `json:"broadcast_address"`
		TCPPort          int    `json:"tcp_port"`
		HTTPPort         int    `json:"http_port"`
		Version          string `json:"version"`
		TopologyZone     string `json:"topology_zone"`
		TopologyRegion   string `json:"topology_region"`
	}
	if err := json.Unmarshal(b, &p); err != nil {
		if !json.Valid(b) {
			return "notJSON"
		}
		if t := bytes.TrimSpace(b); len(t) > 0 && t[0] != '{' {
			return "nonObject"
		}
		return "wrongTypes"
	}
	switch {
	case p.BroadcastAddress == "":
		return "missBA"
	case p.TCPPort == 0:
		return "missTCP"
	case p.HTTPPort == 0:
		return "missHTTP"
	case p.Version == "":
		return "missVer"
	}
	return "allPresent"
}

type c15Table map[string]c15TcpRow

func c15ClassKey(st string, k c15TcpRow) string {
	return fmt.Sprintf("%s|%s|%s|%s|%v|%s|%s", st, k.Cmd, k.T, k.C, k.X, k.Sz, k.Body)
}

// c15Classify: what lookup_protocol_v1.go / tcp.go make of the byte stream (followed by EOF), as table classes
func c15Classify(tab c15Table, stream []byte) ([]c15Step, error) {
	var steps []c15Step
	st := "noMagic"
	add := func(k c15TcpRow, big int64) (bool, error) {
		row, ok := tab[c15ClassKey(st, k)]
		if !ok {
			return false, fmt.Errorf("no table row for %s", c15ClassKey(st, k))
		}
		steps = append(steps, c15Step{St: st, K: k, Row: row, Big: big})
		if row.Closes {
			return false, nil
		}
		switch row.Eff {
		case "toV1":
			st = "v1"
		case "identify":
			st = "identified"
		}
		return true, nil
	}
	K := func(cmd, t, c string, x bool, sz, body string) c15TcpRow {
		return c15TcpRow{Cmd: cmd, T: t, C: c, X: x, Sz: sz, Body: body}
	}
	rest := stream
	if len(rest) < 4 {
		_, err := add(K("MAGIC", "shortEOF", "-", false, "-", "-"), 0)
		return steps, err
	}
	m := "bad4"
	if string(rest[:4]) == "  V1" {
		m = "ok"
	}
	rest = rest[4:]
	if cont, err := add(K("MAGIC", m, "-", false, "-", "-"), 0); !cont {
		return steps, err
	}
	for {
		i := bytes.IndexByte(rest, '\n')
		if i < 0 {
			t := "partialLine"
			if len(rest) == 0 {
				t = "bare"
			}
			_, err := add(K("EOF", t, "-", false, "-", "-"), 0)
			return steps, err
		}
		line := strings.TrimSpace(string(rest[:i+1]))
		rest = rest[i+1:]
		params := strings.Split(line, " ")
		var k c15TcpRow
		var big int64
		switch params[0] {
		case "PING":
			k = K("PING", "-", "-", len(params) > 1, "-", "-")
		case "REGISTER", "UNREGISTER":
			switch {
			case st == "v1" || len(params) == 1:
				k = K(params[0], "noparams", "absent", false, "-", "-")
			default:
				c := "absent"
				if len(params) > 2 {
					c = c15NameClass(params[2], "chan")
				}
				k = K(params[0], c15NameClass(params[1], "topic"), c, len(params) > 3, "-", "-")
			}
		case "IDENTIFY":
			switch {
			case st == "identified":
				k = K("IDENTIFY", "-", "-", false, "zero", "-")
			case len(rest) < 4:
				k = K("IDENTIFY", "-", "-", false, "missingEOF", "-")
				rest = nil
			default:
				n := int32(binary.BigEndian.Uint32(rest[:4]))
				rest = rest[4:]
				big = int64(n)
				switch {
				case n < 0:
					k = K("IDENTIFY", "-", "-", false, "negative", "-")
				case n == 0:
					k = K("IDENTIFY", "-", "-", false, "zero", "-")
				case int(n) > len(rest) && n >= c15HugeMin:
					k = K("IDENTIFY", "-", "-", false, "huge", "-")
				case int(n) > len(rest):
					k = K("IDENTIFY", "-", "-", false, "largerEOF", "allPresent")
				default:
					k = K("IDENTIFY", "-", "-", false, "exact", c15BodyClass(rest[:n]))
					rest = rest[n:]
				}
			}
		case "":
			k = K("EMPTY", "-", "-", false, "-", "-")
		default:
			k = K("UNKNOWN", "-", "-", false, "-", "-")
		}
		if cont, err := add(k, big); !cont {
			return steps, err
		}
	}
}

// ---------------------------------------------------------------- stream generation

func c15Session(rng *rand.Rand, addr string) ([]byte, []int) {
	var b bytes.Buffer
	var sizeAt []int // offsets of IDENTIFY size fields
	b.WriteString("  V1")
	body := c15BodySpellings([]string{"allPresent", "extraFields"}[rng.Intn(2)], addr, rng)
	b.WriteString("IDENTIFY\n")
	sizeAt = append(sizeAt, b.Len())
	b.Write(c15Frame(body[rng.Intn(len(body))]))
	topics := []string{"c15m_a", "c15m_b#ephemeral", c15ByTopic, c15ByEphTopic, c15RandName(rng, 1+rng.Intn(64))}
	chans := []string{"c15m_c", "c15m_d#ephemeral", c15ByChan, c15ByEphChan, c15RandName(rng, 1+rng.Intn(64))}
	for i, n := 0, 2+rng.Intn(8); i < n; i++ {
		t, c := topics[rng.Intn(len(topics))], chans[rng.Intn(len(chans))]
		switch rng.Intn(6) {
		case 0:
			b.WriteString("PING\n")
		case 1:
			b.WriteString("REGISTER " + t + "\n")
		case 2, 3:
			b.WriteString("REGISTER " + t + " " + c + "\n")
		case 4:
			b.WriteString("UNREGISTER " + t + " " + c + "\n")
		case 5:
			b.WriteString("UNREGISTER " + t + "\n")
		}
	}
	return b.Bytes(), sizeAt
}

func c15MutateStream(rng *rand.Rand, s []byte, sizeAt []int, other []byte, allowHuge bool) []byte {
	s = append([]byte{}, s...)
	for k, n := 0, 1+rng.Intn(3); k < n; k++ {
		if len(s) == 0 {
			break
		}
		switch rng.Intn(10) {
		case 0: // bit flip
			i := rng.Intn(len(s))
			s[i] ^= 1 << uint(rng.Intn(8))
		case 1: // random byte
			s[rng.Intn(len(s))] = byte(rng.Intn(256))
		case 2: // truncate
			s = s[:rng.Intn(len(s)+1)]
		case 3: // insert random bytes
			i := rng.Intn(len(s) + 1)
			ins := make([]byte, 1+rng.Intn(16))
			rng.Read(ins)
			s = append(s[:i], append(ins, s[i:]...)...)
		case 4: // delete a range
			i := rng.Intn(len(s))
			j := i + rng.Intn(c15Min(len(s)-i, 40)+1)
			s = append(s[:i], s[j:]...)
		case 5, 6: // length-field edit
			if len(sizeAt) > 0 && sizeAt[0]+4 <= len(s) {
				at := sizeAt[0]
				L := binary.BigEndian.Uint32(s[at : at+4])
				opts := []uint32{0, L - 1, L + 1, L + uint32(rng.Intn(1000)), 0xffffffff, 0x80000000, 1 << 20, uint32(rng.Intn(70000)), L / 2,
					0x80000000 | rng.Uint32()}
				v := opts[rng.Intn(len(opts))]
				if allowHuge && rng.Intn(4) == 0 {
					v = []uint32{0x7fffffff, c15HugeMin}[rng.Intn(2)]
				}
				binary.BigEndian.PutUint32(s[at:at+4], v)
			}
		case 7: // splice with the tail of another session
			i, j := rng.Intn(len(s)+1), rng.Intn(len(other)+1)
			s = append(s[:i], other[j:]...)
		case 8: // duplicate a segment
			i := rng.Intn(len(s))
			j := i + rng.Intn(c15Min(len(s)-i, 60)+1)
			seg := append([]byte{}, s[i:j]...)
			s = append(s[:j], append(seg, s[j:]...)...)
		case 9: // replace a separator
			seps := []byte{' ', '\n'}
			from := rng.Intn(len(s))
			if i := bytes.IndexByte(s[from:], seps[rng.Intn(2)]); i >= 0 {
				s[from+i] = []byte{' ', '\n', '\t', '\r', 0, '#', '*'}[rng.Intn(7)]
			}
		}
	}
	if !allowHuge {
		// keep accidental huge size fields (a flipped top byte) out: they are exercised one at a time elsewhere
		for _, at := range sizeAt {
			if at+4 <= len(s) && s[at]&0x80 == 0 && s[at] >= 0x04 {
				s[at] &= 0x03
			}
		}
	}
	return s
}

// ---------------------------------------------------------------- the subcommand

func c15Mutate(args []string) int {
	fs := flag.NewFlagSet("c15-mutate", flag.ExitOnError)
	bin := fs.String("bin", "", "nsqlookupd binary")
	rowsPath := fs.String("rows", "rows.json", "table rows printed by TLC")
	seed := fs.Int64("seed", 1, "seed")
	nStreams := fs.Int("streams", 300, "mutated TCP streams")
	nHTTP := fs.Int("http", 300, "generated HTTP requests")
	nHuge := fs.Int("huge", 1, "streams that may carry a huge size field")
	tracePath := fs.String("trace", "c15.ndjson", "class-sequence trace for TLC")
	rep := fs.String("report", "report.json", "report output")
	fs.Parse(args)

	var rows c15Rows
	b, err := os.ReadFile(*rowsPath)
	if err == nil {
		err = json.Unmarshal(b, &rows)
	}
	if err != nil {
		fmt.Fprintln(os.Stderr, "rows:", err)
		return 2
	}
	tab := c15Table{}
	for _, r := range rows.Tcp {
		tab[c15ClassKey(r.St, r)] = r
	}
	report := c15NewReport()
	rng := rand.New(rand.NewSource(*seed*7919 + 15))
	w := &c15World{bin: *bin, id: 9}
	defer w.shutdown()
	tw, err := hlib.NewNDJSON(*tracePath)
	if err != nil {
		fmt.Fprintln(os.Stderr, err)
		return 2
	}
	fail := func(msg string) int {
		tw.Close()
		report.Inconclusive = msg
		report.write(*rep)
		fmt.Fprintln(os.Stderr, "inconclusive:", msg)
		return 2
	}
	lostToReset := 0
	for si := 0; si < *nStreams; si++ {
		if err := w.ensure(); err != nil {
			return fail("daemon could not be started: " + err.Error())
		}
		allowHuge := si < *nHuge
		s1, at := c15Session(rng, fmt.Sprintf("c15-m-%d", si))
		s2, _ := c15Session(rng, fmt.Sprintf("c15-n-%d", si))
		stream := s1
		if si%10 != 9 { // every tenth session goes unmutated
			stream = c15MutateStream(rng, s1, at, s2, allowHuge)
		}
		steps, err := c15Classify(tab, stream)
		if err != nil {
			return fail("reference classifier: " + err.Error())
		}
		var predicted []string
		var classes []string
		bigAlloc := false
		for _, s := range steps {
			if s.Row.Resp != "none" {
				predicted = append(predicted, s.Row.Resp)
			}
			classes = append(classes, s.St+":"+s.K.class())
			if s.Big >= 64<<20 {
				bigAlloc = true
			}
		}
		if bigAlloc {
			c15HugeMu.Lock()
		}
		input := c15Quote(stream, 400)
		c, err := c15Dial(w.d.tcp)
		if err != nil {
			return fail("dial: " + err.Error())
		}
		c.send(stream)
		c.closeWrite()
		var obs c15Obs
		for {
			b, st := c.readFrame(c15Deadline)
			if st != "frame" {
				obs.End = st
				break
			}
			obs.Frames = append(obs.Frames, c15Kind(b))
			obs.Texts = append(obs.Texts, c15Quote(b, 80))
			if len(obs.Frames) > len(predicted)+4 {
				obs.End = "badframe"
				break
			}
		}
		c.close()
		if bigAlloc {
			c15HugeMu.Unlock()
		}
		report.triple("stream", strings.Join(classes, " ; "), strings.Join(obs.Frames, "+")+" end="+obs.endKind())
		report.Evaluations += len(steps) - 1
		rowKey := strings.Join(classes, " ; ")
		mk := func(level, kind, key, what string) {
			report.add(c15Finding{Level: level, Kind: kind, Key: key, What: what, Row: rowKey, Input: input, Observed: obs.String(), Stderr: w.d.tail(12)})
		}
		good := false
		crashKey := ""
		for _, s := range steps {
			if s.K.Cmd == "IDENTIFY" && s.K.Sz == "negative" {
				crashKey = "identify-negative-body-size"
			}
		}
		switch {
		case obs.End == "timeout":
			mk("inconclusive", "deadline", "deadline:stream", fmt.Sprintf("stream not answered/closed within %s", c15Deadline))
		case strings.Join(obs.Frames, "+") == strings.Join(predicted, "+") && obs.closed():
			good = true
		case obs.End == "reset" && len(obs.Frames) < len(predicted) && strings.Join(obs.Frames, "+") == strings.Join(predicted[:len(obs.Frames)], "+"):
			lostToReset++ // the server closed with unread input: the kernel may discard answers in flight
		case crashKey != "" && len(obs.Frames) < len(predicted) && w.d.waitExit(time.Second):
			// judged by postStep
		default:
			// first divergence, attributed to the step that should have produced that answer
			i := 0
			for i < len(obs.Frames) && i < len(predicted) && obs.Frames[i] == predicted[i] {
				i++
			}
			var at *c15Step
			k := -1
			for si := range steps {
				if steps[si].Row.Resp != "none" {
					k++
				}
				if k == i && steps[si].Row.Resp != "none" {
					at = &steps[si] // the step whose answer this is
					break
				}
			}
			switch {
			case at != nil && !at.Row.Wf && i < len(obs.Frames) && (obs.Frames[i] == "OK" || obs.Frames[i] == "IDJSON"):
				mk("violation", "accepted-malformed", "accepted-malformed:"+at.K.class(), "malformed input inside a stream was answered "+obs.Frames[i])
			case at != nil && !at.Row.Wf && c15StatementErrs[at.Row.Resp] && i < len(obs.Frames) && !c15StatementErrs[obs.Frames[i]]:
				mk("violation", "wrong-code", "wrong-code:"+at.K.class(), "malformed command answered "+obs.Frames[i])
			default:
				mk("drift", "stream-mismatch", "stream:"+fmt.Sprint(predicted)+"/"+fmt.Sprint(obs.Frames), fmt.Sprintf("predicted answers %v, observed %v", predicted, obs.Frames))
			}
		}
		// nothing of the hostile connection may be left (it is closed): only the bystander has producers
		if w.d.alive() && obs.closed() {
			if st, body, err := w.d.get("/debug"); err == nil && st == 200 {
				var m map[string][]struct {
					BroadcastAddress string `json:"broadcast_address"`
				}
				json.Unmarshal(body, &m)
				for key, ps := range m {
					for _, p := range ps {
						if p.BroadcastAddress != c15ByAddr {
							good = false
							mk("drift", "left-behind", "left-behind", fmt.Sprintf("producer %q still registered under %s after its connection was closed", p.BroadcastAddress, key))
						}
					}
				}
			}
		}
		if si < 6 {
			report.sample(map[string]interface{}{"state": "stream", "class": classes, "input": input, "expected": predicted, "observed": obs.String()})
		}
		gaveUp := w.postStep(report, rowKey, "mutated-stream", input, obs.String(), c15ByIntact, crashKey, "")
		if good && !gaveUp {
			tw.Put(map[string]interface{}{"ev": "Reset"})
			k := 0
			for si, s := range steps {
				resp := "none"
				if s.Row.Resp != "none" {
					resp = obs.Frames[k]
					k++
				}
				tw.Put(map[string]interface{}{"ev": "Tcp", "st": s.St, "cmd": s.K.Cmd, "t": s.K.T, "c": s.K.C, "x": s.K.X, "sz": s.K.Sz, "body": s.K.Body,
					"resp": resp, "closed": si == len(steps)-1})
			}
			report.Traces++
		}
		if bigAlloc && w.d != nil && w.d.alive() {
			if vsz, _ := w.d.mem(); vsz > 2500000 {
				w.d.stop() // memory hygiene (see c15RunTcpRow)
			}
		}
	}
	report.TraceEvents = tw.N
	tw.Close()
	report.Notes["answers_lost_to_reset"] = lostToReset

	// ---------------- HTTP: generated requests
	htab := map[string]c15HttpRow{}
	for _, r := range rows.Http {
		htab[r.class()] = r
	}
	if err := c15RandomHTTP(w, report, htab, rng, *nHTTP); err != nil {
		return fail(err.Error())
	}
	report.Restarts = w.restarts
	if err := report.write(*rep); err != nil {
		fmt.Fprintln(os.Stderr, err)
		return 2
	}
	return 0
}

// c15RandomHTTP: random paths, methods, odd query strings, raw garbage on the HTTP port.
func c15RandomHTTP(w *c15World, rep *c15Report, htab map[string]c15HttpRow, rng *rand.Rand, n int) error {
	routes := []string{"/ping", "/info", "/debug", "/lookup", "/topics", "/channels", "/nodes", "/topic/create", "/topic/delete",
		"/channel/create", "/channel/delete", "/topic/tombstone"}
	segs := []string{"ping", "PING", "topic", "create", "delete", "lookup", "..", ".", "", "%2F", "%00", "nodes", "channel", "x", "debug", "info", "topics",
		"tombstone", "%zz", "+", "*"}
	methods := []string{"GET", "POST", "PUT", "DELETE", "HEAD", "OPTIONS", "PATCH", "FOO", "TRACE"}
	nameClasses := []string{"valid", "validEph", "len64", "empty", "long65", "badChar", "ephAlone", "badSuffix", "wildcard"}
	for i := 0; i < n; i++ {
		if err := w.ensure(); err != nil {
			return fmt.Errorf("daemon could not be started: %v", err)
		}
		input, obs := "", ""
		mk := func(level, kind, key, what string) {
			rep.add(c15Finding{Level: level, Kind: kind, Key: key, What: what, Row: "generated-http", Input: input, Observed: obs, Stderr: w.d.tail(8)})
		}
		switch k := rng.Intn(10); {
		case k == 0: // raw bytes on the HTTP port
			raws := [][]byte{[]byte("GET / HTTP/9.9\r\n\r\n"), []byte("  V1IDENTIFY\n\xff\xff\xff\xff"), []byte("GET /ping\r\n"), []byte("POST /topic/create?topic=x HTTP/1.1\r\nContent-Length: -5\r\n\r\n"),
				[]byte("GET /ping HTTP/1.1\r\nHost: x\r\nTransfer-Encoding: chunked\r\n\r\nzz\r\n"), []byte("\x16\x03\x01\x02\x00\x01\x00\x01\xfc\x03\x03"), nil}
			raw := raws[rng.Intn(len(raws))]
			if raw == nil {
				raw = make([]byte, 1+rng.Intn(300))
				rng.Read(raw)
			}
			input = "raw " + c15Quote(raw, 200)
			if c, err := net.DialTimeout("tcp", w.d.http, c15Deadline); err == nil {
				c.SetDeadline(time.Now().Add(c15Deadline))
				c.Write(raw)
				c.(*net.TCPConn).CloseWrite()
				buf := make([]byte, 4096)
				nr, _ := c.Read(buf)
				obs = c15Quote(buf[:nr], 100)
				c.Close()
			}
			rep.triple("http-raw", "raw bytes", strings.SplitN(obs, "\\r", 2)[0])
		case k <= 3: // random path
			var p []string
			for j, m := 0, 1+rng.Intn(4); j < m; j++ {
				p = append(p, segs[rng.Intn(len(segs))])
			}
			path := "/" + strings.Join(p, "/")
			if rng.Intn(3) == 0 {
				path = routes[rng.Intn(len(routes))] + []string{"/", "//", "/x", "%20"}[rng.Intn(4)]
			}
			if strings.HasPrefix(strings.ToLower(path), "/debug/") {
				path = "/x" + path // stay away from the profiling endpoints (30 s CPU profile)
			}
			method := methods[rng.Intn(len(methods))]
			q := []string{"", "?topic=x", "?%zz", "?topic=" + c15Esc(c15RandName(rng, 70)), "?a;b"}[rng.Intn(5)]
			input = method + " " + path + q
			st, rb, err := c15Do(method, "http://"+w.d.http+path+q, nil)
			obs = fmt.Sprintf("%d %s", st, c15Quote(rb, 100))
			rep.triple("http-gen", method+" random path", fmt.Sprint(st))
			if err != nil {
				obs = "error: " + err.Error()
				if w.d.alive() && !strings.Contains(err.Error(), "invalid") && !strings.Contains(err.Error(), "malformed") {
					mk("inconclusive", "http-error", "http-error:random", "request failed: "+err.Error())
				}
			} else if st >= 500 {
				mk("drift", "http-5xx", "http-5xx:random-path", "5xx answer")
			}
		default: // a known route with generated arguments, classified and looked up in the table
			route := routes[rng.Intn(len(routes))]
			method := methods[rng.Intn(6)]
			cls := c15HttpRow{Route: route, Method: method, Q: "ok", T: "-", C: "-", N: "-"}
			var args []string
			needT := route == "/lookup" || route == "/channels" || strings.HasPrefix(route, "/topic/") || strings.HasPrefix(route, "/channel/")
			needC := strings.HasPrefix(route, "/channel/")
			needN := route == "/topic/tombstone"
			fresh := func(class string) string {
				nm := c15Names(class, "topic", rng, true)
				s := nm[rng.Intn(len(nm))]
				if c15GoodName[class] {
					s = w.freshName(class, rng)
				}
				return s
			}
			registered := method == map[bool]string{true: "GET", false: "POST"}[route == "/lookup" || route == "/channels" || !needT]
			small := func(c string) string { // argument classes kept in the table for methods the route does not serve
				if registered {
					return c
				}
				return []string{"valid", "badChar", "wildcard"}[rng.Intn(3)]
			}
			if needT {
				if rng.Intn(6) == 0 {
					cls.T = "missing"
				} else {
					cls.T = small(nameClasses[rng.Intn(len(nameClasses))])
					args = append(args, "topic="+c15Esc(fresh(cls.T)))
				}
			}
			if needC {
				if rng.Intn(6) == 0 {
					cls.C = "missing"
				} else {
					cls.C = small(nameClasses[rng.Intn(len(nameClasses))])
					args = append(args, "channel="+c15Esc(fresh(cls.C)))
				}
			}
			if needN {
				if rng.Intn(3) == 0 || !registered {
					cls.N = "missing"
				} else {
					cls.N = "other"
					args = append(args, "node="+c15Esc(c15RandName(rng, 1+rng.Intn(20))))
				}
			}
			rng.Shuffle(len(args), func(a, b int) { args[a], args[b] = args[b], args[a] })
			q := strings.Join(args, "&")
			if rng.Intn(8) == 0 {
				cls.Q = "unparsable"
				q = c15UnparsableQuery(q, rng.Intn(6))
				if needT && !(cls.T == "missing" || cls.T == "valid" || cls.T == "badChar" || cls.T == "wildcard") ||
					needC && !(cls.C == "missing" || cls.C == "valid" || cls.C == "badChar" || cls.C == "wildcard") || cls.N == "bystander" {
					continue // argument classes not kept in the table for unparsable queries
				}
			}
			row, ok := htab[cls.class()]
			if !ok {
				return fmt.Errorf("generated request has no table row: %s", cls.class())
			}
			u := "http://" + w.d.http + route
			if q != "" {
				u += "?" + q
			}
			input = method + " " + route + "?" + q
			if len(input) > 400 {
				input = input[:400] + "..."
			}
			st, rb, err := c15Do(method, u, nil)
			obs = fmt.Sprintf("%d %s", st, c15Quote(rb, 100))
			rep.triple("http-gen", cls.class(), fmt.Sprint(st))
			invalidName := (c15IsBadName(row.T) && (row.Route == "/topic/create" || needC)) || (c15IsBadName(row.C) && needC)
			switch {
			case err != nil:
				obs = "error: " + err.Error()
				if w.d.alive() {
					mk("inconclusive", "http-error", "http-error:"+cls.class(), "request failed: "+err.Error())
				}
			case st == row.Status:
			case !row.Wf && st >= 200 && st < 300 && invalidName && method == "POST" && row.Q == "ok":
				mk("violation", "http-invalid-name-accepted", "http-invalid-name-accepted:"+row.class(), "a request with an invalid name was not refused")
			case st >= 500:
				mk("drift", "http-5xx", "http-5xx:"+row.class(), fmt.Sprintf("handler failed (recovered); the table says %d", row.Status))
			default:
				mk("drift", "table-mismatch", "table:"+row.class(), fmt.Sprintf("generated request: expected %d %q", row.Status, row.Msg))
			}
		}
		byKey := ""
		if strings.HasPrefix(input, "POST /topic/delete?") && strings.Contains(input, "topic=%2A") {
			byKey = "http-delete-topic-wildcard"
		}
		if i%4 == 3 || byKey != "" || !w.d.alive() {
			w.postStep(rep, "generated-http", "generated-http", input, obs, c15ByIntact, "", byKey)
		}
	}
	return nil
}
