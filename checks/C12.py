"""C12 -- message ids unique and increasing per topic (spec: Guid, GuidTrace)."""
import json
import os
from vlib import Inconclusive, log

META = {
    "technique": "TLC exhaustive check of Guid.tla; every NewGUID transition of the bounded model replayed through the real "
                 "generator by state injection; hook traces of full-speed concurrent calls validated against GuidTrace.tla",
    "design_ref": "5/C12",
}


def run(ctx):
    quick = ctx.quick
    # 1. the design: exhaustive over clock walks (stand still, advance, step back) and sequence exhaustion
    ctx.model_check("Guid", "Guid_mc.cfg" if quick else "Guid_thorough.cfg", timeout=600)
    # 2. binding A: all NewGUID edges of the bounded model, replayed by state injection
    r = ctx.tlc("GuidEdges", "Guid_edges.cfg", workers=1, timeout=300, label="edges")
    if r.crashed:
        raise Inconclusive("edge dump failed:\n" + r.out[-2000:])
    edges = {}
    for t in r.prints("EDGE"):
        v = [x.strip('"') for x in t]
        if len(v) != 17:
            raise Inconclusive("cannot parse edge %r" % (t,))
        e = {"clock": int(v[0]), "lastTs": int(v[1]), "sq": int(v[2]), "lastId": [int(x) for x in v[3:6]],
             "node": int(v[6]), "err": v[7], "lastTs2": int(v[8]), "sq2": int(v[9]),
             "lastId2": [int(x) for x in v[10:13]], "retId": [int(x) for x in v[13:16]], "seqMask": int(v[16])}
        edges[json.dumps(e, sort_keys=True)] = e
    if len(edges) < 20:
        raise Inconclusive("only %d edges extracted" % len(edges))
    epath = os.path.join(ctx.scratch, "edges.json")
    with open(epath, "w") as f:
        json.dump(list(edges.values()), f)
    rep = os.path.join(ctx.scratch, "replay.json")
    rc, out, err = ctx.run_harness(["guid-replay", "--edges", epath, "--report", rep])
    if rc == 2 or not os.path.exists(rep):
        raise Inconclusive("guid-replay: " + out + err)
    R = json.load(open(rep))
    ctx.cov["evaluations"] += R["calls"]
    ctx.cov["distinct_nontrivial"] += R["distinct_shapes"]
    ctx.notes["replayed_edges"] = len(edges)
    ctx.notes["replay_result_classes"] = R["errs"]
    for s in R["samples"][:3]:
        ctx.sample({"replayed_edge": s})
    for v in R["violations"] or []:
        ctx.violation("replayed TLC NewGUID transition: real generator broke the id-source contract: " + v,
                      ctx.save_replay("guid-edge", {"violation": v, "edges": list(edges.values())}))
    for v in R.get("drift") or []:
        ctx.drift("replayed TLC NewGUID transition: " + v)
    # 3. binding B: full-speed concurrent generators, hook trace validated by TLC + ledger in Go
    trace = os.path.join(ctx.scratch, "guid.ndjson")
    rep2 = os.path.join(ctx.scratch, "trace.json")
    args = ["guid-trace", "--seed", ctx.seed, "--out", trace, "--report", rep2]
    if quick:
        args += ["--runs", 8, "--goroutines", 8, "--per", 20000, "--max-trace", 60000]
    else:
        args += ["--runs", 40, "--goroutines", 16, "--per", 100000, "--max-trace", 600000]
    rc, out, err = ctx.run_harness(args, timeout=1800)
    if rc == 2 or not os.path.exists(rep2):
        raise Inconclusive("guid-trace: " + out + err)
    T = json.load(open(rep2))
    ctx.cov["evaluations"] += T["calls"]
    ctx.cov["distinct_nontrivial"] += T["distinct_shapes"]
    ctx.notes["ids_issued"] = T["issued"]
    ctx.notes["sequence_rollovers_seen"] = T["rollovers"]
    ctx.notes["error_returns"] = T["errs"]
    for s in T["samples"][:3]:
        ctx.sample({"trace_event": s})
    for v in T["violations"] or []:
        ctx.violation("ledger: " + v, ctx.save_replay("guid-ledger", {"violation": v}))
    ctx.validate_trace("GuidAbsTrace", "GuidAbsTrace.cfg", trace, T["traces"], "guid", timeout=1800)
    ctx.validate_trace("GuidTrace", "GuidTrace.cfg", trace, T["traces"], "guid-shape", timeout=1800, level="shape")
    ctx.cov["rule"] = ("evaluations = real NewGUID calls (replayed TLC edges + full-speed concurrent calls); a case is "
                       "distinct by (result class, clock-vs-lastTs offset, sequence before/after)")
    ctx.assumptions += [
        "ids compared as (ts, node, seq) triples; the 64-bit packing is decomposed by the harness",
        "a clock step back is emulated by injecting a future lastTimestamp (time.Now cannot be overridden)",
        "sequence width 2 bits in the exhaustive model, 12 bits in trace validation",
    ]
