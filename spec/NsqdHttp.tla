------------------------------ MODULE NsqdHttp ------------------------------
(***************************************************************************)
(* C10 -- nsqd HTTP API: validation, status codes, effects, and equivalence *)
(* of HTTP publish with TCP publish.                                        *)
(*                                                                          *)
(* Two levels in one module (the "algorithm" here is a decision table):     *)
(*  * Handle(req, reg): the EXACT outcome table, one branch per branch of   *)
(*    nsqd/http.go (doPUB, doMPUB, do*Topic, do*Channel, doConfig, ...),    *)
(*    internal/http_api (V1 / PlainText rendering, 404 / 405 handlers) and, *)
(*    for the TCP twin, protocol_v2.go PUB / DPUB / MPUB / readMPUB.        *)
(*    Written AS INTENDED; the two behaviours of the code that the property *)
(*    forbids are named deviations (constant Deviations) that can be        *)
(*    switched on to obtain the AS-IMPLEMENTED table.                       *)
(*  * StepOK(req, reg, status, reg'): the PROPERTY level -- which statuses  *)
(*    the statement of C10 allows for the faults a request has, what a      *)
(*    rejected request may change (nothing, except that a publish may have  *)
(*    created the topic it names), and that an accepted request has exactly *)
(*    the effect the table states.  Real executions are judged by StepOK    *)
(*    (violation); a difference from Handle inside StepOK is model drift.   *)
(*                                                                          *)
(* Requests are abstract: names are symbols (elements of Topics / Channels  *)
(* are valid names, every other string is an invalid name), defer values    *)
(* are classes, bodies are layouts with REAL lengths (the harness runs      *)
(* nsqd with max-msg-size = MaxMsg and max-body-size = MaxBody, so sizes    *)
(* need no class mapping).  A trusted concretiser in the harness turns a    *)
(* request into bytes on a socket.                                          *)
(***************************************************************************)
EXTENDS Integers, Sequences, FiniteSets, TLC

CONSTANTS Topics,      \* symbols standing for valid topic names
          Channels,    \* symbols standing for valid channel names
          MaxMsg,      \* --max-msg-size  (bytes)
          MaxBody,     \* --max-body-size (bytes), >= 4
          Deviations,  \* subset of {"plaintext_nil_500", "binary_unbounded"}
          Requests     \* the request alphabet of a bounded configuration

VARIABLES reg,   \* registry: topics, channels, pause flags, queues, counters
          last   \* last request and its response

vars == <<reg, last>>
RegView == reg    \* VIEW of the bounded configurations: every (registry, request) pair is still explored

Min(a, b) == IF a < b THEN a ELSE b
MaxMessages == (MaxBody - 4) \div 5      \* readMPUB: 4 == total num, 5 == length + min 1

-----------------------------------------------------------------------------
(* Bodies.  text: segs = <<l1, .., lk>> is l1 non-newline bytes, "\n", l2    *)
(* bytes, "\n", .. lk bytes (k-1 newlines) -- every byte string has exactly  *)
(* one such layout.  bin: hdr bytes of the 4-byte message count (4 unless    *)
(* the body ends inside it), count, items = <<[decl, have]>> (a 4-byte       *)
(* length "decl" followed by "have" bytes), then "extra" trailing bytes.     *)

Text(segs) == [kind |-> "text", segs |-> segs, hdr |-> 4, count |-> 0, items |-> <<>>, extra |-> 0]
Bin(hdr, count, items, extra) ==
  [kind |-> "bin", segs |-> <<>>, hdr |-> hdr, count |-> count, items |-> items, extra |-> extra]
NoBody == Text(<<0>>)

SumSeq(s) == LET S[i \in 0..Len(s)] == IF i = 0 THEN 0 ELSE S[i-1] + s[i] IN S[Len(s)]
ItemsLen(its) == LET S[i \in 0..Len(its)] == IF i = 0 THEN 0 ELSE S[i-1] + 4 + its[i].have IN S[Len(its)]

BodyLen(b) == IF b.kind = "text" THEN SumSeq(b.segs) + Len(b.segs) - 1
              ELSE b.hdr + ItemsLen(b.items) + b.extra

\* the generator's well-formedness conditions on abstract bodies (the concretiser relies on them)
BodyWF(b) ==
  IF b.kind = "text" THEN Len(b.segs) >= 1 /\ \A i \in 1..Len(b.segs) : b.segs[i] >= 0
  ELSE /\ b.hdr \in 0..4 /\ b.extra >= 0
       /\ (b.hdr < 4 => b.items = <<>> /\ b.extra = 0)
       /\ \A i \in 1..Len(b.items) : b.items[i].have >= 0 /\ b.items[i].have <= (IF b.items[i].decl > 0 THEN b.items[i].decl ELSE 0)
       \* only the last item may be short; after a short item nothing follows
       /\ \A i \in 1..Len(b.items) : b.items[i].have < b.items[i].decl /\ b.items[i].decl \in 1..MaxMsg
                                      => i = Len(b.items) /\ b.extra = 0
       \* when the parser will look for one more length field than there are items, fewer than 4 bytes follow
       /\ (b.count > Len(b.items) => b.extra < 4)

-----------------------------------------------------------------------------
(* Registry.  A message is [n: body size, d: "now" | "small" | "max"].       *)
Msg(n, d) == [n |-> n, d |-> d]
NoChan   == [ex |-> FALSE, paused |-> FALSE, q |-> <<>>, cnt |-> 0]
NewChan  == [NoChan EXCEPT !.ex = TRUE]
NoTopic  == [ex |-> FALSE, paused |-> FALSE, q |-> <<>>, cnt |-> 0, bytes |-> 0, ch |-> [c \in Channels |-> NoChan]]
NewTopic == [NoTopic EXCEPT !.ex = TRUE]
EmptyReg == [t \in Topics |-> NoTopic]

\* the topic's messagePump at quiescence: an unpaused topic with at least one channel
\* has copied every queued message to every channel
Pump(T) ==
  IF T.ex /\ ~T.paused /\ Len(T.q) > 0 /\ \E c \in Channels : T.ch[c].ex
  THEN [T EXCEPT !.q = <<>>,
                 !.ch = [c \in Channels |-> IF T.ch[c].ex
                                            THEN [T.ch[c] EXCEPT !.q = @ \o T.q, !.cnt = @ + Len(T.q)]
                                            ELSE T.ch[c]]]
  ELSE T

EnsureTopic(r, t) == IF r[t].ex THEN r ELSE [r EXCEPT ![t] = NewTopic]

\* THE enqueue operation: HTTP /pub, /mpub and TCP PUB, DPUB, MPUB all end here
Enqueue(r, t, msgs) ==
  LET r1 == EnsureTopic(r, t)
      T1 == [r1[t] EXCEPT !.q = @ \o msgs, !.cnt = @ + Len(msgs),
                          !.bytes = @ + SumSeq([i \in 1..Len(msgs) |-> msgs[i].n])]
  IN [r1 EXCEPT ![t] = Pump(T1)]

-----------------------------------------------------------------------------
(* Requests: [route, method, topic, channel, defer, binary, badq, arg,       *)
(* chunked, body].  topic/channel/defer/binary are the SEQUENCES of values   *)
(* given for that query argument (<<>> absent, two elements = duplicated).   *)

HttpRoutes == {"ping", "info", "stats", "pub", "mpub",
               "topic_create", "topic_delete", "topic_empty", "topic_pause", "topic_unpause",
               "channel_create", "channel_delete", "channel_empty", "channel_pause", "channel_unpause",
               "config", "setblockrate", "freememory", "pprof", "unknown"}
TcpRoutes  == {"tcp_pub", "tcp_dpub", "tcp_mpub"}
TopicAdmin   == {"topic_create", "topic_delete", "topic_empty", "topic_pause", "topic_unpause"}
ChannelAdmin == {"channel_create", "channel_delete", "channel_empty", "channel_pause", "channel_unpause"}
Methods == {"GET", "POST", "PUT", "DELETE", "HEAD", "OPTIONS", "PATCH"}

AllowedMethods(route) ==
  CASE route \in {"ping", "info", "stats", "pprof"} -> {"GET"}
    [] route = "config"       -> {"GET", "PUT"}
    [] route = "setblockrate" -> {"PUT"}
    [] route = "unknown"      -> {}
    [] OTHER                  -> {"POST"}

Has(a) == Len(a) > 0

\* defer classes (spellings are the concretiser's): value 0; 1..max-1; max-req-timeout; "+n" (ParseInt takes a sign);
\* max+1; ms*1e6 overflows int64 (9223372036854776, 18446744073710); 2^63-1; 2^63..2^64-1; >= 2^64; negative;
\* not a number; empty value
DeferClasses == {"0", "small", "max", "plus", "max+1", "mulovf", "i64max", "2^63", "2^64", "neg", "nonnum", "empty"}
HttpDeferOK(c) == c \in {"0", "small", "max", "plus"}
TcpDeferOK(c)  == c \in {"0", "small", "max"}              \* ByteToBase10: digits only
Canonical(c)   == c \in {"0", "small", "max", "max+1", "mulovf", "i64max", "2^63", "2^64"}   \* digits only
DeferKind(c)   == IF c = "0" THEN "now" ELSE IF c = "max" THEN "max" ELSE "small"

\* /config/:opt classes and PUT values
OptClasses == {"log_level", "lookupd", "readonly", "unknownopt"}

NoReq == [route |-> "none", method |-> "GET", topic |-> <<>>, channel |-> <<>>, defer |-> <<>>, binary |-> <<>>,
          badq |-> FALSE, arg |-> "", chunked |-> FALSE, body |-> NoBody]

-----------------------------------------------------------------------------
(* Responses *)
Resp(s, m, r, e) == [status |-> s, msg |-> m, reg |-> r, enq |-> e]
Fail(s, m, r)    == Resp(s, m, r, <<>>)
Slice(at, n)     == [at |-> at, n |-> n]
MsgsOf(slices, d) == [i \in 1..Len(slices) |-> Msg(slices[i].n, d)]

\* ---- parsers -------------------------------------------------------------
\* text /mpub: bufio ReadBytes('\n') over LimitReader(body, MaxBody+1)
TextParse(b) ==
  LET k == Len(b.segs)
      lim == MaxBody + 1
      \* P[i] : result of processing blocks i..k given cum bytes before block i and offset
      RECURSIVE Scan(_, _, _)
      Scan(i, cum, acc) ==
        IF i > k THEN [err |-> "", msgs |-> acc]
        ELSE LET blen == b.segs[i] + (IF i < k THEN 1 ELSE 0)
                 c2 == cum + blen
             IN IF c2 >= lim THEN [err |-> "BODY_TOO_BIG", msgs |-> <<>>]
                ELSE IF b.segs[i] = 0 THEN Scan(i + 1, c2, acc)                 \* empty lines are skipped
                ELSE IF b.segs[i] > MaxMsg THEN [err |-> "MSG_TOO_BIG", msgs |-> <<>>]
                ELSE Scan(i + 1, c2, Append(acc, Slice(cum, b.segs[i])))
  IN Scan(1, 0, <<>>)

\* binary /mpub and TCP MPUB: readMPUB.  limited = the reader stops after MaxBody+1 bytes and
\* having consumed that many is BODY_TOO_BIG (as intended for HTTP; see Deviations)
BinParse(b, limited) ==
  IF b.kind # "bin" THEN [err |-> "BAD_BODY", msgs |-> <<>>]     \* text bytes read as a count: absurdly large, or < 4 bytes
  ELSE
  LET avail == BodyLen(b)
      lim == MaxBody + 1
      Big(asked) == limited /\ Min(asked, avail) >= lim
      Stop(asked, e) == IF Big(asked) THEN [err |-> "BODY_TOO_BIG", msgs |-> <<>>] ELSE [err |-> e, msgs |-> <<>>]
      RECURSIVE Scan(_, _, _)
      Scan(i, pos, acc) ==
        IF i > b.count THEN (IF Big(pos) THEN [err |-> "BODY_TOO_BIG", msgs |-> <<>>] ELSE [err |-> "", msgs |-> acc])
        ELSE IF i > Len(b.items) THEN Stop(pos + 4, "BAD_MESSAGE")            \* no (complete) length field
        ELSE LET it == b.items[i]
                 p4 == pos + 4
             IN IF limited /\ p4 > lim THEN [err |-> "BODY_TOO_BIG", msgs |-> <<>>]
                ELSE IF it.decl <= 0 \/ it.decl > MaxMsg THEN Stop(p4, "BAD_MESSAGE")
                ELSE IF it.have < it.decl THEN Stop(p4 + it.decl, "BAD_MESSAGE")   \* body ends inside the message
                ELSE IF limited /\ p4 + it.decl > lim THEN [err |-> "BODY_TOO_BIG", msgs |-> <<>>]
                ELSE Scan(i + 1, p4 + it.decl, Append(acc, Slice(p4, it.decl)))
  IN IF b.hdr < 4 THEN Stop(4, "BAD_BODY")
     ELSE IF b.count <= 0 \/ b.count > MaxMessages THEN Stop(4, "BAD_BODY")
     ELSE Scan(1, 4, <<>>)

\* number of body bytes the binary parser needs to reach its verdict (property level: "oversize")
BinNeeded(b) == IF b.kind # "bin" \/ b.hdr < 4 \/ b.count <= 0 \/ b.count > MaxMessages THEN 4
                ELSE LET RECURSIVE N(_, _)
                         N(i, pos) == IF i > b.count THEN pos
                                      ELSE IF i > Len(b.items) THEN pos + 4
                                      ELSE IF b.items[i].decl <= 0 \/ b.items[i].decl > MaxMsg THEN pos + 4
                                      ELSE IF b.items[i].have < b.items[i].decl THEN pos + 4 + b.items[i].decl
                                      ELSE N(i + 1, pos + 4 + b.items[i].decl)
                     IN N(1, 4)

\* ---- argument handling ---------------------------------------------------
\* nsqd/http.go getTopicFromQuery (/pub, /mpub, /topic/create): creates the topic
TopicFromQuery(req, r) ==
  IF req.badq THEN Fail(400, "INVALID_REQUEST", r) @@ [t |-> ""]
  ELSE IF ~Has(req.topic) THEN Fail(400, "MISSING_ARG_TOPIC", r) @@ [t |-> ""]
  ELSE IF req.topic[1] \notin Topics THEN Fail(400, "INVALID_TOPIC", r) @@ [t |-> ""]
  ELSE Resp(200, "", EnsureTopic(r, req.topic[1]), <<>>) @@ [t |-> req.topic[1]]

\* getExistingTopicFromQuery (/channel/*): http_api.GetTopicChannelArgs then GetExistingTopic
ExistingTopicFromQuery(req, r) ==
  IF req.badq THEN Fail(400, "INVALID_REQUEST", r)
  ELSE IF ~Has(req.topic) THEN Fail(400, "MISSING_ARG_TOPIC", r)
  ELSE IF req.topic[1] \notin Topics THEN Fail(400, "INVALID_ARG_TOPIC", r)
  ELSE IF ~Has(req.channel) THEN Fail(400, "MISSING_ARG_CHANNEL", r)
  ELSE IF req.channel[1] \notin Channels THEN Fail(400, "INVALID_ARG_CHANNEL", r)
  ELSE IF ~r[req.topic[1]].ex THEN Fail(404, "TOPIC_NOT_FOUND", r)
  ELSE Resp(200, "", r, <<>>)

\* ---- handlers --------------------------------------------------------------
DoPub(req, r) ==
  LET n == BodyLen(req.body) IN
  IF ~req.chunked /\ n > MaxMsg THEN Fail(413, "MSG_TOO_BIG", r)          \* Content-Length check
  ELSE IF n >= MaxMsg + 1 THEN Fail(413, "MSG_TOO_BIG", r)                \* limit reader
  ELSE IF n = 0 THEN Fail(400, "MSG_EMPTY", r)
  ELSE LET g == TopicFromQuery(req, r) IN
    IF g.status # 200 THEN Fail(g.status, g.msg, g.reg)
    ELSE IF Has(req.defer) /\ ~HttpDeferOK(req.defer[1]) THEN Fail(400, "INVALID_DEFER", g.reg)
    ELSE LET d == IF Has(req.defer) THEN DeferKind(req.defer[1]) ELSE "now" IN
         Resp(200, "OK", Enqueue(g.reg, g.t, <<Msg(n, d)>>), <<Slice(0, n)>>)

BinaryMode(req) == Has(req.binary) /\ req.binary[1] \notin {"false", "0"}   \* unrecognised value: true

DoMpub(req, r) ==
  LET n == BodyLen(req.body) IN
  IF ~req.chunked /\ n > MaxBody THEN Fail(413, "BODY_TOO_BIG", r)
  ELSE LET g == TopicFromQuery(req, r) IN
    IF g.status # 200 THEN Fail(g.status, g.msg, g.reg)
    ELSE LET p == IF BinaryMode(req) THEN BinParse(req.body, "binary_unbounded" \notin Deviations)
                  ELSE TextParse(req.body)
         IN IF p.err # "" THEN Fail(413, p.err, g.reg)
            ELSE Resp(200, "OK", Enqueue(g.reg, g.t, MsgsOf(p.msgs, "now")), p.msgs)

DoTopicCreate(req, r) ==
  LET g == TopicFromQuery(req, r) IN Resp(g.status, g.msg, g.reg, <<>>)

\* doEmptyTopic validates the name, doDeleteTopic / doPauseTopic only look it up
DoTopicOp(req, r) ==
  IF req.badq THEN Fail(400, "INVALID_REQUEST", r)
  ELSE IF ~Has(req.topic) THEN Fail(400, "MISSING_ARG_TOPIC", r)
  ELSE IF req.route = "topic_empty" /\ req.topic[1] \notin Topics THEN Fail(400, "INVALID_TOPIC", r)
  ELSE IF req.topic[1] \notin Topics \/ ~r[req.topic[1]].ex THEN Fail(404, "TOPIC_NOT_FOUND", r)
  ELSE LET t == req.topic[1] IN
       CASE req.route = "topic_empty"   -> Resp(200, "", [r EXCEPT ![t].q = <<>>], <<>>)
         [] req.route = "topic_delete"  -> Resp(200, "", [r EXCEPT ![t] = NoTopic], <<>>)
         [] req.route = "topic_pause"   -> Resp(200, "", [r EXCEPT ![t].paused = TRUE], <<>>)
         [] req.route = "topic_unpause" -> Resp(200, "", [r EXCEPT ![t] = Pump([r[t] EXCEPT !.paused = FALSE])], <<>>)

DoChannelOp(req, r) ==
  LET g == ExistingTopicFromQuery(req, r) IN
  IF g.status # 200 THEN g
  ELSE LET t == req.topic[1]
           c == req.channel[1]
       IN IF req.route = "channel_create"
          THEN Resp(200, "", IF r[t].ch[c].ex THEN r ELSE [r EXCEPT ![t] = Pump([r[t] EXCEPT !.ch[c] = NewChan])], <<>>)
          ELSE IF ~r[t].ch[c].ex THEN Fail(404, "CHANNEL_NOT_FOUND", r)
          ELSE CASE req.route = "channel_delete"  -> Resp(200, "", [r EXCEPT ![t].ch[c] = NoChan], <<>>)
                 [] req.route = "channel_empty"   -> Resp(200, "", [r EXCEPT ![t].ch[c].q = <<>>], <<>>)
                 [] req.route = "channel_pause"   -> Resp(200, "", [r EXCEPT ![t].ch[c].paused = TRUE], <<>>)
                 [] req.route = "channel_unpause" -> Resp(200, "", [r EXCEPT ![t].ch[c].paused = FALSE], <<>>)

\* /config/:opt -- arg is the option class; for PUT the body is a text body whose validity is
\* carried in req.binary (<<"valid">> / <<"invalid">>: the concretiser writes such a value of that length)
DoConfig(req, r) ==
  LET n == BodyLen(req.body) IN
  IF req.method = "PUT" THEN
       IF n >= MaxMsg + 1 \/ n = 0 THEN Fail(413, "INVALID_VALUE", r)
       ELSE IF req.arg \in {"log_level", "lookupd"}
            THEN (IF req.binary = <<"valid">> THEN Resp(200, "json", r, <<>>) ELSE Fail(400, "INVALID_VALUE", r))
            ELSE Fail(400, "INVALID_OPTION", r)
  ELSE IF req.arg = "unknownopt" THEN Fail(400, "INVALID_OPTION", r) ELSE Resp(200, "json", r, <<>>)

\* PlainText-decorated handlers that return (nil, nil) on success
PlainNil(r) == IF "plaintext_nil_500" \in Deviations THEN Fail(500, "INTERNAL_ERROR", r) ELSE Resp(200, "", r, <<>>)

\* /debug/setblockrate: arg = "valid" | "invalid" | "missing" (the rate argument)
DoSetBlockRate(req, r) == IF req.arg = "valid" THEN PlainNil(r) ELSE Fail(400, "*", r)

DoStats(req, r) == IF req.badq THEN Fail(400, "INVALID_REQUEST", r) ELSE Resp(200, "stats", r, <<>>)

\* ---- TCP twin (protocol_v2.go PUB / DPUB / MPUB), one name in req.topic, honest size prefixes ----
TcpFail(code, r) == Fail(400, code, r)
DoTcpPub(req, r) ==
  LET n == BodyLen(req.body) IN
  IF req.topic[1] \notin Topics THEN TcpFail("E_BAD_TOPIC", r)
  ELSE IF req.route = "tcp_dpub" /\ ~TcpDeferOK(req.defer[1]) THEN TcpFail("E_INVALID", r)
  ELSE IF n <= 0 THEN TcpFail("E_BAD_MESSAGE", r)
  ELSE IF n > MaxMsg THEN TcpFail("E_BAD_MESSAGE", r)
  ELSE LET d == IF req.route = "tcp_dpub" THEN DeferKind(req.defer[1]) ELSE "now" IN
       Resp(200, "OK", Enqueue(r, req.topic[1], <<Msg(n, d)>>), <<Slice(0, n)>>)

DoTcpMpub(req, r) ==
  LET n == BodyLen(req.body) IN
  IF req.topic[1] \notin Topics THEN TcpFail("E_BAD_TOPIC", r)
  ELSE LET r1 == EnsureTopic(r, req.topic[1]) IN          \* GetTopic before the body is read
       IF n <= 0 THEN TcpFail("E_BAD_BODY", r1)
       ELSE IF n > MaxBody THEN TcpFail("E_BAD_BODY", r1)
       ELSE LET p == BinParse(req.body, FALSE) IN
            IF p.err # "" THEN TcpFail("E_" \o p.err, r1)
            ELSE Resp(200, "OK", Enqueue(r1, req.topic[1], MsgsOf(p.msgs, "now")), p.msgs)

\* ---- the table -----------------------------------------------------------------------
Handle(req, r) ==
  IF req.route \in TcpRoutes THEN (IF req.route = "tcp_mpub" THEN DoTcpMpub(req, r) ELSE DoTcpPub(req, r))
  ELSE IF req.route = "unknown" THEN Fail(404, "NOT_FOUND", r)
  ELSE IF req.method = "OPTIONS" THEN Resp(200, "", r, <<>>)            \* httprouter answers OPTIONS of known paths
  ELSE IF req.method \notin AllowedMethods(req.route) THEN Fail(405, "METHOD_NOT_ALLOWED", r)
  ELSE CASE req.route = "ping"  -> Resp(200, "OK", r, <<>>)
         [] req.route = "info"  -> Resp(200, "json", r, <<>>)
         [] req.route = "stats" -> DoStats(req, r)
         [] req.route = "pprof" -> Resp(200, "*", r, <<>>)
         [] req.route = "pub"   -> DoPub(req, r)
         [] req.route = "mpub"  -> DoMpub(req, r)
         [] req.route = "topic_create" -> DoTopicCreate(req, r)
         [] req.route \in TopicAdmin \ {"topic_create"} -> DoTopicOp(req, r)
         [] req.route \in ChannelAdmin -> DoChannelOp(req, r)
         [] req.route = "config" -> DoConfig(req, r)
         [] req.route = "setblockrate" -> DoSetBlockRate(req, r)
         [] req.route = "freememory" -> PlainNil(r)

-----------------------------------------------------------------------------
(* PROPERTY LEVEL: what the statement of C10 allows.                         *)

NeedsExistingTopic(route) == route \in (TopicAdmin \ {"topic_create"}) \cup ChannelAdmin
NeedsExistingChannel(route) == route \in ChannelAdmin \ {"channel_create"}
ReadsQuery(route) == route \in {"stats", "pub", "mpub"} \cup TopicAdmin \cup ChannelAdmin
TakesTopic(route) == route \in {"pub", "mpub"} \cup TopicAdmin \cup ChannelAdmin

\* statuses justified by the faults of a request that reached a handler
Faults(req, r) ==
  LET route == req.route
      n == BodyLen(req.body)
      tOK == Has(req.topic) /\ req.topic[1] \in Topics
      cOK == Has(req.channel) /\ req.channel[1] \in Channels
  IN (IF ReadsQuery(route) /\ req.badq THEN {400} ELSE {})
     \cup (IF TakesTopic(route) /\ ~tOK THEN {400} \cup (IF NeedsExistingTopic(route) /\ Has(req.topic) THEN {404} ELSE {}) ELSE {})
     \cup (IF route \in ChannelAdmin /\ ~cOK THEN {400} \cup (IF NeedsExistingChannel(route) /\ Has(req.channel) THEN {404} ELSE {}) ELSE {})
     \cup (IF NeedsExistingTopic(route) /\ tOK /\ ~r[req.topic[1]].ex THEN {404} ELSE {})
     \cup (IF NeedsExistingChannel(route) /\ tOK /\ cOK /\ ~r[req.topic[1]].ch[req.channel[1]].ex THEN {404} ELSE {})
     \cup (IF route = "pub" /\ Has(req.defer) /\ ~HttpDeferOK(req.defer[1]) THEN {400} ELSE {})
     \cup (IF route = "pub" /\ n = 0 THEN {400} ELSE {})
     \cup (IF route = "pub" /\ n > MaxMsg THEN {413} ELSE {})
     \cup (IF route = "mpub" /\ ~BinaryMode(req) /\ (n > MaxBody \/ \E i \in 1..Len(req.body.segs) : req.body.segs[i] > MaxMsg)
           THEN {413} ELSE {})
     \cup (IF route = "mpub" /\ BinaryMode(req) /\ BinParse(req.body, FALSE).err # "" THEN {400, 413} ELSE {})
     \cup (IF route = "mpub" /\ BinaryMode(req) /\ (Min(BinNeeded(req.body), n) > MaxBody \/ (~req.chunked /\ n > MaxBody))
           THEN {413} ELSE {})
     \cup (IF route = "config" /\ req.method = "PUT" /\ n = 0 THEN {400, 413} ELSE {})
     \cup (IF route = "config" /\ req.method = "PUT" /\ n > MaxMsg THEN {413} ELSE {})
     \cup (IF route = "config" /\ (req.arg = "unknownopt" \/ (req.method = "PUT" /\ (req.arg = "readonly" \/ req.binary # <<"valid">>)))
           THEN {400} ELSE {})
     \cup (IF route = "setblockrate" /\ req.arg # "valid" THEN {400} ELSE {})

\* a body longer than max-body-size of which binary /mpub only needs a prefix within the limit: may be refused
OptionalStatus(req) ==
  IF req.route = "mpub" /\ BinaryMode(req) /\ BodyLen(req.body) > MaxBody THEN {413} ELSE {}

AllowedStatus(req, r) ==
  IF req.route \in TcpRoutes THEN {200, 400}
  ELSE IF req.route = "unknown" THEN {404}
  ELSE IF req.method = "OPTIONS" THEN {200, 204, 405}
  ELSE IF req.method \notin AllowedMethods(req.route) THEN {405, 404}
  ELSE LET f == Faults(req, r) IN IF f = {} THEN {200} \cup OptionalStatus(req) ELSE f

\* a rejected request changes nothing, except that a publish (and /topic/create never fails after
\* creating) may already have created the valid topic it names
RejectedEffectOK(req, r, r2) ==
  \/ r2 = r
  \/ /\ req.route \in {"pub", "mpub", "tcp_mpub"}
     /\ Has(req.topic) /\ req.topic[1] \in Topics
     /\ r2 = EnsureTopic(r, req.topic[1])

StepOK(req, r, status, r2) ==
  /\ status # 500
  /\ status \in AllowedStatus(req, r)
  /\ IF status = 200 THEN Handle(req, r).status = 200 /\ r2 = Handle(req, r).reg
     ELSE RejectedEffectOK(req, r, r2)

-----------------------------------------------------------------------------
(* The bounded state machine: any request of the alphabet, any time.        *)
Init == reg = EmptyReg /\ last = [req |-> NoReq, status |-> 0, msg |-> "", enq |-> <<>>]

Do(req) == LET h == Handle(req, reg) IN
           /\ reg' = h.reg
           /\ last' = [req |-> req, status |-> h.status, msg |-> h.msg, enq |-> h.enq]

Next == \E req \in Requests : Do(req)
Spec == Init /\ [][Next]_vars

-----------------------------------------------------------------------------
(* Properties checked by TLC on the bounded configurations.                  *)
DocStatuses == {200, 400, 404, 405, 413}

TypeOK == /\ \A t \in Topics : /\ reg[t].ex \in BOOLEAN /\ reg[t].paused \in BOOLEAN /\ reg[t].cnt >= Len(reg[t].q)
                               /\ (~reg[t].ex => reg[t] = NoTopic)
                               /\ \A c \in Channels : /\ reg[t].ch[c].cnt >= Len(reg[t].ch[c].q)
                                                      /\ (~reg[t].ch[c].ex => reg[t].ch[c] = NoChan)
          /\ last.status \in DocStatuses \cup {0, 500}

\* the table is total over the alphabet and only ever answers documented statuses
TableTotal == \A req \in Requests : BodyWF(req.body) /\ Handle(req, reg).status \in DocStatuses \cup {500}
Never500OnCompleteRequest == last.status # 500       \* every request of every alphabet is a complete request
TableNever500 == \A req \in Requests : Handle(req, reg).status # 500

\* the exact table stays inside what the property allows (the "refinement")
Documented == [][StepOK(last'.req, reg, last'.status, reg')]_vars
TableConsistent == \A req \in Requests : LET h == Handle(req, reg) IN
                     /\ h.status \in AllowedStatus(req, reg)
                     /\ (200 \in AllowedStatus(req, reg) => h.status = 200)

\* quiescent registries are pumped
Pumped == \A t \in Topics : Pump(reg[t]) = reg[t]

\* a rejected publish enqueues nothing; an accepted one adds exactly its messages to the topic count
RejectedPublishEnqueuesNothing ==
  [][last'.req.route \in {"pub", "mpub"} \cup TcpRoutes /\ last'.status # 200 =>
        \A t \in Topics : reg'[t].cnt = reg[t].cnt /\ reg'[t].q = reg[t].q /\ reg'[t].ch = reg[t].ch]_vars

\* ExactEffect: the admin endpoints change exactly what they name
OthersUnchanged(t) == \A u \in Topics \ {t} : reg'[u] = reg[u]
OtherChannelsUnchanged(t, c) == \A d \in Channels \ {c} : reg'[t].ch[d].ex = reg[t].ch[d].ex /\ reg'[t].ch[d].paused = reg[t].ch[d].paused
ExactEffect ==
  [][LET rq == last'.req IN
     (rq.route \in TopicAdmin \cup ChannelAdmin) =>
       IF last'.status # 200 \/ rq.method # "POST" THEN reg' = reg
       ELSE LET t == rq.topic[1] IN
         /\ OthersUnchanged(t)
         /\ CASE rq.route = "topic_create"  -> reg'[t].ex /\ (reg[t].ex => reg'[t] = reg[t]) /\ (~reg[t].ex => reg'[t] = NewTopic)
              [] rq.route = "topic_delete"  -> reg'[t] = NoTopic
              [] rq.route = "topic_empty"   -> reg'[t] = [reg[t] EXCEPT !.q = <<>>]
              [] rq.route = "topic_pause"   -> reg'[t] = [reg[t] EXCEPT !.paused = TRUE]
              [] rq.route = "topic_unpause" -> /\ ~reg'[t].paused /\ reg'[t].cnt = reg[t].cnt
                                               /\ \A c \in Channels : reg'[t].ch[c].ex = reg[t].ch[c].ex
                                                                      /\ reg'[t].ch[c].paused = reg[t].ch[c].paused
              [] rq.route \in ChannelAdmin ->
                   LET c == rq.channel[1] IN
                   /\ reg'[t].ex /\ reg'[t].paused = reg[t].paused /\ reg'[t].cnt = reg[t].cnt
                   /\ OtherChannelsUnchanged(t, c)
                   /\ (rq.route # "channel_create" => reg'[t].q = reg[t].q
                                                       /\ \A d \in Channels \ {c} : reg'[t].ch[d] = reg[t].ch[d])
                   /\ CASE rq.route = "channel_create"  -> reg'[t].ch[c].ex /\ (reg[t].ch[c].ex => reg'[t] = reg[t])
                        [] rq.route = "channel_delete"  -> reg'[t].ch[c] = NoChan
                        [] rq.route = "channel_empty"   -> reg'[t].ch[c] = [reg[t].ch[c] EXCEPT !.q = <<>>]
                        [] rq.route = "channel_pause"   -> reg'[t].ch[c] = [reg[t].ch[c] EXCEPT !.paused = TRUE]
                        [] rq.route = "channel_unpause" -> reg'[t].ch[c] = [reg[t].ch[c] EXCEPT !.paused = FALSE]]_vars

\* ---- HttpPubEqTcpPub ----------------------------------------------------------------------
\* the TCP command an honest client would use for the same publish
BinOfSlices(sl) == Bin(4, Len(sl), [i \in 1..Len(sl) |-> [decl |-> sl[i].n, have |-> sl[i].n]], 0)
\* binary bodies a TCP client can send without the server waiting for more or reading a next command from the rest
TcpFramed(b) == /\ b.kind = "bin" /\ b.hdr = 4
                /\ LET e == BinParse(b, FALSE).err IN
                   IF e = "" THEN b.count = Len(b.items) /\ b.extra = 0
                   ELSE BinNeeded(b) <= BodyLen(b)          \* the server fails without wanting more bytes

HasTwin(req) ==
  /\ req.method = "POST" /\ ~req.badq /\ Len(req.topic) = 1
  /\ CASE req.route = "pub"  -> Len(req.defer) = 0 \/ (Len(req.defer) = 1 /\ Canonical(req.defer[1]))
       [] req.route = "mpub" -> IF BinaryMode(req) THEN TcpFramed(req.body)
                                ELSE req.body.kind = "text" /\ TextParse(req.body).err = "" /\ Len(TextParse(req.body).msgs) >= 1
                                     /\ BodyLen(BinOfSlices(TextParse(req.body).msgs)) <= MaxBody
       [] OTHER -> FALSE

Twin(req) ==
  LET base == [NoReq EXCEPT !.method = "TCP", !.topic = req.topic] IN
  CASE req.route = "pub" /\ Len(req.defer) = 0 -> [base EXCEPT !.route = "tcp_pub", !.body = req.body]
    [] req.route = "pub" /\ Len(req.defer) = 1 -> [base EXCEPT !.route = "tcp_dpub", !.defer = req.defer, !.body = req.body]
    [] req.route = "mpub" /\ BinaryMode(req)   -> [base EXCEPT !.route = "tcp_mpub", !.body = req.body]
    [] req.route = "mpub" /\ ~BinaryMode(req)  -> [base EXCEPT !.route = "tcp_mpub", !.body = BinOfSlices(TextParse(req.body).msgs)]

Sizes(sl) == [i \in 1..Len(sl) |-> sl[i].n]
PubEq(req, r) ==
  LET h == Handle(req, r)
      t == Handle(Twin(req), r)
  IN /\ (h.status = 200) = (t.status = 200)
     /\ (h.status = 200 => Sizes(h.enq) = Sizes(t.enq) /\ h.reg = t.reg)
     /\ (h.status # 200 => \A u \in Topics : h.reg[u].cnt = r[u].cnt /\ t.reg[u].cnt = r[u].cnt)

HttpPubEqTcpPub == \A req \in Requests : (req.route \in {"pub", "mpub"} /\ HasTwin(req)) => PubEq(req, reg)

\* the same three table-wide statements on the transition taken (cheaper in the deep sequence configurations,
\* where every request of the alphabet is taken from every registry anyway)
StepTableConsistent == [][200 \in AllowedStatus(last'.req, reg) => last'.status = 200]_vars
StepHttpPubEqTcpPub == [][(last'.req.route \in {"pub", "mpub"} /\ HasTwin(last'.req)) => PubEq(last'.req, reg)]_vars
StepDocStatus       == [][last'.status \in DocStatuses /\ BodyWF(last'.req.body)]_vars

\* what GET /stats?format=json shows of a registry (the harness compares this projection)
Obs(r) == [t \in Topics |->
            [ex |-> r[t].ex, paused |-> r[t].paused, depth |-> Len(r[t].q), cnt |-> r[t].cnt,
             bytes |-> r[t].bytes,
             ch |-> [c \in Channels |->
                       [ex |-> r[t].ch[c].ex, paused |-> r[t].ch[c].paused, depth |-> Len(r[t].ch[c].q),
                        cnt |-> r[t].ch[c].cnt,
                        def |-> Cardinality({i \in 1..Len(r[t].ch[c].q) : r[t].ch[c].q[i].d = "max"})]]]]
=============================================================================
