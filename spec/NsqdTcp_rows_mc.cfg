SPECIFICATION RowsSpec
CONSTANTS
  Setups <- SetupsQuick
  PrefixFine = FALSE
  Backlog = 2
VIEW RowView
ACTION_CONSTRAINT RowOut
CHECK_DEADLOCK FALSE
