package main

import (
	"bufio"
	"bytes"
	"encoding/json"
	"flag"
	"fmt"
	"os"

	"github.com/nsqio/nsq/internal/verif"
	"github.com/nsqio/nsq/verifharness/hlib"
)

// rawconv: a raw hook trace written by the VERIF_TRACE_FILE sink (e.g. by the repository's own tests run with
// -tags verif) -> the ndjson the TLA+ trace specs read. Every NsqdNew starts a new trace (Reset).
func rawconvMain(args []string) int {
	fs := flag.NewFlagSet("rawconv", flag.ExitOnError)
	in := fs.String("in", "", "raw trace")
	out := fs.String("out", "", "converted trace")
	fs.Parse(args)
	f, err := os.Open(*in)
	if err != nil {
		fmt.Fprintln(os.Stderr, err)
		return 2
	}
	defer f.Close()
	sc := bufio.NewScanner(f)
	sc.Buffer(make([]byte, 1<<22), 1<<24)
	var evs []verif.Event
	var base int64
	for sc.Scan() {
		dec := json.NewDecoder(bytes.NewReader(sc.Bytes()))
		dec.UseNumber()
		var m map[string]interface{}
		if dec.Decode(&m) != nil {
			continue
		}
		e := verif.Event{}
		for k, v := range m {
			switch k {
			case "seq":
				n, _ := v.(json.Number).Int64()
				e.Seq = n
			case "ev":
				e.Ev, _ = v.(string)
			default:
				switch x := v.(type) {
				case json.Number:
					n, err := x.Int64()
					if err != nil {
						fl, _ := x.Float64()
						n = int64(fl)
					}
					if (k == "now" || k == "dts" || k == "pri" || k == "t") && n > 1e18 && (base == 0 || n < base) {
						base = n
					}
					e.KV = append(e.KV, k, n)
				case map[string]interface{}:
					if k == "body" {
						crc, _ := x["crc"].(json.Number).Int64()
						ln, _ := x["len"].(json.Number).Int64()
						pre, _ := x["pre"].(string)
						e.KV = append(e.KV, k, verif.BodyDigest{CRC: uint32(crc), Len: int(ln), Pre: pre})
					}
				case []interface{}:
					var ss []string
					for _, y := range x {
						if s, ok := y.(string); ok {
							ss = append(ss, s)
						}
					}
					e.KV = append(e.KV, k, ss)
				default:
					e.KV = append(e.KV, k, v)
				}
			}
		}
		evs = append(evs, e)
	}
	w, err := hlib.NewNDJSON(*out)
	if err != nil {
		return 2
	}
	report := &Report{Shapes: map[string]int{}}
	// split at NsqdNew: each daemon instance is validated as its own trace
	var cur []verif.Event
	flush := func() {
		if len(cur) == 0 {
			return
		}
		all := append([]verif.Event{{Ev: "Reset", KV: []interface{}{"now", base}}}, cur...)
		convertTrace(all, w, report)
		cur = nil
	}
	for _, e := range evs {
		if e.Ev == "NsqdNew" {
			flush()
			continue
		}
		cur = append(cur, e)
	}
	flush()
	w.Close()
	b, _ := json.Marshal(map[string]interface{}{"events": len(evs), "kinds": report.Shapes})
	fmt.Println(string(b))
	return 0
}
