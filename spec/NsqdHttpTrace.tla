---------------------------- MODULE NsqdHttpTrace ----------------------------
(***************************************************************************)
(* Binding B for C10: executions of a real nsqd driven by a seeded random   *)
(* request generator are validated against NsqdHttp.                         *)
(*                                                                           *)
(* Each "Req" line carries the abstract request (the generator knows the     *)
(* class of what it wrote), the status and message nsqd answered, and the    *)
(* projection of GET /stats?format=json taken when the daemon was quiescent. *)
(* TraceSpec (property level): every step must satisfy StepOK -- a status    *)
(* the statement allows for the request's faults, never 500, an accepted     *)
(* request has exactly the table's effect, a rejected one changes nothing    *)
(* (a publish may have created the topic it names) -- and the registry the   *)
(* model arrives at must be the one /stats shows.  A rejection is a          *)
(* violation.  ShapeSpec additionally demands the exact status and message   *)
(* of the table; a rejection by ShapeSpec alone is model drift.              *)
(***************************************************************************)
EXTENDS NsqdHttp, Json

Trace == ndJsonDeserialize("trace.ndjson")
VARIABLE l
tvars == <<reg, last, l>>

NoLast == [req |-> NoReq, status |-> 0, msg |-> "", enq |-> <<>>]
TraceInit == reg = EmptyReg /\ last = NoLast /\ l = 1 /\ TLCSet(1, 1) /\ TLCSet(2, EmptyReg)
IsEvent(e) == l <= Len(Trace) /\ Trace[l].ev = e /\ l' = l + 1

\* /stats against a model registry: everything equal, except that deferred_count also counts the
\* short deferrals that have not lapsed yet
NSmall(q) == Cardinality({i \in 1..Len(q) : q[i].d = "small"})
ObsMatch(r, post) ==
  \A t \in Topics :
    LET o == Obs(r)[t]
        p == post[t]
    IN /\ o.ex = p.ex /\ o.paused = p.paused /\ o.depth = p.depth /\ o.cnt = p.cnt /\ o.bytes = p.bytes
       /\ \A c \in Channels :
            /\ o.ch[c].ex = p.ch[c].ex /\ o.ch[c].paused = p.ch[c].paused
            /\ o.ch[c].depth = p.ch[c].depth /\ o.ch[c].cnt = p.ch[c].cnt
            /\ p.ch[c].def >= o.ch[c].def /\ p.ch[c].def <= o.ch[c].def + NSmall(r[t].ch[c].q)

TReset == IsEvent("Reset") /\ reg' = EmptyReg /\ last' = NoLast

Candidates(rq, st) ==
  IF st = 200 THEN {Handle(rq, reg).reg}
  ELSE {reg} \cup (IF Has(rq.topic) /\ rq.topic[1] \in Topics THEN {EnsureTopic(reg, rq.topic[1])} ELSE {})

TReq(exact) ==
  /\ IsEvent("Req")
  /\ LET e == Trace[l]
         rq == e.req
     IN /\ BodyWF(rq.body)
        /\ rq.route \in HttpRoutes \cup TcpRoutes /\ rq.method \in Methods \cup {"TCP"}
        /\ last' = [req |-> rq, status |-> e.status, msg |-> e.msg, enq |-> <<>>]
        /\ reg' \in Candidates(rq, e.status)
        /\ ObsMatch(reg', e.post)
        /\ StepOK(rq, reg, e.status, reg')
        /\ exact => LET h == Handle(rq, reg) IN
                      e.status = h.status /\ (h.msg = "*" \/ rq.method = "HEAD" \/ e.msg = h.msg) /\ reg' = h.reg

TraceNext == TReset \/ TReq(FALSE)
ShapeNext == TReset \/ TReq(TRUE)
TraceSpec == TraceInit /\ [][TraceNext]_tvars
ShapeSpec == TraceInit /\ [][ShapeNext]_tvars

HW == IF l > TLCGet(1) THEN TLCSet(1, l) /\ TLCSet(2, reg) ELSE TRUE
TraceAccepted ==
  LET hw == TLCGet(1) IN
  IF hw = Len(Trace) + 1 THEN PrintT(<<"TRACE_OK", Len(Trace)>>)
  ELSE LET e == Trace[hw]
           r == TLCGet(2)
       IN /\ PrintT(<<"TRACE_REJECTED", hw, e>>)
          /\ (e.ev = "Req" =>
                PrintT(<<"TABLE_SAYS", Handle(e.req, r).status, Handle(e.req, r).msg, "allowed", AllowedStatus(e.req, r),
                         "registry_before", Obs(r), "registry_after_by_table", Obs(Handle(e.req, r).reg)>>))
          /\ FALSE
=============================================================================
