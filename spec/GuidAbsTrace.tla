---------------------------- MODULE GuidAbsTrace ----------------------------
(* Property-level trace validation for C12: the recorded calls of the real  *)
(* generator must be a behaviour of GuidAbs.                                *)
EXTENDS GuidAbs, Json, Sequences, TLC

Trace == ndJsonDeserialize("trace.ndjson")
VARIABLE l
tvars == <<avars, l>>

TraceInit == AInit /\ l = 1 /\ TLCSet(1, 1) /\ TLCSet(2, <<>>)
IsEvent(e) == l <= Len(Trace) /\ Trace[l].ev = e /\ l' = l + 1

TReset  == IsEvent("Reset") /\ high' = [n \in Nodes |-> AZero] /\ out' = [node |-> -1, err |-> "none", id |-> AZero]
TInject == /\ IsEvent("Inject")
           /\ LET e == Trace[l] IN high' = [high EXCEPT ![e.n] = <<e.idts, e.idnode, e.idsq>>]
           /\ UNCHANGED out
TGuid   == /\ IsEvent("Guid")
           /\ LET e == Trace[l] IN
                out' = [node |-> e.n, err |-> e.err,
                        id |-> IF e.err = "" THEN <<e.idts, e.idnode, e.idsq>> ELSE AZero]
           /\ ANext

TraceNext == TReset \/ TInject \/ TGuid
TraceSpec == TraceInit /\ [][TraceNext]_tvars

HW == IF l > TLCGet(1) THEN TLCSet(1, l) /\ TLCSet(2, high) ELSE TRUE
TraceAccepted ==
  LET hw == TLCGet(1) IN
  IF hw = Len(Trace) + 1 THEN PrintT(<<"TRACE_OK", Len(Trace)>>)
  ELSE PrintT(<<"TRACE_REJECTED", hw, Trace[hw], TLCGet(2)>>) /\ FALSE
=============================================================================
