package main

import (
	"flag"
	"fmt"
	"os"
	"sync"
	"sync/atomic"
	"time"

	"github.com/nsqio/nsq/nsqd"
)

// exitstorm: ONE graceful shutdown requested while topics / channels are being created and ephemeral channels lose
// their last consumer (each of these notifies the lookup loop and the metadata writer). Run as a child process:
// if the daemon panics the process dies with the Go runtime's trace on stderr, which is the observation.
func exitstormMain(args []string) int {
	fs := flag.NewFlagSet("exitstorm", flag.ExitOnError)
	dir := fs.String("dir", "", "data dir")
	workers := fs.Int("workers", 8, "creating goroutines")
	delayUs := fs.Int("delay-us", 2000, "microseconds of storm before the shutdown request")
	fs.Parse(args)
	nd, err := startNode(*dir, func(o *nsqd.Options) { o.MemQueueSize = 10 })
	if err != nil {
		fmt.Fprintln(os.Stderr, "inconclusive: start:", err)
		return 2
	}
	if st, _, err := nd.post("/topic/create?topic=t", nil); err != nil || st != 200 {
		fmt.Fprintln(os.Stderr, "inconclusive: create topic")
		return 2
	}
	var stop int32
	var created int64
	var wg sync.WaitGroup
	for w := 0; w < *workers; w++ {
		wg.Add(1)
		go func(w int) {
			defer wg.Done()
			for i := 0; atomic.LoadInt32(&stop) == 0; i++ {
				// what a SUB or an HTTP create does; names are fresh, so every call creates (and notifies)
				if w%2 == 0 {
					nd.N.GetTopic("t").GetChannel(fmt.Sprintf("c%d_%d#ephemeral", w, i))
				} else {
					nd.N.GetTopic(fmt.Sprintf("t%d_%d#ephemeral", w, i))
				}
				atomic.AddInt64(&created, 1)
			}
		}(w)
	}
	time.Sleep(time.Duration(*delayUs) * time.Microsecond)
	err = nd.stop(60 * time.Second)
	atomic.StoreInt32(&stop, 1)
	wg.Wait()
	if err != nil {
		fmt.Println("BLOCKED", err)
		return 3
	}
	fmt.Println("OK created", atomic.LoadInt64(&created))
	return 0
}
