package main

import (
	"bytes"
	"compress/gzip"
	"fmt"
	"math/rand"
	"os"
	"os/exec"
	"path/filepath"
	"regexp"
	"sort"
	"strconv"
	"strings"
	"sync"
	"syscall"
	"time"

	"github.com/nsqio/nsq/nsqd"
)

type scenOpts struct {
	Gzip        bool   `json:"gzip"`
	WorkDir     bool   `json:"workdir"`
	SkipEmpty   bool   `json:"skip_empty"`
	RotSize     int64  `json:"rotate_size"`
	RotIntMs    int    `json:"rotate_interval_ms"`
	DateFmt     string `json:"datetime_format"`
	SyncMs      int    `json:"sync_interval_ms"`
	MaxInFlight int    `json:"max_in_flight"`
}

type scenario struct {
	ID      int      `json:"id"`
	Opts    scenOpts `json:"opts"`
	NMsgs   int      `json:"msgs"`
	Backlog int      `json:"backlog"`
	Stop    string   `json:"stop"`   // term | kill | inject | drainterm
	Inject  string   `json:"inject"` // kill point (stop == inject): "<class>:<k>" = SIGKILL right after the k-th return of a
	//                                   call of that class (open|write|fsync|close|link|unlink on a data file, fin = FIN
	//                                   written to nsqd); strace holds the process in delay_exit meanwhile
	Pc      string `json:"pc"` // the FileLogger.tla program counter this kill point stands for
	SpanMs  int    `json:"span_ms"`
	StopMs  int    `json:"stop_ms"`
	Hups    []int  `json:"hups_ms"`
	Pre     int    `json:"preexisting"`
	Post    int    `json:"post_restart_msgs"` // messages published only after the restart (the last Post of msgs)
	Restart string `json:"restart"`           // "", "term", "kill": after the stop the tool is started again over what is there
	Foreign int    `json:"foreign_ms"`        // >0: at this time somebody else creates, in the output dir, the names of the work files
	Fault   string `json:"fault"`             // "<calls>:<errno>:<k>": the k-th call of that class fails with that errno (strace inject), e.g. an
	//                                           fsync that reports EIO; the tool may give up, it must not acknowledge what the call was for
	Probe   bool   `json:"foreign_on_probe"`  // whenever the tool looks whether a name in the output dir is free (stat / access = ENOENT) and is
	//                                           held there by strace, somebody else creates exactly that name before it goes on
	TinyKB  int    `json:"tiny_fs_kb"`        // >0: the output dir is a file system of that many KB (tmpfs): it fills up, write(2) fails with ENOSPC
	Seed    int64  `json:"seed"`
}

type violation struct {
	Key      string      `json:"key"`
	What     string      `json:"what"`
	Scenario scenario    `json:"scenario"`
	Detail   interface{} `json:"detail,omitempty"`
}

type scenResult struct {
	Sc           scenario
	Events       []map[string]interface{}
	Violations   []violation
	Inconclusive string
	Notes        []string
	Published    int
	NotOwed      int
	Owed         int
	Fins         int
	Fsyncs       int
	Creates      int
	Links        int
	LinkEEXIST   int
	OpenEEXIST   int
	OpenOld      int
	Files        int
	GzTruncated  int
	TornMembers  int
	Killed       bool
	ExitCode     int
	Stuck        bool
	InjectFired  bool
	WallMs       int64
	Sample       map[string]interface{}
	Fatal        string
}

const padChars = "abcdefghijklmnopqrtuvwxyzABCDEFGHIJKLMNOPQRSTUVWXYZ0123456789 \t{}[]\",:;/\\\x01\x7f\x80\xfe\xff"

func revStr(o scenOpts, rev int) string {
	if o.Gzip || o.RotSize > 0 || o.RotIntMs > 0 || o.WorkDir {
		return fmt.Sprintf("-%06d", rev)
	}
	return ""
}

func goLayout(f string) string {
	r := strings.NewReplacer("%Y", "2006", "%m", "01", "%d", "02", "%H", "15", "%M", "04", "%S", "05")
	return r.Replace(f)
}

func fileName(o scenOpts, topic string, rev int, t time.Time) string {
	n := topic + ".h" + revStr(o, rev) + "." + t.Format(goLayout(o.DateFmt)) + ".log"
	if o.Gzip {
		n += ".gz"
	}
	return n
}

func gz(b []byte) []byte {
	var buf bytes.Buffer
	w := gzip.NewWriter(&buf)
	w.Write(b)
	w.Close()
	return buf.Bytes()
}

// findTool finds the traced nsq_to_file of one scenario: the process whose command line is the binary with this
// scenario's (unique) output directory.  (strace forks short-lived children of its own at start-up, and it runs
// under timeout(1), so the process tree is not a reliable guide.)
func findTool(bin, out string) int {
	ents, _ := os.ReadDir("/proc")
	for _, e := range ents {
		pid, err := strconv.Atoi(e.Name())
		if err != nil {
			continue
		}
		cl, err := os.ReadFile("/proc/" + e.Name() + "/cmdline")
		if err != nil {
			continue
		}
		if strings.HasPrefix(string(cl), bin+"\x00") && strings.Contains(string(cl), "\x00-output-dir\x00"+out+"\x00") {
			return pid
		}
	}
	return 0
}

// hardLimit: whatever happens to the harness, no traced tool outlives this (timeout(1) kills its process group)
var hardLimit = []string{"-s", "KILL", "1500", "strace"}

const probeSet = "newfstatat,lstat,stat,statx,access,faccessat,faccessat2"

const straceSet = "openat,open,creat,write,pwrite64,writev,pwritev,pwritev2,fsync,fdatasync,close,link,linkat,unlink,unlinkat," +
	"rename,renameat,renameat2,truncate,ftruncate,sendfile,copy_file_range,fallocate"

func runScenario(base string, sc scenario, bin string) (res scenResult) {
	t0 := time.Now()
	res.Sc = sc
	defer func() { res.WallMs = time.Since(t0).Milliseconds() }()
	rng := rand.New(rand.NewSource(sc.Seed))
	fail := func(f string, a ...interface{}) scenResult {
		res.Inconclusive = fmt.Sprintf(f, a...)
		return res
	}
	o := sc.Opts
	out := filepath.Join(base, "out")
	work := out
	if o.WorkDir {
		work = filepath.Join(base, "work")
	}
	os.MkdirAll(out, 0755)
	os.MkdirAll(work, 0755)
	if sc.TinyKB > 0 {
		if err := exec.Command("mount", "-t", "tmpfs", "-o", fmt.Sprintf("size=%dk", sc.TinyKB), "tmpfs", out).Run(); err != nil {
			// not allowed here: the scenario runs on the ordinary file system (nothing fills up)
			sc.TinyKB = 0
		} else {
			defer exec.Command("umount", "-l", out).Run()
		}
	}
	n, err := startNSQD(filepath.Join(base, "nsqd"), 2*time.Second)
	if err != nil {
		return fail("nsqd: %v", err)
	}
	defer n.Exit()
	topicName := fmt.Sprintf("c19t%d", sc.ID)
	const channel = "nsq_to_file"
	topic := n.GetTopic(topicName)
	topic.GetChannel(channel)

	// messages
	bodies := make([][]byte, sc.NMsgs+1)
	ids := make([]string, sc.NMsgs+1)
	bodyTok := map[string]int{}
	idTok := map[string]int{}
	for i := 1; i <= sc.NMsgs; i++ {
		b := []byte(fmt.Sprintf("s%d-m%d-", sc.ID, i))
		k := rng.Intn(120)
		if rng.Intn(6) == 0 {
			k = 0
		}
		if sc.TinyKB > 0 {
			k = 6000 + rng.Intn(3000) // a dozen of these fill the file system
		}
		for j := 0; j < k; j++ {
			b = append(b, padChars[rng.Intn(len(padChars))])
		}
		bodies[i] = b
		bodyTok[string(b)] = i
	}
	publish := func(i int) error {
		m := nsqd.NewMessage(topic.GenerateID(), bodies[i])
		ids[i] = string(m.ID[:])
		idTok[ids[i]] = i
		return topic.PutMessage(m)
	}

	// pre-existing files with names the tool is going to want
	model := newFSModel([]string{out, work}, bodyTok, idTok)
	model.cwd = base
	preContent := map[string][]byte{}
	now := time.Now()
	for k := 0; k < sc.Pre; k++ {
		dt := now
		if strings.Contains(o.DateFmt, "%S") {
			dt = now.Add(time.Duration(rng.Intn(4)) * time.Second)
		}
		dir := out
		if o.WorkDir && rng.Intn(2) == 0 {
			dir = work
		}
		p := filepath.Join(dir, fileName(o, topicName, rng.Intn(2), dt))
		if _, ok := preContent[p]; ok {
			continue
		}
		var c []byte
		lines := 1 + rng.Intn(3)
		if o.RotSize > 0 && rng.Intn(3) == 0 {
			lines = 12 // bigger than --rotate-size: the "currently N bytes, rotating" branch of updateFile
		}
		for j := 0; j < lines; j++ {
			c = append(c, []byte(fmt.Sprintf("old:%s:%d:%08x\n", filepath.Base(p), j, rng.Uint32()))...)
		}
		if o.Gzip {
			c = gz(c)
		} else if rng.Intn(3) == 0 {
			c = c[:len(c)-1] // no final newline
		}
		if err := os.WriteFile(p, c, 0644); err != nil {
			return fail("pre-existing file: %v", err)
		}
		preContent[p] = c
	}
	prePaths := make([]string, 0, len(preContent))
	for p := range preContent {
		prePaths = append(prePaths, p)
	}
	sort.Strings(prePaths)
	for _, p := range prePaths {
		model.pre(p, preContent[p])
	}

	next := 1
	for ; next <= sc.Backlog && next <= sc.NMsgs && (sc.Restart == "" || next <= sc.NMsgs-sc.Post); next++ {
		if err := publish(next); err != nil {
			return fail("publish: %v", err)
		}
	}

	// the tool under strace
	slog := filepath.Join(base, "strace.log")
	args := []string{"-f", "-y", "-xx", "-s", "1048576", "-o", slog, "-e", "signal=none", "-e", "trace=" + straceSet}
	killClass, killK := "", 0
	if sc.Stop == "inject" {
		f := strings.SplitN(sc.Inject, ":", 2)
		killClass = f[0]
		killK, _ = strconv.Atoi(f[1])
		call := map[string]string{"open": "openat", "write": "write", "gzhdr": "write", "fin": "write", "fsync": "fsync", "close": "close",
			"link": "linkat", "unlink": "unlinkat"}[killClass]
		// every return of that call is held for 40 ms: time for the watcher below to land the SIGKILL exactly there
		args = append(args, "-e", "inject="+call+":delay_exit=40000")
	}
	if sc.Fault != "" && sc.Stop != "inject" {
		f := strings.SplitN(sc.Fault, ":", 3)
		args = append(args, "-e", "inject="+f[0]+":error="+f[1]+":when="+f[2])
	}
	probe := sc.Probe && o.WorkDir && sc.Stop != "inject"
	if probe {
		args[len(args)-1] += "," + probeSet
		args = append(args, "-e", "inject="+probeSet+":delay_exit=30000")
	}
	toolArgs := []string{bin,
		"-nsqd-tcp-address", n.RealTCPAddr().String(), "-topic", topicName, "-channel", channel,
		"-output-dir", out, "-host-identifier", "h", "-datetime-format", o.DateFmt,
		"-sync-interval", fmt.Sprintf("%dms", o.SyncMs), "-max-in-flight", strconv.Itoa(o.MaxInFlight)}
	if o.WorkDir {
		toolArgs = append(toolArgs, "-work-dir", work)
	}
	if sc.TinyKB > 0 {
		// whatever the tool does about a message it could not write (give up, try again), it goes about it quickly
		toolArgs = append(toolArgs, "-consumer-opt", "default_requeue_delay,40ms", "-consumer-opt", "max_requeue_delay,100ms",
			"-consumer-opt", "max_backoff_duration,40ms", "-consumer-opt", "backoff_multiplier,10ms")
	}
	if o.Gzip {
		toolArgs = append(toolArgs, "-gzip")
	}
	if o.SkipEmpty {
		toolArgs = append(toolArgs, "-skip-empty-files")
	}
	if o.RotSize > 0 {
		toolArgs = append(toolArgs, "-rotate-size", strconv.FormatInt(o.RotSize, 10))
	}
	if o.RotIntMs > 0 {
		toolArgs = append(toolArgs, "-rotate-interval", fmt.Sprintf("%dms", o.RotIntMs))
	}
	args = append(args, toolArgs...)
	cmd := exec.Command("timeout", append(append([]string(nil), hardLimit...), args...)...)
	cmd.Dir = base
	tl, _ := os.Create(filepath.Join(base, "tool.log"))
	cmd.Stdout, cmd.Stderr = tl, tl
	cmd.SysProcAttr = &syscall.SysProcAttr{Setpgid: true}
	if err := cmd.Start(); err != nil {
		tl.Close()
		return fail("strace: %v", err)
	}
	done := make(chan error, 1)
	go func() { done <- cmd.Wait() }()
	exited := false
	var waitErr error
	defer func() {
		if !exited {
			syscall.Kill(-cmd.Process.Pid, syscall.SIGKILL)
			<-done
		}
		tl.Close()
	}()
	tool := 0
	for dl := time.Now().Add(30 * time.Second); tool == 0 && time.Now().Before(dl); {
		select {
		case waitErr = <-done:
			exited = true
			dl = time.Now()
		default:
			if tool = findTool(bin, out); tool == 0 {
				time.Sleep(2 * time.Millisecond)
			}
		}
	}
	if tool == 0 && !exited {
		return fail("could not find the traced process")
	}
	signalTool := func(s syscall.Signal) {
		if !exited && tool != 0 {
			syscall.Kill(tool, s)
		}
	}
	waitExit := func(d time.Duration) bool {
		if exited {
			return true
		}
		select {
		case waitErr = <-done:
			exited = true
		case <-time.After(d):
		}
		return exited
	}

	// kill point: watch the (line-buffered) strace log, SIGKILL on the k-th matching return
	fired := make(chan bool, 1)
	stopWatch := make(chan struct{})
	defer close(stopWatch)
	if killClass != "" {
		go watchAndKill(slog, killClass, killK, []string{out, work}, tool, fired, stopWatch)
	}
	var probeMu sync.Mutex
	probed := map[string][]byte{}
	if probe {
		go watchProbes(slog, out, o.Gzip, sc.Seed, &probeMu, probed, stopWatch)
	}

	// timeline
	type act struct {
		at   int
		kind string
		i    int
	}
	var acts []act
	firstPhase := sc.NMsgs
	if sc.Restart != "" {
		firstPhase -= sc.Post
	}
	rest := firstPhase - next + 1
	if rest < 0 {
		rest = 0
	}
	at := 0
	for i := 0; i < rest; i++ {
		if rng.Intn(3) == 0 {
			at += rng.Intn(1 + 3*sc.SpanMs/(rest+1))
		}
		acts = append(acts, act{at, "pub", next + i})
	}
	for _, h := range sc.Hups {
		acts = append(acts, act{h, "hup", 0})
	}
	if sc.Stop == "term" || sc.Stop == "kill" {
		acts = append(acts, act{sc.StopMs, "stop", 0})
	}
	if sc.Foreign > 0 && o.WorkDir {
		acts = append(acts, act{sc.Foreign, "foreign", 0})
	}
	var foreignPaths []string
	sort.SliceStable(acts, func(a, b int) bool { return acts[a].at < acts[b].at })
	start := time.Now()
	stopped := false
	for _, a := range acts {
		if d := time.Duration(a.at)*time.Millisecond - time.Since(start); d > 0 {
			if waitExit(d) {
				// the tool is gone (injected kill, FATAL): the remaining messages are still published
			}
		}
		switch a.kind {
		case "pub":
			if err := publish(a.i); err != nil {
				return fail("publish: %v", err)
			}
		case "hup":
			signalTool(syscall.SIGHUP)
		case "foreign":
			ents, _ := os.ReadDir(work)
			for _, e := range ents {
				p := filepath.Join(out, e.Name())
				c := []byte(fmt.Sprintf("foreign:%s:%08x\n", e.Name(), rng.Uint32()))
				if o.Gzip {
					c = gz(c)
				}
				f, err := os.OpenFile(p, os.O_WRONLY|os.O_CREATE|os.O_EXCL, 0644)
				if err != nil {
					continue // the tool got there first: nothing foreign then
				}
				f.Write(c)
				f.Close()
				preContent[p] = c
				foreignPaths = append(foreignPaths, p)
			}
		case "stop":
			if stopped {
				continue
			}
			stopped = true
			if sc.Stop == "kill" {
				signalTool(syscall.SIGKILL)
			} else {
				signalTool(syscall.SIGTERM)
			}
		}
	}
	res.Published = sc.NMsgs
	switch sc.Stop {
	case "drainterm":
		for dl := time.Now().Add(40 * time.Second); time.Now().Before(dl) && !exited; {
			cc, _ := channelCounts(n, topicName, channel)
			if cc.Messages >= uint64(sc.NMsgs) && cc.Depth == 0 && cc.InFlight == 0 && cc.Deferred == 0 {
				break
			}
			waitExit(20 * time.Millisecond)
		}
		signalTool(syscall.SIGTERM)
	case "inject":
		if !waitExit(time.Duration(sc.SpanMs+1500) * time.Millisecond) {
			signalTool(syscall.SIGTERM) // the chosen call never happened that often
		}
	}
	if !waitExit(120 * time.Second) {
		res.Stuck = true
		res.Notes = append(res.Notes, "tool did not exit within 120 s of its stop signal; killed")
		signalTool(syscall.SIGKILL)
		if !waitExit(60 * time.Second) {
			return fail("strace did not exit")
		}
	}
	if ee, ok := waitErr.(*exec.ExitError); ok {
		res.ExitCode = ee.ExitCode()
		if ws, ok := ee.Sys().(syscall.WaitStatus); ok && ws.Signaled() {
			res.ExitCode = 128 + int(ws.Signal())
		}
	}

	// second incarnation: the tool comes back over the files the first one left, nsqd re-delivers what it still owes
	slog2 := ""
	if sc.Restart != "" {
		slog2 = filepath.Join(base, "strace2.log")
		a2 := append([]string{"-f", "-y", "-xx", "-s", "1048576", "-o", slog2, "-e", "signal=none", "-e", "trace=" + straceSet}, toolArgs...)
		cmd2 := exec.Command("timeout", append(append([]string(nil), hardLimit...), a2...)...)
		cmd2.Dir = base
		tl2, _ := os.Create(filepath.Join(base, "tool2.log"))
		cmd2.Stdout, cmd2.Stderr = tl2, tl2
		cmd2.SysProcAttr = &syscall.SysProcAttr{Setpgid: true}
		if err := cmd2.Start(); err != nil {
			tl2.Close()
			return fail("strace (2nd): %v", err)
		}
		done2 := make(chan error, 1)
		go func() { done2 <- cmd2.Wait() }()
		gone := false
		wait2 := func(d time.Duration) bool {
			if !gone {
				select {
				case <-done2:
					gone = true
				case <-time.After(d):
				}
			}
			return gone
		}
		tool2 := 0
		for dl := time.Now().Add(30 * time.Second); tool2 == 0 && time.Now().Before(dl) && !wait2(2*time.Millisecond); {
			tool2 = findTool(bin, out)
		}
		// more traffic for the second incarnation: what it acknowledges must be readable too, in whatever file it
		// chose to continue (the leftovers of the first one may end in a torn record / torn gzip member)
		for i := sc.NMsgs - sc.Post + 1; i <= sc.NMsgs; i++ {
			if i < 1 || ids[i] != "" {
				continue
			}
			if rng.Intn(3) == 0 {
				wait2(time.Duration(rng.Intn(120)) * time.Millisecond)
			}
			if err := publish(i); err != nil {
				return fail("publish: %v", err)
			}
		}
		if sc.Restart == "kill" {
			wait2(time.Duration(200+rng.Intn(2500)) * time.Millisecond)
			if !gone && tool2 != 0 {
				syscall.Kill(tool2, syscall.SIGKILL)
			}
		} else {
			for dl := time.Now().Add(40 * time.Second); time.Now().Before(dl) && !gone; {
				cc, _ := channelCounts(n, topicName, channel)
				if cc.Messages >= uint64(sc.NMsgs) && cc.Depth == 0 && cc.InFlight == 0 && cc.Deferred == 0 {
					break
				}
				wait2(20 * time.Millisecond)
			}
			if !gone && tool2 != 0 {
				syscall.Kill(tool2, syscall.SIGTERM)
			}
		}
		if !wait2(120 * time.Second) {
			syscall.Kill(-cmd2.Process.Pid, syscall.SIGKILL)
			wait2(60 * time.Second)
			res.Stuck = true
		}
		tl2.Close()
		if !gone {
			return fail("strace (2nd) did not exit")
		}
	}

	if tb, err := os.ReadFile(filepath.Join(base, "tool.log")); err == nil {
		for _, l := range strings.Split(string(tb), "\n") {
			if i := strings.Index(l, "FATAL: "); i >= 0 {
				msg := l[i+7:]
				if j := strings.Index(msg, "] "); j >= 0 {
					msg = msg[j+2:]
				}
				res.Fatal = regexp.MustCompile(`/\S+`).ReplaceAllString(msg, "<path>")
			}
		}
	}

	// what does nsqd still owe?  in-flight messages of the dead client come back after msg-timeout
	var cc chanCounts
	var ccHist []string
	for dl := time.Now().Add(60 * time.Second); ; {
		cc, _ = channelCounts(n, topicName, channel)
		if h := fmt.Sprintf("%+v", cc); len(ccHist) == 0 || !strings.HasSuffix(ccHist[len(ccHist)-1], h) {
			ccHist = append(ccHist, fmt.Sprintf("%dms %s", time.Since(t0).Milliseconds(), h))
		}
		// Messages: everything published has been copied from the topic into the channel
		if cc.Messages >= uint64(sc.NMsgs) && cc.InFlight == 0 && cc.Deferred == 0 {
			// nsqd's stats are not one atomic snapshot (depth is read before the message count): look once more now
			// that the count is known to be complete
			cc, _ = channelCounts(n, topicName, channel)
			if cc.InFlight == 0 && cc.Deferred == 0 {
				break
			}
		}
		if time.Now().After(dl) {
			return fail("in-flight messages of the stopped tool never came back: %+v", cc)
		}
		time.Sleep(20 * time.Millisecond)
	}
	settleSeq := dbgSeq()
	owedByStats := int(cc.Depth + cc.InFlight + cc.Deferred)
	drained, err := drainChannel(n, topicName, channel, time.Now().Add(90*time.Second))
	if err != nil {
		return fail("drain: %v", err)
	}
	owed := map[int]bool{}
	for _, id := range drained {
		t, ok := idTok[id]
		if !ok {
			return fail("drained an id that was never published: %q", id)
		}
		owed[t] = true
	}
	res.Owed = len(owed)
	res.NotOwed = sc.NMsgs - len(owed)
	if owedByStats != len(drained) {
		cc2, _ := channelCounts(n, topicName, channel)
		res.Notes = append(res.Notes, fmt.Sprintf("stats said %d owed (%+v), drained %d deliveries of %d messages; afterwards %+v; stop=%s restart=%s exit=%d",
			owedByStats, cc, len(drained), len(owed), cc2, sc.Stop, sc.Restart, res.ExitCode))
	}

	// ---- inspection of the directories (independent of the syscall log)
	type fileView struct {
		path     string
		raw      []byte
		readable []byte
		tornTail bool
	}
	var views []fileView
	for _, d := range []string{out, work} {
		filepath.Walk(d, func(p string, fi os.FileInfo, err error) error {
			if err != nil || fi.IsDir() {
				return nil
			}
			for _, v := range views {
				if v.path == p {
					return nil
				}
			}
			raw, err := os.ReadFile(p)
			if err != nil {
				return nil
			}
			v := fileView{path: p, raw: raw, readable: raw}
			if strings.HasSuffix(p, ".gz") {
				off, text := gunzipMembers(raw, 0)
				v.readable = text
				v.tornTail = off < len(raw)
				if v.tornTail {
					res.GzTruncated++
				}
			}
			views = append(views, v)
			return nil
		})
	}
	res.Files = len(views)
	var missing []int
	for i := 1; i <= sc.NMsgs; i++ {
		if owed[i] {
			continue
		}
		rec := append(append([]byte(nil), bodies[i]...), '\n')
		found := false
		for _, v := range views {
			if bytes.Contains(v.readable, rec) {
				found = true
				break
			}
		}
		if !found {
			missing = append(missing, i)
		}
	}
	if len(missing) > 0 {
		res.Violations = append(res.Violations, violation{
			Key:      "inspect:acked-message-missing",
			What:     fmt.Sprintf("%d message(s) nsqd no longer owes are not in any readable output file after stop=%s (first: message %d id %s)", len(missing), sc.Stop, missing[0], ids[missing[0]]),
			Scenario: sc, Detail: map[string]interface{}{"missing": missing, "owed": len(owed), "published": sc.NMsgs}})
	}
	probeMu.Lock()
	for p, c := range probed {
		preContent[p] = c
		foreignPaths = append(foreignPaths, p)
	}
	probeMu.Unlock()
	sort.Strings(foreignPaths)
	for _, p := range append(append([]string(nil), prePaths...), foreignPaths...) {
		c := preContent[p]
		kept := false
		for _, v := range views {
			if bytes.HasPrefix(v.raw, c) {
				kept = true
				break
			}
		}
		if !kept {
			res.Violations = append(res.Violations, violation{
				Key:      "inspect:existing-file-overwritten",
				What:     fmt.Sprintf("pre-existing file %s: its content is no longer the beginning of any file in the output/work directories", filepath.Base(p)),
				Scenario: sc})
		}
	}

	// ---- the syscall log as a behaviour of FileLoggerAbs
	// files somebody else created meanwhile: for the tool they simply exist (it only stats / links those names)
	for _, p := range foreignPaths {
		model.pre(p, preContent[p])
	}
	recs, killed, err := parseStrace(slog)
	if err != nil {
		return fail("strace log: %v", err)
	}
	res.Killed = killed || res.ExitCode == 137
	select {
	case res.InjectFired = <-fired:
	default:
	}
	if err := model.apply(recs); err != nil {
		return fail("syscall log not understood: %v", err)
	}
	if slog2 != "" {
		recs2, _, err := parseStrace(slog2)
		if err != nil {
			return fail("strace log (2nd): %v", err)
		}
		model.died()
		if err := model.apply(recs2); err != nil {
			return fail("syscall log (2nd) not understood: %v", err)
		}
	}
	if len(model.unknownFin) > 0 {
		return fail("FIN for ids nobody published: %v", model.unknownFin)
	}
	// the black-box verdict of nsqd joins the trace: what it no longer owes must already be inside fsynced prefixes,
	// so that even the worst power loss FileLoggerAbs allows at the instant of the stop leaves it readable
	var settled []int
	for i := 1; i <= sc.NMsgs; i++ {
		if !owed[i] {
			settled = append(settled, i)
		}
	}
	if settled == nil {
		settled = []int{}
	}
	model.died()
	model.emit("Settled", "m", settled)
	model.emit("PowerLoss")
	res.Events = model.events
	res.Fins, res.Fsyncs, res.Creates, res.Links = model.nFin, model.nFsync, model.nCreate, model.nLink
	res.LinkEEXIST, res.OpenEEXIST, res.OpenOld = model.nLinkEEXIST, model.nOpenEEXIST, model.nOpenOld
	res.TornMembers = model.nTorn
	// cross-check of the two views: a message nsqd does not owe any more must have had its FIN in the log
	finned := map[int]bool{}
	for _, t := range model.finOrder {
		finned[t] = true
	}
	if owedByStats != len(drained) {
		var both []int
		for i := 1; i <= sc.NMsgs; i++ {
			if owed[i] && finned[i] {
				both = append(both, i)
			}
		}
		res.Notes = append(res.Notes, fmt.Sprintf("counts seen while settling: %v (mark %d); drained although a FIN for them is in the syscall log: %v (of %d)",
			ccHist, settleSeq, both, sc.NMsgs))
	}
	for i := 1; i <= sc.NMsgs; i++ {
		if !owed[i] && !finned[i] {
			return fail("message %d is not owed by nsqd but no FIN for it is in the syscall log", i)
		}
	}
	if len(model.events) > 0 {
		res.Sample = map[string]interface{}{"scenario": sc, "exit": res.ExitCode, "published": sc.NMsgs, "not_owed": res.NotOwed,
			"files": res.Files, "fins": res.Fins, "fsyncs": res.Fsyncs, "first_events": model.events[:min(len(model.events), 14)]}
	}
	return res
}

func hexOf(s string) string {
	var b strings.Builder
	for i := 0; i < len(s); i++ {
		fmt.Fprintf(&b, "\\x%02x", s[i])
	}
	return b.String()
}

// watchAndKill tails the strace log and sends SIGKILL to the tool right after the k-th successful return of a
// call of the given class (the tool is held by strace's delay_exit at that moment).
func watchAndKill(path, class string, k int, dirs []string, pid int, fired chan<- bool, stop <-chan struct{}) {
	call := map[string]string{"open": " openat(", "write": " write(", "gzhdr": " write(", "fin": " write(", "fsync": " fsync(", "close": " close(",
		"link": " linkat(", "unlink": " unlinkat("}[class]
	hexGz := "\"" + hexOf("\x1f\x8b\x08\x00\x00\x00\x00\x00\x00\xff") + "\""
	var hexDirs []string
	for _, d := range dirs {
		hexDirs = append(hexDirs, hexOf(strings.TrimSuffix(d, "/")+"/"))
	}
	hexFin := hexOf("FIN ")
	onData := func(line string) bool {
		for _, h := range hexDirs {
			if strings.Contains(line, h) {
				return true
			}
		}
		return false
	}
	var f *os.File
	var buf []byte
	tmp := make([]byte, 1<<16)
	count := 0
	for {
		select {
		case <-stop:
			if f != nil {
				f.Close()
			}
			return
		default:
		}
		if f == nil {
			f, _ = os.Open(path)
			if f == nil {
				time.Sleep(time.Millisecond)
				continue
			}
		}
		n, _ := f.Read(tmp)
		if n == 0 {
			time.Sleep(500 * time.Microsecond)
			continue
		}
		buf = append(buf, tmp[:n]...)
		for {
			i := bytes.IndexByte(buf, '\n')
			if i < 0 {
				break
			}
			line := string(buf[:i])
			buf = buf[i+1:]
			if !strings.Contains(line, "(DELAYED)") || !strings.Contains(line, call) || strings.Contains(line, "= -1") {
				continue
			}
			switch class {
			case "fin":
				if !strings.Contains(line, hexFin) {
					continue
				}
			case "gzhdr": // the 10-byte gzip header: a member has just been opened, the batch in it is pending
				if !onData(line) || !strings.Contains(line, hexGz) {
					continue
				}
			case "open", "write", "close":
				if !onData(line) {
					continue
				}
			}
			count++
			if count == k {
				syscall.Kill(pid, syscall.SIGKILL)
				fired <- true
				f.Close()
				return
			}
		}
	}
}

// watchProbes tails the strace log: whenever the tool has just learnt that a name in the output directory is free (a
// stat / access call answered ENOENT; strace holds the tool in delay_exit), somebody else takes that name.  Code that
// hands its file over with link(2) never asks first and is unaffected; code that asks and then renames is caught
// between its two steps.
func watchProbes(path, out string, gzipped bool, seed int64, mu *sync.Mutex, made map[string][]byte, stop <-chan struct{}) {
	hexOut := hexOf(strings.TrimSuffix(out, "/") + "/")
	rng := rand.New(rand.NewSource(seed ^ 0x5eed))
	re := regexp.MustCompile(`"((?:\\x[0-9a-f]{2})+)"`)
	var f *os.File
	var buf []byte
	tmp := make([]byte, 1<<16)
	for {
		select {
		case <-stop:
			if f != nil {
				f.Close()
			}
			return
		default:
		}
		if f == nil {
			f, _ = os.Open(path)
			if f == nil {
				time.Sleep(time.Millisecond)
				continue
			}
		}
		n, _ := f.Read(tmp)
		if n == 0 {
			time.Sleep(500 * time.Microsecond)
			continue
		}
		buf = append(buf, tmp[:n]...)
		for {
			i := bytes.IndexByte(buf, '\n')
			if i < 0 {
				break
			}
			line := string(buf[:i])
			buf = buf[i+1:]
			if !strings.Contains(line, "ENOENT") || !strings.Contains(line, hexOut) {
				continue
			}
			isProbe := false
			for _, c := range strings.Split(probeSet, ",") {
				if strings.Contains(line, " "+c+"(") {
					isProbe = true
				}
			}
			if !isProbe {
				continue
			}
			for _, m := range re.FindAllStringSubmatch(line, -1) {
				p := unhex(m[1])
				if !strings.HasPrefix(p, strings.TrimSuffix(out, "/")+"/") || strings.HasSuffix(p, "/") {
					continue
				}
				c := []byte(fmt.Sprintf("foreign:%s:%08x\n", filepath.Base(p), rng.Uint32()))
				if gzipped {
					c = gz(c)
				}
				fd, err := os.OpenFile(p, os.O_WRONLY|os.O_CREATE|os.O_EXCL, 0644)
				if err != nil {
					continue
				}
				fd.Write(c)
				fd.Close()
				mu.Lock()
				made[p] = c
				mu.Unlock()
			}
		}
	}
}
