"""C15 -- nsqlookupd survives arbitrary input (spec: LookupdInput, LookupdInputRows, LookupdInputTrace)."""
import json
import os
from vlib import Inconclusive, log

META = {
    "technique": "TLC checks LookupdInput.tla (total input-class table for the TCP protocol and the HTTP API + daemon state "
                 "machine with a bystander: OthersUntouched, StillServing, SizesRefused, ErrorsAreRefusals; named deviations "
                 "as leads); every table row TLC prints is replayed in several concrete spellings against the real "
                 "nsqlookupd child process with a bystander producer; seeded mutated byte streams / generated HTTP requests "
                 "are classified by a reference classifier, compared with the table and validated by TLC (LookupdInputTrace)",
    "design_ref": "5/C15",
}

# what a lead of the as-implemented configurations looks like when the replay confirms it on the real binary
LEADS = [
    ("LookupdInput_negsize.cfg", "negSizeCrash", "identify-negative-body-size"),
    ("LookupdInput_hugesize.cfg", "hugeSizeAlloc", "identify-huge-body-size"),
    ("LookupdInput_wildcard.cfg", "unvalidatedAdminTopic", "http-delete-topic-wildcard / http-tombstone-topic-wildcard"),
]


def _s(x):
    return x.strip('"')


def _b(x):
    return x == "TRUE"


def extract_rows(r):
    tcp, http = [], []
    for t in r.prints("ROW"):
        kind = _s(t[0])
        if kind == "tcp" and len(t) == 12:
            tcp.append({"St": _s(t[1]), "Cmd": _s(t[2]), "T": _s(t[3]), "C": _s(t[4]), "X": _b(t[5]), "Sz": _s(t[6]),
                        "Body": _s(t[7]), "Resp": _s(t[8]), "Closes": _b(t[9]), "Eff": _s(t[10]), "Wf": _b(t[11])})
        elif kind == "http" and len(t) == 13:
            http.append({"Route": _s(t[1]), "Method": _s(t[2]), "Q": _s(t[3]), "T": _s(t[4]), "C": _s(t[5]), "N": _s(t[6]),
                         "Ex": _b(t[7]), "Status": int(t[8]), "Msg": _s(t[9]), "Eff": _s(t[10]), "Wf": _b(t[11]),
                         "Exc": _b(t[12])})
        else:
            raise Inconclusive("cannot parse table row %r" % (t,))
    return tcp, http


_reported = set()


def report_findings(ctx, R, what):
    """violation: a predicate of the STATEMENT failed on the real daemon; drift: the daemon differs from the table in a
    way the statement does not forbid; inconclusive findings are collected and decide the exit at the end."""
    by_key = {}
    for f in R.get("findings") or []:
        by_key.setdefault((f["level"], f["key"]), []).append(f)
    inconclusive = []
    drift_groups = {}
    for (level, key), fs in sorted(by_key.items()):
        f = fs[0]
        if level == "violation":
            if key in _reported:      # already reported with a reproduction by an earlier stage of this run
                continue
            _reported.add(key)
            msg = "%s [%s]: %s | row: %s | input: %s | observed: %s" % (what, f["kind"], f["what"], f["row"][:300],
                                                                         f["input"][:400], f["observed"][:400])
            if f.get("stderr_tail") and f["kind"] == "crash":
                msg += " | stderr: " + " / ".join(l for l in f["stderr_tail"].split("\n") if "panic" in l or "goroutine" in l
                                                  or "lookup_protocol" in l)[:600]
            ctx.violation(msg, ctx.save_replay(what + "-" + key, {"finding": fs, "seed": ctx.seed}), key=key)
        elif level == "drift":
            drift_groups.setdefault(f["kind"] + ":" + f["row"].split(" q=")[0][:60], []).append(f)
        else:
            inconclusive.append("%s: %s (%s)" % (key, f["what"], f["observed"][:200]))
    for g, fs in sorted(drift_groups.items()):
        f = fs[0]
        ctx.drift("%s %s (%d rows): e.g. %s | input: %s | observed: %s" % (what, g, len(fs), f["what"], f["input"][:200],
                                                                           f["observed"][:200]))
    return inconclusive


def run(ctx):
    quick = ctx.quick
    # 1. the design: as-intended table + daemon state machine, exhaustive within the bound
    ctx.model_check("LookupdInput", "LookupdInput_mc.cfg" if quick else "LookupdInput_thorough.cfg", timeout=1500)
    # named deviations: which property each one breaks (a lead for the replay, never a verdict)
    leads = {}
    for cfg, dev, keys in LEADS:
        r = ctx.tlc("LookupdInput", cfg, timeout=600, label="deviation:" + dev)   # not counted as explored design states
        if r.crashed:
            raise Inconclusive("TLC failed on %s:\n%s" % (cfg, r.out[-2000:]))
        if r.ok:
            raise Inconclusive("deviation config %s does not break any property: the model lost its teeth" % cfg)
        log("lead (TLC only): with deviation %s the model breaks %s" % (dev, r.violated))
        leads[dev] = {"breaks": r.violated, "replay_keys": keys, "reproduced_on_real_daemon_this_run": False}
    ctx.notes["as_implemented_leads"] = leads
    # 2. the table, printed by TLC
    r = ctx.tlc("LookupdInputRows", "LookupdInput_rows.cfg", workers=1, timeout=300, label="rows")
    if r.crashed or not r.ok:
        raise Inconclusive("row dump failed:\n" + r.out[-2000:])
    tcp, http = extract_rows(r)
    if len(tcp) < 500 or len(http) < 500:
        raise Inconclusive("only %d tcp / %d http rows extracted" % (len(tcp), len(http)))
    rows = os.path.join(ctx.scratch, "rows.json")
    with open(rows, "w") as f:
        json.dump({"tcp": tcp, "http": http}, f)
    ctx.notes["table_rows"] = {"tcp": len(tcp), "http": len(http)}
    lookupd = ctx.repo_bin("nsqlookupd")
    inconclusive = []

    # 3. binding A: every row, several spellings, real daemon + bystander
    rep = os.path.join(ctx.scratch, "classes.json")
    args = ["c15-classes", "--bin", lookupd, "--rows", rows, "--seed", ctx.seed, "--report", rep,
            "--spellings", 3 if quick else 8, "--workers", 4]
    rc, out, err = ctx.run_harness(args, timeout=2400, name="lookupd")
    if not os.path.exists(rep):
        raise Inconclusive("c15-classes: " + out[-2000:] + err[-2000:])
    A = json.load(open(rep))
    if rc != 0 or A.get("inconclusive"):
        raise Inconclusive("c15-classes: %s %s" % (A.get("inconclusive"), err[-1500:]))
    ctx.cov["evaluations"] += A["evaluations"]
    distinct = set(A["triples"].keys())
    ctx.notes["rows_replayed"] = A["rows_run"]
    ctx.notes["rows_not_reachable_from_outside"] = A["rows_skipped"]
    ctx.notes["daemon_restarts"] = A["daemon_restarts"]
    ctx.notes["huge_size_memory"] = A.get("mem")
    for s in (A.get("samples") or [])[:6]:
        ctx.sample({"replayed_row": s})
    inconclusive += report_findings(ctx, A, "row replay")

    # 4. binding B: mutated byte streams + generated HTTP requests; class traces validated by TLC
    rep2 = os.path.join(ctx.scratch, "mutate.json")
    trace = os.path.join(ctx.scratch, "c15.ndjson")
    args = ["c15-mutate", "--bin", lookupd, "--rows", rows, "--seed", ctx.seed, "--report", rep2, "--trace", trace,
            "--streams", 400 if quick else 4000, "--http", 400 if quick else 4000, "--huge", 1 if quick else 3]
    rc, out, err = ctx.run_harness(args, timeout=2400, name="lookupd")
    if not os.path.exists(rep2):
        raise Inconclusive("c15-mutate: " + out[-2000:] + err[-2000:])
    B = json.load(open(rep2))
    if rc != 0 or B.get("inconclusive"):
        raise Inconclusive("c15-mutate: %s %s" % (B.get("inconclusive"), err[-1500:]))
    ctx.cov["evaluations"] += B["evaluations"]
    distinct |= set(B["triples"].keys())
    ctx.notes["mutated_streams_answers_lost_to_reset"] = B["notes"].get("answers_lost_to_reset")
    ctx.notes["daemon_restarts"] += B["daemon_restarts"]
    for s in (B.get("samples") or [])[:4]:
        ctx.sample({"mutated_stream": s})
    inconclusive += report_findings(ctx, B, "mutated input")
    if B["traces"] > 0:
        ctx.validate_trace("LookupdInputTrace", "LookupdInputTrace.cfg", trace, B["traces"], "lookupd-input", timeout=1800)

    # 5. the same oracles while many clients talk to the daemon at once
    rep3 = os.path.join(ctx.scratch, "storm.json")
    rc, out, err = ctx.run_harness(["c15-storm", "--bin", lookupd, "--seed", ctx.seed, "--report", rep3,
                                    "--dur", "4s" if quick else "30s"], timeout=900, name="lookupd")
    if os.path.exists(rep3):
        S = json.load(open(rep3))
        if not S.get("inconclusive"):
            ctx.cov["evaluations"] += S["evaluations"]
            ctx.notes["concurrent_storm_steps"] = S["evaluations"]
            inconclusive += report_findings(ctx, S, "concurrent storm")
        else:
            inconclusive.append("storm: " + S["inconclusive"])
    else:
        inconclusive.append("storm: no report (%s)" % (out + err)[-300:])

    for dev in leads:
        leads[dev]["reproduced_on_real_daemon_this_run"] = any(k.strip() in _reported for k in leads[dev]["replay_keys"].split("/"))
    ctx.cov["distinct_nontrivial"] = len(distinct)
    ctx.cov["rule"] = ("evaluations = hostile steps executed against the real nsqlookupd child process (one table row spelling, "
                       "one command of a mutated stream, one HTTP request), each followed by the liveness and bystander "
                       "oracles; a case is distinct by (connection state or 'http', input class [class sequence for streams], "
                       "observed answer kinds + close / status)")
    ctx.assumptions += [
        "input space abstracted to classes by the code's branch conditions; boundary members of every class always run, "
        "random members are seeded (VERIF_SEED)",
        "the bystander is one producer connection with one topic and one channel; its /lookup and /nodes entries and a "
        "fresh TCP+HTTP probe are checked after every hostile step",
        "admin exceptions: POST /topic/delete, /channel/delete, /topic/tombstone NAMING the bystander's topic / channel / "
        "node are defined to change its registrations; their effect is modelled and checked, then the bystander re-registers",
        "pprof routes are stated to exist and not exercised (30 s CPU profile)",
        "huge IDENTIFY sizes: one connection at a time, VmSize/VmRSS of the child measured, daemon restarted afterwards",
        "the statement's wording decides violations; closing the connection after an error and the exact E_* code among the "
        "four listed are table-level (drift when different)",
    ]
    if inconclusive and not ctx.violations:
        raise Inconclusive("%d steps could not be judged: %s" % (len(inconclusive), "; ".join(inconclusive[:5])))
    if inconclusive:
        ctx.notes["unjudged_steps"] = inconclusive[:20]
