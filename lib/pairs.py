"""Binding A': NsqdCore (implementation-shaped: map / heap / counter in separate steps) enumerates every
interleaving of the critical sections of two operations; the gated replayer forces each schedule on the real
daemon (child processes: a panic is an observation) and the outcome is judged by the property predicates."""
import itertools
import json
import os
import subprocess

from vlib import Inconclusive, log

OPS = ["FIN", "FIN2", "REQ0", "TOUCH", "SCAN", "DELIVER", "EMPTY"]
EXIT_PARTNERS = ["FIN", "REQ0", "TOUCH", "SCAN", "DELIVER", "EMPTY"]   # pairs (X, EXIT): graceful shutdown at every point of X
SAME_GOROUTINE = {"FIN", "REQ0", "TOUCH"}          # all issued by connection k1: its IOLoop serialises them

# which property a bad outcome of a pair speaks for
def classes(opA, opB, kind):
    admin = "EMPTY" in (opA, opB)
    if kind == "crash":
        return {"C08"} if admin else {"C02", "C08"}
    if kind == "counter":
        return {"C03", "C13", "C08"} if admin else {"C03", "C13"}
    if kind == "nodeadline":
        return {"C01", "C08"} if admin else {"C01", "C02"}
    if kind == "lost":
        return {"C05"}
    if kind == "resurrected":
        return {"C05"}
    if kind == "blocked":
        return {"C08", "C05"} if "EXIT" in (opA, opB) else {"C08"}
    return {"C02"}


# other starting situations: two messages due in one scan while an answer for the first arrives (what the scan has taken
# off the heap and what it leaves there); Empty while a message requeued with a delay by a connected consumer waits
EXTRA = [("SCAN", "FIN", "NONE", "twoflight"), ("SCAN", "REQ0", "NONE", "twoflight"), ("SCAN", "TOUCH", "NONE", "twoflight"),
         ("SCAN", "EMPTY", "NONE", "twoflight"), ("EMPTY", "DELIVER", "NONE", "k1deferred"), ("EMPTY", "SCAN", "NONE", "k1deferred")]


def all_pairs():
    ps = []
    for a, b in itertools.combinations(OPS, 2):
        if a in SAME_GOROUTINE and b in SAME_GOROUTINE:
            continue
        ps.append((a, b))
    ps.append(("SCAN", "SCAN"))
    return ps + EXTRA


# three operations at once, from the situation "k2 parked in its receive with RDY 1, queue empty": what a message that
# is put back (timeout scan) or discarded (Empty) while k2 waits for it does to the attribution of in-flight messages
# The third actor (k2's pump) is FREE: TLC places its steps everywhere the model allows, the replayer does not gate it
# -- it takes a message the moment one reaches the queue, as a waiting consumer does.  Schedules that differ only in
# where k2's steps fall are one replay; the real outcome must be among TLC's outcomes for that replay.
TRIPLES = [("SCAN", "EMPTY", "DELIVERQ", "k2waiting"), ("SCAN", "NONE", "DELIVERQ", "k2waiting"),
           ("REQ0", "NONE", "DELIVERQ", "k2waiting"), ("REQ0", "EMPTY", "DELIVERQ", "k2waiting"),
           ("TOUCH", "EMPTY", "DELIVERQ", "k2waiting"), ("FIN", "EMPTY", "DELIVERQ", "k2waiting")]

SEGS = {"FIN": 3, "FIN2": 3, "REQ0": 4, "TOUCH": 4, "SCAN": 3, "DELIVER": 4, "EMPTY": 3, "EXIT": 4, "DELIVERQ": 4, "NONE": 0}


def early_releases(ops, sched):
    """Positions at which an actor waiting for the channel lock is let go ahead of its turn.

    NsqdCore schedules the last segment of SCAN (it starts by taking the channel's read lock) only once the lock is
    free.  The real goroutine would not sit at the yield point meanwhile: it would be blocked ON the lock, having run
    whatever precedes the acquisition.  So while an EMPTY holds the lock (its segments 2..3) a SCAN that has reached
    its last yield point is released early; in code that conforms to NsqdCore nothing observable happens before the
    lock, and the outcome is the one TLC predicts."""
    pcs = {x: 1 for x in ops}
    out, done = [], set()
    for i, x in enumerate(sched):
        pcs[x] += 1
        holder = [y for y in ops if ops[y] == "EMPTY" and 2 <= pcs[y] <= 3]
        for y in ops:
            if ops[y] == "SCAN" and pcs[y] == 3 and holder and y not in done:
                done.add(y)
                out.append({"after": i + 1, "actor": y})
        # the graceful shutdown waits on the channel's exitMutex for a timeout scan, REQ or TOUCH that is inside: it is
        # started while they are (it must then sit there until they are through -- "launch": not started yet)
        inside = [y for y in ops if (ops[y] == "SCAN" and 2 <= pcs[y] <= 3) or (ops[y] in ("REQ0", "TOUCH") and 2 <= pcs[y] <= 4)]
        for y in ops:
            if ops[y] == "EXIT" and pcs[y] == 1 and inside:
                out.append({"after": i + 1, "actor": y, "launch": True})    # one candidate per position inside (see variants())
    return out


def variants(case):
    """A schedule with several points at which the shutdown could be started early becomes one case per point."""
    launches = [e for e in case["early"] if e.get("launch")]
    rest = [e for e in case["early"] if not e.get("launch")]
    if not launches:
        return [case]
    return [dict(case, early=rest + [l]) for l in launches]


def enumerate_schedules(ctx, pairs):
    cases = []
    for tup in pairs:
        a, b = tup[0], tup[1]
        c3, situation = (tup[2], tup[3]) if len(tup) > 2 else ("NONE", "std")
        cfg = "NsqdCore_%s_%s_%s.cfg" % (a, b, c3)
        with open(os.path.join(ctx.specdir, cfg), "w") as f:
            f.write('SPECIFICATION Spec\nCONSTANTS\n  OpA = "%s"\n  OpB = "%s"\n  OpC = "%s"\n  Situation = "%s"\n  Guarded = TRUE\n  PerMessage = TRUE\n  ExitGuard = TRUE\nCONSTRAINT Emit\nCHECK_DEADLOCK FALSE\n' % (a, b, c3, situation))
        r = ctx.tlc("NsqdCore", cfg, workers=1, timeout=300, label="pairs %s|%s|%s" % (a, b, c3))
        if r.crashed:
            raise Inconclusive("NsqdCore failed for %s|%s:\n%s" % (a, b, r.out[-2000:]))
        ctx.cov["states"] += r.distinct
        ctx.cov["transitions"] += r.generated
        n = 0
        for t in r.prints("SCHED"):
            v = [x.strip('"') for x in t]
            # opA opB opC situation sched... crashed nifm nq cnt1 cnt2 nheap fin disk1 disk2 nifm1 nifm2
            tail = v[-11:]
            sched = v[4:-11]
            n += 1
            if b == "EXIT" and (sched[0] != "A" or a in ("FIN", "REQ0", "TOUCH") and False):
                continue      # the shutdown closes the client connections first: X must have started before it
            ops = {"A": v[0], "B": v[1]}
            if v[2] != "NONE":
                ops["C"] = v[2]
            cases.extend(variants({"opA": v[0], "opB": v[1], "opC": v[2], "situation": v[3], "sched": sched,
                          "early": early_releases(ops, sched),
                          "crashed": tail[0] == "TRUE", "nifm": int(tail[1]),
                          "nq": int(tail[2]), "cnt1": int(tail[3]), "cnt2": int(tail[4]), "nheap": int(tail[5]),
                          "fin_m1": tail[6] == "TRUE", "disk_m1": tail[7] == "TRUE", "disk_m2": tail[8] == "TRUE",
                          "nifm1": int(tail[9]), "nifm2": int(tail[10])}))
        if n == 0:
            raise Inconclusive("no schedule printed for %s|%s" % (a, b))
    # collapse schedules that differ only in the free actor's steps
    out, groups = [], {}
    for c in cases:
        if c["opC"] == "NONE":
            out.append(c)
            continue
        proj = tuple(x for x in c["sched"] if x != "C")
        key = (c["opA"], c["opB"], c["opC"], proj)
        if key not in groups:
            ops = {"A": c["opA"], "B": c["opB"]}
            g = dict(c, sched=list(proj), free=["C"], early=early_releases(ops, list(proj)), alternatives=[])
            groups[key] = g
            out.append(g)
        groups[key]["alternatives"].append([c["nifm"] + c["nq"], c["cnt1"], c["cnt2"], c["nifm1"], c["nifm2"], c["fin_m1"], c["crashed"]])
    return out


def replay(ctx, cases, procs=8):
    """Replays the cases in child processes; returns list of observations (dict) incl. crashes."""
    h = ctx.harness("core")
    chunks = [cases[i::procs] for i in range(procs)]
    jobs = []
    for i, ch in enumerate(chunks):
        if not ch:
            continue
        d = os.path.join(ctx.scratch, "pairs-%d" % i)
        os.makedirs(d, exist_ok=True)
        cf = os.path.join(d, "cases.json")
        json.dump(ch, open(cf, "w"))
        jobs.append({"dir": d, "cases": ch, "cf": cf, "from": 0, "obs": os.path.join(d, "obs.ndjson"),
                     "prog": os.path.join(d, "progress.txt"), "crashes": {}})
    obs = []
    active = list(jobs)
    while active:
        procs_ = []
        for j in active:
            p = subprocess.Popen([h, "pairs", "--cases", j["cf"], "--out", j["obs"], "--progress", j["prog"],
                                  "--from", str(j["from"]), "--dir", j["dir"]], cwd=ctx.scratch, env=ctx.goenv(),
                                 stdout=subprocess.PIPE, stderr=subprocess.PIPE, text=True)
            procs_.append((j, p))
        nxt = []
        for j, p in procs_:
            try:
                out, err = p.communicate(timeout=1200)
            except subprocess.TimeoutExpired:
                p.kill()
                raise Inconclusive("pair replayer timed out")
            if p.returncode != 0:
                # the daemon (in-process) died: attribute to the case in progress, continue after it
                try:
                    idx = int(open(j["prog"]).read().strip())
                except Exception:
                    raise Inconclusive("pair replayer died without progress file:\n" + err[-2000:])
                if idx >= len(j["cases"]):
                    continue
                panic = "panic" in err or "fatal error" in err
                j["crashes"][idx] = err[-1800:] if panic else "exit %d: %s" % (p.returncode, err[-800:])
                if not panic:
                    raise Inconclusive("pair replayer failed (not a panic):\n" + err[-2000:])
                j["from"] = idx + 1
                if j["from"] < len(j["cases"]):
                    nxt.append(j)
        active = nxt
    for j in jobs:
        seen = []
        if os.path.exists(j["obs"]):
            for line in open(j["obs"]):
                seen.append(json.loads(line))
        for o in seen:
            o["real_crashed"] = False
            obs.append(o)
        for idx, tb in j["crashes"].items():
            obs.append({"case": j["cases"][idx], "real_crashed": True, "traceback": tb, "done": False})
    return obs


def judge(ctx, prop, obs):
    """Property verdicts from the REAL outcomes; disagreement with TLC's prediction that breaks no predicate is drift."""
    n_viol = 0
    kinds = {}
    ndrift0 = len(ctx.notes.get("shape_drift", []))
    for o in obs:
        c = o["case"]
        pair = "%s|%s" % (c["opA"], c["opB"])
        if c.get("opC", "NONE") != "NONE":
            pair = "|".join(x for x in (c["opA"], c["opB"], c["opC"]) if x != "NONE")
        sched = "".join(c["sched"])
        bad = []
        if o.get("inconclusive"):
            ctx.notes.setdefault("pair_inconclusive", []).append(pair + ":" + o["inconclusive"])
            continue
        if o["real_crashed"]:
            bad.append(("crash", "the daemon panicked: " + o["traceback"].strip().splitlines()[0][:200] + " ... " +
                        " | ".join(l.strip() for l in o["traceback"].splitlines() if "nsqd/" in l)[:400]))
        elif "EXIT" in (c["opA"], c["opB"]):
            if o.get("breach"):
                ctx.notes.setdefault("exit_breaches", []).append(pair + ":" + sched)
            if o.get("blocked"):
                bad.append(("blocked", o["blocked"]))
            elif o.get("restarted"):
                # C05: acknowledged and not finished when shutdown was requested => delivered again after restart
                if "EMPTY" in (c["opA"], c["opB"]):
                    pass          # an Empty in progress may legitimately discard either message
                elif not o["fin_m1"] and not o["back_m1"]:
                    bad.append(("lost", "m1 (in flight to k1, not finished) did not come back after graceful shutdown + restart"
                                + (" -- the shutdown had been requested while the other operation was inside the section that "
                                   "holds Channel.Close off, and it went ahead" if o.get("breach") else "")))
                if not o["back_m2"] and "EMPTY" not in (c["opA"], c["opB"]):
                    bad.append(("lost", "m2 (queued, never finished) did not come back after graceful shutdown + restart"))
        else:
            if o.get("blocked"):
                bad.append(("blocked", o["blocked"]))
            # in-flight map size == sum of the connections' counters (C03/C13), none negative
            if o["cnt1"] < 0 or o["cnt2"] < 0 or o["cnt1"] + o["cnt2"] != o["nifm"]:
                bad.append(("counter", "connection in-flight counters k1=%d k2=%d but %d message(s) in flight"
                            % (o["cnt1"], o["cnt2"], o["nifm"])))
            elif "nifm1" in o and (o["cnt1"] != o["nifm1"] or o["cnt2"] != o["nifm2"]):
                # ... and each connection's counter is the number of messages in flight TO IT
                bad.append(("counter", "connection in-flight counters k1=%d k2=%d but the channel has %d in flight to k1 and %d to k2"
                            % (o["cnt1"], o["cnt2"], o["nifm1"], o["nifm2"])))
            # (a heap entry without map entry is harmless: the scan drops it when it comes due)
            if o["nifm"] > o["nheap"] or o["inflight_after_forced_timeouts"] != 0:
                bad.append(("nodeadline", "in-flight map has %d entries, deadline heap %d; %d still in flight after "
                            "every deadline was forced to expire" % (o["nifm"], o["nheap"], o["inflight_after_forced_timeouts"])))
        for kind, text in bad:
            cls = classes(c["opA"], c["opB"], kind)
            kinds[(pair, kind)] = kinds.get((pair, kind), 0) + 1
            if prop in cls:
                n_viol += 1
                ctx.violation("operations %s under schedule %s (forced through the yield points): %s" % (pair, sched, text),
                              ctx.save_replay("pair-%s-%s-%s" % (c["opA"], c["opB"], kind), o), key="pair:%s:%s" % (pair, kind))
        # conformance with the implementation-shaped model
        if not bad or True:
            pred_bad = c["crashed"]
            if o["real_crashed"] != pred_bad:
                ctx.drift("pair %s schedule %s: NsqdCore predicts crashed=%s, real daemon crashed=%s" % (pair, sched, pred_bad, o["real_crashed"]))
            elif not o["real_crashed"] and not o.get("blocked") and "EXIT" in (c["opA"], c["opB"]):
                if o.get("restarted"):
                    real = (o["fin_m1"], o["back_m1"], o["back_m2"])
                    pred = (c["fin_m1"], c["disk_m1"], c["disk_m2"])
                    if real != pred:
                        ctx.drift("pair %s schedule %s: NsqdCore predicts (fin m1, m1 back, m2 back)=%s, real daemon %s" % (pair, sched, pred, real))
            elif not o["real_crashed"] and not o.get("blocked"):
                real = (o["nifm"], o["nq"], o["cnt1"], o["cnt2"], o["nheap"], o["fin_m1"])
                pred = (c["nifm"], c["nq"], c["cnt1"], c["cnt2"], c["nheap"], c["fin_m1"])
                if c.get("opC", "NONE") != "NONE":
                    # the free receiver: the real outcome must be one of the outcomes TLC found for this replay
                    real = [o["nifm"] + o["nq"], o["cnt1"], o["cnt2"], o["nifm1"], o["nifm2"], o["fin_m1"], False]
                    pred = real if real in c.get("alternatives", []) else c.get("alternatives")
                elif "DELIVER" in (c["opA"], c["opB"]):
                    # k2 keeps RDY 1 after the modelled delivery and may take one more message from the queue
                    # before the outcome is read: compare what that cannot change
                    real = (o["nifm"] + o["nq"], o["cnt1"], o["fin_m1"])
                    pred = (c["nifm"] + c["nq"], c["cnt1"], c["fin_m1"])
                if real != pred:
                    ctx.drift("pair %s schedule %s: NsqdCore predicts (ifm,q,cnt1,cnt2,heap,fin)=%s, real daemon %s" % (pair, sched, pred, real))
    # a forced schedule whose real outcome equals NsqdCore's prediction is a TLC behaviour validated on the code
    matched = len([o for o in obs if not o.get("inconclusive")]) - (len(ctx.notes.get("shape_drift", [])) - ndrift0)
    ctx.cov["traces_validated_against_impl"] += max(0, matched)
    ctx.notes["pair_outcomes"] = {"%s:%s" % k: v for k, v in kinds.items()}
    return n_viol


def run_pairs(ctx, prop, pairs=None, sample=None):
    pairs = pairs or all_pairs()
    cases = enumerate_schedules(ctx, pairs)
    if sample and len(cases) > sample:
        import random
        rng = random.Random(ctx.seed)
        # always keep the schedules TLC marks as breaking an invariant of NsqdCore, sample the rest
        keep = [c for c in cases if c["crashed"] or c["cnt1"] < 0 or c["cnt2"] < 0 or c["cnt1"] + c["cnt2"] != c["nifm"] or c["nifm"] != c["nheap"]
                or c.get("opC", "NONE") != "NONE" or c.get("situation", "std") != "std" or any(e.get("launch") for e in c.get("early") or [])]
        rest = [c for c in cases if c not in keep]
        rng.shuffle(rest)
        cases = keep + rest[:max(0, sample - len(keep))]
    obs = replay(ctx, cases)
    judge(ctx, prop, obs)
    ctx.cov["evaluations"] += len(obs)
    ctx.notes["pair_schedules_replayed"] = len(obs)
    ctx.notes["pairs"] = ["|".join(x for x in p[:3] if x != "NONE") for p in pairs]
    for o in obs[:2]:
        ctx.sample({"pair_replay": o})
    log("pairs: %d schedules of %d operation pairs replayed on the real daemon" % (len(obs), len(pairs)))
    return obs
