------------------------------ MODULE NsqdTopic ------------------------------
(***************************************************************************)
(* nsqd/topic.go at the grain of its critical sections: the topic's        *)
(* channelMap and the message pump's CACHED channel list are separate      *)
(* variables, brought together only by the channelUpdateChan handshake;    *)
(* PutMessage holds the topic's read lock from its exit check to its put;  *)
(* pause is an atomic flag plus a pauseChan handshake; Topic.exit is       *)
(* flag -> close(exitChan) + wait for the pump -> close / delete the       *)
(* channels and flush / empty the queue.                                   *)
(*                                                                         *)
(* Up to three operations OpA OpB OpC ("NONE": absent) run concurrently    *)
(* with the topic's message pump from a prepared situation.  A step of an  *)
(* operation is one segment between two verif yield points; a step of the  *)
(* pump goes from one `tpump.beforeCopy` yield point to the next (or back  *)
(* to its select).  Every behaviour TLC finds is therefore a schedule the  *)
(* gated replayer can force on the real daemon (binding A').               *)
(*                                                                         *)
(* Rendezvous steps (channelUpdateChan / pauseChan sends, waiting for the  *)
(* pump to stop) are enabled only while the pump sits in its select with   *)
(* nothing to take: the model explores a subset of the real interleavings  *)
(* (a sender may also wait while the pump copies), each of which is        *)
(* deterministic on the real code.                                         *)
(*                                                                         *)
(* Channels: "c" (exists at the start, except in situation "nochan";       *)
(* GETC asks for it again, e.g. while it is being deleted) and "d"         *)
(* (created by GETD).  Messages: "m1" (published during the set-up)        *)
(* and "m2" (published by PUT).                                            *)
(***************************************************************************)
EXTENDS Integers, Sequences, FiniteSets, TLC

CONSTANTS OpA, OpB, OpC,       \* "PUT" | "GETD" | "GETC" | "DELC" | "PAUSE" | "UNPAUSE" | "TEXIT" | "TDELETE" | "START" | "NONE"
          Situation,           \* "idle" | "held" | "paused" | "nochan" | "backlog" (m1 already sits in c's queue)
                               \* | "unstarted" (the topic is in NSQD's map, holds m1, has no channel, and Start() has not
                               \*   been called: NSQD.GetTopic asking the nsqlookupds, LoadMetadata creating the channels)
          StartGate,           \* before Start() the pump only takes note of handshakes, it does not look at the channel
                               \* list or open the queues (as coded); FALSE = a handshake before Start() opens them
          Handshake,           \* GetChannel's creator waits until the pump has taken the new channel list (as coded)
          RefreshHonoursPause, \* a channel-list refresh keeps a paused topic's queue unselected (as coded)
          JoinShakes           \* a GetChannel that finds the channel in the map does the handshake too (its creator may
                               \* still be on its way there: fix 717c938); FALSE = as first found (it returns at once)
VARIABLES cmap,     \* channelMap: set of channel names
          cst,      \* channel -> "none" | "new" (in the map, pump not told yet) | "live" | "dying" (Channel.Delete ran, still in the map) | "gone"
          cq,       \* channel -> messages in its queue
          tq,       \* messages in the topic's queue
          cache,    \* the pump's channel list
          psel,     \* the pump selects on the topic's queue (list not empty and not paused when it last looked)
          ppc,      \* "pre" (waiting for Start) | "sel" | "copy" | "exited"
          pmsg,     \* the message the pump holds
          prem,     \* channels it still has to copy it to
          tpaused,  \* Topic.paused
          flag,     \* Topic.exitFlag
          exch,     \* exitChan closed
          closed,   \* Topic.exit(false) finished: channels closed, queue flushed, backend closed
          tgone,    \* Topic.exit(true) finished
          rl,       \* operations holding the topic's read lock across a yield point
          creator,  \* channel -> the operation that put it in the map and has yet to tell the pump ("" = nobody)
          cgen,     \* channel -> how many times a channel of that name has been created
          pc,       \* actor -> next segment (1..), 0 = done
          waitr,    \* the operation blocked in a channelUpdateChan / pauseChan send, or waiting for the pump to stop, while
                    \* the pump is busy copying ("" = nobody)
          npend,    \* a Notify goroutine (spawned by a channel / topic creation or deletion) has yet to persist the metadata:
                    \* it takes NSQD's lock, then every topic's lock -- which it cannot get while a PutMessage holds the
                    \* read lock, so that NSQD's lock stays taken until that PutMessage is over
          \* ---- history ----
          acked, failed, owed, known, mcount, dup, handed, pauseAck, late,
          cdisk, tdisk, ackedAtExit, knownAtExit, sched, porder

vars == <<cmap, cst, cq, tq, cache, psel, ppc, pmsg, prem, tpaused, flag, exch, closed, tgone, rl, creator, cgen, pc, npend, waitr,
          acked, failed, owed, known, mcount, dup, handed, pauseAck, late, cdisk, tdisk, ackedAtExit, knownAtExit, sched, porder>>

Actors == {"A", "B", "C"}
Op(a) == CASE a = "A" -> OpA [] a = "B" -> OpB [] a = "C" -> OpC
Chans == {"c", "d"}
Segs(op) == CASE op = "PUT" -> 2 [] op = "GETD" -> 2 [] op = "GETC" -> 2 [] op = "DELC" -> 6 [] op = "PAUSE" -> 1 [] op = "UNPAUSE" -> 1
              [] op = "TEXIT" -> 3 [] op = "TDELETE" -> 3 [] op = "START" -> 1 [] OTHER -> 0
Alive(x) == cst[x] \in {"new", "live"}
IsGet(op) == op \in {"GETD", "GETC"}
XOf(op) == IF op = "GETC" THEN "c" ELSE "d"
\* Channel.Delete() holds the channel's exitMutex from its first statement to its return: whoever needs that mutex waits
\* (the pump's PutMessage to that channel, Topic.exit's Close / Delete of it)
DelInside == \E b \in Actors : Op(b) = "DELC" /\ pc[b] \in 2..5

Init ==
  /\ cmap = IF Situation \in {"nochan", "unstarted"} THEN {} ELSE {"c"}
  /\ cst = [x \in Chans |-> IF x = "c" /\ Situation \notin {"nochan", "unstarted"} THEN "live" ELSE "none"]
  /\ cq = [x \in Chans |-> IF x = "c" /\ Situation = "backlog" THEN {"m1"} ELSE {}]
  /\ tq = IF Situation \in {"paused", "nochan", "unstarted"} THEN {"m1"} ELSE {}
  /\ cache = cmap
  /\ psel = (Situation \in {"idle", "held", "backlog"})
  /\ ppc = IF Situation = "held" THEN "copy" ELSE IF Situation = "unstarted" /\ StartGate THEN "pre" ELSE "sel"
  /\ pmsg = IF Situation = "held" THEN "m1" ELSE ""
  /\ prem = IF Situation = "held" THEN {"c"} ELSE {}
  /\ tpaused = (Situation = "paused") /\ pauseAck = (Situation = "paused")
  /\ flag = FALSE /\ exch = FALSE /\ closed = FALSE /\ tgone = FALSE
  /\ rl = {} /\ creator = [x \in Chans |-> ""] /\ cgen = [x \in Chans |-> 0] /\ npend = FALSE /\ waitr = ""
  /\ pc = [a \in Actors |-> IF Segs(Op(a)) = 0 THEN 0 ELSE 1]
  /\ acked = IF Situation = "idle" THEN {} ELSE {"m1"}
  /\ failed = {}
  /\ owed = IF Situation = "idle" THEN <<>> ELSE ("m1" :> {<<x, 0>> : x \in cmap})
  /\ known = cmap
  /\ mcount = Cardinality(acked)
  /\ dup = FALSE /\ handed = FALSE /\ late = FALSE
  /\ cdisk = [x \in Chans |-> {}] /\ tdisk = {}
  /\ ackedAtExit = {} /\ knownAtExit = {}
  /\ sched = "" /\ porder = ""

Done(a) == pc' = [pc EXCEPT ![a] = 0]
Adv(a)  == pc' = [pc EXCEPT ![a] = @ + 1]
\* NSQD's lock is free: no persist stuck behind a PutMessage, and nsqd.Exit (which holds it from its own persist to the
\* end of the topics' close) is not inside.  Every HTTP handler starts by looking the topic up under that lock, and the
\* pause / delete handlers end by persisting the metadata under it.
ExitInside == \E b \in Actors : Op(b) = "TEXIT" /\ pc[b] \in {2, 3}
NFree == ~(npend /\ rl # {}) /\ ~ExitInside
AtSelect == ppc \in {"sel", "exited", "pre"}    \* a handshake goes through: the pump receives, or exitChan is closed
Refresh(newmap, paused) ==                       \* case <-t.channelUpdateChan
  IF ppc \in {"exited", "pre"} THEN UNCHANGED <<cache, psel>>                  \* before Start(): `continue`
  ELSE /\ cache' = newmap
       /\ psel' = (newmap # {} /\ (RefreshHonoursPause => ~paused))

\* ---- Topic.PutMessage (HTTP /pub of "m2") --------------------------------
Put(a) ==
  \/ /\ pc[a] = 1 /\ NFree                       \* GetTopic; RLock; exit check
     /\ (waitr # "" => Op(waitr) \notin {"PAUSE", "UNPAUSE"})   \* (their handler persists under NSQD's lock right after the handshake)
     /\ IF flag THEN failed' = failed \cup {"m2"} /\ rl' = rl /\ Done(a)
                ELSE failed' = failed /\ rl' = rl \cup {a} /\ Adv(a)
     /\ UNCHANGED <<tq, acked, owed, mcount, late>>
  \/ /\ pc[a] = 2 /\ waitr = ""                  \* t.put; counters; RUnlock; the publisher gets its OK
                                                 \* (not while a sender waits: the pump's select would have two ready cases)
     /\ tq' = IF tgone THEN tq ELSE tq \cup {"m2"}
     /\ acked' = acked \cup {"m2"}
     /\ owed' = owed @@ ("m2" :> {<<x, cgen[x]>> : x \in {y \in known : Alive(y)}})
     /\ mcount' = mcount + 1
     /\ late' = (late \/ closed \/ tgone)         \* accepted by a topic that is already flushed / deleted
     /\ rl' = rl \ {a} /\ failed' = failed /\ Done(a)

\* ---- Topic.GetChannel(x) (HTTP /channel/create): GETD asks for "d", GETC for "c" ------
Get(a, x) ==
  \/ /\ pc[a] = 1 /\ rl = {} /\ NFree            \* GetExistingTopic; t.Lock(); getOrCreateChannel; t.Unlock()
     /\ IF x \in cmap
        THEN /\ UNCHANGED <<cmap, creator, cgen, cq>>  \* isNew = FALSE (the channel may be on its way out): no yield point here
             /\ JoinShakes => AtSelect            \* ... the handshake all the same (since fix 717c938)
             /\ IF JoinShakes THEN Refresh(cmap, tpaused) /\ cst' = [cst EXCEPT ![x] = IF @ = "new" THEN "live" ELSE @]
                              ELSE UNCHANGED <<cache, psel, cst>>
             /\ known' = known \cup {x} /\ Done(a)
        ELSE /\ cmap' = cmap \cup {x} /\ cst' = [cst EXCEPT ![x] = "new"] /\ creator' = [creator EXCEPT ![x] = a]
             /\ cgen' = [cgen EXCEPT ![x] = @ + 1] /\ cq' = [cq EXCEPT ![x] = {}]     \* a new channel starts empty
             /\ known' = known /\ Adv(a)
             /\ UNCHANGED <<cache, psel>>
  \/ /\ pc[a] = 2                                                             \* t.channelUpdateChan <- 1
     /\ Handshake => AtSelect
     /\ IF Handshake THEN Refresh(cmap, tpaused) ELSE UNCHANGED <<cache, psel>>
     /\ cst' = [cst EXCEPT ![x] = IF @ = "new" THEN "live" ELSE @]
     /\ known' = known \cup {x} /\ Done(a)
     /\ UNCHANGED <<cmap, creator, cgen, cq>>

\* ---- Topic.DeleteExistingChannel("c") (HTTP /channel/delete) -------------
DelC(a) ==
  \/ /\ pc[a] = 1 /\ NFree                       \* lookup; channel.Delete(): exitMutex; exit flag
     /\ cst["c"] # "dying"                        \* (a second deleter would wait on the channel's exitMutex)
     /\ IF "c" \notin cmap THEN UNCHANGED <<cst, cq>> /\ Done(a)
        ELSE cst' = [cst EXCEPT !["c"] = "dying"] /\ cq' = cq /\ Adv(a)
     /\ UNCHANGED <<cmap, cache, psel>>
  \/ /\ pc[a] \in 2..4                            \* notify + close clients | Empty: reset | Empty: clients
     /\ Adv(a) /\ UNCHANGED <<cmap, cst, cq, cache, psel>>
  \/ /\ pc[a] = 5                                \* Empty: drain; backend.Empty(); backend.Delete(); exitMutex released
     /\ cq' = [cq EXCEPT !["c"] = {}] /\ Adv(a) /\ UNCHANGED <<cmap, cst, cache, psel>>
  \/ /\ pc[a] = 6 /\ rl = {} /\ AtSelect /\ NFree \* t.Lock(); delete(map); t.Unlock(); t.channelUpdateChan <- 1; persist
     /\ cmap' = cmap \ {"c"} /\ cst' = [cst EXCEPT !["c"] = "gone"] /\ cq' = cq
     /\ Refresh(cmap \ {"c"}, tpaused) /\ Done(a)

\* ---- Topic.Pause / UnPause ------------------------------------------------
Pause(a, p) ==
  /\ pc[a] = 1 /\ AtSelect /\ rl = {} /\ NFree    \* store; t.pauseChan <- 1; the handler persists the metadata
  /\ tpaused' = p /\ pauseAck' = p
  /\ psel' = IF ppc \in {"exited", "pre"} THEN psel ELSE (cache # {} /\ ~p)
  /\ Done(a)

\* ---- Topic.Start (NSQD.GetTopic once the channels the nsqlookupds know exist; LoadMetadata at its end) --------------
\* The pump leaves its waiting loop, reads the channel map and opens the queues.  Whatever the topic accepted before is owed
\* to every channel there is at that moment (C16: "those channels receive its very first message").
Start(a) ==
  /\ pc[a] = 1 /\ AtSelect
  /\ IF ppc \in {"pre", "sel"}
     THEN /\ ppc' = "sel" /\ cache' = cmap /\ psel' = (cmap # {} /\ ~tpaused)
          /\ cst' = [x \in Chans |-> IF cst[x] = "new" THEN "live" ELSE cst[x]]
     ELSE UNCHANGED <<ppc, cache, psel, cst>>
  /\ owed' = [m \in DOMAIN owed |-> IF m \in acked THEN owed[m] \cup {<<x, cgen[x]>> : x \in {y \in cmap : Alive(y)}} ELSE owed[m]]
  /\ Done(a)

\* ---- nsqd.Exit -> Topic.Close ----------------------------------------------
TExit(a) ==
  \/ /\ pc[a] = 1 /\ rl = {} /\ NFree            \* listeners closed; n.Lock(); PersistMetadata(); first topic: exit flag
     /\ IF flag THEN UNCHANGED <<flag, ackedAtExit, knownAtExit>> /\ Done(a)
        ELSE flag' = TRUE /\ ackedAtExit' = acked /\ knownAtExit' = known /\ Adv(a)
     /\ UNCHANGED <<exch, ppc, closed, cdisk, tdisk>>
  \/ /\ pc[a] = 2 /\ ppc \in {"sel", "pre"}         \* close(exitChan); waitGroup.Wait()
     /\ exch' = TRUE /\ ppc' = "exited" /\ Adv(a)
     /\ UNCHANGED <<flag, ackedAtExit, knownAtExit, closed, cdisk, tdisk>>
  \/ /\ pc[a] = 3 /\ ~DelInside                   \* channels Close (flush to their backends); t.flush(); backend.Close()
     /\ cdisk' = [x \in Chans |-> IF x \in cmap /\ Alive(x) THEN cq[x] ELSE {}]
     /\ tdisk' = tq /\ closed' = TRUE /\ Done(a)
     /\ UNCHANGED <<flag, ackedAtExit, knownAtExit, exch, ppc>>

\* ---- Topic.Delete (HTTP /topic/delete) -------------------------------------
TDelete(a) ==
  \/ /\ pc[a] = 1 /\ NFree
     /\ IF flag THEN flag' = flag /\ Done(a) ELSE flag' = TRUE /\ Adv(a)
     /\ UNCHANGED <<exch, ppc, cmap, cst, cq, tq, tgone>>
  \/ /\ pc[a] = 2 /\ ppc \in {"sel", "pre"}
     /\ exch' = TRUE /\ ppc' = "exited" /\ Adv(a)
     /\ UNCHANGED <<flag, cmap, cst, cq, tq, tgone>>
  \/ /\ pc[a] = 3 /\ rl = {} /\ NFree /\ ~DelInside \* t.Lock(); every channel deleted; t.Unlock(); t.Empty(); backend.Delete(); unlink; persist
     /\ cmap' = {} /\ cst' = [x \in Chans |-> IF x \in cmap THEN "gone" ELSE cst[x]]
     /\ cq' = [x \in Chans |-> {}] /\ tq' = {} /\ tgone' = TRUE /\ Done(a)
     /\ UNCHANGED <<flag, exch, ppc>>

Spawns(a) == \/ IsGet(Op(a)) /\ pc[a] = 1 /\ XOf(Op(a)) \notin cmap
             \/ Op(a) = "DELC" /\ pc[a] = 2
             \/ Op(a) = "TDELETE" /\ pc[a] \in {2, 3}

Lower(a) == CASE a = "A" -> "a" [] a = "B" -> "b" [] a = "C" -> "c"

\* An operation reaches a rendezvous with the pump while the pump is busy copying: it blocks there (after whatever it does
\* before the send) and goes on when the pump is back in its select -- see PCopy.  Only while nothing else could make a
\* second case of that select ready, so that the real code has no choice either.
Arrive(a) ==
  /\ pc[a] # 0 /\ waitr = "" /\ ppc = "copy" /\ ~(psel /\ tq # {})
  /\ \/ /\ IsGet(Op(a)) /\ pc[a] = 2 /\ Handshake
        /\ UNCHANGED <<tpaused, exch, npend>>
     \/ /\ IsGet(Op(a)) /\ pc[a] = 1 /\ XOf(Op(a)) \in cmap /\ JoinShakes /\ rl = {} /\ NFree
        /\ UNCHANGED <<tpaused, exch, npend>>
     \/ /\ Op(a) \in {"PAUSE", "UNPAUSE"} /\ pc[a] = 1 /\ rl = {} /\ NFree
        /\ tpaused' = (Op(a) = "PAUSE") /\ UNCHANGED <<exch, npend>>             \* the flag is stored before the send
     \/ /\ Op(a) \in {"TEXIT", "TDELETE"} /\ pc[a] = 2
        /\ exch' = TRUE /\ npend' = ((npend /\ rl # {}) \/ Op(a) = "TDELETE") /\ UNCHANGED tpaused
  /\ waitr' = a /\ sched' = sched \o Lower(a)
  /\ UNCHANGED <<cmap, cst, cq, tq, cache, psel, ppc, pmsg, prem, flag, closed, tgone, rl, creator, cgen, pc,
                 acked, failed, owed, known, mcount, dup, handed, pauseAck, late, cdisk, tdisk, ackedAtExit, knownAtExit, porder>>

Step(a) ==
  /\ pc[a] # 0 /\ waitr # a
  /\ waitr' = waitr
  /\ sched' = sched \o a
  /\ npend' = ((npend /\ rl # {}) \/ Spawns(a))
  /\ CASE Op(a) = "PUT" ->
            Put(a) /\ UNCHANGED <<cmap, cst, cq, cache, psel, ppc, tpaused, flag, exch, closed, tgone, creator, cgen, known,
                                  pauseAck, cdisk, tdisk, ackedAtExit, knownAtExit>>
       [] IsGet(Op(a)) ->
            Get(a, XOf(Op(a))) /\ UNCHANGED <<tq, ppc, tpaused, flag, exch, closed, tgone, rl, acked, failed, owed, mcount, late,
                                   pauseAck, cdisk, tdisk, ackedAtExit, knownAtExit>>
       [] Op(a) = "DELC" ->
            DelC(a) /\ UNCHANGED <<tq, ppc, tpaused, flag, exch, closed, tgone, rl, creator, cgen, acked, failed, owed, known,
                                   mcount, late, pauseAck, cdisk, tdisk, ackedAtExit, knownAtExit>>
       [] Op(a) \in {"PAUSE", "UNPAUSE"} ->
            Pause(a, Op(a) = "PAUSE")
            /\ UNCHANGED <<cmap, cst, cq, tq, cache, ppc, flag, exch, closed, tgone, rl, creator, cgen, acked, failed, owed,
                           known, mcount, late, cdisk, tdisk, ackedAtExit, knownAtExit>>
       [] Op(a) = "START" ->
            Start(a) /\ UNCHANGED <<cmap, cq, tq, tpaused, flag, exch, closed, tgone, rl, creator, cgen, acked, failed, known,
                                    mcount, late, pauseAck, cdisk, tdisk, ackedAtExit, knownAtExit>>
       [] Op(a) = "TEXIT" ->
            TExit(a) /\ UNCHANGED <<cmap, cst, cq, tq, cache, psel, tpaused, tgone, rl, creator, cgen, acked, failed, owed,
                                    known, mcount, late, pauseAck>>
       [] Op(a) = "TDELETE" ->
            TDelete(a) /\ UNCHANGED <<cache, psel, tpaused, closed, rl, creator, cgen, acked, failed, owed, known, mcount, late,
                                      pauseAck, cdisk, tdisk, ackedAtExit, knownAtExit>>
  /\ UNCHANGED <<pmsg, prem, dup, handed, porder>>

\* ---- the message pump ------------------------------------------------------
TakeEnabled == ppc = "sel" /\ psel /\ tq # {}
NextMsg(q) == IF "m1" \in q THEN "m1" ELSE "m2"      \* the memory queue is FIFO; m1 was published first

PTake ==
  /\ TakeEnabled
  /\ LET m == NextMsg(tq) IN tq' = tq \ {m} /\ pmsg' = m
  /\ prem' = cache /\ ppc' = "copy"
  /\ handed' = (handed \/ pauseAck)                \* C03: handed on although the pause had been acknowledged
  /\ sched' = sched \o "+"
  /\ UNCHANGED <<cq, dup, porder, cache, psel, pc, cst, known, pauseAck, waitr>>

PCopy ==
  /\ ppc = "copy"
  /\ \E x \in {y \in prem : ~(y = "c" /\ DelInside)} :      \* (PutMessage to a channel inside its Delete() waits for exitMutex)
       LET last  == prem = {x}
           hs    == last /\ waitr # ""               \* back in the select: the waiting sender's case is the only ready one
           wop   == IF hs THEN Op(waitr) ELSE "NONE"
           exits == wop \in {"TEXIT", "TDELETE"}      \* exitChan is closed: the pump ends
           cache1 == IF IsGet(wop) THEN cmap ELSE cache
           psel1 == CASE IsGet(wop) -> (cmap # {} /\ (RefreshHonoursPause => ~tpaused))
                      [] wop \in {"PAUSE", "UNPAUSE"} -> (cache # {} /\ ~tpaused)
                      [] OTHER -> psel
           pack1 == IF wop \in {"PAUSE", "UNPAUSE"} THEN tpaused ELSE pauseAck
           takes == last /\ ~exits /\ psel1 /\ tq # {}
       IN
       /\ cq' = IF Alive(x) THEN [cq EXCEPT ![x] = @ \cup {pmsg}] ELSE cq        \* else: "exiting", the copy is dropped
       /\ dup' = (dup \/ (Alive(x) /\ pmsg \in cq[x]))
       /\ porder' = porder \o x
       /\ cache' = cache1 /\ psel' = psel1 /\ pauseAck' = pack1
       /\ waitr' = IF hs THEN "" ELSE waitr
       /\ pc' = IF hs THEN [pc EXCEPT ![waitr] = IF exits THEN 3 ELSE 0] ELSE pc
       /\ cst' = IF IsGet(wop) THEN [cst EXCEPT ![XOf(wop)] = IF @ = "new" THEN "live" ELSE @] ELSE cst
       /\ known' = IF IsGet(wop) THEN known \cup {XOf(wop)} ELSE known
       /\ IF ~last
          THEN prem' = prem \ {x} /\ sched' = sched \o "+" /\ UNCHANGED <<tq, pmsg, ppc, handed>>
          ELSE IF takes                                                         \* the next message is there
               THEN LET m == NextMsg(tq) IN
                    /\ tq' = tq \ {m} /\ pmsg' = m /\ prem' = cache1 /\ ppc' = "copy"
                    /\ handed' = (handed \/ pack1) /\ sched' = sched \o "+"
               ELSE /\ prem' = {} /\ pmsg' = "" /\ ppc' = (IF exits THEN "exited" ELSE "sel") /\ sched' = sched \o "-"
                    /\ UNCHANGED <<tq, handed>>

Pump == (PTake \/ PCopy)
        /\ UNCHANGED <<cmap, tpaused, flag, exch, closed, tgone, rl, creator, cgen, npend, acked, failed, owed,
                       mcount, late, cdisk, tdisk, ackedAtExit, knownAtExit>>

\* a pump that can take a message does so before anything else happens (it is woken at once and nothing gates it)
Next == IF TakeEnabled THEN Pump ELSE (Pump \/ \E a \in Actors : Step(a) \/ Arrive(a))
Spec == Init /\ [][Next]_vars

---------------------------------------------------------------------------
Terminal == (\A a \in Actors : pc[a] = 0) /\ ppc # "copy" /\ ~TakeEnabled

\* C01: an acknowledged message is in the queue of every channel that was known to exist when it was put and has not
\* been deleted since -- or still in the queue of a paused topic
OwedDelivered ==
  (Terminal /\ ~flag) =>
     \A m \in acked : \A o \in owed[m] :
        LET x == o[1] IN cgen[x] # o[2] \/ ~Alive(x) \/ m \in cq[x] \/ (m \in tq /\ tpaused)
\* C02: no channel gets a message twice
NoDup == ~dup
\* C03: a topic whose pause was acknowledged hands nothing more to its channels
PausedHandsNothing == ~handed
\* C13: the topic's message_count is the number of acknowledged publishes
CountMatches == mcount = Cardinality(acked)
\* C05: what was acknowledged when the shutdown was requested is on disk for every channel known then
ExitKeeps ==
  (Terminal /\ closed) =>
     \A m \in ackedAtExit : \A o \in {q \in owed[m] : q[1] \in knownAtExit} :
        LET x == o[1] IN cgen[x] # o[2] \/ ~Alive(x) \/ m \in cdisk[x] \/ m \in tdisk
\* every operation comes to an end
NoStuck == TRUE

In(m, S) == IF m \in S THEN 1 ELSE 0
Outcome == <<"TSCHED", OpA, OpB, OpC, Situation, sched, "o" \o porder,
             In("m1", cq["c"]), In("m2", cq["c"]), In("m1", cq["d"]), In("m2", cq["d"]), In("m1", tq), In("m2", tq),
             In("m2", acked), In("m2", failed), In("c", cmap), In("d", cmap), IF tpaused THEN 1 ELSE 0, mcount,
             \* after a restart: the topic's backlog goes to every channel of the persisted metadata
             In("m1", cdisk["c"] \cup (IF "c" \in cmap /\ Alive("c") THEN tdisk ELSE {})),
             In("m2", cdisk["c"] \cup (IF "c" \in cmap /\ Alive("c") THEN tdisk ELSE {})),
             In("m1", cdisk["d"] \cup (IF "d" \in cmap /\ Alive("d") THEN tdisk ELSE {})),
             In("m2", cdisk["d"] \cup (IF "d" \in cmap /\ Alive("d") THEN tdisk ELSE {})),
             IF late THEN 1 ELSE 0>>
Emit == Terminal => PrintT(Outcome)
=============================================================================
