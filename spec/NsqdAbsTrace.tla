---------------------------- MODULE NsqdAbsTrace ----------------------------
(* Trace validation of a real nsqd against NsqdAbs: each recorded event (verif *)
(* hooks inside nsqd + the harness's own client-side observations, totally      *)
(* ordered by the hook sequence number) must be a step of the specification.    *)
EXTENDS NsqdAbs, Json

Trace == ndJsonDeserialize("trace.ndjson")
VARIABLE l
tvars == <<vars, l>>

ToSet(s) == {s[i] : i \in DOMAIN s}
E == Trace[l]
IsEvent(e) == l <= Len(Trace) /\ Trace[l].ev = e /\ l' = l + 1

Known == {"Reset", "TPutBegin", "TPutEnd", "TPutAck", "TTake", "TCopied", "CopyFail", "CMapAdd", "CCreated",
          "CDeleteBegin", "CExit", "CDeleted", "EmptyBegin", "EmptyEnd", "IFReset", "DefReset", "CPauseBegin",
          "CPauseEnd", "TPauseBegin", "TPauseEnd", "CPutBegin", "CRecv", "KRecv", "KSample", "IFStart", "IFPush",
          "IFPop", "TouchCalc", "FinDone", "ReqStart", "ReqExiting", "ReqClamp", "DefStart", "DefPush", "DefPop",
          "ScanIF", "ScanDef", "ScanTimedOut", "KSub", "KIdent", "KEval", "KRdyBegin", "KRdyEnd", "KRdyDone", "KCls", "Send", "KCmd",
          "HRecv", "HPubAck", "HStatsT", "HStatsC", "HStatsK", "HEnd", "TExit", "HStatsTopics", "QSDone"}

TraceInit == Init /\ l = 1 /\ TLCSet(1, 1) /\ TLCSet(2, <<>>)

TSkip == l <= Len(Trace) /\ Trace[l].ev \notin Known /\ l' = l + 1 /\ UNCHANGED vars
\* Relax: event kinds whose guards (pure guards: the action leaves the state alone) are not judged in this run.  Used when a
\* trace has already been rejected at such an event for another property's clause, so that the clauses of the property
\* under examination further down the trace are still evaluated (lib/corelib.py).
CONSTANT Relax
TRelax == l <= Len(Trace) /\ Trace[l].ev \in Relax /\ l' = l + 1 /\ UNCHANGED vars

TReset == /\ IsEvent("Reset")
          /\ minfo' = <<>> /\ tq' = {} /\ owed' = <<>> /\ copying' = <<>> /\ chan' = <<>> /\ top' = <<>>
          /\ cust' = <<>> /\ cl' = <<>> /\ done' = <<>> /\ stash' = <<>>

TNext ==
  \/ TSkip
  \/ TRelax
  \/ TReset
  \/ IsEvent("TPutBegin") /\ APutBegin(E.t, E.id, [key |-> E.key, crc |-> E.crc, len |-> E.len, ts |-> E.ts, pnow |-> E.pnow, def |-> E.def, acked |-> FALSE])
  \/ IsEvent("TPutEnd") /\ APutEnd(E.t, E.id, E.ok)
  \/ IsEvent("TPutAck") /\ APutAck(E.t, ToSet(E.ids))
  \/ IsEvent("TTake") /\ ATake(E.t, E.id, ToSet(E.chans), E.def)
  \/ IsEvent("QSDone") /\ AQSDone(E.c, E.t)
  \/ IsEvent("TCopied") /\ ACopied(E.t, E.id)
  \/ IsEvent("CopyFail") /\ ACopyFail(E.c, E.id)
  \/ IsEvent("CMapAdd") /\ ACMapAdd(E.c, E.t)
  \/ IsEvent("CCreated") /\ ACCreated(E.c)
  \/ IsEvent("CDeleteBegin") /\ ACDying(E.c)
  \/ IsEvent("CExit") /\ ACDying(E.c)
  \/ IsEvent("CDeleted") /\ ACDeleted(E.c)
  \/ IsEvent("EmptyBegin") /\ AEmptyBegin(E.c)
  \/ IsEvent("EmptyEnd") /\ AEmptyEnd(E.c)
  \/ IsEvent("IFReset") /\ AReset(E.c, "F")
  \/ IsEvent("DefReset") /\ AReset(E.c, "D")
  \/ IsEvent("CPauseBegin") /\ ACPauseBegin(E.c, E.p)
  \/ IsEvent("CPauseEnd") /\ ACPauseEnd(E.c, E.p, l, E.now)
  \/ IsEvent("TPauseBegin") /\ ATPauseBegin(E.t, E.p)
  \/ IsEvent("TPauseEnd") /\ ATPauseEnd(E.t, E.p)
  \/ IsEvent("CPutBegin") /\ ACPutBegin(E.c, E.id, E.att, E.now)
  \/ IsEvent("CRecv") /\ (IF E.def THEN ACRecvDeferred(E.c, E.id, E.now) ELSE UNCHANGED vars)
  \/ IsEvent("KRecv") /\ AKRecv(E.k, E.c, E.id, E.att)
  \/ IsEvent("KSample") /\ AKSample(E.k, E.c, E.id)
  \/ IsEvent("IFStart") /\ AIFStart(E.c, E.id, E.k, E.pri, E.dts, E.tmo)
  \/ IsEvent("IFPush") /\ E.ok /\ AIFPush(E.c, E.id, E.k, E.att, E.pri)
  \/ IsEvent("IFPop") /\ AIFPop(E.c, E.id, E.by, E.owner, E.res, E.now)
  \/ IsEvent("TouchCalc") /\ ATouchCalc(E.c, E.id, E.k, E.pri, E.dts, E.now, E.tmo, E.max)
  \/ IsEvent("FinDone") /\ AFinDone(E.c, E.id, E.k)
  \/ IsEvent("ReqStart") /\ AReqStart(E.c, E.id, E.k, E.delay, E.now)
  \/ IsEvent("ReqExiting") /\ AReqExiting(E.c, E.id, E.k)
  \/ IsEvent("ReqClamp") /\ AReqClamp(E.reqms, E.delay, E.max)
  \/ IsEvent("DefStart") /\ ADefStart(E.c, E.id, E.pri, E.now, E.delay)
  \/ IsEvent("DefPush") /\ E.ok /\ ADefPush(E.c, E.id, E.pri)
  \/ IsEvent("DefPop") /\ ADefPop(E.c, E.id, E.ok)
  \/ IsEvent("ScanIF") /\ AScan(E.c, E.id, E.t, E.pri, E.now, "F")
  \/ IsEvent("ScanDef") /\ AScan(E.c, E.id, E.t, E.pri, E.now, "D")
  \/ IsEvent("ScanTimedOut") /\ AScanTimedOut(E.c, E.id, E.k)
  \/ IsEvent("KIdent") /\ AKIdent(E.k, E.tmo, E.sample)
  \/ IsEvent("KSub") /\ AKSub(E.k, E.c)
  \/ IsEvent("KEval") /\ AKEval(E.k, E.ready, E.rdy, E.inflight, E.paused, l)
  \/ IsEvent("KCls") /\ AKCls(E.k)
  \/ IsEvent("KRdyBegin") /\ AKRdyBegin(E.k, E.n)
  \/ IsEvent("KRdyEnd") /\ AKRdyEnd(E.k, E.n)
  \/ IsEvent("KRdyDone") /\ AKRdyDone(E.k, l, E.now, E.sig)
  \/ IsEvent("Send") /\ ASend(E.k, E.c, E.id, E.att, E.crc, E.len, E.ts)
  \/ IsEvent("KCmd") /\ AKCmd(E.k, E.cmd, E.arg, E.err, E.wf)
  \/ IsEvent("HRecv") /\ (IF E.k = -1 THEN UNCHANGED vars ELSE AHRecv(E.k, E.id, E.att, E.crc, E.len, E.ts))
  \/ IsEvent("HPubAck") /\ AHPubAck(ToSet(E.keys))
  \/ IsEvent("HStatsT") /\ AHStatsT(E.t, E.count, E.bytes, E.depth)
  \/ IsEvent("TExit") /\ ATExit(E.t)
  \/ IsEvent("HStatsTopics") /\ AHStatsTopics(ToSet(E.topics))
  \/ IsEvent("HStatsC") /\ AHStatsC(E.c, E.depth, E.inflight, E.deferred, E.count, E.requeue, E.timeout)
  \/ IsEvent("HStatsK") /\ (IF E.k = -1 THEN UNCHANGED vars ELSE AHStatsK(E.k, E.rdy, E.inflight, E.fin, E.req, E.msgs))
  \/ IsEvent("HEnd") /\ AHEnd

TraceSpec == TraceInit /\ [][TNext]_tvars

\* the state kept for the report of a rejection: custody of the message the offending event is about
About ==
  LET e == Trace[l] IN
  [line |-> l,
   cust |-> IF "c" \in DOMAIN e /\ "id" \in DOMAIN e /\ Has(cust, <<e.c, e.id>>) THEN cust[<<e.c, e.id>>] ELSE NoCust,
   chan |-> IF "c" \in DOMAIN e /\ Has(chan, e.c) THEN chan[e.c] ELSE NewChan("?"),
   top |-> IF e.ev \in {"TTake", "TPutBegin", "TPutEnd", "TPutAck", "TCopied", "TPauseBegin", "TPauseEnd", "HStatsT", "TExit"}
              /\ Has(top, e.t) THEN top[e.t] ELSE [paused |-> "?", gone |-> FALSE],
   copydef |-> IF e.ev = "CPutBegin" /\ Has(chan, e.c) /\ Has(copying, chan[e.c].t) /\ copying[chan[e.c].t].id = e.id
               THEN copying[chan[e.c].t].def ELSE 0,
   stuck |-> IF e.ev = "QSDone" THEN {<<x[2], cust[x].loc, cust[x].pri>> : x \in {y \in DOMAIN cust : y[1] = e.c /\ cust[y].pass >= 2}} ELSE {},
   client |-> IF "k" \in DOMAIN e /\ Has(cl, e.k) THEN [cl[e.k] EXCEPT !.sends = IF @ = <<>> THEN <<>> ELSE <<Head(@)>>] ELSE NewClient]

HW == IF l > TLCGet(1) THEN TLCSet(1, l) /\ (IF l <= Len(Trace) THEN TLCSet(2, About) ELSE TRUE) ELSE TRUE

TraceAccepted ==
  LET hw == TLCGet(1) IN
  IF hw = Len(Trace) + 1 THEN PrintT(<<"TRACE_OK", Len(Trace)>>)
  ELSE PrintT(<<"TRACE_REJECTED", hw, Trace[hw], TLCGet(2)>>) /\ FALSE
=============================================================================
