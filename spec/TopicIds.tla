------------------------------ MODULE TopicIds ------------------------------
(***************************************************************************)
(* C12 at the level of the PUBLISH PATHS: publishers run publish commands  *)
(* (PUB, DPUB, MPUB over TCP; /pub, /mpub over HTTP) concurrently against   *)
(* ONE topic.  A command of k messages is                                   *)
(*     Begin(p, k)  ->  k atomic Issue steps  ->  End(p)                    *)
(* Every Issue takes the next id from the topic's id source exactly as      *)
(* GuidAbs states it: strictly above everything the source handed out       *)
(* before.  Issue steps of different publishers interleave freely.  When    *)
(* the source cannot produce a fresh id (clock stepped back, sequence of    *)
(* the tick exhausted: in the bounded model, Ids used up) Issue is simply   *)
(* not enabled: the publish waits, it never reuses an id.                   *)
(*                                                                          *)
(* What a client can see of this are only Begin and End (the request is     *)
(* written, the OK is read) and, on consumption, the ids of the messages.   *)
(* The client-visible consequences:                                         *)
(*   Unique          no id sits in two (command, position) slots            *)
(*   BatchIncreasing within one command ids increase in message order       *)
(*   RealTimeOrder   End(X) before Begin(Y) => every id of X < every id of Y*)
(* RealTimeOrder is stated twice: directly over the history (before,        *)
(* slots), and in the form the trace validation uses (done = greatest id    *)
(* of any completed command; floor[p] = done when p's command began; at     *)
(* End all ids of the command are above its floor).  EndOK is the           *)
(* predicate TopicIdsTrace applies to every End event of a recorded         *)
(* execution of the real nsqd; EndRefinesObs (checked by TLC here) says     *)
(* that every End of this model passes it, i.e. the trace validation never  *)
(* rejects a behaviour of this model.  (Conversely: a Begin/End sequence    *)
(* in which every End passes EndOK has all ids distinct, so issuing them in *)
(* ascending order is a behaviour of this model: an Issue of Y that would   *)
(* have to precede Begin(Y), or follow End(Y), needs an X with End(X)       *)
(* before Begin(Y) and an id of Y below an id of X, which EndOK excludes.)  *)
(*                                                                          *)
(* Reuse = TRUE is a deliberately broken id source (Issue may hand out any  *)
(* id, also one already used): the vacuity guard.  With TopicIds_reuse.cfg  *)
(* TLC reports "Invariant Unique is violated" at depth 5 (Begin, Issue 1,   *)
(* Begin, Issue 1); C12.py runs that configuration too and is inconclusive  *)
(* if TLC finds nothing.  TopicIds_prune.cfg checks, with the same broken   *)
(* source, that the state pruning of the trace validation is exact.         *)
(***************************************************************************)
EXTENDS Integers, Sequences, FiniteSets

CONSTANTS Pubs,         \* publishers (connections / HTTP clients)
          Ids,          \* what the source can hand out (a bounded set in the model)
          Zero,         \* below every id
          Less(_, _),   \* strict total order on Ids \cup {Zero}
          MaxBatch,     \* messages per command: 1..MaxBatch
          MaxCmds,      \* commands per behaviour (bound)
          Reuse         \* FALSE: the id source of GuidAbs; TRUE: broken variant

VARIABLES used,     \* the source: ids handed out so far (GuidAbs keeps their greatest element)
          pc,       \* pc[p] \in {"idle", "run"}
          cmd,      \* number of p's current command
          want,     \* its size
          got,      \* ids it obtained so far, in message order
          floor,    \* value of done when it began
          done,     \* greatest id of any completed command
          seen,     \* ids of completed commands
          live,     \* the part of seen that can still matter (see Prune): what the trace validation keeps
          ncmd,     \* commands begun
          \* history, only for stating the properties
          slots,    \* <<command, position, id>> for every id issued
          ended,    \* commands that ended
          before    \* <<X, Y>>: End(X) happened before Begin(Y)

vars == <<used, pc, cmd, want, got, floor, done, seen, live, ncmd, slots, ended, before>>

Range(s) == {s[i] : i \in 1..Len(s)}
Leq(a, b) == a = b \/ Less(a, b)
Greatest(S) == CHOOSE x \in S : \A y \in S : Leq(y, x)
Least(S) == CHOOSE x \in S : \A y \in S : Leq(x, y)
Fresh(i) == \A u \in used : Less(u, i)

\* ---- what the trace validation applies to an End event (state passed explicitly) ----
EndOK(fl, sn, ids) ==
  /\ \A i \in 1..(Len(ids) - 1) : Less(ids[i], ids[i + 1])     \* BatchIncreasing
  /\ \A i \in 1..Len(ids) : Less(fl, ids[i])                   \* RealTimeOrder
  /\ \A i \in 1..Len(ids) : ids[i] \notin sn                   \* Unique
NextDone(d, ids) == Greatest({d} \cup Range(ids))
\* the same for a batch that passed EndOK (increasing: its last id is its greatest); linear, for long batches
NextDoneInc(d, ids) == IF Less(d, ids[Len(ids)]) THEN ids[Len(ids)] ELSE d
\* Ids of completed commands at or below the floor of every open command (or below done, when none is
\* open) cannot collide with anything still to come: an id that passes the floor clause is above them.
\* The trace validation therefore keeps only the ids above m = the least floor of the commands still
\* open after this End (done' when none is): its state stays small however long the execution is.
\* PruneExact (checked by TLC, also with the broken id source) says nothing is lost by that.
Prune(lv, ids, m) == {s \in lv \cup Range(ids) : Less(m, s)}

Init == /\ used = {} /\ done = Zero /\ seen = {} /\ live = {} /\ ncmd = 0
        /\ pc = [p \in Pubs |-> "idle"] /\ cmd = [p \in Pubs |-> 0]
        /\ want = [p \in Pubs |-> 0] /\ got = [p \in Pubs |-> <<>>]
        /\ floor = [p \in Pubs |-> Zero]
        /\ slots = {} /\ ended = {} /\ before = {}

Begin(p, k) == /\ pc[p] = "idle" /\ ncmd < MaxCmds
               /\ ncmd' = ncmd + 1
               /\ pc' = [pc EXCEPT ![p] = "run"]
               /\ cmd' = [cmd EXCEPT ![p] = ncmd + 1]
               /\ want' = [want EXCEPT ![p] = k]
               /\ got' = [got EXCEPT ![p] = <<>>]
               /\ floor' = [floor EXCEPT ![p] = done]
               /\ before' = before \cup {<<x, ncmd + 1>> : x \in ended}
               /\ UNCHANGED <<used, done, seen, live, slots, ended>>

Issue(p, i) == /\ pc[p] = "run" /\ Len(got[p]) < want[p]
               /\ Reuse \/ Fresh(i)
               /\ used' = used \cup {i}
               /\ got' = [got EXCEPT ![p] = Append(@, i)]
               /\ slots' = slots \cup {<<cmd[p], Len(got[p]) + 1, i>>}
               /\ UNCHANGED <<pc, cmd, want, floor, done, seen, live, ncmd, ended, before>>

End(p) == /\ pc[p] = "run" /\ Len(got[p]) = want[p]
          /\ pc' = [pc EXCEPT ![p] = "idle"]
          /\ done' = NextDone(done, got[p])
          /\ seen' = seen \cup Range(got[p])
          /\ LET open == {q \in Pubs \ {p} : pc[q] = "run"}
                 m == IF open = {} THEN NextDone(done, got[p]) ELSE Least({floor[q] : q \in open})
             IN live' = Prune(live, got[p], m)
          /\ ended' = ended \cup {cmd[p]}
          /\ UNCHANGED <<used, cmd, want, got, floor, ncmd, slots, before>>

Next == \E p \in Pubs : \/ \E k \in 1..MaxBatch : Begin(p, k)
                        \/ \E i \in Ids : Issue(p, i)
                        \/ End(p)
Spec == Init /\ [][Next]_vars

\* ---- the client-visible consequences ----
Unique == \A s, t \in slots : s[3] = t[3] => s = t
BatchIncreasing == \A s, t \in slots : (s[1] = t[1] /\ s[2] < t[2]) => Less(s[3], t[3])
RealTimeOrder == \A b \in before : \A s, t \in slots : (s[1] = b[1] /\ t[1] = b[2]) => Less(s[3], t[3])

\* the floor/done formulation of RealTimeOrder, and the whole End check of the trace validation
EndAboveFloor == [][\A p \in Pubs : End(p) => \A i \in 1..Len(got[p]) : Less(floor[p], got[p][i])]_vars
EndRefinesObs == [][\A p \in Pubs : End(p) => EndOK(floor[p], seen, got[p]) /\ done' = NextDoneInc(done, got[p])]_vars
\* the source itself (GuidAbs.Monotone seen through the publish path)
SourceMonotone == [][\A p \in Pubs : \A i \in Ids : Issue(p, i) => Fresh(i)]_vars

\* pruning loses nothing: for every open command, an id above its floor is in seen iff it is in live
\* (for commands still to begin the floor will be >= done, and nothing in seen is above done)
PruneExact == /\ live \subseteq seen
              /\ \A p \in Pubs : pc[p] = "run" =>
                    \A x \in Ids : Less(floor[p], x) => (x \in seen <=> x \in live)
              /\ \A x \in seen : Leq(x, done)

TypeOK == /\ used \subseteq Ids /\ seen \subseteq used /\ done \in Ids \cup {Zero}
          /\ \A p \in Pubs : /\ pc[p] \in {"idle", "run"} /\ Len(got[p]) <= want[p]
                             /\ floor[p] \in Ids \cup {Zero} /\ Leq(floor[p], done)
          /\ seen = {} => done = Zero
          /\ seen # {} => done = Greatest(seen)
=============================================================================
