\* quick, safety + refinement: nsq_to_nsq shape (async), hostpool; 2 messages, 2 destinations; every pair of
\* schedules with <= 2 items per destination over {A,R,L,D} and <= 2 non-accepts in total; 1 source timeout
SPECIFICATION Spec
CONSTANTS
  Msgs = {1, 2}
  Dests = {1, 2}
  Kind = "async"
  Mode = "hostpool"
  Handlers = 2
  Items = {"A", "R", "L", "D"}
  MaxSched = 2
  MaxBad = 2
  MaxTimeouts = 1
  MaxConnLost = 0
  MaxAttempts = 0
  Filter = FALSE
INVARIANTS TypeOK FinOnlyAfterAccept ReqOtherwise Unmodified AtLeastOnce NeverLost
PROPERTIES Refines FailedIsRequeued
CHECK_DEADLOCK FALSE
