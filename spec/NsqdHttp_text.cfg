SPECIFICATION HSpec
CONSTANTS
  Topics = {"t1"}
  Channels = {"c1"}
  MaxMsg = 2
  MaxBody = 6
  Deviations = {}
  MaxCnt = 9
  TextL = 8
  Depth = 1
  Requests <- ReqSet
  Alphabet = "text"
  Prefixes <- PrefixesOne
CONSTRAINT Emit
INVARIANTS TypeOK Pumped Never500OnCompleteRequest
PROPERTIES Documented StepDocStatus StepTableConsistent StepHttpPubEqTcpPub RejectedPublishEnqueuesNothing
CHECK_DEADLOCK FALSE
