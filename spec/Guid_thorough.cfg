SPECIFICATION Spec
CONSTANTS
  SeqMask = 3
  MaxClock = 5
  MaxBack = 2
  Nodes = {1}
INVARIANTS TypeOK HighWater LastIdNotAhead
PROPERTIES Refines StrictlyIncreasing NeverReuse ErrLeavesLastId RecoversWhenClockPasses
CHECK_DEADLOCK FALSE
